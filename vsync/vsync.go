// Package vsync is the import-rewrite target for "sync" in instrumented sources: its
// types behave like sync's, but every operation is a scheduling point of the explorer
// and blocking is modelled (for !pred() { park }). Outside an exploration they fall
// through to the real sync primitives.
package vsync

import (
	"fmt"
	"sync"

	"verif/explore"
)

// Yield is inserted by the instrumenter before statements touching shared state.
func Yield(site string) {
	if x := explore.Cur(); x != nil {
		x.Yield(site)
	}
}

type Mutex struct {
	real   sync.Mutex
	locked bool
	owner  int
}

func (m *Mutex) Lock() {
	x := explore.Cur()
	if x == nil {
		m.real.Lock()
		return
	}
	x.Yield("Mutex.Lock")
	x.Block("Mutex.Lock(wait)", func() bool { return !m.locked })
	if x.Aborted() {
		return
	}
	if m.locked {
		panic("vsync: harness error: two owners of a Mutex")
	}
	m.locked = true
	if t := x.Running(); t != nil {
		m.owner = t.ID
	}
}

func (m *Mutex) Unlock() {
	x := explore.Cur()
	if x == nil {
		m.real.Unlock()
		return
	}
	if x.Aborted() {
		return
	}
	if !m.locked {
		panic("sync: unlock of unlocked mutex")
	}
	m.locked = false
	x.Yield("Mutex.Unlock")
}

func (m *Mutex) TryLock() bool {
	x := explore.Cur()
	if x == nil {
		return m.real.TryLock()
	}
	x.Yield("Mutex.TryLock")
	if m.locked {
		return false
	}
	m.locked = true
	return true
}

// State for state keys.
func (m *Mutex) Held() bool { return m.locked }

// RWMutex models sync.RWMutex as Go implements it: writers exclude each other first; a writer
// that has announced itself (it may still be waiting for the active readers to leave) makes
// every later RLock wait - also one nested in a goroutine that already holds a read lock, which
// is the documented way to deadlock - and Unlock admits all readers that queued up meanwhile
// before the next writer can announce itself.
type RWMutex struct {
	real      sync.RWMutex
	wheld     bool // the writers' mutex
	announced bool // a writer holds the lock or waits for the readers to drain
	writer    bool // that writer has the lock
	readers   int  // active readers (including those admitted by the last Unlock)
	waiting   int  // readers queued behind the announced writer
	epoch     int  // number of Unlocks
}

func (m *RWMutex) Lock() {
	x := explore.Cur()
	if x == nil {
		m.real.Lock()
		return
	}
	x.Yield("RWMutex.Lock")
	x.Block("RWMutex.Lock(writers)", func() bool { return !m.wheld })
	if x.Aborted() {
		return
	}
	m.wheld = true
	m.announced = true
	x.Block("RWMutex.Lock(readers)", func() bool { return m.readers == 0 })
	if x.Aborted() {
		return
	}
	m.writer = true
}

func (m *RWMutex) Unlock() {
	x := explore.Cur()
	if x == nil {
		m.real.Unlock()
		return
	}
	if x.Aborted() {
		return
	}
	if !m.writer {
		panic("sync: Unlock of unlocked RWMutex")
	}
	m.writer = false
	m.announced = false
	m.readers += m.waiting
	m.waiting = 0
	m.epoch++
	m.wheld = false
	x.Yield("RWMutex.Unlock")
}

func (m *RWMutex) RLock() {
	x := explore.Cur()
	if x == nil {
		m.real.RLock()
		return
	}
	x.Yield("RWMutex.RLock")
	if !m.announced {
		m.readers++
		return
	}
	m.waiting++
	epoch := m.epoch
	x.Block("RWMutex.RLock(wait)", func() bool { return m.epoch != epoch })
}

func (m *RWMutex) RUnlock() {
	x := explore.Cur()
	if x == nil {
		m.real.RUnlock()
		return
	}
	if x.Aborted() {
		return
	}
	if m.readers <= 0 {
		panic("sync: RUnlock of unlocked RWMutex")
	}
	m.readers--
	x.Yield("RWMutex.RUnlock")
}

// State renders the modelled state (for explorer state keys).
func (m *RWMutex) State() string {
	return fmt.Sprintf("w%v/a%v/h%v/r%d/q%d", m.wheld, m.announced, m.writer, m.readers, m.waiting)
}

type WaitGroup struct {
	real sync.WaitGroup
	n    int
}

func (w *WaitGroup) Add(delta int) {
	x := explore.Cur()
	if x == nil {
		w.real.Add(delta)
		return
	}
	if x.Aborted() {
		return
	}
	x.Yield("WaitGroup.Add")
	if x.Aborted() {
		return
	}
	w.n += delta
	if w.n < 0 {
		panic("sync: negative WaitGroup counter")
	}
}

func (w *WaitGroup) Done() { w.Add(-1) }

func (w *WaitGroup) Wait() {
	x := explore.Cur()
	if x == nil {
		w.real.Wait()
		return
	}
	x.Yield("WaitGroup.Wait")
	x.Block("WaitGroup.Wait(wait)", func() bool { return w.n == 0 })
}

// Count for state keys.
func (w *WaitGroup) Count() int { return w.n }

type Once struct {
	real  sync.Once
	state int // 0 idle, 1 running, 2 done
}

func (o *Once) Do(f func()) {
	x := explore.Cur()
	if x == nil {
		o.real.Do(f)
		return
	}
	x.Yield("Once.Do")
	if x.Aborted() {
		return
	}
	switch o.state {
	case 2:
		return
	case 1:
		x.Block("Once.Do(wait)", func() bool { return o.state == 2 })
		return
	}
	o.state = 1
	defer func() {
		o.state = 2 // like sync.Once: done even if f panics
	}()
	f()
}

// State for state keys.
func (o *Once) State() int { return o.state }

// Locker mirrors sync.Locker.
type Locker = sync.Locker

// Pool, Map, Cond are passed through (not used by the instrumented sources today).
type Pool = sync.Pool
type Map = sync.Map

// Package explore is a stateless model checker for the real implementation: a
// choice-sequence depth-first explorer plus a cooperative scheduler that runs the
// threads of one execution as goroutines of which exactly one is runnable at a time.
//
// Choice points are (a) scheduling decisions (which enabled thread continues) and
// (b) order decisions (which permutation a controlled map iteration uses). Taking a
// non-default alternative costs one deviation (a preemption, if the running thread was
// still enabled); the search explores every choice sequence whose total cost is within
// the bound.
package explore

import (
	"fmt"
	"runtime/debug"
	"sort"
	"strings"
)

type point struct {
	n       int  // number of alternatives
	chosen  int  // alternative taken
	altCost int  // cost of taking a non-default alternative here
	kind    byte // 's' schedule, 'o' order
}

type tstate int

const (
	runnable tstate = iota
	blocked
	finished
)

type Thread struct {
	ID    int
	Name  string
	wake  chan struct{}
	state tstate
	pred  func() bool
	Site  string
	body  func()
	// History digest of this thread's current operation (for state keys)
	Hist uint64
}

type abortSentinel struct{}

// Exec is one execution under the explorer's control.
type Exec struct {
	ex        *Explorer
	prefix    []int
	points    []point
	threads   []*Thread
	running   *Thread
	done      chan struct{}
	aborted   bool
	Deadlock  bool
	Completed bool // every thread ran to its end
	Diverged  bool // replay divergence (harness error)
	Horizon   bool
	Pruned    bool
	steps     int
	Panics    []string
	Events    []string
	// OnYield is called at every scheduling point before the decision (monitors poll here).
	OnYield func(x *Exec)
	// StateKey, when set, enables visited-state pruning: it must return the complete
	// future-relevant state (see DESIGN.md).
	StateKey func(x *Exec) string
	// OnResume is called in thread t right after it continues from a scheduling point
	// (state keys fold what the thread can now observe into its history digest).
	OnResume  func(x *Exec, t *Thread)
	costUsed  int
	Violation string
}

type Explorer struct {
	Bound      int
	MaxSteps   int
	Executions int64
	PrunedExec int64
	Points     int64
	MaxPoints  int
	MaxExec    int64 // 0 = unlimited
	Capped     bool
	visited    map[string]int
	States     int64
	stop       bool
	Stop       func() bool // external deadline
}

var current *Exec

// Cur returns the execution in progress (nil when code runs outside the explorer).
func Cur() *Exec {
	if current == nil || current.aborted && current.running == nil {
		return current
	}
	return current
}

func New(bound int) *Explorer {
	return &Explorer{Bound: bound, MaxSteps: 20000, visited: map[string]int{}}
}

// Result of a search.
type Result struct {
	Violation string
	Schedule  []int
	Events    []string
}

// Explore runs body for every choice sequence within the bound. body must create the
// threads with x.Go and then call x.Run(); afterwards it inspects x and returns a
// violation description or "".
func (e *Explorer) Explore(body func(x *Exec) string) *Result {
	stack := [][]int{{}}
	for len(stack) > 0 {
		if e.MaxExec > 0 && e.Executions >= e.MaxExec || e.Stop != nil && e.Stop() {
			e.Capped = true
			return nil
		}
		prefix := stack[len(stack)-1]
		stack = stack[:len(stack)-1]
		x := &Exec{ex: e, prefix: prefix, done: make(chan struct{})}
		v := e.runOne(x, body)
		e.Executions++
		e.Points += int64(len(x.points))
		if len(x.points) > e.MaxPoints {
			e.MaxPoints = len(x.points)
		}
		if x.Pruned {
			e.PrunedExec++
		}
		if v != "" {
			return &Result{Violation: v, Schedule: x.choices(), Events: x.Events}
		}
		// alternatives after the prefix, deepest first so the DFS stays shallow in memory
		cost := 0
		for i := 0; i < len(x.points); i++ {
			p := x.points[i]
			if i >= len(prefix) {
				if cost+p.altCost <= e.Bound {
					for alt := p.n - 1; alt >= 1; alt-- {
						np := make([]int, i+1)
						for j := 0; j < i; j++ {
							np[j] = x.points[j].chosen
						}
						np[i] = alt
						stack = append(stack, np)
					}
				}
			}
			if p.chosen != 0 {
				cost += p.altCost
			}
		}
	}
	return nil
}

// Replay runs exactly one execution with the given choices.
func (e *Explorer) Replay(choices []int, body func(x *Exec) string) (*Exec, string) {
	x := &Exec{ex: e, prefix: choices, done: make(chan struct{})}
	v := e.runOne(x, body)
	return x, v
}

func (e *Explorer) runOne(x *Exec, body func(x *Exec) string) (v string) {
	current = x
	defer func() { current = nil }()
	v = body(x)
	if v == "" && x.Violation != "" {
		v = x.Violation
	}
	return v
}

func (x *Exec) choices() []int {
	out := make([]int, len(x.points))
	for i, p := range x.points {
		out[i] = p.chosen
	}
	return out
}

// Choose is a choice point with n alternatives; alternative 0 is the default.
func (x *Exec) Choose(n int, altCost int, kind byte) int {
	if n <= 1 {
		return 0
	}
	i := len(x.points)
	c := 0
	if i < len(x.prefix) {
		c = x.prefix[i]
		if c < 0 || c >= n {
			// replay divergence: a hard error of the harness, never a finding about gpython
			x.Diverged = true
			x.Event("replay divergence at point %d: choice %d of %d", i, c, n)
			c = 0
		}
	}
	x.points = append(x.points, point{n: n, chosen: c, altCost: altCost, kind: kind})
	if c != 0 {
		x.costUsed += altCost
	}
	return c
}

// Go registers a thread; threads start when Run is called.
func (x *Exec) Go(name string, body func()) *Thread {
	t := &Thread{ID: len(x.threads), Name: name, wake: make(chan struct{}), body: body}
	x.threads = append(x.threads, t)
	return t
}

func (x *Exec) Event(format string, a ...interface{}) {
	x.Events = append(x.Events, fmt.Sprintf(format, a...))
}

// Running returns the thread currently executing.
func (x *Exec) Running() *Thread { return x.running }

func (x *Exec) Aborted() bool { return x.aborted }

// Run starts all threads and returns when every thread has finished or the
// execution was aborted (deadlock, horizon, prune, violation).
func (x *Exec) Run() {
	if len(x.threads) == 0 {
		return
	}
	for _, t := range x.threads {
		t := t
		go func() {
			<-t.wake
			defer x.threadExit(t)
			if x.aborted {
				return
			}
			t.body()
		}()
	}
	// initial decision: free
	next := x.pick(nil)
	x.running = next
	next.wake <- struct{}{}
	<-x.done
	// make sure every goroutine has left (aborted executions unwind the parked ones)
	for _, t := range x.threads {
		if t.state != finished {
			x.aborted = true
			x.running = t
			t.wake <- struct{}{}
			<-x.done
		}
	}
}

func (x *Exec) threadExit(t *Thread) {
	if r := recover(); r != nil {
		if _, ok := r.(abortSentinel); !ok {
			st := string(debug.Stack())
			x.Panics = append(x.Panics, fmt.Sprintf("thread %s: panic: %v", t.Name, r))
			x.Event("panic(%s): %v @ %s", t.Name, r, panicSite(st))
			if !x.aborted {
				x.Violation = fmt.Sprintf("panic in thread %s: %v @ %s", t.Name, r, panicSite(st))
			}
		}
	}
	t.state = finished
	if x.aborted {
		x.done <- struct{}{}
		return
	}
	x.schedule(t)
}

func panicSite(stack string) string {
	lines := strings.Split(stack, "\n")
	seen := false
	for _, l := range lines {
		if strings.HasPrefix(l, "panic(") {
			seen = true
			continue
		}
		if seen && strings.HasPrefix(l, "github.com/go-python/gpython/") {
			l = strings.TrimPrefix(l, "github.com/go-python/gpython/")
			if i := strings.LastIndex(l, "("); i > 0 {
				l = l[:i]
			}
			return l
		}
	}
	return "?"
}

// enabled lists the threads that can run, the running one first if it still can.
func (x *Exec) enabled(self *Thread) []*Thread {
	var out []*Thread
	if self != nil && x.canRun(self) {
		out = append(out, self)
	}
	for _, t := range x.threads {
		if t != self && x.canRun(t) {
			out = append(out, t)
		}
	}
	return out
}

func (x *Exec) canRun(t *Thread) bool {
	switch t.state {
	case runnable:
		return true
	case blocked:
		return t.pred()
	}
	return false
}

func (x *Exec) pick(self *Thread) *Thread {
	en := x.enabled(self)
	if len(en) == 0 {
		return nil
	}
	cost := 0
	if self != nil && len(en) > 0 && en[0] == self {
		cost = 1 // switching away from a runnable thread is a preemption
	}
	c := x.Choose(len(en), cost, 's')
	return en[c]
}

// schedule is called by the running thread t at a scheduling point (or when it
// blocks/finishes); it hands the baton to the chosen thread and parks t until it is
// chosen again.
func (x *Exec) schedule(t *Thread) {
	if x.aborted {
		return
	}
	x.steps++
	if x.OnYield != nil {
		x.OnYield(x)
	}
	if x.Violation != "" {
		x.abort(t)
		return
	}
	if x.steps > x.ex.MaxSteps {
		x.Horizon = true
		x.abort(t)
		return
	}
	if x.StateKey != nil && len(x.points) >= len(x.prefix) {
		key := x.StateKey(x)
		remaining := x.ex.Bound - x.costUsed
		if old, ok := x.ex.visited[key]; ok && old >= remaining {
			x.Pruned = true
			x.abort(t)
			return
		}
		if _, ok := x.ex.visited[key]; !ok {
			x.ex.States++
		}
		x.ex.visited[key] = remaining
	}
	next := x.pick(t)
	if next == nil {
		all := true
		for _, u := range x.threads {
			if u.state != finished {
				all = false
			}
		}
		if !all {
			x.Deadlock = true
			x.Event("deadlock: %s", x.describeBlocked())
		} else {
			x.Completed = true
		}
		x.abort(t)
		return
	}
	if next == t {
		t.state = runnable
		if x.OnResume != nil {
			x.OnResume(x, t)
		}
		return
	}
	x.running = next
	next.state = runnable
	next.wake <- struct{}{}
	if t.state == finished {
		return
	}
	<-t.wake
	if x.aborted {
		panic(abortSentinel{})
	}
	if x.OnResume != nil {
		x.OnResume(x, t)
	}
}

func (x *Exec) describeBlocked() string {
	var s []string
	for _, u := range x.threads {
		if u.state == blocked {
			s = append(s, u.Name+"@"+u.Site)
		}
	}
	sort.Strings(s)
	return strings.Join(s, ",")
}

// abort ends the execution: the caller t unwinds (unless it is finishing anyway) and
// Run() wakes every parked thread so that it unwinds too.
func (x *Exec) abort(t *Thread) {
	x.aborted = true
	if t.state == finished {
		x.done <- struct{}{}
		return
	}
	panic(abortSentinel{})
}

// Yield is a scheduling point of the running thread.
func (x *Exec) Yield(site string) {
	if x.aborted || x.running == nil {
		return // aborted, or set-up phase before Run: sequential
	}
	t := x.running
	t.Site = site
	t.Hist = t.Hist*1099511628211 ^ hashStr(site)
	x.schedule(t)
}

// Block parks the running thread until pred holds (re-tested on every wake-up).
func (x *Exec) Block(site string, pred func() bool) {
	if x.aborted {
		return
	}
	if x.running == nil {
		if !pred() {
			panic("explore: blocking operation during sequential set-up: " + site)
		}
		return
	}
	t := x.running
	t.Site = site
	for !pred() {
		t.state = blocked
		t.pred = pred
		x.schedule(t)
		if x.aborted {
			return
		}
	}
	t.state = runnable
	t.pred = nil
}

func hashStr(s string) uint64 {
	h := uint64(14695981039346656037)
	for i := 0; i < len(s); i++ {
		h ^= uint64(s[i])
		h *= 1099511628211
	}
	return h
}

// Mix folds a value into the running thread's history digest.
func (x *Exec) Mix(v uint64) {
	if t := x.running; t != nil {
		t.Hist = t.Hist*1099511628211 ^ v
	}
}

// Threads exposes the threads (for state keys).
func (x *Exec) Threads() []*Thread { return x.threads }

func (t *Thread) Finished() bool { return t.state == finished }
func (t *Thread) Blocked() bool  { return t.state == blocked }

// Package verifrt is called by map loops rewritten by cmd/instr: it decides the order
// in which a `range` over a map visits its keys. Go leaves that order unspecified, so
// every permutation is a legal behaviour; the explorer enumerates them as choice points.
package verifrt

import (
	"fmt"
	"reflect"
	"sort"
	"strings"

	"verif/explore"
)

// Controlled turns the order choice points on (C03/C18); when false but an
// exploration is active, loops use the sorted order so that replay is deterministic.
var Controlled bool

// Instrumented is set by an overlay-added file: the binary was built with rewritten sources.
var Instrumented bool

// Concurrent turns function-entry scheduling points on (C08/C18 interleaving parts).
var Concurrent bool

// EnterFilter, when set, limits which function entries are scheduling points.
var EnterFilter func(site string) bool

// Enter is inserted at the entry of every function of parser, symtable, compile and vm.
func Enter(site string) {
	if !Concurrent {
		return
	}
	if x := explore.Cur(); x != nil {
		if EnterFilter != nil && !EnterFilter(site) {
			return
		}
		x.Yield(site)
	}
}

// StepHook, when set, is called at the entry of every opcode handler with the frame
// (a *py.Frame passed as interface{} so this package stays import-free) and the opcode name.
var StepHook func(frame interface{}, opcode string)

func Step(frame interface{}, opcode string) {
	if StepHook != nil {
		StepHook(frame, opcode)
	}
}

// Sites records how often each site was reached with >= 2 keys (evidence).
var Sites = map[string]int{}

// LastPerm describes the non-default permutations taken in the current execution.
var Trace []string

func Order[K comparable, V any](m map[K]V, site string) []K {
	keys := make([]K, 0, len(m))
	for k := range m {
		keys = append(keys, k)
	}
	x := explore.Cur()
	if x == nil {
		return keys // natural (randomised) order outside an exploration
	}
	if len(keys) < 2 {
		return keys
	}
	sort.Slice(keys, func(i, j int) bool { return less(keys[i], keys[j]) })
	if !Controlled {
		return keys
	}
	Sites[site]++
	perms := permutations(len(keys))
	c := x.Choose(len(perms), 1, 'o')
	if c == 0 {
		return keys
	}
	p := perms[c]
	out := make([]K, len(keys))
	for i, j := range p {
		out[i] = keys[j]
	}
	Trace = append(Trace, fmt.Sprintf("%s:%v", site, p))
	return out
}

func less(a, b interface{}) bool {
	switch x := a.(type) {
	case string:
		return x < b.(string)
	case int:
		return x < b.(int)
	}
	return fmt.Sprint(a) < fmt.Sprint(b)
}

var permCache = map[int][][]int{}

// permutations: index 0 is the identity. For n <= 4 all n! orders; for larger n the
// reversal, all rotations and all adjacent transpositions.
func permutations(n int) [][]int {
	if p, ok := permCache[n]; ok {
		return p
	}
	id := make([]int, n)
	for i := range id {
		id[i] = i
	}
	var out [][]int
	if n <= 4 {
		var rec func(cur []int, used []bool)
		rec = func(cur []int, used []bool) {
			if len(cur) == n {
				out = append(out, append([]int{}, cur...))
				return
			}
			for i := 0; i < n; i++ {
				if !used[i] {
					used[i] = true
					rec(append(cur, i), used)
					used[i] = false
				}
			}
		}
		rec(nil, make([]bool, n)) // lexicographic: identity first
	} else {
		seen := map[string]bool{}
		add := func(p []int) {
			k := fmt.Sprint(p)
			if !seen[k] {
				seen[k] = true
				out = append(out, p)
			}
		}
		add(id)
		rev := make([]int, n)
		for i := range rev {
			rev[i] = n - 1 - i
		}
		add(rev)
		for r := 1; r < n; r++ {
			p := make([]int, n)
			for i := range p {
				p[i] = (i + r) % n
			}
			add(p)
		}
		for i := 0; i+1 < n; i++ {
			p := append([]int{}, id...)
			p[i], p[i+1] = p[i+1], p[i]
			add(p)
		}
	}
	permCache[n] = out
	return out
}

// ---- start-of-process values of run-time-written package-level variables ----

type coldVar struct {
	name    string
	restore func()
}

var cold []coldVar

// ColdNames lists the captured variables.
func ColdNames() []string {
	var out []string
	for _, c := range cold {
		out = append(out, c.name)
	}
	return out
}

// ColdCapture remembers the current value of each variable (given by address): maps and
// slices are copied, sync / atomic values are remembered as their zero value, everything else
// is remembered by assignment (a pointer is remembered as the pointer). Called once, before
// the first compilation of the process.
func ColdCapture(names []string, ptrs []interface{}) {
	for i, p := range ptrs {
		e := reflect.ValueOf(p).Elem()
		t := e.Type()
		name := names[i]
		cv := coldVar{name: name}
		switch {
		case t.Kind() == reflect.Map:
			saved := cloneMap(e)
			cv.restore = func() { e.Set(cloneMap(saved)) }
		case t.Kind() == reflect.Slice:
			saved := cloneSlice(e)
			cv.restore = func() { e.Set(cloneSlice(saved)) }
		case t.Kind() == reflect.Struct && (t.PkgPath() == "sync" || t.PkgPath() == "sync/atomic" || strings.HasSuffix(t.PkgPath(), "/vsync")):
			cv.restore = func() { e.Set(reflect.Zero(t)) }
		default:
			saved := reflect.New(t).Elem()
			saved.Set(e)
			cv.restore = func() { e.Set(saved) }
		}
		cold = append(cold, cv)
	}
}

// ColdRestore puts every captured variable back to its captured value.
func ColdRestore() {
	for _, c := range cold {
		c.restore()
	}
}

func cloneMap(v reflect.Value) reflect.Value {
	if v.IsNil() {
		return reflect.Zero(v.Type())
	}
	m := reflect.MakeMapWithSize(v.Type(), v.Len())
	it := v.MapRange()
	for it.Next() {
		m.SetMapIndex(it.Key(), it.Value())
	}
	return m
}

func cloneSlice(v reflect.Value) reflect.Value {
	if v.IsNil() {
		return reflect.Zero(v.Type())
	}
	s := reflect.MakeSlice(v.Type(), v.Len(), v.Cap())
	reflect.Copy(s, v)
	return s
}

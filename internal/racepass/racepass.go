// Package racepass holds the free-running harness bodies (built with -race).
package racepass

import (
	"fmt"
	"os"
	"os/exec"
	"path/filepath"
	"strings"
	"sync"
	"time"

	"github.com/go-python/gpython/py"
	_ "github.com/go-python/gpython/stdlib"
	_ "verif/internal/harness"
)

// Passes maps a property to its pass: it runs until the deadline and returns
// (executions, distinct configurations).
var Passes = map[string]func(deadline time.Time) (int, int){
	"C09": c09,
}

func progs(ops string, maxLen int) []string {
	var out []string
	var rec func(cur string)
	rec = func(cur string) {
		if cur != "" {
			out = append(out, cur)
		}
		if len(cur) == maxLen {
			return
		}
		for _, o := range ops {
			rec(cur + string(o))
		}
	}
	rec("")
	return out
}

// py.Context's contract: "If you access a Context from multiple goroutines, you are
// responsible that access is not concurrent, with the exception of Close() and Done()".
// The free-running pass therefore has at most one goroutine issuing executions; the
// others only Close / wait for Done.
func inContract(cfg []string) bool {
	n := 0
	for _, p := range cfg {
		if strings.ContainsAny(p, "RMNC") {
			n++
		}
	}
	return n <= 1
}

func waitOK(cfg []string) bool {
	if !inContract(cfg) {
		return false
	}
	hasX := false
	for _, p := range cfg {
		if strings.Contains(p, "X") {
			hasX = true
		}
	}
	if !hasX {
		return false
	}
	for i, p := range cfg {
		if w := strings.IndexByte(p, 'W'); w >= 0 {
			ok := strings.IndexByte(p[:w], 'X') >= 0
			for j, q := range cfg {
				if j != i && strings.IndexByte(q, 'X') >= 0 {
					xq, wq := strings.IndexByte(q, 'X'), strings.IndexByte(q, 'W')
					if wq < 0 || wq > xq {
						ok = true
					}
				}
			}
			if !ok {
				return false
			}
		}
	}
	return true
}

func c09(deadline time.Time) (int, int) {
	code, err := py.Compile("x = 1\nfor i in range(20):\n    x = x + i\n", "<c09race>", py.ExecMode, 0, true)
	if err != nil {
		panic(err)
	}
	dir, _ := os.MkdirTemp("", "c09race-")
	defer os.RemoveAll(dir)
	os.WriteFile(filepath.Join(dir, "tiny.py"), []byte("x = 1\n"), 0o644)
	ps := progs("RXMNCW", 2)
	var cfgs [][]string
	for i := range ps {
		for j := i; j < len(ps); j++ {
			c := []string{ps[i], ps[j]}
			if waitOK(c) {
				cfgs = append(cfgs, c)
			}
			for k := j; k < len(ps); k++ {
				if len(ps[i])+len(ps[j])+len(ps[k]) <= 4 {
					c3 := []string{ps[i], ps[j], ps[k]}
					if waitOK(c3) {
						cfgs = append(cfgs, c3)
					}
				}
			}
		}
	}
	runs := 0
	for round := 0; ; round++ {
		for _, cfg := range cfgs {
			if time.Now().After(deadline) && round > 0 {
				return runs, len(cfgs)
			}
			ctx := py.NewContext(py.ContextOpts{SysArgs: []string{"t"}, SysPaths: []string{}})
			var wg sync.WaitGroup
			start := make(chan struct{})
			for ti, p := range cfg {
				wg.Add(1)
				go func(ti int, p string) {
					defer wg.Done()
					<-start
					for oi, op := range p {
						switch op {
						case 'R':
							g := py.StringDict{}
							ctx.RunCode(code, g, g, nil)
						case 'M':
							impl := &py.ModuleImpl{Info: py.ModuleInfo{Name: fmt.Sprintf("m%d_%d", ti, oi)}, Globals: py.StringDict{}, Code: code,
								OnContextClosed: func(*py.Module) {}}
							ctx.ModuleInit(impl)
						case 'N':
							impl := &py.ModuleImpl{Info: py.ModuleInfo{Name: fmt.Sprintf("n%d_%d", ti, oi)}, Globals: py.StringDict{}, OnContextClosed: func(*py.Module) {}}
							ctx.ModuleInit(impl)
						case 'C':
							ctx.ResolveAndCompile("tiny.py", py.CompileOpts{CurDir: dir})
						case 'X':
							ctx.Close()
						case 'W':
							<-ctx.Done()
						}
					}
				}(ti, p)
			}
			close(start)
			wg.Wait()
			ctx.Close()
			runs++
		}
	}
}

func init() { Passes["C18"] = c18 }

// c18: 16 goroutines compile the same corpus concurrently; every result must equal
// the sequential one (and the race detector watches).
func c18(deadline time.Time) (int, int) {
	var srcs []string
	filepath.Walk("/repo", func(p string, info os.FileInfo, err error) error {
		if err == nil && !info.IsDir() && strings.HasSuffix(p, ".py") && !strings.Contains(p, "/.git/") {
			if b, err := os.ReadFile(p); err == nil {
				srcs = append(srcs, string(b))
			}
		}
		return nil
	})
	srcs = append(srcs, "def f(a, b, c):\n    def g():\n        return (a, b, c)\n    return g\n", "x = [i for i in range(3)]\nclass C:\n    def m(self):\n        return x\n")
	dump := func(s string) string {
		c, err := py.Compile(s, "<c18race>", py.ExecMode, 0, true)
		if err != nil {
			return "error"
		}
		return fmt.Sprintf("%x|%v|%v|%v|%v|%d", c.Code, c.Names, c.Varnames, c.Freevars, c.Cellvars, len(c.Consts))
	}
	// cold start: the very first compilations of this process happen on 16 goroutines released
	// together, before anything was compiled sequentially - state that the packages build
	// lazily on first use (tables, matchers, caches) is only ever written then. Several fresh
	// processes are started for it (VRACE_COLD_CHILD), because a process is cold only once.
	coldSrcs := append([]string{"x = 0x1f + 0o17 + 0b11 + 12 + 1.5e3 + 2j\ns = 'a\\n' b'\\x00' r'\\d' \"\"\"t\"\"\"\n@d\nclass K(B, m=1):\n    def f(self, *a, k=1, **kw) -> 0:\n        global g\n        return [i for i in a if i] or {k: 1} or {k} or (yield)\nwith a as b, c: pass\ntry:\n    import m.n as o\nexcept E as e: raise\nfinally: del x\nwhile x: break\nlambda *, k: k\nx[1:2, ...] **= not -x if x else ~x\n"}, srcs...)
	cold := make([][]string, 16)
	{
		var wg sync.WaitGroup
		start := make(chan struct{})
		for g := 0; g < 16; g++ {
			wg.Add(1)
			go func(g int) {
				defer wg.Done()
				<-start
				for _, s := range coldSrcs[:1+g%3] {
					cold[g] = append(cold[g], dump(s))
				}
			}(g)
		}
		close(start)
		wg.Wait()
	}
	for g := range cold {
		for k, d := range cold[g] {
			if want := dump(coldSrcs[k]); d != want {
				fmt.Fprintf(os.Stderr, "WARNING: DATA RACE (observed as a wrong result): program %d compiled concurrently as the first compilation of the process differs from its sequential compilation\n", k)
				os.Exit(66)
			}
		}
	}
	if os.Getenv("VRACE_COLD_CHILD") != "" {
		return 16, 1
	}
	coldStarts := 1
	for k := 0; k < 12 && time.Now().Before(deadline); k++ {
		cmd := exec.Command(os.Args[0], "C18", "--seconds", "1")
		cmd.Env = append(os.Environ(), "VRACE_COLD_CHILD=1")
		cmd.Stderr = os.Stderr
		if err := cmd.Run(); err != nil {
			os.Exit(66)
		}
		coldStarts++
	}
	base := make([]string, len(srcs))
	for i, s := range srcs {
		base[i] = dump(s)
	}
	runs := 16 * coldStarts
	for round := 0; round == 0 || time.Now().Before(deadline); round++ {
		var wg sync.WaitGroup
		var mu sync.Mutex
		bad := ""
		for g := 0; g < 16; g++ {
			wg.Add(1)
			go func(g int) {
				defer wg.Done()
				for k := range srcs {
					i := (k*7 + g*3) % len(srcs)
					if d := dump(srcs[i]); d != base[i] {
						mu.Lock()
						bad = fmt.Sprintf("program %d compiled concurrently differs from its sequential compilation", i)
						mu.Unlock()
					}
				}
			}(g)
		}
		wg.Wait()
		runs += 16 * len(srcs)
		if bad != "" {
			fmt.Fprintln(os.Stderr, "WARNING: DATA RACE (observed as a wrong result): "+bad)
			os.Exit(66)
		}
	}
	return runs, len(srcs)
}

func init() { Passes["C08"] = c08 }

// c08: many goroutines, each with its own context, run programs that mutate every piece
// of per-context state they can reach; all of them execute the SAME code objects.
func c08(deadline time.Time) (int, int) {
	py.RegisterModule(&py.ModuleImpl{
		Info:    py.ModuleInfo{Name: "c08racemod", FileDesc: "<c08racemod>"},
		CodeSrc: "counter = 0\nitems = []\ndef bump():\n    global counter\n    counter = counter + 1\n",
	})
	srcs := []string{
		"x = TAG\nfor i in range(20):\n    x = x + i\n",
		"import sys\nsys.path.append('p' + str(TAG))\nsys.argv.append(str(TAG))\n",
		"import builtins\ndef mylen(x):\n    return TAG\nbuiltins.len = mylen\ny = len([1])\n",
		"import math\nmath.pi = TAG\nmath.leak = TAG\ny = math.sqrt(4)\n",
		"import c08racemod\nc08racemod.counter = c08racemod.counter + TAG\nc08racemod.items.append(TAG)\nc08racemod.bump()\n",
		"class A:\n    v = 1\n    def get(self):\n        return self.v\nA.v = TAG\ny = A().get()\n",
		"def mk(n):\n    def g():\n        i = 0\n        while i < 3:\n            yield n + i\n            i = i + 1\n    return g\ny = sum(mk(TAG)())\nz = [i * 2 for i in range(5)]\n",
		"s = 'a,b,c'.split(',')\nd = {'k': TAG}\nd['j'] = 2\nt = sorted([3, 1, 2])\nu = str(TAG) + repr((1, 2.5, 'x'))\n",
		"try:\n    raise KeyError(TAG)\nexcept LookupError as e:\n    y = 1\nfinally:\n    z = 2\n",
	}
	var codes []*py.Code
	for i, s := range srcs {
		c, err := py.Compile(s, fmt.Sprintf("<c08race%d>", i), py.ExecMode, 0, true)
		if err != nil {
			panic(err)
		}
		codes = append(codes, c)
	}
	runs := 0
	for round := 0; round == 0 || time.Now().Before(deadline); round++ {
		// a module registered just now: every round has a "first import in the process" that
		// all goroutines reach together, right after the start barrier
		fresh := fmt.Sprintf("c08fresh%d", round)
		py.RegisterModule(&py.ModuleImpl{
			Info:    py.ModuleInfo{Name: fresh, FileDesc: "<" + fresh + ">"},
			CodeSrc: "counter = 0\ndef bump():\n    global counter\n    counter = counter + 1\n",
		})
		imp, err := py.Compile("import "+fresh+" as m\nm.bump()\nm.counter = m.counter + TAG\n", "<c08imp>", py.ExecMode, 0, true)
		if err != nil {
			panic(err)
		}
		var wg sync.WaitGroup
		start := make(chan struct{})
		for g := 0; g < 8; g++ {
			wg.Add(1)
			go func(g int) {
				defer wg.Done()
				// contexts with and without search paths / arguments
				opts := py.ContextOpts{SysArgs: []string{"prog"}, SysPaths: []string{"."}}
				if g%2 == 1 {
					opts = py.ContextOpts{}
				}
				ctx := py.NewContext(opts)
				defer ctx.Close()
				<-start
				gl0 := py.StringDict{"TAG": py.Int(g + 1)}
				if _, err := ctx.RunCode(imp, gl0, gl0, nil); err != nil {
					fmt.Fprintf(os.Stderr, "WARNING: DATA RACE (observed as an unexpected exception in an isolated context): %v\n", err)
					os.Exit(66)
				}
				for k := range codes {
					c := codes[(k+g)%len(codes)]
					gl := py.StringDict{"TAG": py.Int(g + 1)}
					if _, err := ctx.RunCode(c, gl, gl, nil); err != nil {
						fmt.Fprintf(os.Stderr, "WARNING: DATA RACE (observed as an unexpected exception in an isolated context): %v\n", err)
						os.Exit(66)
					}
				}
			}(g)
		}
		close(start)
		wg.Wait()
		runs += 8 * (len(codes) + 1)
	}
	return runs, len(codes)
}

package core

import (
	"encoding/json"
	"flag"
	"fmt"
	"os"
	"path/filepath"
	"runtime/debug"
	"strconv"
	"strings"
	"syscall"
	"time"
)

// Describe is set in --describe mode: Guard-style helpers print the case and exit
// instead of running it.
var DescribeMode bool

// WorkerMain is the entry point of `vcheck --worker <prop> ...`.
func WorkerMain(args []string) int {
	fs := flag.NewFlagSet("worker", flag.ExitOnError)
	tier := fs.String("tier", "quick", "")
	shard := fs.Int("shard", 0, "")
	nshards := fs.Int("nshards", 1, "")
	deadline := fs.Int64("deadline", 0, "")
	resume := fs.Int64("resume", -1, "")
	only := fs.Int64("only", -1, "")
	upto := fs.Int64("upto", -1, "")
	progress := fs.String("progress", "", "")
	seed := fs.Int64("seed", 0, "")
	describe := fs.Bool("describe", false, "")
	resultPath := fs.String("result", "", "")
	skipList := fs.String("skip", "", "")
	prop := args[0]
	fs.Parse(args[1:])
	c := Lookup(prop)
	if c == nil {
		fmt.Fprintf(os.Stderr, "unknown property %s\n", prop)
		return 2
	}
	// memory fence: the sandbox has no memory limit of its own
	lim := uint64(12 << 30)
	syscall.Setrlimit(syscall.RLIMIT_AS, &syscall.Rlimit{Cur: lim, Max: lim})
	debug.SetMaxStack(256 << 20)
	var dl time.Time
	if *deadline > 0 {
		dl = time.Unix(*deadline, 0)
	}
	rc := NewRunCtx(prop, *tier, *shard, *nshards, dl)
	rc.Seed = *seed
	rc.Only = *only
	rc.Upto = *upto
	rc.Resume = *resume
	DescribeMode = *describe
	if ff, err := LoadFindings(filepath.Join(VerifDir, "known_findings.json")); err == nil {
		rc.Findings = ff
	} else {
		fmt.Fprintf(os.Stderr, "known_findings.json: %v\n", err)
		return 2
	}
	if *progress != "" {
		f, err := os.OpenFile(*progress, os.O_RDWR|os.O_CREATE, 0o644)
		if err == nil {
			rc.SetProgressFile(f)
			defer f.Close()
		}
	}
	rc.ResultPath = *resultPath
	if *skipList != "" {
		var sk []int64
		for _, x := range strings.Split(*skipList, ",") {
			if v, err := strconv.ParseInt(x, 10, 64); err == nil {
				sk = append(sk, v)
			}
		}
		rc.SetSkip(sk)
	}
	c.Run(rc)
	if rc.ResultPath != "" {
		rc.WriteResult(true)
	} else {
		r := rc.Result()
		r.Final = true
		b, _ := json.Marshal(r)
		fmt.Printf("RESULT %s\n", b)
	}
	return 0
}

// Describe prints the case in --describe mode and reports true (the caller must then
// not run it).
func (rc *RunCtx) Describe(fields Fields, input string) bool {
	if !DescribeMode {
		return false
	}
	b, _ := json.Marshal(map[string]interface{}{"input": input, "fields": fields})
	fmt.Printf("DESCRIBE %s\n", b)
	return true
}

// Package core is the execution substrate shared by every check: the worker-side
// run context (sharding, per-case panic guard, counters), the coordinator (worker
// processes, crash attribution, known-findings matching, evidence, exit code).
package core

import (
	"encoding/binary"
	"encoding/hex"
	"encoding/json"
	"fmt"
	"hash/fnv"
	"os"
	"regexp"
	"runtime"
	"runtime/debug"
	"sort"
	"strings"
	"syscall"
	"time"
)

// Fields identify a case for known-findings matching (all values are strings).
type Fields map[string]string

func (f Fields) String() string {
	ks := make([]string, 0, len(f))
	for k := range f {
		ks = append(ks, k)
	}
	sort.Strings(ks)
	var b strings.Builder
	for i, k := range ks {
		if i > 0 {
			b.WriteByte(' ')
		}
		v := f[k]
		if len(v) > 80 {
			v = v[:80] + "…"
		}
		fmt.Fprintf(&b, "%s=%s", k, strings.ReplaceAll(v, "\n", "\\n"))
	}
	return b.String()
}

// Deviation is one case on which the implementation disagreed with the oracle.
type Deviation struct {
	Prop     string `json:"property"`
	Index    int64  `json:"index"`
	Fields   Fields `json:"fields"`
	Input    string `json:"input"`
	Expected string `json:"expected"`
	Observed string `json:"observed"`
	Sig      string `json:"sig"` // class of the observed wrong behaviour
	Tier     string `json:"tier"`
	Part     string `json:"part,omitempty"`
}

// Check is a registered property check.
type Check struct {
	ID    string
	Level string // evidence level
	Rule  string // how cases are enumerated; what makes one non-trivial
	// Mode selects the build the check needs ("plain", "ov"); informational here.
	Mode string
	// Run enumerates the check's whole space; it must call rc.Take() once per case in a
	// deterministic order and only execute cases for which Take returned true.
	Run func(rc *RunCtx)
	// HangAfterS overrides the no-progress interval after which a worker counts as hung.
	HangAfterS int
	// RacePass: also run the auxiliary free-running -race pass (bin/vrace <ID>).
	RacePass bool
	// Single-process checks (explorers owning goroutine scheduling) set NoShard.
	NoShard bool
	// Assumptions listed in the evidence file.
	Assumptions []string
	// TrustedBase etc.
	Explanation string
}

var registry = map[string]*Check{}

func Register(c *Check)       { registry[c.ID] = c }
func Lookup(id string) *Check { return registry[id] }
func IDs() []string {
	var out []string
	for k := range registry {
		out = append(out, k)
	}
	sort.Strings(out)
	return out
}

// WorkerResult is what a worker process reports back (JSON on stdout, last line).
type WorkerResult struct {
	Evaluations int64                `json:"evaluations"`
	Nontrivial  int64                `json:"nontrivial"`
	NontrivKeys []string             `json:"nontriv_keys,omitempty"`
	Outcomes    map[string]int64     `json:"outcomes"`
	OutcomesCap bool                 `json:"outcomes_capped"`
	Samples     []interface{}        `json:"samples"`
	Deviations  []Deviation          `json:"deviations"` // not covered by a known finding
	DevCount    int64                `json:"dev_count"`
	DevBySig    map[string]int64     `json:"dev_by_sig"`
	Known       map[string]int64     `json:"known"`    // finding id -> matching cases
	KnownEx     map[string]Deviation `json:"known_ex"` // one example per finding
	Counters    map[string]int64     `json:"counters"`
	Notes       map[string]string    `json:"notes,omitempty"`
	Complete    bool                 `json:"complete"`
	LastIndex   int64                `json:"last_index"`
	Final       bool                 `json:"final"`
	CapsHit     []string             `json:"caps_hit,omitempty"`
}

const (
	maxOutcomes    = 20000
	maxDevPerSig   = 40
	maxDevTotal    = 4000
	maxSamples     = 6
	maxNontrivKeys = 250000
)

// RunCtx is handed to Check.Run inside a worker.
type RunCtx struct {
	Prop     string
	Tier     string
	Seed     int64
	Shard    int
	NShards  int
	Deadline time.Time
	Only     int64 // >=0: run only this index
	Upto     int64 // >=0: run this shard's cases up to and including this index, then stop
	Resume   int64 // skip indices <= Resume
	Part     string
	Findings *FindingsFile

	idx        int64
	progress   *os.File
	res        WorkerResult
	nontriv    map[[8]byte]struct{}
	devPerSig  map[string]int
	expired    bool
	pbuf       [8]byte
	pmap       []byte
	polls      uint64
	skip       map[int64]bool
	lastCkpt   time.Time
	ResultPath string
	untracked  int64
}

func NewRunCtx(prop, tier string, shard, nshards int, deadline time.Time) *RunCtx {
	rc := &RunCtx{Prop: prop, Tier: tier, Shard: shard, NShards: nshards, Deadline: deadline, Only: -1, Resume: -1, Upto: -1}
	rc.idx = -1
	rc.res.Outcomes = map[string]int64{}
	rc.res.Counters = map[string]int64{}
	rc.res.DevBySig = map[string]int64{}
	rc.res.Known = map[string]int64{}
	rc.res.KnownEx = map[string]Deviation{}
	rc.res.Notes = map[string]string{}
	rc.nontriv = map[[8]byte]struct{}{}
	rc.devPerSig = map[string]int{}
	rc.res.Complete = true
	rc.skip = map[int64]bool{}
	rc.lastCkpt = time.Now()
	return rc
}

// SetProgressFile maps the progress file shared, so that the index of the case in
// flight survives a fatal crash of this process without a syscall per case.
func (rc *RunCtx) SetProgressFile(f *os.File) {
	rc.progress = f
	// word 0: index of the case in flight; word 1: heartbeat of a long-running case
	f.Truncate(16)
	m, err := syscall.Mmap(int(f.Fd()), 0, 16, syscall.PROT_READ|syscall.PROT_WRITE, syscall.MAP_SHARED)
	if err == nil {
		rc.pmap = m
	}
}

// Quick reports whether this is the quick tier.
func (rc *RunCtx) Quick() bool { return rc.Tier != "thorough" }

// Index of the case most recently passed to Take.
func (rc *RunCtx) Index() int64 { return rc.idx }

// Expired reports whether the internal deadline passed; the enumeration must stop.
func (rc *RunCtx) Expired() bool {
	// a case that explores many executions polls Expired between them: that is its sign of
	// life for the coordinator's hang watchdog (a single execution that never ends gives none)
	rc.polls++
	if rc.polls&0xff == 0 && rc.pmap != nil && len(rc.pmap) >= 16 {
		binary.LittleEndian.PutUint64(rc.pmap[8:], rc.polls)
	}
	if rc.expired {
		return true
	}
	if (rc.idx&0x3f == 0 || rc.polls&0xff == 0) && !rc.Deadline.IsZero() && time.Now().After(rc.Deadline) {
		rc.expired = true
		rc.res.Complete = false
		rc.res.CapsHit = append(rc.res.CapsHit, fmt.Sprintf("deadline at index %d", rc.idx))
	}
	return rc.expired
}

// Take advances the case counter and says whether this worker executes the case.
func (rc *RunCtx) Take() bool {
	rc.idx++
	if rc.Only >= 0 {
		return rc.idx == rc.Only
	}
	if rc.NShards > 1 && int(rc.idx%int64(rc.NShards)) != rc.Shard {
		return false
	}
	if rc.Upto >= 0 && rc.idx > rc.Upto {
		return false
	}
	if rc.idx <= rc.Resume {
		return false
	}
	if rc.Expired() {
		return false
	}
	if rc.pmap != nil {
		binary.LittleEndian.PutUint64(rc.pmap, uint64(rc.idx))
	}
	if rc.skip[rc.idx] {
		return false
	}
	rc.res.LastIndex = rc.idx
	if rc.idx&0xff == 0 && rc.ResultPath != "" && time.Since(rc.lastCkpt) > 8*time.Second {
		rc.WriteResult(false)
	}
	return true
}

// WriteResult writes the cumulative result (atomically) to ResultPath.
func (rc *RunCtx) WriteResult(final bool) {
	rc.lastCkpt = time.Now()
	r := rc.Result()
	r.Final = final
	b, _ := json.Marshal(r)
	tmp := rc.ResultPath + ".tmp"
	if os.WriteFile(tmp, b, 0o644) == nil {
		os.Rename(tmp, rc.ResultPath)
	}
}

func (rc *RunCtx) SetSkip(idxs []int64) {
	for _, i := range idxs {
		rc.skip[i] = true
	}
}

// Skip advances the counter by n without running anything (n cases known not to be
// this worker's, e.g. a whole sub-space filtered by the enumerator).
func (rc *RunCtx) Done() bool {
	return rc.Only >= 0 && rc.idx >= rc.Only || rc.Upto >= 0 && rc.idx >= rc.Upto
}

// Eval records one executed case with its outcome class; key!="" marks it non-trivial
// and distinct by key.
func (rc *RunCtx) Eval(outcome string, nontrivialKey string) {
	rc.res.Evaluations++
	if outcome != "" {
		if _, ok := rc.res.Outcomes[outcome]; ok || len(rc.res.Outcomes) < maxOutcomes {
			rc.res.Outcomes[outcome]++
		} else {
			rc.res.OutcomesCap = true
		}
	}
	if nontrivialKey != "" {
		if len(rc.nontriv) >= maxNontrivKeys {
			rc.untracked++
		} else {
			h := fnv.New64a()
			h.Write([]byte(nontrivialKey))
			var k [8]byte
			binary.LittleEndian.PutUint64(k[:], h.Sum64())
			rc.nontriv[k] = struct{}{}
		}
	}
}

func (rc *RunCtx) Count(name string, n int64) {
	if strings.HasPrefix(name, "max_") {
		if n > rc.res.Counters[name] {
			rc.res.Counters[name] = n
		}
		return
	}
	rc.res.Counters[name] += n
}
func (rc *RunCtx) Note(name, v string) { rc.res.Notes[name] = v }
func (rc *RunCtx) Cap(what string) {
	rc.res.Complete = false
	rc.res.CapsHit = append(rc.res.CapsHit, what)
}

func (rc *RunCtx) Sample(v interface{}) {
	if len(rc.res.Samples) < maxSamples {
		rc.res.Samples = append(rc.res.Samples, v)
	}
}
func (rc *RunCtx) WantSample() bool { return len(rc.res.Samples) < maxSamples }

// Deviate records a disagreement.
func (rc *RunCtx) Deviate(d Deviation) {
	d.Prop = rc.Prop
	d.Index = rc.idx
	d.Tier = rc.Tier
	d.Part = rc.Part
	if rc.Findings != nil {
		for _, f := range rc.Findings.Findings {
			if f.Matches(&d) {
				rc.res.Known[f.ID]++
				if _, ok := rc.res.KnownEx[f.ID]; !ok {
					rc.res.KnownEx[f.ID] = d
				}
				return
			}
		}
	}
	rc.res.DevCount++
	key := d.Sig
	rc.res.DevBySig[key]++
	if rc.devPerSig[key] < maxDevPerSig && len(rc.res.Deviations) < maxDevTotal || rc.Upto >= 0 && rc.idx == rc.Upto {
		rc.devPerSig[key]++
		if len(d.Input) > 4000 {
			d.Input = d.Input[:4000] + "…"
		}
		if len(d.Expected) > 2000 {
			d.Expected = d.Expected[:2000] + "…"
		}
		if len(d.Observed) > 2000 {
			d.Observed = d.Observed[:2000] + "…"
		}
		rc.res.Deviations = append(rc.res.Deviations, d)
	}
}

// Guard runs f; a Go panic inside it is recorded as a deviation with signature
// panic@<site> (site = innermost frame inside the gpython module).
func (rc *RunCtx) Guard(fields Fields, input func() string, f func()) (panicked bool) {
	if rc.Describe(fields, input()) {
		return false
	}
	defer func() {
		if r := recover(); r != nil {
			panicked = true
			site := PanicSite(debug.Stack())
			rc.res.Evaluations++
			rc.Deviate(Deviation{Fields: fields, Input: input(), Expected: "no Go panic",
				Observed: fmt.Sprintf("panic: %v at %s", r, site), Sig: "panic@" + site})
		}
	}()
	f()
	return false
}

var gpyFrame = regexp.MustCompile(`github\.com/go-python/gpython/([^\s(]+(?:\([^)]*\))?[^\s(]*)\(`)

// PanicSite extracts the innermost function of the gpython module from a stack dump.
func PanicSite(stack []byte) string {
	lines := strings.Split(string(stack), "\n")
	seenPanic := false
	for _, l := range lines {
		if strings.HasPrefix(l, "panic(") {
			seenPanic = true
			continue
		}
		if !seenPanic {
			continue
		}
		if strings.HasPrefix(l, "github.com/go-python/gpython/") {
			l = strings.TrimPrefix(l, "github.com/go-python/gpython/")
			if i := strings.LastIndex(l, "("); i > 0 {
				l = l[:i]
			}
			return l
		}
	}
	// no panic( line (e.g. runtime error re-panicked): first gpython frame
	for _, l := range lines {
		if strings.HasPrefix(l, "github.com/go-python/gpython/") {
			l = strings.TrimPrefix(l, "github.com/go-python/gpython/")
			if i := strings.LastIndex(l, "("); i > 0 {
				l = l[:i]
			}
			return l
		}
	}
	return "?"
}

func (rc *RunCtx) Result() *WorkerResult {
	rc.res.Nontrivial = int64(len(rc.nontriv))
	// export the keys so the coordinator can union them across workers
	keys := make([]string, 0, len(rc.nontriv))
	for k := range rc.nontriv {
		keys = append(keys, hex.EncodeToString(k[:]))
	}
	rc.res.NontrivKeys = keys
	rc.res.Counters["nontrivial_evaluations_not_deduplicated"] = rc.untracked
	return &rc.res
}

func init() {
	// workers are single-threaded interpreters; the coordinator overrides this
	_ = runtime.NumCPU
}

func MustJSON(v interface{}) string {
	b, err := json.Marshal(v)
	if err != nil {
		return fmt.Sprintf("%q", fmt.Sprint(v))
	}
	return string(b)
}

package core

import (
	"encoding/json"
	"fmt"
	"os"
	"regexp"
	"sort"
)

// Finding is one entry of /verif/known_findings.json: a genuine defect of gpython that
// is recorded rather than repaired. It matches a deviation only if every field pattern
// matches the case AND the signature pattern matches the observed wrong behaviour.
type Finding struct {
	ID       string            `json:"id"`
	Property string            `json:"property"`
	Match    map[string]string `json:"match"` // field -> anchored regexp
	Sig      string            `json:"sig"`   // anchored regexp on Deviation.Sig
	What     string            `json:"what"`

	reSig   *regexp.Regexp
	reMatch map[string]*regexp.Regexp
}

type Fixed struct {
	Property string `json:"property"`
	Commit   string `json:"commit"`
	What     string `json:"what"`
}

type FindingsFile struct {
	Findings []*Finding `json:"findings"`
	Fixed    []Fixed    `json:"fixed"`
}

func LoadFindings(path string) (*FindingsFile, error) {
	b, err := os.ReadFile(path)
	if err != nil {
		if os.IsNotExist(err) {
			return &FindingsFile{}, nil
		}
		return nil, err
	}
	var ff FindingsFile
	if err := json.Unmarshal(b, &ff); err != nil {
		return nil, fmt.Errorf("%s: %v", path, err)
	}
	for _, f := range ff.Findings {
		f.reSig, err = regexp.Compile("^(?:" + f.Sig + ")$")
		if err != nil {
			return nil, fmt.Errorf("finding %s sig: %v", f.ID, err)
		}
		f.reMatch = map[string]*regexp.Regexp{}
		for k, v := range f.Match {
			f.reMatch[k], err = regexp.Compile("^(?:" + v + ")$")
			if err != nil {
				return nil, fmt.Errorf("finding %s match %s: %v", f.ID, k, err)
			}
		}
	}
	return &ff, nil
}

func (f *Finding) Matches(d *Deviation) bool {
	if f.Property != d.Prop {
		return false
	}
	if !f.reSig.MatchString(d.Sig) {
		return false
	}
	for k, re := range f.reMatch {
		v, ok := d.Fields[k]
		if !ok || !re.MatchString(v) {
			return false
		}
	}
	return true
}

// Classify splits deviations into those covered by a finding and the rest.
func (ff *FindingsFile) Classify(devs []Deviation) (known map[string][]Deviation, unknown []Deviation) {
	known = map[string][]Deviation{}
	for i := range devs {
		d := &devs[i]
		matched := false
		for _, f := range ff.Findings {
			if f.Matches(d) {
				known[f.ID] = append(known[f.ID], *d)
				matched = true
				break
			}
		}
		if !matched {
			unknown = append(unknown, *d)
		}
	}
	return
}

func (ff *FindingsFile) ByID(id string) *Finding {
	for _, f := range ff.Findings {
		if f.ID == id {
			return f
		}
	}
	return nil
}

func SortedKeys(m map[string][]Deviation) []string {
	var ks []string
	for k := range m {
		ks = append(ks, k)
	}
	sort.Strings(ks)
	return ks
}

package core

import (
	"bytes"
	"crypto/sha1"
	"encoding/binary"
	"encoding/hex"
	"encoding/json"
	"fmt"
	"os"
	"os/exec"
	"path/filepath"
	"runtime"
	"sort"
	"strconv"
	"strings"
	"sync"
	"syscall"
	"time"
)

// VerifDir is where known_findings.json, evidence/ and replay/ live (VERIF_DIR overrides
// it for development copies; registered commands always use /verif).
var VerifDir = func() string {
	if d := os.Getenv("VERIF_DIR"); d != "" {
		return d
	}
	return "/verif"
}()

type Options struct {
	Prop      string
	Tier      string
	Seed      int64
	Workers   int
	BudgetS   int    // exploration budget in seconds (internal deadline)
	Replay    string // replay file
	Propose   bool
	OnlyIndex int64
	Exe       string // worker executable (default: self)
	NoGate    bool
}

type merged struct {
	WorkerResult
	nontriv    map[string]struct{}
	fatals     []Deviation
	harnessErr string
}

func hostScratch() string {
	d := os.Getenv("VERIF_SCRATCH")
	if d == "" {
		d = filepath.Join(os.TempDir(), "verif-scratch")
	}
	os.MkdirAll(d, 0o755)
	return d
}

// runWorker runs one worker process to completion, restarting it after a fatal crash or
// hang with the culprit case attributed.
func runWorker(opt Options, c *Check, shard, n int, deadline time.Time, out *merged, mu *sync.Mutex) {
	resume := int64(-1)
	lastCulprit := int64(-2)
	var skip []string
	exe := opt.Exe
	if exe == "" {
		exe, _ = os.Executable()
	}
	dir, _ := os.MkdirTemp(hostScratch(), fmt.Sprintf("w-%s-%d-", opt.Prop, shard))
	defer os.RemoveAll(dir)
	crashes := 0
	for {
		prog := filepath.Join(dir, "progress")
		resPath := filepath.Join(dir, "result.json")
		os.Remove(resPath)
		os.WriteFile(prog, make([]byte, 16), 0o644)
		args := []string{"--worker", opt.Prop, "--tier", opt.Tier, "--shard", strconv.Itoa(shard), "--nshards", strconv.Itoa(n),
			"--deadline", strconv.FormatInt(deadline.Unix(), 10), "--resume", strconv.FormatInt(resume, 10),
			"--progress", prog, "--seed", strconv.FormatInt(opt.Seed, 10), "--result", resPath}
		if len(skip) > 0 {
			args = append(args, "--skip", strings.Join(skip, ","))
		}
		if opt.OnlyIndex >= 0 {
			args = append(args, "--only", strconv.FormatInt(opt.OnlyIndex, 10))
		}
		cmd := exec.Command(exe, args...)
		cmd.Dir = dir
		var stderr bytes.Buffer
		cmd.Stdout = &limitedWriter{max: 1 << 16, buf: new(bytes.Buffer)}
		cmd.Stderr = &limitedWriter{max: 1 << 16, buf: &stderr}
		gomax := "1"
		if c.NoShard {
			gomax = strconv.Itoa(runtime.NumCPU())
		}
		cmd.Env = append(os.Environ(), "GOMAXPROCS="+gomax, "GOTRACEBACK=single", "VERIF_WORKDIR="+dir)
		if err := cmd.Start(); err != nil {
			fmt.Fprintf(os.Stderr, "worker start: %v\n", err)
			mu.Lock()
			out.Complete = false
			out.CapsHit = append(out.CapsHit, "worker failed to start: "+err.Error())
			mu.Unlock()
			return
		}
		// watchdog: no progress for 150 s => hang
		doneCh := make(chan error, 1)
		go func() { doneCh <- cmd.Wait() }()
		var werr error
		hung := false
		last := readLiveness(prog)
		lastChange := time.Now()
	loop:
		for {
			select {
			case werr = <-doneCh:
				break loop
			case <-time.After(1 * time.Second):
				cur := readLiveness(prog)
				if cur != last {
					last = cur
					lastChange = time.Now()
				} else if time.Since(lastChange) > hangAfter(c) {
					hung = true
					cmd.Process.Signal(syscall.SIGKILL)
					werr = <-doneCh
					break loop
				}
			}
		}
		// the (possibly partial) cumulative result of this process run
		var wr *WorkerResult
		if b, err := os.ReadFile(resPath); err == nil {
			var r WorkerResult
			if json.Unmarshal(b, &r) == nil {
				wr = &r
			}
		}
		if werr == nil && wr != nil && wr.Final {
			mu.Lock()
			out.merge(wr)
			mu.Unlock()
			return
		}
		// crash or hang: attribute to the case in flight
		culprit := readProgress(prog)
		crashes++
		kind := "fatal"
		if hung {
			kind = "hang"
		}
		msg := firstFatalLine(stderr.String())
		site := fatalSite(stderr.String())
		d := Deviation{Prop: opt.Prop, Index: culprit, Tier: opt.Tier, Fields: Fields{"index": strconv.FormatInt(culprit, 10)},
			Input:    fmt.Sprintf("(case index %d of %s/%s; input recovered by --only replay)", culprit, opt.Prop, opt.Tier),
			Expected: "worker survives the case", Observed: kind + ": " + msg + " at " + site, Sig: kind + "@" + site}
		// ask a fresh worker to describe the case (it prints DESCRIBE before running it)
		if desc, fields := describeCase(exe, opt, culprit); desc != "" {
			d.Input = desc
			if fields != nil {
				d.Fields = fields
			}
		}
		mu.Lock()
		out.fatals = append(out.fatals, d)
		if wr != nil {
			// keep what the run had checkpointed; the restart resumes right after it
			wr.Complete = true
			out.merge(wr)
			resume = wr.LastIndex
		}
		mu.Unlock()
		if opt.OnlyIndex >= 0 {
			return
		}
		if culprit == lastCulprit || culprit <= 0 && crashes > 3 {
			// the worker dies before/at the same case again: a broken harness, not a finding
			mu.Lock()
			out.Complete = false
			out.harnessErr = fmt.Sprintf("worker for shard %d keeps dying at case %d: %s", shard, culprit, msg)
			mu.Unlock()
			return
		}
		lastCulprit = culprit
		skip = append(skip, strconv.FormatInt(culprit, 10))
		if crashes > 200 {
			mu.Lock()
			out.Complete = false
			out.CapsHit = append(out.CapsHit, fmt.Sprintf("shard %d abandoned after %d fatal crashes", shard, crashes))
			mu.Unlock()
			return
		}
	}
}

func hangAfter(c *Check) time.Duration {
	if c.HangAfterS > 0 {
		return time.Duration(c.HangAfterS) * time.Second
	}
	return HangAfter
}

// HangAfter is the no-progress interval after which a worker is declared hung.
var HangAfter = 150 * time.Second

type limitedWriter struct {
	max int
	buf *bytes.Buffer
}

func (w *limitedWriter) Write(p []byte) (int, error) {
	if w.buf.Len() < w.max {
		room := w.max - w.buf.Len()
		if room > len(p) {
			room = len(p)
		}
		w.buf.Write(p[:room])
	}
	return len(p), nil
}

func readProgress(path string) int64 {
	b, err := os.ReadFile(path)
	if err != nil || len(b) < 8 {
		return -1
	}
	return int64(binary.LittleEndian.Uint64(b))
}

// readLiveness: the case index combined with the heartbeat word (see RunCtx.Expired)
func readLiveness(path string) [2]uint64 {
	b, err := os.ReadFile(path)
	var out [2]uint64
	if err != nil || len(b) < 8 {
		return out
	}
	out[0] = binary.LittleEndian.Uint64(b)
	if len(b) >= 16 {
		out[1] = binary.LittleEndian.Uint64(b[8:])
	}
	return out
}

func firstFatalLine(s string) string {
	for _, l := range strings.Split(s, "\n") {
		if strings.HasPrefix(l, "fatal error:") || strings.HasPrefix(l, "panic:") || strings.HasPrefix(l, "runtime:") {
			if len(l) > 200 {
				l = l[:200]
			}
			return l
		}
	}
	ls := strings.Split(strings.TrimSpace(s), "\n")
	if len(ls) > 0 {
		l := ls[0]
		if len(l) > 200 {
			l = l[:200]
		}
		return l
	}
	return "killed"
}

func fatalSite(s string) string {
	for _, l := range strings.Split(s, "\n") {
		if strings.HasPrefix(l, "github.com/go-python/gpython/") {
			l = strings.TrimPrefix(l, "github.com/go-python/gpython/")
			if i := strings.LastIndex(l, "("); i > 0 {
				l = l[:i]
			}
			return l
		}
	}
	return "?"
}

func describeCase(exe string, opt Options, idx int64) (string, Fields) {
	cmd := exec.Command(exe, "--worker", opt.Prop, "--tier", opt.Tier, "--only", strconv.FormatInt(idx, 10), "--describe")
	cmd.Env = append(os.Environ(), "GOMAXPROCS=1")
	outb, _ := cmd.Output()
	for _, l := range strings.Split(string(outb), "\n") {
		if strings.HasPrefix(l, "DESCRIBE ") {
			var v struct {
				Input  string `json:"input"`
				Fields Fields `json:"fields"`
			}
			if json.Unmarshal([]byte(l[9:]), &v) == nil {
				return v.Input, v.Fields
			}
		}
	}
	return "", nil
}

func (m *merged) merge(r *WorkerResult) {
	m.Evaluations += r.Evaluations
	for k, v := range r.Outcomes {
		m.Outcomes[k] += v
	}
	m.OutcomesCap = m.OutcomesCap || r.OutcomesCap
	for _, k := range r.NontrivKeys {
		m.nontriv[k] = struct{}{}
	}
	for _, s := range r.Samples {
		if len(m.Samples) < maxSamples {
			m.Samples = append(m.Samples, s)
		}
	}
	m.Deviations = append(m.Deviations, r.Deviations...)
	m.DevCount += r.DevCount
	for k, v := range r.DevBySig {
		m.DevBySig[k] += v
	}
	for k, v := range r.Known {
		m.Known[k] += v
	}
	for k, v := range r.KnownEx {
		if _, ok := m.KnownEx[k]; !ok {
			m.KnownEx[k] = v
		}
	}
	for k, v := range r.Counters {
		if strings.HasPrefix(k, "max_") {
			if v > m.Counters[k] {
				m.Counters[k] = v
			}
		} else {
			m.Counters[k] += v
		}
	}
	for k, v := range r.Notes {
		m.Notes[k] = v
	}
	if !r.Complete {
		m.Complete = false
	}
	m.CapsHit = append(m.CapsHit, r.CapsHit...)
}

// Evidence mirrors EVIDENCE.schema.json.
type Evidence struct {
	PropertyID  string                 `json:"property_id"`
	Tier        string                 `json:"tier"`
	Seed        int64                  `json:"seed"`
	Level       string                 `json:"level"`
	Coverage    map[string]interface{} `json:"coverage"`
	Assumptions []string               `json:"assumptions"`
	WallS       float64                `json:"wall_s"`
	Violations  int                    `json:"violations"`
}

// Coordinate runs the check to completion and returns the process exit code.
func Coordinate(opt Options) int {
	start := time.Now()
	c := Lookup(opt.Prop)
	if c == nil {
		fmt.Fprintf(os.Stderr, "unknown property %q (have %v)\n", opt.Prop, IDs())
		return 2
	}
	ff, err := LoadFindings(filepath.Join(VerifDir, "known_findings.json"))
	if err != nil {
		fmt.Fprintf(os.Stderr, "known_findings.json: %v\n", err)
		return 2
	}
	n := opt.Workers
	if n <= 0 {
		n = runtime.NumCPU()
		if n > 16 {
			n = 16
		}
	}
	if c.NoShard || opt.OnlyIndex >= 0 {
		n = 1
	}
	budget := opt.BudgetS
	if budget <= 0 {
		if opt.Tier == "thorough" {
			budget = 1500
		} else {
			budget = 240
		}
	}
	deadline := start.Add(time.Duration(budget) * time.Second)
	m := &merged{nontriv: map[string]struct{}{}}
	m.Outcomes = map[string]int64{}
	m.Counters = map[string]int64{}
	m.DevBySig = map[string]int64{}
	m.Known = map[string]int64{}
	m.KnownEx = map[string]Deviation{}
	m.Notes = map[string]string{}
	m.Complete = true
	var mu sync.Mutex
	var wg sync.WaitGroup
	for s := 0; s < n; s++ {
		wg.Add(1)
		go func(s int) {
			defer wg.Done()
			runWorker(opt, c, s, n, deadline, m, &mu)
		}(s)
	}
	wg.Wait()
	if m.harnessErr != "" {
		fmt.Printf("HARNESS ERROR property=%s %s\n", opt.Prop, m.harnessErr)
		return 2
	}

	// fatals go through findings classification too
	for _, d := range m.fatals {
		matched := false
		for _, f := range ff.Findings {
			if f.Matches(&d) {
				m.Known[f.ID]++
				if _, ok := m.KnownEx[f.ID]; !ok {
					m.KnownEx[f.ID] = d
				}
				matched = true
				break
			}
		}
		if !matched {
			m.Deviations = append(m.Deviations, d)
			m.DevCount++
			m.DevBySig[d.Sig]++
		}
	}

	sort.SliceStable(m.Deviations, func(i, j int) bool { return m.Deviations[i].Index < m.Deviations[j].Index })

	if opt.Propose {
		proposeFindings(m)
	}

	// determinism gate: an unknown deviation must reproduce in a fresh worker
	violations := 0
	unrepro := []Deviation{}
	reported := map[string]bool{}
	var lines []string
	exe := opt.Exe
	if exe == "" {
		exe, _ = os.Executable()
	}
	gated := 0
	histGated := 0
	for _, d := range m.Deviations {
		cls := d.Sig
		if reported[cls] {
			continue
		}
		if len(lines) >= 20 {
			break
		}
		ok := true
		if !opt.NoGate && opt.OnlyIndex < 0 && gated < 25 && !strings.HasPrefix(d.Sig, "fatal@") && !strings.HasPrefix(d.Sig, "hang@") {
			gated++
			ok = reproduces(exe, opt, d)
			if !ok && n > 1 && histGated < 3 {
				// not reproducible alone: does it follow deterministically from the cases this
				// worker ran before it? Re-run that shard's cases in order, in one fresh process.
				histGated++
				if reproducesWithHistory(exe, opt, d, n) {
					ok = true
					d.Fields = cloneFields(d.Fields)
					d.Fields["history"] = fmt.Sprintf("shard %d/%d up to index %d", int(d.Index%int64(n)), n, d.Index)
					d.Input = fmt.Sprintf("[after all earlier cases of shard %d/%d, run in order in one process] ", int(d.Index%int64(n)), n) + d.Input
				}
			}
		}
		if !ok {
			unrepro = append(unrepro, d)
			continue
		}
		reported[cls] = true
		violations++
		path := writeReplay(d)
		lines = append(lines, fmt.Sprintf("VIOLATION property=%s replay=%s", opt.Prop, path))
		fmt.Printf("  deviation sig=%s fields{%s}\n    input: %s\n    expected: %s\n    observed: %s\n", d.Sig, d.Fields,
			oneLine(d.Input, 300), oneLine(d.Expected, 200), oneLine(d.Observed, 200))
	}

	// auxiliary free-running -race pass (non-deciding; see DESIGN.md)
	var racePass map[string]interface{}
	if c.RacePass && opt.OnlyIndex < 0 {
		secs := 8
		if opt.Tier == "thorough" {
			secs = 90
		}
		racePass = runRacePass(opt.Prop, secs)
		if rep, ok := racePass["report"].(string); ok && rep != "" {
			d := Deviation{Prop: opt.Prop, Index: -1, Tier: opt.Tier, Fields: Fields{"pass": "free-running -race"},
				Input: "free-running harness bodies under the Go race detector", Expected: "no data race, no crash", Observed: rep, Sig: "race-pass:" + fmt.Sprint(racePass["class"])}
			matched := false
			for _, f := range ff.Findings {
				if f.Matches(&d) {
					m.Known[f.ID]++
					matched = true
					break
				}
			}
			if !matched {
				violations++
				path := writeReplay(d)
				lines = append(lines, fmt.Sprintf("VIOLATION property=%s replay=%s", opt.Prop, path))
				fmt.Printf("  race pass: %s\n", oneLine(rep, 600))
			}
		}
	}

	// known findings
	ids := make([]string, 0, len(m.Known))
	for id := range m.Known {
		ids = append(ids, id)
	}
	sort.Strings(ids)
	knownOut := map[string]int64{}
	for _, id := range ids {
		f := ff.ByID(id)
		fmt.Printf("KNOWN-FINDING: property=%s %s %s cases=%d\n", opt.Prop, id, f.What, m.Known[id])
		knownOut[id] = m.Known[id]
	}
	for _, l := range lines {
		fmt.Println(l)
	}

	// evidence
	states := int64(len(m.Outcomes))
	if v, ok := m.Counters["states"]; ok && v > 0 {
		states = v
	}
	transitions := m.Evaluations
	if v, ok := m.Counters["transitions"]; ok && v > 0 {
		transitions = v
	}
	traces := m.Evaluations
	if v, ok := m.Counters["traces_validated"]; ok {
		traces = v
	}
	samples := m.Samples
	if samples == nil {
		samples = []interface{}{}
	}
	top := topOutcomes(m.Outcomes, 12)
	cov := map[string]interface{}{
		"evaluations":                   m.Evaluations,
		"distinct_nontrivial":           len(m.nontriv),
		"rule":                          c.Rule,
		"samples":                       samples,
		"states":                        states,
		"transitions":                   transitions,
		"traces_validated_against_impl": traces,
		"exhaustive":                    m.Complete,
		"caps_hit":                      m.CapsHit,
		"distinct_outcomes":             len(m.Outcomes),
		"top_outcomes":                  top,
		"counters":                      m.Counters,
		"notes":                         m.Notes,
		"workers":                       n,
		"budget_s":                      budget,
		"known_findings_matched":        knownOut,
		"deviation_classes":             m.DevBySig,
		"unreproduced":                  unrepro,
		"explanation":                   c.Explanation,
	}
	if racePass != nil {
		delete(racePass, "report")
		cov["auxiliary_race_pass"] = racePass
	}
	if cov["caps_hit"] == nil {
		cov["caps_hit"] = []string{}
	}
	ev := Evidence{PropertyID: opt.Prop, Tier: opt.Tier, Seed: opt.Seed, Level: c.Level, Coverage: cov,
		Assumptions: c.Assumptions, WallS: time.Since(start).Seconds(), Violations: violations}
	if ev.Assumptions == nil {
		ev.Assumptions = []string{}
	}
	if opt.OnlyIndex < 0 {
		os.MkdirAll(filepath.Join(VerifDir, "evidence"), 0o755)
		b, _ := json.MarshalIndent(ev, "", " ")
		os.WriteFile(filepath.Join(VerifDir, "evidence", opt.Prop+".json"), append(b, '\n'), 0o644)
	}
	fmt.Printf("%s tier=%s evaluations=%d distinct_nontrivial=%d states=%d transitions=%d outcomes=%d exhaustive=%v known=%d unknown_deviations=%d unreproduced=%d wall=%.1fs\n",
		opt.Prop, opt.Tier, m.Evaluations, len(m.nontriv), states, transitions, len(m.Outcomes), m.Complete, len(m.Known), m.DevCount, len(unrepro), time.Since(start).Seconds())
	if len(m.CapsHit) > 0 {
		fmt.Printf("  caps: %v\n", uniq(m.CapsHit, 5))
	}
	if len(unrepro) > 0 {
		fmt.Printf("  NOTE: %d deviation(s) did not reproduce in a fresh worker (harness nondeterminism; see evidence 'unreproduced')\n", len(unrepro))
	}
	if violations > 0 {
		return 1
	}
	return 0
}

// runRacePass runs bin/vrace (built with -race by scripts/check.sh).
func runRacePass(prop string, secs int) map[string]interface{} {
	out := map[string]interface{}{"seconds": secs, "deciding": false}
	exe := filepath.Join(VerifDir, "bin", "vrace")
	if _, err := os.Stat(exe); err != nil {
		out["status"] = "vrace binary missing"
		return out
	}
	cmd := exec.Command(exe, prop, "--seconds", strconv.Itoa(secs))
	var so, se bytes.Buffer
	cmd.Stdout = &so
	cmd.Stderr = &limitedWriter{max: 1 << 17, buf: &se}
	cmd.Env = append(os.Environ(), "GORACE=halt_on_error=1 exitcode=66")
	// the free-running bodies can deadlock for real when the property is broken (the explorer
	// reports that deterministically); the sampler must not hang the check then. The limit is
	// generous (no short wall-clock oracle) and running into it is reported, never a violation.
	grace := time.Duration(secs+300) * time.Second
	hung := false
	timer := time.AfterFunc(grace, func() {
		hung = true
		if cmd.Process != nil {
			cmd.Process.Kill()
		}
	})
	err := cmd.Run()
	timer.Stop()
	out["summary"] = strings.TrimSpace(so.String())
	es := se.String()
	switch {
	case hung:
		out["status"] = fmt.Sprintf("stopped after %v without finishing (possibly a deadlock of the free-running bodies; not a verdict)", grace)
	case strings.Contains(es, "WARNING: DATA RACE"):
		out["class"] = "data-race"
		out["report"] = es
		out["status"] = "race reported"
	case err != nil:
		out["class"] = "crash"
		out["report"] = firstFatalLine(es) + "\n" + es
		out["status"] = "crashed: " + firstFatalLine(es)
	default:
		out["status"] = "no race observed (a sampler: not exhaustive)"
	}
	return out
}

func uniq(xs []string, max int) []string {
	seen := map[string]bool{}
	var out []string
	for _, x := range xs {
		if !seen[x] {
			seen[x] = true
			out = append(out, x)
			if len(out) >= max {
				break
			}
		}
	}
	return out
}

func oneLine(s string, max int) string {
	s = strings.ReplaceAll(s, "\n", "\\n")
	if len(s) > max {
		s = s[:max] + "…"
	}
	return s
}

func topOutcomes(m map[string]int64, n int) map[string]int64 {
	type kv struct {
		k string
		v int64
	}
	var xs []kv
	for k, v := range m {
		xs = append(xs, kv{k, v})
	}
	sort.Slice(xs, func(i, j int) bool {
		if xs[i].v != xs[j].v {
			return xs[i].v > xs[j].v
		}
		return xs[i].k < xs[j].k
	})
	out := map[string]int64{}
	for i := 0; i < len(xs) && i < n; i++ {
		k := xs[i].k
		if len(k) > 120 {
			k = k[:120]
		}
		out[k] = xs[i].v
	}
	return out
}

func reproduces(exe string, opt Options, d Deviation) bool {
	for attempt := 0; attempt < 5; attempt++ {
		cmd := exec.Command(exe, "--worker", opt.Prop, "--tier", d.Tier, "--only", strconv.FormatInt(d.Index, 10), "--seed", strconv.FormatInt(opt.Seed, 10))
		cmd.Env = append(os.Environ(), "GOMAXPROCS=1")
		outb, err := cmd.Output()
		if err != nil {
			return true // crashed again: reproduces as a crash
		}
		for _, l := range strings.Split(string(outb), "\n") {
			if strings.HasPrefix(l, "RESULT ") {
				var r WorkerResult
				if json.Unmarshal([]byte(l[7:]), &r) == nil {
					for _, x := range r.Deviations {
						if x.Sig == d.Sig {
							return true
						}
					}
					for _, x := range r.KnownEx {
						if x.Sig == d.Sig {
							return true
						}
					}
				}
			}
		}
	}
	return false
}

func cloneFields(f Fields) Fields {
	o := Fields{}
	for k, v := range f {
		o[k] = v
	}
	return o
}

// reproducesWithHistory: a fresh worker runs every case of the deviation's shard up to the
// deviating case, in order; the deviation counts as reproduced if the same case deviates with
// the same signature again (a deterministic consequence of the history, e.g. process-wide
// state of the interpreter damaged by an earlier case).
func reproducesWithHistory(exe string, opt Options, d Deviation, n int) bool {
	cmd := exec.Command(exe, "--worker", opt.Prop, "--tier", d.Tier, "--shard", strconv.Itoa(int(d.Index%int64(n))), "--nshards", strconv.Itoa(n),
		"--upto", strconv.FormatInt(d.Index, 10), "--seed", strconv.FormatInt(opt.Seed, 10))
	cmd.Env = append(os.Environ(), "GOMAXPROCS=1")
	outb, err := cmd.Output()
	if err != nil {
		return false
	}
	for _, l := range strings.Split(string(outb), "\n") {
		if strings.HasPrefix(l, "RESULT ") {
			var r WorkerResult
			if json.Unmarshal([]byte(l[7:]), &r) == nil {
				for _, x := range r.Deviations {
					if x.Sig == d.Sig && x.Index == d.Index {
						return true
					}
				}
			}
		}
	}
	return false
}

func writeReplay(d Deviation) string {
	dir := filepath.Join(VerifDir, "replay", d.Prop)
	os.MkdirAll(dir, 0o755)
	b, _ := json.MarshalIndent(map[string]interface{}{
		"property": d.Prop, "tier": d.Tier, "index": d.Index, "fields": d.Fields, "input": d.Input,
		"expected": d.Expected, "observed": d.Observed, "sig": d.Sig,
		"replay_cmd": fmt.Sprintf("scripts/check.sh %s --replay <this file>", d.Prop),
		"history":    d.Fields["history"],
	}, "", " ")
	h := sha1.Sum(b)
	p := filepath.Join(dir, hex.EncodeToString(h[:6])+".json")
	os.WriteFile(p, append(b, '\n'), 0o644)
	return p
}

func proposeFindings(m *merged) {
	type key struct{ sig string }
	fmt.Println("--- candidate findings (developer aid; nothing is written) ---")
	seen := map[string]int{}
	for _, d := range m.Deviations {
		seen[d.Sig]++
		if seen[d.Sig] > 3 {
			continue
		}
		fmt.Printf("sig=%q fields=%s\n   input=%s\n   expected=%s\n   observed=%s\n", d.Sig, MustJSON(d.Fields), oneLine(d.Input, 400), oneLine(d.Expected, 300), oneLine(d.Observed, 300))
	}
	var sigs []string
	for s := range m.DevBySig {
		sigs = append(sigs, s)
	}
	sort.Strings(sigs)
	for _, s := range sigs {
		fmt.Printf("  class %-60s %d\n", s, m.DevBySig[s])
	}
}

// ReplayFile re-runs exactly the case recorded in a replay file.
func ReplayFile(path string, opt Options) int {
	b, err := os.ReadFile(path)
	if err != nil {
		fmt.Fprintln(os.Stderr, err)
		return 2
	}
	var v struct {
		Property string `json:"property"`
		Tier     string `json:"tier"`
		Index    int64  `json:"index"`
		Sig      string `json:"sig"`
		History  string `json:"history"`
	}
	if err := json.Unmarshal(b, &v); err != nil {
		fmt.Fprintln(os.Stderr, err)
		return 2
	}
	if v.History != "" {
		// a deviation that needs the cases before it: re-run the shard prefix
		var k, n int
		var idx int64
		if _, err := fmt.Sscanf(v.History, "shard %d/%d up to index %d", &k, &n, &idx); err != nil {
			fmt.Fprintln(os.Stderr, "bad history:", v.History)
			return 2
		}
		exe := opt.Exe
		if exe == "" {
			exe, _ = os.Executable()
		}
		d := Deviation{Prop: v.Property, Tier: v.Tier, Index: v.Index, Sig: v.Sig}
		opt.Prop = v.Property
		if reproducesWithHistory(exe, opt, d, n) {
			fmt.Printf("VIOLATION property=%s replay=%s\n", v.Property, path)
			return 1
		}
		fmt.Println("the recorded deviation does not occur on this tree")
		return 0
	}
	opt.Prop = v.Property
	opt.Tier = v.Tier
	opt.OnlyIndex = v.Index
	opt.NoGate = true
	return Coordinate(opt)
}

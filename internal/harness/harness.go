// Package harness runs Python programs on the real gpython pipeline and observes them
// through a Go module "vh" that every context gets its own instance of.
package harness

import (
	"fmt"
	"math"
	"math/big"
	"sort"
	"strings"

	"github.com/go-python/gpython/py"
	_ "github.com/go-python/gpython/stdlib"
)

// Log is the per-context observation log, stored in the vh module instance's globals.
type Log struct {
	Entries []string
	Hooks   map[string]func(args py.Tuple) (py.Object, error)
}

var LogType = py.NewType("vhlog", "verification harness log")

func (l *Log) Type() *py.Type { return LogType }

func logOf(self py.Object) *Log {
	m, ok := self.(*py.Module)
	if !ok || m == nil {
		// type-method style call (no module): fall back to a global log
		return fallback
	}
	l, _ := m.Globals["__vhlog__"].(*Log)
	if l == nil {
		l = &Log{}
		m.Globals["__vhlog__"] = l
	}
	return l
}

var fallback = &Log{}

// Probe is called by vh.probe(); explorers install a function here.
var Probe func(args py.Tuple) (py.Object, error)

func init() {
	methods := []*py.Method{
		// v(i, val): operand that logs its own evaluation
		py.MustNewMethod("v", func(self py.Object, args py.Tuple) (py.Object, error) {
			if len(args) != 2 {
				return nil, py.ExceptionNewf(py.TypeError, "vh.v takes 2 args")
			}
			l := logOf(self)
			l.Entries = append(l.Entries, Canon(args[0]))
			return args[1], nil
		}, 0, ""),
		// log(*xs): record canonical forms
		py.MustNewMethod("log", func(self py.Object, args py.Tuple) (py.Object, error) {
			l := logOf(self)
			if len(args) == 1 {
				l.Entries = append(l.Entries, Canon(args[0]))
			} else {
				l.Entries = append(l.Entries, Canon(args))
			}
			return py.None, nil
		}, 0, ""),
		// logt(x): record the type name and canonical form
		py.MustNewMethod("logt", func(self py.Object, args py.Tuple) (py.Object, error) {
			l := logOf(self)
			for _, a := range args {
				l.Entries = append(l.Entries, a.Type().Name+":"+Canon(a))
			}
			return py.None, nil
		}, 0, ""),
		// same(a, b): identity
		py.MustNewMethod("same", func(self py.Object, args py.Tuple) (py.Object, error) {
			if len(args) != 2 {
				return nil, py.ExceptionNewf(py.TypeError, "vh.same takes 2 args")
			}
			return py.NewBool(Same(args[0], args[1])), nil
		}, 0, ""),
		py.MustNewMethod("probe", func(self py.Object, args py.Tuple) (py.Object, error) {
			if Probe != nil {
				return Probe(args)
			}
			return py.None, nil
		}, 0, ""),
		// kw(*args, **kwargs): records exactly what it received
		py.MustNewMethod("kw", func(self py.Object, args py.Tuple, kwargs py.StringDict) (py.Object, error) {
			l := logOf(self)
			l.Entries = append(l.Entries, "kw"+Canon(args)+Canon(kwargs))
			return py.None, nil
		}, 0, ""),
	}
	py.RegisterModule(&py.ModuleImpl{
		Info:    py.ModuleInfo{Name: "vh", Doc: "verification harness"},
		Methods: methods,
		// K7: a plain value to import under any name (`from vh import K7 as x` binds x by import)
		Globals: py.StringDict{"K7": py.Int(7)},
	})
}

// Same reports object identity in the sense Python's `is` must have for the harness.
func Same(a, b py.Object) (r bool) {
	defer func() {
		if recover() != nil {
			r = false
		}
	}()
	return a == b
}

// Outcome of running one program.
type Outcome struct {
	Log       []string
	ExcType   string // "" if the run completed
	ExcBases  []string
	ExcMsg    string
	Traceback []TB // innermost last
	Compile   bool // the exception was raised by the compile step
	Module    *py.Module
	Ctx       py.Context
}

type TB struct {
	Func string
	Line int
}

func (o *Outcome) String() string {
	var b strings.Builder
	b.WriteString("log=[" + strings.Join(o.Log, ",") + "]")
	if o.ExcType != "" {
		if o.Compile {
			b.WriteString(" compile-exc=" + o.ExcType)
		} else {
			b.WriteString(" exc=" + o.ExcType)
		}
	}
	return b.String()
}

// ExcIs reports whether the outcome's exception is name or a subclass of it.
func (o *Outcome) ExcIs(name string) bool {
	if o.ExcType == name {
		return true
	}
	for _, b := range o.ExcBases {
		if b == name {
			return true
		}
	}
	return false
}

// ExcInfo extracts type name, base names, message and traceback from an error.
func ExcInfo(err error) (typ string, bases []string, msg string, tb []TB) {
	if err == nil {
		return
	}
	var t *py.Type
	switch e := err.(type) {
	case py.ExceptionInfo:
		t = e.Type
		for x := e.Traceback; x != nil; x = x.Next {
			tb = append(tb, TB{x.Frame.Code.Name, int(x.Lineno)})
		}
		if ex, ok := e.Value.(*py.Exception); ok {
			msg = safeErr(ex)
			if t == nil {
				t = ex.Base
			}
		}
	case *py.ExceptionInfo:
		return ExcInfo(*e)
	case *py.Exception:
		t = e.Base
		msg = safeErr(e)
	case *py.Type:
		// gpython returns a bare exception class as the error in places (py.Next -> StopIteration)
		t = e
	default:
		return "GoError", nil, err.Error(), nil
	}
	if t == nil {
		return "NilType", nil, msg, tb
	}
	typ = t.Name
	seen := map[*py.Type]bool{}
	var walk func(x *py.Type)
	walk = func(x *py.Type) {
		if x == nil || seen[x] {
			return
		}
		seen[x] = true
		bases = append(bases, x.Name)
		walk(x.Base)
		for _, b := range x.Bases {
			if bt, ok := b.(*py.Type); ok {
				walk(bt)
			}
		}
	}
	walk(t)
	return
}

func safeErr(e *py.Exception) (s string) {
	defer func() {
		if r := recover(); r != nil {
			s = fmt.Sprintf("<Error() panicked: %v>", r)
		}
	}()
	return e.Error()
}

// Opts for Run.
type Opts struct {
	Mode     py.CompileMode
	Filename string
	SysPaths []string
	KeepCtx  bool // do not close the context (caller inspects the module)
	Pre      func(ctx py.Context)
}

// Run compiles src in exec mode and runs it as __main__ of a fresh context with `vh`
// pre-imported as a global.
func Run(src string) *Outcome { return RunOpts(src, Opts{}) }

func RunOpts(src string, o Opts) *Outcome {
	out := &Outcome{}
	mode := o.Mode
	if mode == "" {
		mode = py.ExecMode
	}
	fn := o.Filename
	if fn == "" {
		fn = "<t>"
	}
	code, err := py.Compile(src, fn, mode, 0, true)
	if err != nil {
		out.Compile = true
		out.ExcType, out.ExcBases, out.ExcMsg, out.Traceback = ExcInfo(err)
		return out
	}
	ctx := py.NewContext(py.ContextOpts{SysArgs: []string{"t"}, SysPaths: o.SysPaths})
	if !o.KeepCtx {
		defer ctx.Close()
	} else {
		out.Ctx = ctx
	}
	if o.Pre != nil {
		o.Pre(ctx)
	}
	vhImpl := py.GetModuleImpl("vh")
	vhm, err := ctx.ModuleInit(vhImpl)
	if err != nil {
		panic(err)
	}
	lg := &Log{}
	vhm.Globals["__vhlog__"] = lg
	impl := &py.ModuleImpl{Info: py.ModuleInfo{Name: "__main__", FileDesc: fn}, Globals: py.StringDict{"vh": vhm}}
	mod, err := ctx.Store().NewModule(ctx, impl)
	if err != nil {
		panic(err)
	}
	out.Module = mod
	_, err = ctx.RunCode(code, mod.Globals, mod.Globals, nil)
	out.Log = lg.Entries
	if err != nil {
		out.ExcType, out.ExcBases, out.ExcMsg, out.Traceback = ExcInfo(err)
	}
	return out
}

// Canon renders a value independently of gpython's own repr.
func Canon(o py.Object) string {
	var b strings.Builder
	canon(&b, o, 0)
	return b.String()
}

func canon(b *strings.Builder, o py.Object, depth int) {
	if depth > 8 {
		b.WriteString("<deep>")
		return
	}
	switch v := o.(type) {
	case nil:
		b.WriteString("<nil>")
	case py.NoneType:
		b.WriteString("None")
	case py.Bool:
		if v {
			b.WriteString("True")
		} else {
			b.WriteString("False")
		}
	case py.Int:
		fmt.Fprintf(b, "%d", int64(v))
	case *py.BigInt:
		b.WriteString((*big.Int)(v).String())
	case py.Float:
		b.WriteString(CanonFloat(float64(v)))
	case py.Complex:
		b.WriteString("complex(" + CanonFloat(real(complex128(v))) + "," + CanonFloat(imag(complex128(v))) + ")")
	case py.String:
		b.WriteString(CanonStr(string(v)))
	case py.Bytes:
		fmt.Fprintf(b, "b%q", string(v))
	case py.Tuple:
		b.WriteByte('(')
		for i, x := range v {
			if i > 0 {
				b.WriteByte(',')
			}
			canon(b, x, depth+1)
		}
		b.WriteByte(')')
	case *py.List:
		b.WriteByte('[')
		for i, x := range v.Items {
			if i > 0 {
				b.WriteByte(',')
			}
			canon(b, x, depth+1)
		}
		b.WriteByte(']')
	case py.StringDict:
		ks := make([]string, 0, len(v))
		for k := range v {
			ks = append(ks, k)
		}
		sort.Strings(ks)
		b.WriteByte('{')
		for i, k := range ks {
			if i > 0 {
				b.WriteByte(',')
			}
			b.WriteString(CanonStr(k))
			b.WriteByte(':')
			canon(b, v[k], depth+1)
		}
		b.WriteByte('}')
	case *py.Set:
		canonSet(b, "set", v, depth)
	case *py.FrozenSet:
		canonSet(b, "frozenset", v, depth)
	case *py.Type:
		b.WriteString("<class " + v.Name + ">")
	case *py.Range:
		fmt.Fprintf(b, "range(%d,%d,%d)", v.Start, v.Stop, v.Step)
	case *py.Exception:
		b.WriteString("<exc " + v.Base.Name + ">")
	default:
		b.WriteString("<" + o.Type().Name + ">")
	}
}

func canonSet(b *strings.Builder, name string, s py.Object, depth int) {
	var items []string
	it, err := py.Iter(s)
	if err == nil {
		for {
			x, err := py.Next(it)
			if err != nil {
				break
			}
			var ib strings.Builder
			canon(&ib, x, depth+1) // depth carried on: a set may (indirectly) contain itself
			items = append(items, ib.String())
		}
	}
	sort.Strings(items)
	b.WriteString(name + "{" + strings.Join(items, ",") + "}")
}

// CanonFloat prints a float by value class and bits (never through gpython).
func CanonFloat(f float64) string {
	switch {
	case math.IsNaN(f):
		return "float:nan"
	case math.IsInf(f, 1):
		return "float:inf"
	case math.IsInf(f, -1):
		return "float:-inf"
	case f == 0 && math.Signbit(f):
		return "float:-0"
	}
	return fmt.Sprintf("float:%s", fmtG(f))
}

func fmtG(f float64) string {
	return strings.TrimSuffix(fmt.Sprintf("%v", f), "")
}

// CanonStr renders a string by code points.
func CanonStr(s string) string {
	var b strings.Builder
	b.WriteByte('\'')
	for _, r := range s {
		if r >= 0x20 && r < 0x7f && r != '\'' && r != '\\' {
			b.WriteRune(r)
		} else {
			fmt.Fprintf(&b, "\\u{%x}", r)
		}
	}
	b.WriteByte('\'')
	return b.String()
}

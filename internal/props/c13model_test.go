package props

import (
	"bufio"
	"fmt"
	"os"
	"testing"
)

// TestC13ModelDump writes the C13 reference model's answers for list get / del / set over
// the whole index alphabet as Python-evaluable lines, for scripts/c13_crosscheck.py to
// compare with CPython (the model must agree with a real Python wherever 3.4 == 3.11).
// Skipped unless C13_DUMP names the output file.
func TestC13ModelDump(t *testing.T) {
	path := os.Getenv("C13_DUMP")
	if path == "" {
		t.Skip("C13_DUMP not set")
	}
	f, err := os.Create(path)
	if err != nil {
		t.Fatal(err)
	}
	defer f.Close()
	w := bufio.NewWriter(f)
	defer w.Flush()
	ix := c13Alphabet()
	pr := func(e []int64, exc string) string {
		if exc != "" {
			return exc
		}
		return c13elems(e)
	}
	for n := 0; n <= 5; n++ {
		s := c13mk("list", n)
		for _, a := range ix {
			for _, b := range ix {
				for _, c := range ix {
					sl := fmt.Sprintf("slice(%s,%s,%s)", a.src, b.src, c.src)
					e, exc := c13GetSlice(s.e, a, b, c)
					fmt.Fprintf(w, "G|%s|%s|-|%s\n", s.lit(), sl, pr(e, exc))
					e, exc = c13DelSlice(s.e, a, b, c)
					fmt.Fprintf(w, "D|%s|%s|-|%s\n", s.lit(), sl, pr(e, exc))
					for k := 0; k <= 3; k++ {
						r := c13listRepl(k)
						e, exc = c13SetSlice(s.e, a, b, c, r.e)
						fmt.Fprintf(w, "S|%s|%s|%s|%s\n", s.lit(), sl, r.src, pr(e, exc))
					}
				}
			}
		}
		for _, a := range ix {
			if a.none {
				continue
			}
			p, exc := c13Item(n, a.v)
			if exc != "" {
				fmt.Fprintf(w, "I|%s|%s|-|%s\n", s.lit(), a.src, exc)
			} else {
				fmt.Fprintf(w, "I|%s|%s|-|%d\n", s.lit(), a.src, s.e[p])
			}
		}
	}
}

package props

import (
	"fmt"
	"strconv"
	"strings"

	"github.com/go-python/gpython/py"
	"verif/internal/core"
	"verif/internal/harness"
)

// C05: generators are lazy and resumable; iteration ends only on StopIteration.
//
// Part (a) (this file): explicit-state search over histories of next()/send() on one or two
// live generators, for every generator shape of a small statement DSL, against a
// coroutine-style reference interpreter. Part (b) (c05b.go): consumers x producers.

// ---- the generator DSL ----

type gk byte

const (
	gY gk = iota // yield T
	gX           // x = yield T ; vh.log(T, x)
	gG           // vh.log(T, x)
	gR           // return T
	gE           // raise ValueError
	gL           // for i in range(2): body
	gT           // try: body  finally: vh.log(T, x)
	gF           // yield from child()
	gV           // x = yield from child() ; vh.log(T, x)
	gI           // yield from [T, T+50]   (a delegate that is not a generator: no send())
	gW           // try: body  finally: x = yield T ; vh.log(T, x)   (suspension inside the finally clause)
	gQ           // return (T, T+1)   (a tuple as return value: it is the value, not the argument list, of StopIteration)
	gZ           // return ()
)

type gitem struct {
	k    gk
	id   int
	body []*gitem // loop body / try body / body of the child generator function
}

func (it *gitem) terminal() bool { return it.k == gR || it.k == gE || it.k == gQ || it.k == gZ }

// compact, regexp friendly spelling of a shape: Y X G R E L[..] T[..] F(..) V(..)
func gstr(items []*gitem) string {
	var parts []string
	for _, it := range items {
		switch it.k {
		case gY:
			parts = append(parts, "Y")
		case gX:
			parts = append(parts, "X")
		case gG:
			parts = append(parts, "G")
		case gR:
			parts = append(parts, "R")
		case gE:
			parts = append(parts, "E")
		case gQ:
			parts = append(parts, "Q")
		case gZ:
			parts = append(parts, "Z")
		case gI:
			parts = append(parts, "I")
		case gL:
			parts = append(parts, "L["+gstr(it.body)+"]")
		case gT:
			parts = append(parts, "T["+gstr(it.body)+"]")
		case gW:
			parts = append(parts, "W["+gstr(it.body)+"]")
		case gF:
			parts = append(parts, "F("+gstr(it.body)+")")
		case gV:
			parts = append(parts, "V("+gstr(it.body)+")")
		}
	}
	return strings.Join(parts, " ")
}

func gHas(items []*gitem, k gk) bool {
	for _, it := range items {
		if it.k == k || gHas(it.body, k) {
			return true
		}
	}
	return false
}

func gclone(items []*gitem) []*gitem {
	out := make([]*gitem, len(items))
	for i, it := range items {
		c := *it
		c.body = gclone(it.body)
		out[i] = &c
	}
	return out
}

// gnumber gives every item a unique id (depth first, textual order) starting at *next.
func gnumber(items []*gitem, next *int) {
	for _, it := range items {
		it.id = *next
		*next++
		gnumber(it.body, next)
	}
}

// ---- enumeration of all shapes with exactly n items ----

type genum struct {
	bodies    map[int][][]*gitem
	withI     bool
	withTuple bool // return (T, T+1) / return () instead of return T / raise
}

// items of total size s (the item itself counts 1)
func (e *genum) items(s int) []*gitem {
	if s == 1 {
		if e.withI {
			return []*gitem{{k: gY}, {k: gX}, {k: gI}, {k: gG}, {k: gR}, {k: gE}}
		}
		if e.withTuple {
			return []*gitem{{k: gY}, {k: gX}, {k: gG}, {k: gQ}, {k: gZ}}
		}
		return []*gitem{{k: gY}, {k: gX}, {k: gG}, {k: gR}, {k: gE}}
	}
	var out []*gitem
	for _, b := range e.all(s - 1) {
		for _, k := range []gk{gL, gT, gW, gF, gV} {
			out = append(out, &gitem{k: k, body: b})
		}
	}
	return out
}

// all statement lists of total size exactly n; return/raise only as the last statement of a list
func (e *genum) all(n int) [][]*gitem {
	if b, ok := e.bodies[n]; ok {
		return b
	}
	var out [][]*gitem
	for s := 1; s <= n; s++ {
		for _, it := range e.items(s) {
			if s == n {
				out = append(out, []*gitem{it})
				continue
			}
			if it.terminal() {
				continue
			}
			for _, rest := range e.all(n - s) {
				out = append(out, append([]*gitem{it}, rest...))
			}
		}
	}
	e.bodies[n] = out
	return out
}

// ---- rendering ----

func gOwnYield(items []*gitem) bool {
	for _, it := range items {
		switch it.k {
		case gY, gX, gF, gV, gI, gW:
			return true
		case gL, gT:
			if gOwnYield(it.body) {
				return true
			}
		}
	}
	return false
}

func gTagExpr(id, depth int) string {
	s := itoa(id)
	m := 100
	for d := 1; d <= depth; d++ {
		s += fmt.Sprintf("+%d*i%d", m, d)
		m *= 10
	}
	return s
}

// gRenderFn appends the definition of generator function name (children first).
func gRenderFn(name string, body []*gitem, defs *[]string) {
	var b strings.Builder
	b.WriteString("def " + name + "():\n    x = 0\n")
	if !gOwnYield(body) {
		b.WriteString("    if False:\n        yield\n")
	}
	gRenderItems(&b, name, 1, 0, body, defs)
	*defs = append(*defs, b.String())
}

func gRenderItems(b *strings.Builder, fn string, ind, depth int, items []*gitem, defs *[]string) {
	pad := strings.Repeat("    ", ind)
	for _, it := range items {
		t := gTagExpr(it.id, depth)
		switch it.k {
		case gY:
			b.WriteString(pad + "yield " + t + "\n")
		case gX:
			b.WriteString(pad + "x = yield " + t + "\n")
			b.WriteString(pad + "vh.log(" + t + ", x)\n")
		case gI:
			b.WriteString(pad + "yield from [" + t + ", " + t + "+50]\n")
		case gG:
			b.WriteString(pad + "vh.log(" + t + ", x)\n")
		case gR:
			b.WriteString(pad + "return " + t + "\n")
		case gE:
			b.WriteString(pad + "raise ValueError\n")
		case gQ:
			b.WriteString(pad + "return (" + t + ", " + t + " + 1)\n")
		case gZ:
			b.WriteString(pad + "return ()\n")
		case gL:
			b.WriteString(pad + fmt.Sprintf("for i%d in range(2):\n", depth+1))
			gRenderItems(b, fn, ind+1, depth+1, it.body, defs)
		case gT:
			b.WriteString(pad + "try:\n")
			gRenderItems(b, fn, ind+1, depth, it.body, defs)
			b.WriteString(pad + "finally:\n")
			b.WriteString(pad + "    vh.log(" + t + ", x)\n")
		case gW:
			b.WriteString(pad + "try:\n")
			gRenderItems(b, fn, ind+1, depth, it.body, defs)
			b.WriteString(pad + "finally:\n")
			b.WriteString(pad + "    x = yield " + t + "\n")
			b.WriteString(pad + "    vh.log(" + t + ", x)\n")
		case gF, gV:
			child := fmt.Sprintf("%s_c%d", fn, it.id)
			gRenderFn(child, it.body, defs)
			if it.k == gF {
				b.WriteString(pad + "yield from " + child + "()\n")
			} else {
				b.WriteString(pad + "x = yield from " + child + "()\n")
				b.WriteString(pad + "vh.log(" + t + ", x)\n")
			}
		}
	}
}

// ---- reference interpreter (coroutine by replay: the k-th yield consumes the k-th sent value) ----

type gframe struct {
	x     string
	loops []int
}

const (
	oNorm = iota
	oRet
	oRaise
	oSusp
)

type gout struct {
	k int
	v string
}

type gmodel struct {
	tape   []string // values sent by the resumptions so far (tape[0] starts the generator)
	tp     int
	ev     []string
	path   []int
	frames []*gframe
	susp   string
	pend   []string // outcomes pending while finally clauses run
}

func gTag(it *gitem, f *gframe) string {
	n := it.id
	m := 100
	for _, i := range f.loops {
		n += m * i
		m *= 10
	}
	return itoa(n)
}

// yield: the resumption in progress ends here with value v; the next sent value (if the
// history has one) becomes the value of the yield expression.
func (m *gmodel) yield(v string) (string, bool) {
	m.ev = append(m.ev, "('Y',"+v+")")
	if m.tp < len(m.tape) {
		s := m.tape[m.tp]
		m.tp++
		return s, true
	}
	var b strings.Builder
	fmt.Fprint(&b, m.path)
	for _, f := range m.frames {
		b.WriteString("|" + f.x)
	}
	fmt.Fprint(&b, m.pend)
	m.susp = b.String()
	return "", false
}

func (m *gmodel) block(items []*gitem, f *gframe) gout {
	for j, it := range items {
		m.path = append(m.path, j)
		o := m.item(it, f)
		if o.k == oSusp {
			return o
		}
		m.path = m.path[:len(m.path)-1]
		if o.k != oNorm {
			return o
		}
	}
	return gout{}
}

func (m *gmodel) item(it *gitem, f *gframe) gout {
	switch it.k {
	case gY:
		if _, ok := m.yield(gTag(it, f)); !ok {
			return gout{k: oSusp}
		}
	case gX:
		s, ok := m.yield(gTag(it, f))
		if !ok {
			return gout{k: oSusp}
		}
		f.x = s
		m.ev = append(m.ev, "("+gTag(it, f)+","+f.x+")")
	case gI:
		// a list iterator has no send(): next() steps it, a sent value other than None
		// fails inside the generator (AttributeError), which ends the generator
		t, _ := strconv.Atoi(gTag(it, f))
		for _, v := range []int{t, t + 50} {
			s, ok := m.yield(itoa(v))
			if !ok {
				return gout{k: oSusp}
			}
			if s != "None" {
				return gout{k: oRaise, v: "AttributeError"}
			}
		}
	case gG:
		m.ev = append(m.ev, "("+gTag(it, f)+","+f.x+")")
	case gR:
		return gout{k: oRet, v: gTag(it, f)}
	case gE:
		return gout{k: oRaise, v: "ValueError"}
	case gQ:
		t, _ := strconv.Atoi(gTag(it, f))
		return gout{k: oRet, v: "(" + itoa(t) + "," + itoa(t+1) + ")"}
	case gZ:
		return gout{k: oRet, v: "()"}
	case gL:
		for i := 0; i < 2; i++ {
			f.loops = append(f.loops, i)
			m.path = append(m.path, i)
			o := m.block(it.body, f)
			if o.k == oSusp {
				return o
			}
			f.loops = f.loops[:len(f.loops)-1]
			m.path = m.path[:len(m.path)-1]
			if o.k != oNorm {
				return o
			}
		}
	case gT:
		o := m.block(it.body, f)
		if o.k == oSusp {
			return o // a suspended generator does not run its pending finally
		}
		m.ev = append(m.ev, "("+gTag(it, f)+","+f.x+")")
		return o
	case gW:
		o := m.block(it.body, f)
		if o.k == oSusp {
			return o
		}
		// the finally clause suspends the generator while the way the body ended (fell
		// through, return value, exception) is pending; it takes effect after the clause
		m.path = append(m.path, -1-o.k)
		m.pend = append(m.pend, fmt.Sprintf("%d:%s", o.k, o.v))
		s, ok := m.yield(gTag(it, f))
		if !ok {
			return gout{k: oSusp}
		}
		m.path = m.path[:len(m.path)-1]
		m.pend = m.pend[:len(m.pend)-1]
		f.x = s
		m.ev = append(m.ev, "("+gTag(it, f)+","+f.x+")")
		return o
	case gF, gV:
		cf := &gframe{x: "0"}
		m.frames = append(m.frames, cf)
		o := m.block(it.body, cf)
		if o.k == oSusp {
			return o // every next/send goes to the child while it is live
		}
		m.frames = m.frames[:len(m.frames)-1]
		val := "None"
		switch o.k {
		case oRaise:
			return o
		case oRet:
			val = o.v
		}
		if it.k == gV {
			f.x = val
			m.ev = append(m.ev, "("+gTag(it, f)+","+f.x+")")
		}
	}
	return gout{}
}

// ginst is one live generator of the model.
type ginst struct {
	body    []*gitem
	tape    []string
	state   byte // 'U' not started, 'S' suspended, 'X' exhausted
	nfail   int  // refused sends while not started (saturating)
	nx      int  // resumptions after exhaustion (saturating)
	xkind   int
	emitted int
	key     string
}

func sat(n int) int {
	if n >= 2 {
		return 2
	}
	return n + 1
}

// op resumes the generator with value v ("None" for next()); returns what is logged,
// the last entry being the marker of how the resumption ended.
func (g *ginst) op(v string) []string {
	switch g.state {
	case 'U':
		if v != "None" {
			g.nfail = sat(g.nfail)
			return []string{"('E',<exc TypeError>)"}
		}
	case 'X':
		g.nx = sat(g.nx)
		return []string{"('S',(),None)"}
	}
	g.tape = append(g.tape, v)
	m := &gmodel{tape: g.tape, tp: 1}
	f := &gframe{x: "0"}
	m.frames = []*gframe{f}
	o := m.block(g.body, f)
	delta := append([]string{}, m.ev[g.emitted:]...)
	g.emitted = len(m.ev)
	switch o.k {
	case oSusp:
		g.state, g.key = 'S', m.susp
		return delta
	case oNorm:
		delta = append(delta, "('S',(),None)")
	case oRet:
		delta = append(delta, "('S',("+o.v+"),"+o.v+")")
	case oRaise:
		delta = append(delta, "('E',<exc "+o.v+">)")
	}
	g.state, g.xkind = 'X', o.k
	return delta
}

func (g *ginst) stateKey() string {
	switch g.state {
	case 'U':
		return "U" + itoa(g.nfail)
	case 'X':
		return fmt.Sprintf("X%d.%d", g.xkind, g.nx)
	}
	return "S" + g.key
}

// ---- histories ----

type gop struct {
	g    int  // which generator
	kind byte // 'n' next(g), 's' g.send(7), 'z' g.send(None), 'r' retire g: a fresh generator of the same function takes its place, then next() on the retired one
}

func (o gop) sent() string {
	if o.kind == 's' {
		return "7"
	}
	return "None"
}

func histStr(h []gop) string {
	var b strings.Builder
	for i, o := range h {
		if i > 0 {
			b.WriteByte(' ')
		}
		b.WriteByte(o.kind)
		b.WriteByte(byte('a' + o.g))
	}
	return b.String()
}

// simulate replays a history on fresh model generators.
func gSimulate(shapes [][]*gitem, h []gop) (ev []string, key string) {
	insts := make([]*ginst, len(shapes))
	for i, s := range shapes {
		insts[i] = &ginst{body: s, state: 'U'}
	}
	for _, o := range h {
		if o.kind == 'r' {
			// a generator's state is its own: making another one of the same function changes
			// nothing for it, in particular an exhausted one stays exhausted
			old := insts[o.g]
			insts[o.g] = &ginst{body: shapes[o.g], state: 'U'}
			ev = append(ev, old.op("None")...)
			continue
		}
		ev = append(ev, insts[o.g].op(o.sent())...)
	}
	for _, in := range insts {
		key += in.stateKey() + ";"
	}
	return
}

const c05Prelude = `
def op(g, s, v):
    try:
        if s:
            r = g.send(v)
        else:
            r = next(g)
    except StopIteration as e:
        vh.log('S', e.args, e.value)
    except BaseException as e:
        vh.log('E', e)
    else:
        vh.log('Y', r)
`

type c05 struct {
	rc   *core.RunCtx
	ev   *evaluator
	base py.StringDict
	lg   *harness.Log
	// globals holding the definitions of the shape(s) under exploration (built lazily)
	shapeG   py.StringDict
	shapeSrc string
}

func newC05(rc *core.RunCtx, prelude string) *c05 {
	c := &c05{rc: rc, ev: newEvaluator()}
	g, err := c.ev.Exec(prelude)
	if err != nil {
		panic("c05 prelude: " + err.Error())
	}
	c.base = g
	c.lg = &harness.Log{}
	c.ev.vh.Globals["__vhlog__"] = c.lg
	return c
}

// exec runs src (exec mode) in a copy of base; returns the globals, the log and the error.
func (c *c05) exec(base py.StringDict, src string) (py.StringDict, []string, error) {
	c.lg.Entries = nil
	code, err := py.Compile(src, "<c05>", py.ExecMode, 0, true)
	if err != nil {
		return nil, nil, err
	}
	g := base.Copy()
	_, err = c.ev.ctx.RunCode(code, g, g, nil)
	return g, c.lg.Entries, err
}

func c05Class(s string) string {
	switch {
	case s == "":
		return "nothing"
	case strings.HasPrefix(s, "('Y',"):
		return "yield"
	case s == "('S',(),None)":
		return "StopIteration()"
	case strings.HasPrefix(s, "('S',"):
		return "StopIteration(v)"
	case strings.HasPrefix(s, "('E',<exc "):
		return strings.TrimSuffix(strings.TrimPrefix(s, "('E',<exc "), ">)")
	case strings.HasPrefix(s, "('E',"):
		return "exc-other"
	}
	return "log"
}

// c05Diff classifies the first difference of two traces.
func c05Diff(exp, got []string) string {
	for i := 0; i < len(exp) || i < len(got); i++ {
		e, g := "", ""
		if i < len(exp) {
			e = exp[i]
		}
		if i < len(got) {
			g = got[i]
		}
		if e == g {
			continue
		}
		ce, cg := c05Class(e), c05Class(g)
		if ce == cg {
			return "wrong-" + ce + "-value"
		}
		return "expected-" + ce + "-got-" + cg
	}
	return ""
}

func c05ExcArgs(err error) py.Object {
	switch e := err.(type) {
	case py.ExceptionInfo:
		if x, ok := e.Value.(*py.Exception); ok {
			return x.Args
		}
	case *py.ExceptionInfo:
		return c05ExcArgs(*e)
	case *py.Exception:
		return e.Args
	}
	return py.Tuple{}
}

func c05Marker(res py.Object, err error) string {
	if err == nil {
		return "('Y'," + harness.Canon(res) + ")"
	}
	if py.IsException(py.StopIteration, err) {
		a := c05ExcArgs(err)
		if a == nil {
			a = py.Tuple{}
		}
		// .value as Python defines it: the first argument or None
		var v py.Object = py.None
		if t, ok := a.(py.Tuple); ok && len(t) > 0 {
			v = t[0]
		}
		return "('S'," + harness.Canon(a) + "," + harness.Canon(v) + ")"
	}
	t, _, _, _ := harness.ExcInfo(err)
	return "('E',<exc " + t + ">)"
}

// ---- part (a) driver ----

type gtuple struct {
	shapes [][]*gitem // 1 or 2 generators
	same   bool       // two instances of one generator function
}

type gplan struct {
	part     string
	tuples   []gtuple
	ops      []byte
	maxDepth int
}

func withField(f core.Fields, k, v string) core.Fields {
	out := core.Fields{}
	for a, b := range f {
		out[a] = b
	}
	out[k] = v
	return out
}

func c05Plans(quick bool) []gplan {
	en := &genum{bodies: map[int][][]*gitem{}}
	upto := func(n int) [][]*gitem {
		var out [][]*gitem
		for s := 1; s <= n; s++ {
			for _, b := range en.all(s) {
				out = append(out, b)
			}
		}
		return out
	}
	single := func(n int) []gtuple {
		var out []gtuple
		for _, b := range upto(n) {
			out = append(out, gtuple{shapes: [][]*gitem{b}})
		}
		return out
	}
	// pairs: every shape of <= na items with every shape of <= nb items (both orders are
	// covered by the interleavings), plus two instances of one function for every shape <= ns
	pairs := func(na, nb, ns int) []gtuple {
		var out []gtuple
		for _, a := range upto(ns) {
			out = append(out, gtuple{shapes: [][]*gitem{a, a}, same: true})
		}
		for _, a := range upto(na) {
			for _, b := range upto(nb) {
				out = append(out, gtuple{shapes: [][]*gitem{a, b}})
			}
		}
		return out
	}
	// shapes that delegate to a list iterator (at least one I item)
	enI := &genum{bodies: map[int][][]*gitem{}, withI: true}
	singleI := func(n int) []gtuple {
		var out []gtuple
		for s := 1; s <= n; s++ {
			for _, b := range enI.all(s) {
				if gHas(b, gI) {
					out = append(out, gtuple{shapes: [][]*gitem{b}})
				}
			}
		}
		return out
	}
	// shapes that return a tuple (at least one Q or Z item)
	enT := &genum{bodies: map[int][][]*gitem{}, withTuple: true}
	singleT := func(n int) []gtuple {
		var out []gtuple
		for s := 1; s <= n; s++ {
			for _, b := range enT.all(s) {
				if gHas(b, gQ) || gHas(b, gZ) {
					out = append(out, gtuple{shapes: [][]*gitem{b}})
				}
			}
		}
		return out
	}
	var plans []gplan
	if quick {
		plans = []gplan{
			{"a1", single(4), []byte{'n', 's', 'z'}, 6},
			{"a1r", single(3), []byte{'n', 's', 'r'}, 5},
			{"a2", pairs(2, 2, 3), []byte{'n', 's'}, 6},
			{"a3", singleI(3), []byte{'n', 's', 'z'}, 6},
			{"a4", singleT(3), []byte{'n', 's'}, 5},
		}
	} else {
		plans = []gplan{
			{"a1", single(5), []byte{'n', 's', 'z'}, 8},
			{"a1r", single(4), []byte{'n', 's', 'r'}, 7},
			{"a2r", pairs(2, 2, 3), []byte{'n', 'r'}, 6},
			{"a2", pairs(3, 2, 4), []byte{'n', 's'}, 8},
			{"a3", singleI(4), []byte{'n', 's', 'z'}, 8},
			{"a4", singleT(4), []byte{'n', 's'}, 6},
		}
	}
	return plans
}

func c05PartA(c *c05) {
	rc := c.rc
	plans := c05Plans(rc.Quick())
	for _, pl := range plans {
		rc.Part = pl.part
		for _, tuple := range pl.tuples {
			if rc.Expired() || rc.Done() {
				return
			}
			c05Explore(c, pl, tuple)
		}
	}
}

// gcase is one transition of the search: a history (the last operation is the new one)
// on fresh generators of a shape tuple, with the model's trace and successor state.
type gcase struct {
	defSrc   string // definitions of the generator functions
	shapeStr string
	fn       []string // function creating generator i
	h        []gop
	exp      []string
	key      string
	isNew    bool // the successor state was not seen before
	first    bool // first transition of this tuple
}

// program of the compiled-Python access path
func (gc *gcase) program() string {
	var pb strings.Builder
	for i := range gc.fn {
		fmt.Fprintf(&pb, "%c = %s()\n", 'a'+i, gc.fn[i])
	}
	for _, x := range gc.h {
		switch x.kind {
		case 'n':
			fmt.Fprintf(&pb, "op(%c, 0, None)\n", 'a'+x.g)
		case 's':
			fmt.Fprintf(&pb, "op(%c, 1, 7)\n", 'a'+x.g)
		case 'z':
			fmt.Fprintf(&pb, "op(%c, 1, None)\n", 'a'+x.g)
		case 'r':
			fmt.Fprintf(&pb, "t = %c\n%c = %s()\nop(t, 0, None)\n", 'a'+x.g, 'a'+x.g, gc.fn[x.g])
		}
	}
	return pb.String()
}

// c05Walk is the breadth-first search over the model's state space of one shape tuple;
// visit is called once per transition, in a fixed order.
func c05Walk(pl gplan, tup gtuple, stop func() bool, visit func(gc *gcase)) {
	tuple := tup.shapes
	// private numbered copies; two instances of one function share the copy
	shapes := make([][]*gitem, len(tuple))
	names := []string{"g", "h"}
	fn := make([]string, len(tuple))
	var defs []string
	var shapeStrs []string
	for i, s := range tuple {
		if i == 1 && tup.same {
			shapes[1], fn[1] = shapes[0], fn[0]
			shapeStrs = append(shapeStrs, "same")
			continue
		}
		cp := gclone(s)
		next := 1 + 50*i
		gnumber(cp, &next)
		shapes[i], fn[i] = cp, names[i]
		gRenderFn(names[i], cp, &defs)
		shapeStrs = append(shapeStrs, gstr(cp))
	}
	defSrc := strings.Join(defs, "")
	shapeStr := strings.Join(shapeStrs, " || ")

	var ops []gop
	for gi := range shapes {
		for _, k := range pl.ops {
			ops = append(ops, gop{gi, k})
		}
	}
	_, k0 := gSimulate(shapes, nil)
	visited := map[string]bool{k0: true}
	queue := [][]gop{nil}
	first := true
	for len(queue) > 0 {
		h := queue[0]
		queue = queue[1:]
		for _, o := range ops {
			if stop() {
				return
			}
			h2 := append(append([]gop{}, h...), o)
			exp, key := gSimulate(shapes, h2)
			isNew := !visited[key]
			if isNew {
				visited[key] = true
				if len(h2) < pl.maxDepth {
					queue = append(queue, h2)
				}
			}
			visit(&gcase{defSrc: defSrc, shapeStr: shapeStr, fn: fn, h: h2, exp: exp, key: key, isNew: isNew, first: first})
			first = false
		}
	}
}

func c05Explore(c *c05, pl gplan, tup gtuple) {
	rc := c.rc
	c05Walk(pl, tup, func() bool { return rc.Expired() || rc.Done() }, func(gc *gcase) {
		if !rc.Take() {
			return
		}
		rc.Count("transitions", 1)
		if gc.isNew {
			rc.Count("states", 1)
		}
		if gc.first {
			rc.Count("states", 1) // the initial state
			rc.Count("shape_tuples", 1)
		}
		h2, exp, defSrc, fn := gc.h, gc.exp, gc.defSrc, gc.fn
		rc.Count("max_history", int64(len(h2)))
		hs := histStr(h2)
		prog := gc.program()
		fields := core.Fields{"part": pl.part, "shape": gc.shapeStr, "hist": hs, "last": string(h2[len(h2)-1].kind)}
		input := func() string { return defSrc + prog }
		rc.Guard(fields, input, func() {
			if c.shapeSrc != defSrc {
				g, _, err := c.exec(c.base, defSrc)
				if err != nil {
					t, _, msg, _ := harness.ExcInfo(err)
					rc.Eval("definition-error", "")
					rc.Deviate(core.Deviation{Fields: fields, Input: defSrc, Expected: "the definitions compile and run",
						Observed: t + ": " + msg, Sig: "gen:definition-error:" + t})
					return
				}
				c.shapeG, c.shapeSrc = g, defSrc
			}
			last := exp[len(exp)-1]
			nt := ""
			if len(exp) > 1 {
				nt = gc.shapeStr + "#" + hs
			}
			rc.Eval(c05Class(last), nt)
			if rc.WantSample() && rc.Index()%20011 == 0 {
				rc.Sample(map[string]interface{}{"definitions": defSrc, "history": prog, "expected_trace": exp, "state": gc.key})
			}
			expS := strings.Join(exp, " ")
			// (1) compiled Python: next(g) / g.send(v) / except StopIteration as e
			_, log, err := c.exec(c.shapeG, prog)
			if err != nil {
				t, _, msg, _ := harness.ExcInfo(err)
				rc.Deviate(core.Deviation{Fields: withField(fields, "path", "py"), Input: input(), Expected: expS,
					Observed: "program failed: " + t + ": " + short(msg, 80) + " log=" + strings.Join(log, " "), Sig: "gen:py:program-error:" + t})
			} else if d := c05Diff(exp, log); d != "" {
				rc.Deviate(core.Deviation{Fields: withField(fields, "path", "py"), Input: input(), Expected: expS, Observed: strings.Join(log, " "), Sig: "gen:py:" + d})
			}
			// (2) Go API: py.Call / py.Next / py.Send on the generator objects
			c.lg.Entries = nil
			gens := make([]py.Object, len(fn))
			for i := range fn {
				gobj, err := py.Call(c.shapeG[fn[i]], nil, nil)
				if err != nil {
					panic(err)
				}
				gens[i] = gobj
			}
			for _, x := range h2 {
				var res py.Object
				var err error
				switch x.kind {
				case 'n':
					res, err = py.Next(gens[x.g])
				case 's':
					res, err = py.Send(gens[x.g], py.Int(7))
				case 'z':
					res, err = py.Send(gens[x.g], py.None)
				case 'r':
					old := gens[x.g]
					gobj, cerr := py.Call(c.shapeG[fn[x.g]], nil, nil)
					if cerr != nil {
						panic(cerr)
					}
					gens[x.g] = gobj
					res, err = py.Next(old)
				}
				c.lg.Entries = append(c.lg.Entries, c05Marker(res, err))
			}
			if d := c05Diff(exp, c.lg.Entries); d != "" {
				rc.Deviate(core.Deviation{Fields: withField(fields, "path", "go"), Input: input(), Expected: expS, Observed: strings.Join(c.lg.Entries, " "), Sig: "gen:go:" + d})
			}
		})
	})
}

func c05Run(rc *core.RunCtx) {
	c := newC05(rc, c05Prelude)
	c05PartA(c)
	if rc.Expired() || rc.Done() {
		return
	}
	c05PartB(rc)
	if rc.Expired() || rc.Done() {
		return
	}
	c05PartC(rc)
	if rc.Expired() || rc.Done() {
		return
	}
	c05PartD(rc)
	if rc.Expired() || rc.Done() {
		return
	}
	c05PartE(rc)
}

func init() {
	core.Register(&core.Check{
		ID:    "C05",
		Level: "model_checking",
		Rule: "(a) explicit-state breadth-first search over histories of {next(g), g.send(7), g.send(None)} on one live generator (history <= 6 / 8) and of {next, send(7)} on two live generators (two instances of one function, or two functions), for EVERY generator function of a statement DSL with <= 4 (quick) / <= 5 (thorough) items (plus, with the item `yield from [T, T+50]` (no send(): AttributeError inside the generator), every shape containing it with <= 3 / <= 4 items; plus, with `return (T, T+1)` and `return ()` in place of `return T` / raise, every shape containing one with <= 3 / <= 4 items: a tuple is the value carried by StopIteration and the value of `yield from`, not its argument list) " +
			"(pairs: <= 2 x <= 2 items and same-function pairs <= 3 / <= 3 x <= 2 and <= 4): items {yield T, x = yield T; log(T, x), log(T, x), return T, raise ValueError, for i in range(2): body, try: body finally: log(T, x), try: body finally: x = yield T; log(T, x) (suspension inside the finally clause while a return value or an exception is pending), yield from child(), x = yield from child(); log(T, x)}, child = a nested shape, T = item id + 100*loop indices; return/raise only last in a block. " +
			"Model: coroutine-style interpreter in Go (trace of log entries between resumptions; sent value = value of the yield expression; send(non-None) before the start = TypeError and the generator can still be started; return v = StopIteration with args (v,), falling off = args (); raised = exhausted; exhausted stays exhausted (twice); finally runs at completion/raise, not at suspension; yield from forwards next/send and evaluates to the child's return value). " +
			"State = (position path, loop indices, x of every live frame, started/exhausted+cause); successors by replay of the history on fresh generators plus one operation; each transition is executed through compiled Python (next()/send()/except StopIteration as e: e.args, e.value) AND through the Go API (py.Call, py.Next, py.Send). " +
			"(b) full product of 52 consumers (for/else, for+break, for in a function, list/set/dict/nested comprehension, generator expression under list() and tuple(), unpack 2/3, a,*b and *a,b, f(*it), list, tuple, set, bytes, sum (with/without start), min, max, sorted (plain/reverse), zip (it first/second x long/short partner), map (1 and 2 iterables), filter (None, function), enumerate, any, all, in (found/absent), not in, str.join, list.extend, list +=, next(it, default), while/next()/except StopIteration, made-but-unconsumed then one step of map/zip/filter/enumerate/genexp, py.SequenceTuple/SequenceList/SequenceSet/Iterate from Go) x 183 producers {generator function, class with __iter__/__next__, class with only __getitem__, each also behind map(f, zip(p, range(5))), map with a raising function over a list: failure position 0-2 x raised {StopIteration, StopIteration(), StopIteration(9), ValueError, KeyError, IndexError, Exception (base class of StopIteration), LookupError (base class of IndexError)} or no failure; list iterator and range of length 0-3}; every user producer logs each step; the model predicts the result, the escaping exception type and the exact sequence of producer steps (IndexError ends only the __getitem__ protocol). Both models agree with CPython 3.11 on every case outside PEP 479 (scripts/c05_crosscheck.py). " +
			"(c) a generator that tries to resume itself (next / send, 1-3 attempts per activation, 1-3 activations, driven by next or send): every attempt is refused with ValueError and nothing else changes. " +
			"(d) 9 lazy wrappers (iter, map, filter, enumerate, zip with the producer first / second, generator expression, map over zip, enumerate over zip) stepped 6 times with next(), every outcome recorded, x producers {generator, class with __next__ (carries on after raising), map over a raising function (carries on), list, range} x failure position x raised class: the model gives every step's value or exception and the producer's step log - a wrapper never ends on anything but StopIteration, never stays ended on its own account, and loses exactly the items Python loses.",
		Run: c05Run,
		Assumptions: []string{
			"Python 3.4 semantics: no PEP 479, a StopIteration raised in a generator body ends the generator",
			"generator.throw/close are stubs (NotImplementedError) and not part of the statement",
			"exception messages are not compared, only types",
			"visited-state pruning assumes the model state determines the implementation state; exhausted / not-started states carry a saturating counter so that repeated operations on them are explored twice",
		},
		Explanation: "explicit-state search over next/send histories against a reference coroutine interpreter, plus the full consumer x producer x failure product with step-exact logs",
	})
}

//go:build verifov

package props

import (
	"fmt"
	"regexp"
	"sort"
	"strings"

	"github.com/go-python/gpython/ast"
	"github.com/go-python/gpython/compile"
	"github.com/go-python/gpython/parser"
	"github.com/go-python/gpython/py"
	"github.com/go-python/gpython/symtable"
	"verif/explore"
	"verif/internal/core"
	"verif/verifrt"
)

// C18: compilation is a deterministic, side-effect-free function of its input.

var c18Addr = regexp.MustCompile(`0x[0-9a-f]{6,}`)

func c18Globals() map[string]string {
	out := map[string]string{}
	for pkg, m := range map[string]map[string]string{"parser": parser.VerifGlobals(), "symtable": symtable.VerifGlobals(), "compile": compile.VerifGlobals(), "ast": ast.VerifGlobals()} {
		for k, v := range m {
			// locks and once-guards are not values a compilation computes (and the scheduler's
			// stand-ins for them keep their own books); addresses differ whenever a table is rebuilt
			skip := false
			for _, t := range []string{"sync.Once{", "sync.Mutex{", "sync.RWMutex{", "sync.WaitGroup{", "vsync.Once{", "vsync.Mutex{", "vsync.RWMutex{", "vsync.WaitGroup{"} {
				if strings.HasPrefix(v, t) {
					skip = true
				}
			}
			if skip {
				continue
			}
			out[pkg+"."+k] = c18Addr.ReplaceAllString(v, "0xADDR")
		}
	}
	return out
}

func diffGlobals(a, b map[string]string) []string {
	var d []string
	for k, v := range a {
		if b[k] != v {
			d = append(d, k)
		}
	}
	for k := range b {
		if _, ok := a[k]; !ok {
			d = append(d, k)
		}
	}
	sort.Strings(d)
	return d
}

// compileAndRun: dump of the code object plus, when run is set, the canonical value of
// the global `r` (or the exception type) after executing it.
func c18Outcome(p Prog, run bool) string {
	code, err := py.Compile(p.Src, p.Name, py.ExecMode, 0, true)
	if err != nil {
		t, _, msg := excOf(err)
		return "error:" + t + ":" + msg
	}
	d := DumpCode(code)
	if run {
		ev := c18Eval()
		g := py.StringDict{}
		_, err := ev.ctx.RunCode(code, g, g, nil)
		d += "\nresult=" + observe(g["r"], err).String()
	}
	return d
}

var c18ev *evaluator

func c18Eval() *evaluator {
	if c18ev == nil {
		c18ev = newEvaluator()
	}
	return c18ev
}

func firstDiff(a, b string) string {
	la, lb := strings.Split(a, "\n"), strings.Split(b, "\n")
	for i := 0; i < len(la) && i < len(lb); i++ {
		if la[i] != lb[i] {
			return fmt.Sprintf("line %d: %s  !=  %s", i, short(la[i], 300), short(lb[i], 300))
		}
	}
	return fmt.Sprintf("length %d != %d", len(la), len(lb))
}

var c18ColdCaptured bool

// c18Tokens: one of every kind of token the lexer has a matcher or a decoder for.
var c18Tokens = Prog{Name: "tokens", Src: "r = [0x1f, 0o17, 0b11, 12, 1.5e3, .5, 2j, 'a\\n\\x41', b'\\x00', r'\\d', \"\"\"t\"\"\", u'u', 1 if 0 else 2]\nr += [r[0] << 2, -r[1] ** 2 // 3]\n"}

func c18Run(rc *core.RunCtx) {
	scope := ScopeCorpus()
	repo := RepoCorpus()
	scope = append(scope, c18Tokens)
	// before anything is compiled in this process: remember the start-of-process value of every
	// package-level variable of the compiler that some function writes at run time (found by the
	// instrumenter in the current sources; none on a tree whose compiler keeps no state), so that
	// the interleaving part can start every execution cold
	if !c18ColdCaptured {
		c18ColdCaptured = true
		for _, f := range []func() ([]string, []interface{}){parser.VerifRuntimeVars, symtable.VerifRuntimeVars, compile.VerifRuntimeVars} {
			ns, ps := f()
			verifrt.ColdCapture(ns, ps)
		}
	}
	rc.Note("package_level_vars_written_at_run_time", fmt.Sprint(verifrt.ColdNames()))
	// baselines first, before anything else was compiled in this process
	base := map[string]string{}
	for _, p := range scope {
		base[p.Name] = c18Outcome(p, true)
	}
	for _, p := range repo {
		base[p.Name] = c18Outcome(p, false)
	}
	// the reference snapshot of the package-level variables is taken once every program of the
	// corpus has been compiled: a table built on first use (correctly, under sync.Once) is not
	// state a compilation leaves behind for another one to observe; anything that still changes
	// after this point - while other sources, modes, flags, orders and interleavings are compiled - is
	before := c18Globals()

	// (a) every map-iteration order within the deviation bound
	rc.Part = "order"
	type job struct {
		p     Prog
		run   bool
		bound int
	}
	var jobs []job
	for _, p := range scope {
		jobs = append(jobs, job{p, true, 1})
	}
	for _, p := range repo {
		jobs = append(jobs, job{p, false, 1})
	}
	for _, p := range scope {
		if rc.Quick() && !strings.HasSuffix(p.Name, "2") {
			continue
		}
		jobs = append(jobs, job{p, true, 2})
	}
	if !rc.Quick() {
		for _, p := range scope {
			if len(p.Src) <= 160 {
				jobs = append(jobs, job{p, true, 3})
			}
		}
	}
	for _, j := range jobs {
		if rc.Expired() || rc.Done() {
			return
		}
		if !rc.Take() {
			continue
		}
		j := j
		fields := core.Fields{"part": "order", "prog": j.p.Name, "bound": itoa(j.bound)}
		input := fmt.Sprintf("all map-iteration orders (deviation bound %d) while compiling %s", j.bound, j.p.Name)
		if rc.Describe(fields, input) {
			continue
		}
		e := explore.New(j.bound)
		e.Stop = rc.Expired
		if rc.Quick() {
			e.MaxExec = 30000
		} else {
			e.MaxExec = 400000
		}
		verifrt.Controlled = true
		var trace []string
		res := e.Explore(func(x *explore.Exec) string {
			verifrt.Trace = nil
			got := c18Outcome(j.p, j.run)
			if x.Diverged {
				return ""
			}
			if got != base[j.p.Name] {
				trace = append([]string{}, verifrt.Trace...)
				return "order-dependent: " + firstDiff(base[j.p.Name], got)
			}
			return ""
		})
		verifrt.Controlled = false
		rc.Count("transitions", e.Points)
		rc.Count("order_executions", e.Executions)
		if e.Capped {
			rc.Cap(fmt.Sprintf("order exploration of %s at bound %d capped at %d executions", j.p.Name, j.bound, e.Executions))
		}
		nt := ""
		if e.Executions > 1 {
			nt = "order:" + j.p.Name + ":" + itoa(j.bound)
		}
		rc.Eval(fmt.Sprintf("order bound=%d", j.bound), nt)
		if rc.WantSample() && e.Executions > 1 && rc.Index()%17 == 0 {
			rc.Sample(map[string]interface{}{"part": "order", "program": j.p.Name, "bound": j.bound, "orders_executed": e.Executions, "choice_points": e.Points})
		}
		if res != nil {
			rc.Deviate(core.Deviation{Fields: fields, Input: input + "\norders taken: " + strings.Join(trace, " ") + "\nchoices " + fmt.Sprint(res.Schedule) + "\n" + short(j.p.Src, 1500),
				Expected: "identical code object (and result) for every iteration order", Observed: res.Violation, Sig: "order-dependent"})
		}
	}

	// (b) history independence: ordered pairs, and the corpus backwards
	rc.Part = "history"
	small := scope
	if rc.Quick() && len(small) > 24 {
		small = small[:24]
	}
	for _, a := range small {
		for _, b := range small {
			if rc.Expired() || rc.Done() {
				return
			}
			if !rc.Take() {
				continue
			}
			fields := core.Fields{"part": "history", "prog": b.Name, "after": a.Name}
			input := "compile " + a.Name + " then " + b.Name
			rc.Guard(fields, func() string { return input }, func() {
				c18Outcome(a, false)
				got := c18Outcome(b, true)
				rc.Eval("history", "hist:"+a.Name+">"+b.Name)
				if got != base[b.Name] {
					rc.Deviate(core.Deviation{Fields: fields, Input: input, Expected: "same code object as when compiled first", Observed: firstDiff(base[b.Name], got), Sig: "history-dependent"})
				}
			})
		}
	}
	// (b2) the other compilation differs in its arguments too: every mode x every future flag (alone
	// and all together) x dont_inherit on and off x a source that compiles, one that starts with a
	// __future__ import and one that is rejected; afterwards the probe is compiled the usual way
	// and with dont_inherit off (through the Go API nobody's flags can be inherited: same code)
	{
		flagSets := []int{0, py.CO_FUTURE_DIVISION, py.CO_FUTURE_ABSOLUTE_IMPORT, py.CO_FUTURE_WITH_STATEMENT, py.CO_FUTURE_PRINT_FUNCTION, py.CO_FUTURE_UNICODE_LITERALS, py.CO_FUTURE_BARRY_AS_BDFL, py.CO_COMPILER_FLAGS_MASK}
		srcs := map[py.CompileMode][]string{
			py.ExecMode:   {"x = 1 / 2\n", "from __future__ import division, barry_as_FLUFL\nx = 1 / 2\n", "x = = 1\n"},
			py.EvalMode:   {"1 / 2", "(1, 'a' 'b')", "1 +"},
			py.SingleMode: {"x = 1 / 2\n", "from __future__ import unicode_literals\n", "x = (\n"},
		}
		probes := scope
		if len(probes) > 6 {
			probes = append(append([]Prog{}, scope[:6]...), c18Tokens)
		}
		for _, mode := range []py.CompileMode{py.ExecMode, py.EvalMode, py.SingleMode} {
			for _, flags := range flagSets {
				for _, di := range []bool{true, false} {
					for si, src := range srcs[mode] {
						for _, b := range probes {
							if rc.Expired() || rc.Done() {
								return
							}
							if !rc.Take() {
								continue
							}
							mode, flags, di, src, b := mode, flags, di, src, b
							fields := core.Fields{"part": "history-args", "prog": b.Name, "mode": string(mode), "flags": fmt.Sprintf("%#x", flags), "dont_inherit": fmt.Sprint(di), "src": itoa(si)}
							input := fmt.Sprintf("py.Compile(%q, \"<other>\", %q, %#x, %v) then py.Compile(%s, ..., exec, 0, true) and (..., 0, false)", src, mode, flags, di, b.Name)
							rc.Guard(fields, func() string { return input }, func() {
								py.Compile(src, "<other>", mode, flags, di)
								// and the probe's own text under another file name (in this disturber's mode when it is exec)
								py.Compile(b.Src, "<othername>", mode, flags, di)
								got := c18Outcome(b, false)
								want := strings.Split(base[b.Name], "\nresult=")[0]
								rc.Eval("history-args", "hista:"+input)
								if got != want {
									rc.Deviate(core.Deviation{Fields: fields, Input: input, Expected: "same code object as when compiled first", Observed: firstDiff(want, got), Sig: "history-dependent"})
									return
								}
								code, err := py.Compile(b.Src, b.Name, py.ExecMode, 0, false)
								got2 := ""
								if err != nil {
									t, _, msg := excOf(err)
									got2 = "error:" + t + ":" + msg
								} else {
									got2 = DumpCode(code)
								}
								if got2 != want {
									rc.Deviate(core.Deviation{Fields: fields, Input: input, Expected: "same code object as when compiled first (dont_inherit off, nothing to inherit)", Observed: firstDiff(want, got2), Sig: "history-dependent:inherit"})
								}
							})
						}
					}
				}
			}
		}
	}
	all := append(append([]Prog{}, scope...), repo...)
	for i := len(all) - 1; i >= 0; i-- {
		if rc.Expired() || rc.Done() {
			return
		}
		if !rc.Take() {
			continue
		}
		p := all[i]
		fields := core.Fields{"part": "history", "prog": p.Name, "after": "reverse-corpus"}
		rc.Guard(fields, func() string { return "corpus backwards: " + p.Name }, func() {
			_, isScope := base[p.Name]
			got := c18Outcome(p, isScope && strings.Contains(base[p.Name], "\nresult="))
			rc.Eval("history-reverse", "rev:"+p.Name)
			if got != base[p.Name] {
				rc.Deviate(core.Deviation{Fields: fields, Input: "corpus backwards: " + p.Name, Expected: "same code object as when compiled first", Observed: firstDiff(base[p.Name], got), Sig: "history-dependent"})
			}
		})
	}

	// what (e) compares: taken here, because the interleaving part below puts the run-time-written
	// variables back to their start-of-process values before every execution
	afterSequential := c18Globals()
	// (c) two concurrent compilations: every interleaving at function-entry granularity
	rc.Part = "concurrent"
	var tiny []Prog
	for _, p := range scope {
		if len(p.Src) <= 140 && p.Name != c18Tokens.Name {
			tiny = append(tiny, p)
		}
	}
	if rc.Quick() && len(tiny) > 5 {
		tiny = tiny[:5]
	}
	tiny = append(tiny, c18Tokens)
	bounds := []int{1}
	if !rc.Quick() {
		bounds = []int{1, 2}
	}
	for _, bound := range bounds {
		for _, a := range tiny {
			for _, b := range tiny {
				if rc.Expired() || rc.Done() {
					return
				}
				if !rc.Take() {
					continue
				}
				a, b := a, b
				fields := core.Fields{"part": "concurrent", "prog": a.Name, "other": b.Name, "bound": itoa(bound)}
				input := fmt.Sprintf("py.Compile(%s) || py.Compile(%s), all interleavings at function entries, preemption bound %d", a.Name, b.Name, bound)
				if rc.Describe(fields, input) {
					continue
				}
				e := explore.New(bound)
				e.Stop = rc.Expired
				e.MaxSteps = 200000
				if rc.Quick() {
					e.MaxExec = 12000
				} else {
					e.MaxExec = 400000
				}
				verifrt.Concurrent = true
				if bound >= 2 {
					verifrt.EnterFilter = func(site string) bool { return !strings.HasPrefix(site, "parser.") }
				}
				res := e.Explore(func(x *explore.Exec) string {
					var da, db string
					// every execution starts cold: whatever the compiler's packages build lazily on
					// first use is built again, by whichever of the two compilations gets there first
					verifrt.ColdRestore()
					x.Go("A", func() { da = c18Outcome(a, false) })
					x.Go("B", func() { db = c18Outcome(b, false) })
					x.Run()
					if x.Diverged || x.Pruned {
						return ""
					}
					if x.Violation != "" {
						return x.Violation
					}
					if x.Deadlock || x.Horizon {
						return "harness: deadlock/horizon in concurrent compile"
					}
					wa := strings.Split(base[a.Name], "\nresult=")[0]
					wb := strings.Split(base[b.Name], "\nresult=")[0]
					if da != wa {
						return "concurrent-compile-differs: " + a.Name + ": " + firstDiff(wa, da)
					}
					if db != wb {
						return "concurrent-compile-differs: " + b.Name + ": " + firstDiff(wb, db)
					}
					return ""
				})
				verifrt.Concurrent = false
				verifrt.EnterFilter = nil
				rc.Count("transitions", e.Points)
				rc.Count("schedules", e.Executions)
				if e.Capped {
					rc.Cap(fmt.Sprintf("interleavings of %s||%s at bound %d capped at %d schedules", a.Name, b.Name, bound, e.Executions))
				}
				rc.Eval(fmt.Sprintf("concurrent bound=%d", bound), "conc:"+a.Name+"|"+b.Name+":"+itoa(bound))
				if rc.WantSample() && rc.Index()%7 == 0 {
					rc.Sample(map[string]interface{}{"part": "concurrent", "a": a.Name, "b": b.Name, "bound": bound, "schedules": e.Executions, "choice_points": e.Points})
				}
				if res != nil {
					rc.Deviate(core.Deviation{Fields: fields, Input: input + "\nschedule " + short(fmt.Sprint(res.Schedule), 2000), Expected: "both code objects identical to their sequential compilation",
						Observed: res.Violation, Sig: sigClass(res.Violation)})
				}
			}
		}
	}

	// (e) no state left behind in package-level variables
	rc.Part = "state"
	if rc.Take() {
		fields := core.Fields{"part": "state"}
		rc.Guard(fields, func() string {
			return "package-level variables of parser, symtable, compile, ast after the first compilation of the corpus / after everything else"
		}, func() {
			after := afterSequential
			d := diffGlobals(before, after)
			rc.Eval("state", "state")
			rc.Count("package_level_vars_snapshotted", int64(len(after)))
			if len(d) > 0 {
				rc.Deviate(core.Deviation{Fields: fields, Input: "package-level variables before/after compiling the corpus", Expected: "unchanged", Observed: "changed: " + strings.Join(d, ", "), Sig: "state-left-behind"})
			}
		})
	}
}

func excOf(err error) (string, []string, string) {
	t, b, m, _ := excInfo(err)
	return t, b, m
}

func init() {
	core.Register(&core.Check{
		ID:       "C18",
		Level:    "model_checking",
		Mode:     "ov",
		RacePass: true,
		Rule: "corpus = generated scope-heavy programs (cells, free variables, class bodies, comprehensions, global/nonlocal, keyword calls) + every .py file of the repository. " +
			"(a) for each program every map-iteration order of every `range` over a map in symtable/compile/vm within the deviation bound (n<=4 keys: all n! orders; more: reversal, rotations, adjacent transpositions), code dump (+ result) must equal the baseline; " +
			"(b) all ordered pairs compiled back to back and the corpus backwards; (c) all interleavings of two concurrent py.Compile calls with scheduling points at every function entry of parser/symtable/compile within the preemption bound; " +
			"(e) package-level variables of parser/symtable/compile/ast unchanged. Non-trivial: an order case with > 1 order executed; every pair.",
		Run: c18Run,
		Assumptions: []string{"Go's own map randomisation is not relied on: orders are chosen by the explorer through rewritten range loops (build overlay from current sources)",
			"interleavings are at function-entry granularity and sequentially consistent; finer-grained races are seen only by the auxiliary -race pass"},
		Explanation: "stateless exploration of internal nondeterminism (map iteration orders, goroutine interleavings) of the real compiler; differential oracle against the first compilation",
	})
}

package props

import (
	"math/big"
	"strings"

	"github.com/go-python/gpython/py"
	"verif/internal/core"
)

// C07 part "text-history": the same digit string converted twice in one process, in two
// bases (and once more in the first base). A conversion depends on the text and the base
// only - never on what was converted before - and a text that is not a number in the second
// base is rejected although it was one in the first. Through py.IntFromString, int(text,
// base) and, for the prefixed spellings, source literals of one program.
func (c *c07) textHistory() {
	rc := c.rc
	rc.Part = "text-history"
	texts := []string{
		"1" + strings.Repeat("0", 21), "1" + strings.Repeat("0", 30), strings.Repeat("1", 25), strings.Repeat("10", 16), "1" + strings.Repeat("01", 20),
		strings.Repeat("7", 25), "1234567" + strings.Repeat("0", 18), strings.Repeat("9", 22), "12345678901234567890123", strings.Repeat("f", 20), "abcdef" + strings.Repeat("0", 16),
		"11", "777", "10", strings.Repeat("1", 19), "9" + strings.Repeat("0", 18),
	}
	bases := []int{2, 8, 10, 16}
	conv := func(t string, base int) Res {
		x, ok := new(big.Int).SetString(t, base)
		if !ok {
			return excRes("ValueError")
		}
		return bres(x)
	}
	for _, t := range texts {
		for _, b1 := range bases {
			for _, b2 := range bases {
				if b1 == b2 {
					continue
				}
				if rc.Expired() || rc.Done() {
					return
				}
				t, b1, b2 := t, b1, b2
				e1, e2 := conv(t, b1), conv(t, b2)
				exp := valRes(e1.String() + " | " + e2.String() + " | " + e1.String())
				if rc.Take() {
					f := core.Fields{"op": "int-from-text-twice", "text": t, "base": itoa(b1) + "," + itoa(b2), "via": "api"}
					in := "py.IntFromString(" + strconvQuote(t) + ", " + itoa(b1) + "), then base " + itoa(b2) + ", then base " + itoa(b1) + " again"
					rc.Guard(f, func() string { return in }, func() {
						r1 := observeT(py.IntFromString(t, b1))
						r2 := observeT(py.IntFromString(t, b2))
						r3 := observeT(py.IntFromString(t, b1))
						c.check(f, in, exp, valRes(r1.String()+" | "+r2.String()+" | "+r3.String()))
					})
				}
				if rc.Take() {
					f := core.Fields{"op": "int-from-text-twice", "text": t, "base": itoa(b1) + "," + itoa(b2), "via": "source"}
					src := "def conv(t, b):\n    try:\n        return int(t, b)\n    except ValueError:\n        return 'ValueError'\nr = (conv(" + pyStrLit(t) + ", " + itoa(b1) + "), conv(" + pyStrLit(t) + ", " + itoa(b2) + "), conv(" + pyStrLit(t) + ", " + itoa(b1) + "))\n"
					rc.Guard(f, func() string { return src }, func() {
						g, err := c.ev.Exec(src)
						if err != nil {
							c.check(f, src, exp, observeT(nil, err))
							return
						}
						tup, _ := g["r"].(py.Tuple)
						var parts []string
						for _, x := range tup {
							if s, ok := x.(py.String); ok && s == "ValueError" {
								parts = append(parts, excRes("ValueError").String())
							} else {
								parts = append(parts, observeT(x, nil).String())
							}
						}
						c.check(f, src, exp, valRes(strings.Join(parts, " | ")))
					})
				}
			}
		}
	}
	// prefixed literals with the same digits in one program (the lexer converts the digits
	// after the prefix)
	prefix := map[int]string{2: "0b", 8: "0o", 16: "0x"}
	for _, t := range texts {
		for _, b1 := range []int{2, 8, 16} {
			for _, b2 := range []int{2, 8, 16, 10} {
				if b1 == b2 {
					continue
				}
				x1, ok1 := new(big.Int).SetString(t, b1)
				x2, ok2 := new(big.Int).SetString(t, b2)
				if !ok1 || !ok2 || b2 == 10 && strings.HasPrefix(t, "0") {
					continue
				}
				if rc.Expired() || rc.Done() {
					return
				}
				if !rc.Take() {
					continue
				}
				src := "r = (" + prefix[b1] + t + ", " + prefix[b2] + t + ", " + prefix[b1] + t + ")\n"
				exp := valRes(bres(x1).String() + " | " + bres(x2).String() + " | " + bres(x1).String())
				f := core.Fields{"op": "literal-twice", "text": t, "base": itoa(b1) + "," + itoa(b2), "via": "source"}
				rc.Guard(f, func() string { return src }, func() {
					g, err := c.ev.Exec(src)
					if err != nil {
						c.check(f, src, exp, observeT(nil, err))
						return
					}
					tup, _ := g["r"].(py.Tuple)
					var parts []string
					for _, x := range tup {
						parts = append(parts, observeT(x, nil).String())
					}
					c.check(f, src, exp, valRes(strings.Join(parts, " | ")))
				})
			}
		}
	}
}

package props

import (
	"fmt"
	"strings"

	"github.com/go-python/gpython/py"
	"verif/internal/core"
	"verif/internal/harness"
)

// C05 part (c): a generator that tries to resume ITSELF while it is running. Every such
// attempt (next or send, any number of them per activation, in any activation) must be
// refused with ValueError and must leave the generator exactly where it was: the following
// yields, locals and the final StopIteration are unaffected.
func c05PartC(rc *core.RunCtx) {
	rc.Part = "c"
	ev := newEvaluator()
	for acts := 2; acts <= 4; acts++ { // number of activations (yields + 1)
		for att := 1; att <= 3; att++ { // re-entry attempts per activation
			for _, how := range []string{"next", "send", "mixed"} {
				for _, via := range []string{"next", "send"} { // how the driver resumes it
					if rc.Expired() || rc.Done() {
						return
					}
					if !rc.Take() {
						continue
					}
					var b strings.Builder
					b.WriteString("G = [None]\ndef gen():\n    x = 0\n")
					var exp []string
					for a := 0; a < acts; a++ {
						for k := 0; k < att; k++ {
							call := "next(G[0])"
							if how == "send" || how == "mixed" && k%2 == 1 {
								call = "G[0].send(5)"
							}
							id := a*10 + k
							fmt.Fprintf(&b, "    try:\n        %s\n        vh.log((%d, 'resumed'))\n    except ValueError:\n        vh.log((%d, 'refused'))\n    except StopIteration:\n        vh.log((%d, 'stopiteration'))\n", call, id, id, id)
						}
						if a < acts-1 {
							fmt.Fprintf(&b, "    x = yield %d\n    vh.log((%d, 'got', x))\n", 100+a, 100+a)
						}
					}
					b.WriteString("    return 7\nG[0] = gen()\n")
					// driver
					for a := 0; a < acts; a++ {
						for k := 0; k < att; k++ {
							exp = append(exp, fmt.Sprintf("(%d,'refused')", a*10+k))
						}
						drv := "next(G[0])"
						sent := "None"
						if via == "send" && a > 0 {
							drv = fmt.Sprintf("G[0].send(%d)", 50+a)
							sent = itoa(50 + a)
						}
						if a > 0 {
							// the value sent in becomes the value of the previous yield expression: logged
							// at the start of this activation - but the log line is emitted before the attempts
						}
						_ = sent
						fmt.Fprintf(&b, "try:\n    vh.log(('drv', %d, %s))\nexcept StopIteration:\n    vh.log(('drv', %d, 'stop'))\n", a, drv, a)
					}
					fmt.Fprintf(&b, "try:\n    vh.log(('drv', 9, next(G[0])))\nexcept StopIteration:\n    vh.log(('drv', 9, 'stop'))\n")
					// expected log, in program order
					exp = nil
					for a := 0; a < acts; a++ {
						if a > 0 {
							got := "None"
							if via == "send" {
								got = itoa(50 + a)
							}
							exp = append(exp, fmt.Sprintf("(%d,'got',%s)", 100+a-1, got))
						}
						for k := 0; k < att; k++ {
							exp = append(exp, fmt.Sprintf("(%d,'refused')", a*10+k))
						}
						if a < acts-1 {
							exp = append(exp, fmt.Sprintf("('drv',%d,%d)", a, 100+a))
						} else {
							exp = append(exp, fmt.Sprintf("('drv',%d,'stop')", a))
						}
					}
					exp = append(exp, "('drv',9,'stop')")
					src := b.String()
					fields := core.Fields{"part": "c", "activations": itoa(acts), "attempts": itoa(att), "how": how, "via": via}
					rc.Guard(fields, func() string { return src }, func() {
						lg, _ := ev.vh.Globals["__vhlog__"].(*harness.Log)
						if lg == nil {
							lg = &harness.Log{}
							ev.vh.Globals["__vhlog__"] = lg
						}
						lg.Entries = nil
						code, err := py.Compile(src, "<c05c>", py.ExecMode, 0, true)
						var got []string
						if err == nil {
							g := py.StringDict{"vh": ev.vh}
							_, err = ev.ctx.RunCode(code, g, g, nil)
							got = lg.Entries
						}
						exc := ""
						if err != nil {
							exc, _, _, _ = harness.ExcInfo(err)
						}
						rc.Eval("reentrant", src)
						if rc.WantSample() && acts == 2 && att == 2 && how == "next" && via == "next" {
							rc.Sample(map[string]interface{}{"part": "c", "program": src, "expected_log": exp})
						}
						if exc != "" || strings.Join(got, ";") != strings.Join(exp, ";") {
							rc.Deviate(core.Deviation{Fields: fields, Input: src, Expected: strings.Join(exp, ";"), Observed: strings.Join(got, ";") + " exc=" + orDash(exc), Sig: "reentrant-resume:wrong-trace"})
						}
					})
				}
			}
		}
	}
}

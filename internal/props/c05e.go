package props

import (
	"fmt"
	"strings"

	"github.com/go-python/gpython/py"
	"verif/internal/core"
	"verif/internal/harness"
)

// C05 part (e): a started generator is resumed (next or send) from every call depth around the
// interpreter's recursion limit, so that for some depth the resumption itself is what is
// refused with RuntimeError (deeper still, the limit strikes before the generator is reached and it is
// untouched). Whatever the depth, a resumption either delivers the next item -
// and the generator goes on from there - or raises, and a generator that raised is finished:
// consuming it afterwards yields nothing. The depth at which the limit strikes is not modelled;
// the oracle is that the two observations are consistent with one of those two histories.
func c05PartE(rc *core.RunCtx) {
	rc.Part = "e"
	ev := newEvaluator()
	shapes := []struct{ name, def string }{
		{"plain", "def gen():\n    yield 1\n    yield 2\n    yield 3\n"},
		{"finally", "def gen():\n    try:\n        yield 1\n        yield 2\n    finally:\n        vh.log('fin')\n    yield 3\n"},
		{"delegating", "def inner():\n    yield 2\n    yield 3\ndef gen():\n    yield 1\n    yield from inner()\n"},
		{"loop", "def gen():\n    for i in (1, 2, 3):\n        x = yield i\n"},
	}
	lo, hi := 975, 1010
	if !rc.Quick() {
		lo, hi = 900, 1040
	}
	for _, sh := range shapes {
		for _, how := range []string{"next(g)", "g.send(None)", "g.send(7)"} {
			for n := lo; n <= hi; n++ {
				if rc.Expired() || rc.Done() {
					return
				}
				if !rc.Take() {
					continue
				}
				src := sh.def + "g = gen()\nvh.log(('first', next(g)))\n" +
					"def deep(n):\n    if n == 0:\n        return " + how + "\n    return deep(n - 1)\n" +
					"try:\n    vh.log(('deep', deep(" + itoa(n) + ")))\nexcept RuntimeError:\n    vh.log(('deep', 'R'))\n" +
					"vh.log(('rest', list(g)))\n"
				fields := core.Fields{"part": "e", "shape": sh.name, "how": how, "depth": itoa(n)}
				rc.Guard(fields, func() string { return src }, func() {
					lg, _ := ev.vh.Globals["__vhlog__"].(*harness.Log)
					if lg == nil {
						lg = &harness.Log{}
						ev.vh.Globals["__vhlog__"] = lg
					}
					lg.Entries = nil
					code, err := py.Compile(src, "<c05e>", py.ExecMode, 0, true)
					var got []string
					if err == nil {
						g := py.StringDict{"vh": ev.vh}
						_, err = ev.ctx.RunCode(code, g, g, nil)
						got = lg.Entries
					}
					exc := ""
					if err != nil {
						exc, _, _, _ = harness.ExcInfo(err)
					}
					// the two legal traces ('fin' is logged when the finally clause runs: when the
					// generator is finished by the error or when list() drives it past the clause)
					fin := sh.name == "finally"
					okTrace := []string{"('first',1)", "('deep',2)"}
					if fin {
						okTrace = append(okTrace, CanonStrLit("fin"))
					}
					okTrace = append(okTrace, "('rest',[3])")
					errTrace := []string{"('first',1)"}
					errAlt := []string{"('first',1)", "('deep','R')"}
					if fin {
						errTrace = append(errTrace, CanonStrLit("fin"))
						errAlt = append(errAlt, CanonStrLit("fin")) // finalised only when collected: not at all, or late
					}
					errTrace = append(errTrace, "('deep','R')", "('rest',[])")
					errAlt = append(errAlt, "('rest',[])")
					errNoFin := []string{"('first',1)", "('deep','R')", "('rest',[])"}
					// the limit struck in deep() itself, before the generator was touched
					early := []string{"('first',1)", "('deep','R')"}
					if fin {
						early = append(early, CanonStrLit("fin"))
					}
					early = append(early, "('rest',[2,3])")
					g := strings.Join(got, ";")
					outcome := "delivered"
					switch {
					case exc != "":
						outcome = "program-failed"
					case g == strings.Join(okTrace, ";"):
					case g == strings.Join(errTrace, ";"), g == strings.Join(errAlt, ";"), g == strings.Join(errNoFin, ";"):
						outcome = "refused-and-finished"
					case g == strings.Join(early, ";"):
						outcome = "limit-before-resumption"
					default:
						outcome = "inconsistent"
					}
					rc.Eval("depth:"+outcome, src)
					if outcome == "program-failed" || outcome == "inconsistent" {
						rc.Deviate(core.Deviation{Fields: fields, Input: src, Expected: strings.Join(okTrace, ";") + "  or  " + strings.Join(errTrace, ";"),
							Observed: g + " exc=" + orDash(exc), Sig: "depth-limit-resume:" + outcome})
					}
				})
			}
		}
	}
	_ = fmt.Sprint
}

// CanonStrLit: the canonical log form of a str logged on its own.
func CanonStrLit(s string) string { return harness.CanonStr(s) }

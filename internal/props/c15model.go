package props

import (
	"math"
	"math/big"
	"sort"
	"strconv"
	"strings"

	"github.com/go-python/gpython/py"
)

// Reference model for C15: Python's float / mixed int-float / complex arithmetic written
// naively on top of Go float64 (IEEE-754 binary64, round to nearest even), math/big for
// everything that has to be exact, and strconv's shortest-digits for repr.

// ---------------------------------------------------------------------------------------
// model values

// mv is a model value (the expected result of an operation) or an exception.
type mv struct {
	kind  string // "float" "int" "bool" "str" "tuple" "complex" "exc" "skip" "type"
	f     float64
	im    float64
	i     *big.Int
	b     bool
	s     string
	items []mv
	alt   []mv // other acceptable results (only where Python leaves the result open)
}

func mvF(f float64) mv       { return mv{kind: "float", f: f} }
func mvI(i *big.Int) mv      { return mv{kind: "int", i: i} }
func mvB(b bool) mv          { return mv{kind: "bool", b: b} }
func mvS(s string) mv        { return mv{kind: "str", s: s} }
func mvT(items ...mv) mv     { return mv{kind: "tuple", items: items} }
func mvC(re, im float64) mv  { return mv{kind: "complex", f: re, im: im} }
func mvExc(name string) mv   { return mv{kind: "exc", s: name} }
func mvTypeOnly(t string) mv { return mv{kind: "type", s: t} } // only the result type is defined by the model
func (m mv) isExc() bool     { return m.kind == "exc" }
func (m mv) isSkip() bool    { return m.kind == "skip" }
func (m mv) withAlt(a mv) mv { m.alt = append(m.alt, a); return m }

var mvSkip = mv{kind: "skip"}

// c15fs renders a float64 uniquely by value (never through gpython).
func c15fs(f float64) string {
	switch {
	case math.IsNaN(f):
		return "nan"
	case math.IsInf(f, 1):
		return "inf"
	case math.IsInf(f, -1):
		return "-inf"
	case f == 0 && math.Signbit(f):
		return "-0.0"
	case f == 0:
		return "0.0"
	}
	return strconv.FormatFloat(f, 'g', -1, 64)
}

// canon is the canonical text both model values and observations are compared in.
func (m mv) canon() string {
	switch m.kind {
	case "float":
		return "float:" + c15fs(m.f)
	case "int":
		return "int:" + m.i.String()
	case "bool":
		if m.b {
			return "bool:True"
		}
		return "bool:False"
	case "str":
		return "str:'" + m.s + "'"
	case "complex":
		return "complex:(" + c15fs(m.f) + "," + c15fs(m.im) + ")"
	case "tuple":
		xs := make([]string, len(m.items))
		for i, it := range m.items {
			xs[i] = it.canon()
		}
		return "tuple:(" + strings.Join(xs, ",") + ")"
	case "exc":
		return "raises " + m.s
	case "type":
		return m.s + ":<any>"
	}
	return "<" + m.kind + ">"
}

func (m mv) res() Res {
	if m.kind == "exc" {
		return excRes(m.s)
	}
	return valRes(m.canon())
}

// c15canonObj renders an observed gpython object in the same canonical text.
func c15canonObj(o py.Object) string {
	switch v := o.(type) {
	case nil:
		return "<nil>"
	case py.Bool:
		return mvB(bool(v)).canon()
	case py.Int:
		return "int:" + strconv.FormatInt(int64(v), 10)
	case *py.BigInt:
		return "int:" + (*big.Int)(v).String()
	case py.Float:
		return "float:" + c15fs(float64(v))
	case py.Complex:
		return "complex:(" + c15fs(real(complex128(v))) + "," + c15fs(imag(complex128(v))) + ")"
	case py.String:
		return "str:'" + string(v) + "'"
	case py.Tuple:
		xs := make([]string, len(v))
		for i, it := range v {
			xs[i] = c15canonObj(it)
		}
		return "tuple:(" + strings.Join(xs, ",") + ")"
	case py.NoneType:
		return "None"
	}
	if o == py.NotImplemented {
		return "NotImplemented"
	}
	return o.Type().Name + ":<object>"
}

func c15obs(o py.Object, err error) Res {
	if err != nil {
		return observeT(nil, err)
	}
	return valRes(c15canonObj(o))
}

// c15match: does the observation satisfy the model value (or one of its alternatives)?
func c15match(exp mv, got Res) bool {
	if c15match1(exp, got) {
		return true
	}
	for _, a := range exp.alt {
		if c15match1(a, got) {
			return true
		}
	}
	return false
}

func c15match1(exp mv, got Res) bool {
	switch exp.kind {
	case "exc":
		return got.Exc == exp.s
	case "type":
		return got.Exc == "" && strings.HasPrefix(got.Val, exp.s+":")
	}
	return got.Exc == "" && got.Val == exp.canon()
}

// ---------------------------------------------------------------------------------------
// operands

// c15val is an operand: a float, an int of any size, a bool or a complex.
type c15val struct {
	t  string // "float" "int" "bool" "complex"
	f  float64
	im float64
	i  *big.Int
}

func fv(f float64) c15val  { return c15val{t: "float", f: f} }
func iv(i *big.Int) c15val { return c15val{t: "int", i: i} }
func bv(b bool) c15val {
	if b {
		return c15val{t: "bool", i: big.NewInt(1)}
	}
	return c15val{t: "bool", i: big.NewInt(0)}
}
func cv(re, im float64) c15val { return c15val{t: "complex", f: re, im: im} }

func (v c15val) isInt() bool { return v.t == "int" || v.t == "bool" }

// name: short identification used in Fields (Python spelling of the value).
func (v c15val) name() string {
	switch v.t {
	case "float":
		return pyFloatRepr(v.f)
	case "bool":
		if v.i.Sign() != 0 {
			return "True"
		}
		return "False"
	case "complex":
		return "complex(" + pyFloatRepr(v.f) + "," + pyFloatRepr(v.im) + ")"
	}
	s := v.i.String()
	if len(s) > 44 {
		// huge ints are identified by bit length and low digits
		return s[:12] + ".." + s[len(s)-6:] + "[" + strconv.Itoa(v.i.BitLen()) + "b]"
	}
	return s
}

// class: coarse class used in Fields for narrow known-finding patterns.
func (v c15val) class() string {
	fc := func(f float64) string {
		switch {
		case math.IsNaN(f):
			return "nan"
		case math.IsInf(f, 0):
			return "inf"
		case f == 0:
			return "zero"
		case f == math.Trunc(f):
			if math.Abs(f) > 9007199254740992 {
				return "bigintegral"
			}
			return "integral"
		}
		return "frac"
	}
	switch v.t {
	case "float":
		return fc(v.f)
	case "complex":
		return fc(v.f) + "," + fc(v.im)
	}
	switch {
	case v.i.Sign() == 0:
		return "zero"
	case v.i.BitLen() > 1024:
		return "huge"
	case !v.i.IsInt64():
		return "big"
	case v.i.BitLen() > 53:
		return "word>53"
	}
	return "word"
}

func c15floatLit(f float64) string {
	switch {
	case math.IsNaN(f):
		return "float('nan')"
	case math.IsInf(f, 1):
		return "float('inf')"
	case math.IsInf(f, -1):
		return "(-float('inf'))"
	}
	s := strconv.FormatFloat(math.Abs(f), 'e', 16, 64) // 17 significant digits: exact round trip, always a float literal
	if math.Signbit(f) {
		return "(-" + s + ")"
	}
	return s
}

// lit: Python source text evaluating to the operand.
func (v c15val) lit() string {
	switch v.t {
	case "float":
		return c15floatLit(v.f)
	case "bool":
		return v.name()
	case "complex":
		return "complex(" + c15floatLit(v.f) + ", " + c15floatLit(v.im) + ")"
	}
	return lit(v.i)
}

// objs: the gpython objects representing the operand (ints that fit a word also in the
// non-normalised arbitrary-precision representation when withBig).
func (v c15val) objs(withBig bool) ([]py.Object, []string) {
	switch v.t {
	case "float":
		return []py.Object{py.Float(v.f)}, []string{"nat"}
	case "bool":
		return []py.Object{py.NewBool(v.i.Sign() != 0)}, []string{"nat"}
	case "complex":
		return []py.Object{py.Complex(complex(v.f, v.im))}, []string{"nat"}
	}
	if v.i.IsInt64() && withBig {
		return []py.Object{pyInt(v.i), pyBig(v.i)}, []string{"nat", "big"}
	}
	return []py.Object{pyInt(v.i)}, []string{"nat"}
}

// ---------------------------------------------------------------------------------------
// lattices

func c15pow2(k int) float64 { return math.Ldexp(1, k) }

// c15F is the lattice of special doubles, simplest first.
func c15F(quick bool) []float64 {
	var pos []float64
	add := func(xs ...float64) { pos = append(pos, xs...) }
	add(0, 1, 0.5, 1.5, 2, 2.5, 3, 3.5, 0.1, 10)
	ks := []int{-1, 0, 1, 52, 53, 54, 62, 63, 64, 1023}
	if quick {
		ks = []int{0, 53, 63, 64}
	}
	for _, k := range ks {
		p := c15pow2(k)
		add(math.Nextafter(p, 0), p, math.Nextafter(p, math.Inf(1)))
	}
	add(math.SmallestNonzeroFloat64, math.Float64frombits(0x0010000000000000), math.MaxFloat64, 1e16, 1e22, 1e23)
	if !quick {
		add(math.Float64frombits(0x000FFFFFFFFFFFFF), math.Float64frombits(0x0010000000000001),
			4503599627370495.5, 4503599627370494.5, 2251799813685248.5, // (2^52-1)+.5, (2^52-2)+.5, 2^51+.5
			1.0/3.0, 0.25, 0.3, 2.675, 7, 100, 1e15, 1e17, 1e-5, 1e-4, 123456789.125, 9.999999999999999e22, 1e300, 1e-300)
	}
	add(math.Inf(1))
	seen := map[uint64]bool{}
	var out []float64
	put := func(x float64) {
		b := math.Float64bits(x)
		if !seen[b] {
			seen[b] = true
			out = append(out, x)
		}
	}
	for _, p := range pos {
		put(p)
		put(-p)
	}
	put(math.NaN())
	return out
}

// c15Rand: deterministic pseudo-random doubles (fixed LCG): n raw bit patterns and n
// "moderate" values with a decimal exponent in about [-7, 22].
func c15Rand(n int) []float64 {
	var out []float64
	s := uint64(0x9E3779B97F4A7C15)
	next := func() uint64 {
		s = s*6364136223846793005 + 1442695040888963407
		return s ^ (s >> 29)
	}
	for i := 0; i < n; i++ {
		f := math.Float64frombits(next())
		if math.IsNaN(f) || math.IsInf(f, 0) {
			f = 1.2345678901234567
		}
		out = append(out, f)
		m := next()
		e := int(next()%96) - 23 // binary exponent -23..72
		g := math.Ldexp(float64(m>>11)/float64(uint64(1)<<53)+1, e)
		if m&1 == 1 {
			g = -g
		}
		// a third of the moderate values get few decimal digits (round() ties and short reprs)
		if i%3 == 0 {
			g = math.Round(g*1000) / 1000
		}
		out = append(out, g)
	}
	return out
}

// c15Huge: ints beyond the double range and at its edge (float(int) conversion and exact comparison).
func c15Huge() []*big.Int {
	var out []*big.Int
	one := big.NewInt(1)
	p1024 := new(big.Int).Lsh(one, 1024)
	half := new(big.Int).Lsh(one, 970) // half an ulp of MaxFloat64
	maxf := new(big.Int).Sub(p1024, new(big.Int).Lsh(one, 971))
	out = append(out, maxf, new(big.Int).Add(maxf, one), new(big.Int).Sub(maxf, one),
		new(big.Int).Sub(new(big.Int).Sub(p1024, half), one), new(big.Int).Sub(p1024, half),
		new(big.Int).Sub(p1024, one), p1024, new(big.Int).Add(p1024, one), new(big.Int).Lsh(one, 1023), new(big.Int).Lsh(one, 2000))
	n := len(out)
	for i := 0; i < n; i++ {
		out = append(out, new(big.Int).Neg(out[i]))
	}
	return out
}

// c15IntsForConversion: L plus powers of ten, ties around 2^53..2^65 and the huge ints.
func c15IntsForConversion(L []*big.Int, quick bool) []*big.Int {
	set := map[string]*big.Int{}
	add := func(x *big.Int) {
		set[x.String()] = x
		set[new(big.Int).Neg(x).String()] = new(big.Int).Neg(x)
	}
	for _, x := range L {
		set[x.String()] = x
	}
	ten := big.NewInt(10)
	for _, k := range []int64{1, 2, 15, 16, 17, 22, 23, 24, 25, 100, 308, 309} {
		add(new(big.Int).Exp(ten, big.NewInt(k), nil))
	}
	// ties and near-ties: 2^k + 2^(k-53) (exact tie), +-1 around it, for k in 53..66 and 100, 1000
	for _, k := range []uint{53, 54, 55, 63, 64, 65, 66, 100, 1000} {
		if quick && k != 53 && k != 64 && k != 1000 {
			continue
		}
		p := new(big.Int).Lsh(big.NewInt(1), k)
		tie := new(big.Int).Lsh(big.NewInt(1), k-53)
		for _, m := range []int64{1, 3} { // m*tie: round-to-even goes down for 1, up for 3
			t := new(big.Int).Add(p, new(big.Int).Mul(tie, big.NewInt(m)))
			add(t)
			add(new(big.Int).Add(t, big.NewInt(1)))
			add(new(big.Int).Sub(t, big.NewInt(1)))
		}
	}
	for _, x := range c15Huge() {
		set[x.String()] = x
	}
	var out []*big.Int
	for _, v := range set {
		out = append(out, v)
	}
	sort.Slice(out, func(i, j int) bool {
		if c := out[i].CmpAbs(out[j]); c != 0 {
			return c < 0
		}
		return out[i].Sign() > out[j].Sign()
	})
	return out
}

// ---------------------------------------------------------------------------------------
// conversions

var c15maxFloatInt = func() *big.Int {
	x, _ := new(big.Float).SetFloat64(math.MaxFloat64).Int(nil)
	return x
}()

// intToFloat: correctly rounded (nearest, ties to even); ok=false when the result is not finite
// (Python raises OverflowError).
func intToFloat(i *big.Int) (float64, bool) {
	bf := new(big.Float).SetPrec(53).SetMode(big.ToNearestEven).SetInt(i)
	f, _ := bf.Float64()
	if math.IsInf(f, 0) {
		return 0, false
	}
	return f, true
}

// operand -> float as Python's float operators do it (ints are converted, OverflowError if too large)
func (v c15val) toFloat() (float64, bool) {
	if v.t == "float" {
		return v.f, true
	}
	return intToFloat(v.i)
}

func floatToInt(f float64) mv {
	switch {
	case math.IsNaN(f):
		return mvExc("ValueError")
	case math.IsInf(f, 0):
		return mvExc("OverflowError")
	}
	i, _ := new(big.Float).SetFloat64(f).Int(nil) // truncates toward zero
	return mvI(i)
}

// ---------------------------------------------------------------------------------------
// float arithmetic (CPython Objects/floatobject.c)

// pyDivmod is float_divmod for finite-or-not doubles with wx != 0.
func pyDivmod(vx, wx float64) (float64, float64) {
	mod := math.Mod(vx, wx) // C fmod: exact
	div := (vx - mod) / wx
	if mod != 0 {
		// ensure the remainder has the same sign as the denominator
		if (wx < 0) != (mod < 0) {
			mod += wx
			div -= 1.0
		}
	} else {
		mod = math.Copysign(0, wx)
	}
	var floordiv float64
	if div != 0 {
		floordiv = math.Floor(div)
		if div-floordiv > 0.5 {
			floordiv += 1.0
		}
	} else {
		floordiv = math.Copysign(0, vx/wx)
	}
	return floordiv, mod
}

func isOddInteger(x float64) bool { return math.Mod(math.Abs(x), 2.0) == 1.0 }

// pyFloatPow is float_pow; results that are not exactly representable are skipped (the
// model does not claim to know how libm rounds them).
func pyFloatPow(iv, iw float64) mv {
	switch {
	case iw == 0:
		return mvF(1.0)
	case math.IsNaN(iv):
		return mvF(iv)
	case math.IsNaN(iw):
		if iv == 1.0 {
			return mvF(1.0)
		}
		return mvF(iw)
	case math.IsInf(iw, 0):
		a := math.Abs(iv)
		switch {
		case a == 1.0:
			return mvF(1.0)
		case (iw > 0) == (a > 1.0):
			return mvF(math.Inf(1))
		}
		return mvF(0.0)
	case math.IsInf(iv, 0):
		odd := isOddInteger(iw)
		if iw > 0 {
			if odd {
				return mvF(iv)
			}
			return mvF(math.Abs(iv))
		}
		if odd {
			return mvF(math.Copysign(0, iv))
		}
		return mvF(0.0)
	case iv == 0:
		odd := isOddInteger(iw)
		if iw < 0 {
			return mvExc("ZeroDivisionError")
		}
		if odd {
			return mvF(iv)
		}
		return mvF(0.0)
	}
	negate := false
	if iv < 0 {
		if iw != math.Floor(iw) {
			if iw*math.Log2(-iv) > 1000 {
				return mvSkip // the complex power overflows (OverflowError); edge not modelled
			}
			return mvTypeOnly("complex") // negative ** fraction is complex in Python 3
		}
		negate = isOddInteger(iw)
		iv = -iv
	}
	sgn := func(x float64) float64 {
		if negate {
			return -x
		}
		return x
	}
	if iv == 1.0 {
		return mvF(sgn(1.0))
	}
	// finite iv > 0, iv != 1, finite iw != 0
	est := iw * math.Log2(iv)
	if est > 1030 {
		return mvExc("OverflowError")
	}
	if est < -1085 {
		return mvF(sgn(0.0))
	}
	var exact *big.Rat
	switch {
	case iw == math.Floor(iw) && math.Abs(iw) <= 2200:
		r := new(big.Rat).SetFloat64(iv)
		n := int64(math.Abs(iw))
		num := new(big.Int).Exp(r.Num(), big.NewInt(n), nil)
		den := new(big.Int).Exp(r.Denom(), big.NewInt(n), nil)
		if iw < 0 {
			num, den = den, num
		}
		exact = new(big.Rat).SetFrac(num, den)
	case math.Abs(iw) == 0.5:
		r := new(big.Rat).SetFloat64(iv)
		sn := new(big.Int).Sqrt(r.Num())
		sd := new(big.Int).Sqrt(r.Denom())
		if new(big.Int).Mul(sn, sn).Cmp(r.Num()) != 0 || new(big.Int).Mul(sd, sd).Cmp(r.Denom()) != 0 {
			return mvSkip
		}
		if iw < 0 {
			sn, sd = sd, sn
		}
		exact = new(big.Rat).SetFrac(sn, sd)
	default:
		return mvSkip
	}
	f, isExact := exact.Float64()
	switch {
	case isExact:
		return mvF(sgn(f))
	case math.IsInf(f, 0) && exact.Cmp(new(big.Rat).SetInt(new(big.Int).Lsh(big.NewInt(1), 1024))) >= 0:
		return mvExc("OverflowError")
	case f == 0:
		return mvF(sgn(0.0)) // below half the smallest subnormal: underflows to zero silently
	}
	return mvSkip
}

// cmpIntFloat compares an int with a float exactly.
func cmpIntFloat(i *big.Int, f float64) (c int, unordered bool) {
	switch {
	case math.IsNaN(f):
		return 0, true
	case math.IsInf(f, 1):
		return -1, false
	case math.IsInf(f, -1):
		return 1, false
	}
	return new(big.Rat).SetInt(i).Cmp(new(big.Rat).SetFloat64(f)), false
}

func cmpFloats(a, b float64) (int, bool) {
	switch {
	case math.IsNaN(a) || math.IsNaN(b):
		return 0, true
	case a < b:
		return -1, false
	case a > b:
		return 1, false
	}
	return 0, false
}

func cmpResult(op string, c int, unordered bool) mv {
	if unordered {
		return mvB(op == "ne")
	}
	switch op {
	case "lt":
		return mvB(c < 0)
	case "le":
		return mvB(c <= 0)
	case "eq":
		return mvB(c == 0)
	case "ne":
		return mvB(c != 0)
	case "gt":
		return mvB(c > 0)
	case "ge":
		return mvB(c >= 0)
	}
	panic("cmpResult " + op)
}

func c15IsCmp(op string) bool {
	switch op {
	case "lt", "le", "eq", "ne", "gt", "ge":
		return true
	}
	return false
}

// c15Bin is the model of `a op b` for operands of which at least one is a float, and of
// int / int and int ** negative int (the int operations that produce floats).
func c15Bin(op string, a, b c15val) mv {
	if a.t == "complex" || b.t == "complex" {
		return c15ComplexBin(op, a, b)
	}
	if c15IsCmp(op) {
		switch {
		case a.isInt() && b.isInt():
			return cmpResult(op, a.i.Cmp(b.i), false)
		case a.isInt():
			c, u := cmpIntFloat(a.i, b.f)
			return cmpResult(op, c, u)
		case b.isInt():
			c, u := cmpIntFloat(b.i, a.f)
			return cmpResult(op, -c, u)
		}
		c, u := cmpFloats(a.f, b.f)
		return cmpResult(op, c, u)
	}
	if a.isInt() && b.isInt() {
		switch op {
		case "truediv":
			if b.i.Sign() == 0 {
				return mvExc("ZeroDivisionError")
			}
			f, _ := new(big.Rat).SetFrac(a.i, b.i).Float64() // nearest, ties to even
			if math.IsInf(f, 0) {
				return mvExc("OverflowError")
			}
			if f == 0 {
				// long_true_divide: the sign of a zero result is sign(a) xor sign(b) (0 / -5 == -0.0)
				f = 0
				if (a.i.Sign() < 0) != (b.i.Sign() < 0) {
					f = math.Copysign(0, -1)
				}
			}
			return mvF(f)
		case "pow":
			if b.i.Sign() >= 0 {
				return mvSkip // exact int power: C07
			}
			// int ** negative int: both converted to float, then float pow
		default:
			return mvSkip
		}
	}
	x, okx := a.toFloat()
	y, oky := b.toFloat()
	if !okx || !oky {
		return mvExc("OverflowError")
	}
	switch op {
	case "add":
		return mvF(x + y)
	case "sub":
		return mvF(x - y)
	case "mul":
		return mvF(x * y)
	case "truediv":
		if y == 0 {
			return mvExc("ZeroDivisionError")
		}
		return mvF(x / y)
	case "floordiv", "mod", "divmod":
		if y == 0 {
			return mvExc("ZeroDivisionError")
		}
		q, m := pyDivmod(x, y)
		switch op {
		case "floordiv":
			return mvF(q)
		case "mod":
			return mvF(m)
		}
		return mvT(mvF(q), mvF(m))
	case "pow":
		return pyFloatPow(x, y)
	}
	panic("c15Bin " + op)
}

// ---------------------------------------------------------------------------------------
// complex (CPython Objects/complexobject.c)

func (v c15val) toComplex() (re, im float64, ok bool) {
	if v.t == "complex" {
		return v.f, v.im, true
	}
	f, ok := v.toFloat()
	return f, 0, ok
}

func c15ComplexBin(op string, a, b c15val) mv {
	if op == "eq" || op == "ne" {
		var eq bool
		switch {
		case a.t == "complex" && b.t == "complex":
			eq = a.f == b.f && a.im == b.im
		default:
			c, o := a, b
			if c.t != "complex" {
				c, o = b, a
			}
			// complex == real: imaginary part must be zero and the real parts compare (exactly for ints)
			if c.im != 0 {
				eq = false
			} else if o.isInt() {
				r, u := cmpIntFloat(o.i, c.f)
				eq = !u && r == 0
			} else {
				eq = c.f == o.f
			}
		}
		return mvB(eq == (op == "eq"))
	}
	if c15IsCmp(op) {
		return mvExc("TypeError")
	}
	ar, ai, ok1 := a.toComplex()
	br, bi, ok2 := b.toComplex()
	if !ok1 || !ok2 {
		return mvExc("OverflowError")
	}
	switch op {
	case "add":
		return mvC(ar+br, ai+bi)
	case "sub":
		return mvC(ar-br, ai-bi)
	case "mul":
		return mvC(ar*br-ai*bi, ar*bi+ai*br)
	case "truediv":
		if !(fin(ar) && fin(ai) && fin(br) && fin(bi)) {
			// CPython's formula yields nan+nanj where C99 Annex G (Go) yields infinities or
			// zeros; Python does not define the result
			return mvSkip
		}
		// _Py_c_quot
		absr, absi := math.Abs(br), math.Abs(bi)
		var re, im float64
		switch {
		case absr >= absi:
			if absr == 0 {
				return mvExc("ZeroDivisionError")
			}
			ratio := bi / br
			denom := br + bi*ratio
			re = (ar + ai*ratio) / denom
			im = (ai - ar*ratio) / denom
		case absi >= absr:
			ratio := br / bi
			denom := br*ratio + bi
			re = (ar*ratio + ai) / denom
			im = (ai*ratio - ar) / denom
		default:
			re, im = math.NaN(), math.NaN()
		}
		m := mvC(re, im)
		// the exact quotient, correctly rounded per component, is accepted as well
		// (Python does not define the algorithm)
		if fin(ar) && fin(ai) && fin(br) && fin(bi) {
			R := func(x float64) *big.Rat { return new(big.Rat).SetFloat64(x) }
			den := new(big.Rat).Add(new(big.Rat).Mul(R(br), R(br)), new(big.Rat).Mul(R(bi), R(bi)))
			if den.Sign() != 0 {
				nr := new(big.Rat).Add(new(big.Rat).Mul(R(ar), R(br)), new(big.Rat).Mul(R(ai), R(bi)))
				ni := new(big.Rat).Sub(new(big.Rat).Mul(R(ai), R(br)), new(big.Rat).Mul(R(ar), R(bi)))
				er, _ := nr.Quo(nr, den).Float64()
				ei, _ := ni.Quo(ni, den).Float64()
				// keep the sign of zero of the formula result (an exact 0 carries no sign)
				if er == 0 {
					er = math.Copysign(0, re)
				}
				if ei == 0 {
					ei = math.Copysign(0, im)
				}
				if !math.IsInf(er, 0) && !math.IsInf(ei, 0) {
					m = m.withAlt(mvC(er, ei))
				}
			}
		}
		return m
	}
	return mvSkip
}

func fin(x float64) bool { return !math.IsNaN(x) && !math.IsInf(x, 0) }

// ---------------------------------------------------------------------------------------
// round

// roundHalfEven rounds the exact value of x to a multiple of 10^-n, ties to even.
// Returns the rounded value as an exact rational.
func roundHalfEvenRat(x *big.Rat, n int) *big.Rat {
	scale := new(big.Rat).SetInt(new(big.Int).Exp(big.NewInt(10), big.NewInt(int64(abs(n))), nil))
	s := new(big.Rat).Set(x)
	if n >= 0 {
		s.Mul(s, scale)
	} else {
		s.Quo(s, scale)
	}
	// floor
	q := new(big.Int)
	m := new(big.Int)
	q.DivMod(s.Num(), s.Denom(), m) // Euclidean, denominator > 0: q = floor
	frac := new(big.Rat).SetFrac(m, s.Denom())
	switch frac.Cmp(big.NewRat(1, 2)) {
	case 1:
		q.Add(q, big.NewInt(1))
	case 0:
		if q.Bit(0) == 1 {
			q.Add(q, big.NewInt(1))
		}
	}
	r := new(big.Rat).SetInt(q)
	if n >= 0 {
		r.Quo(r, scale)
	} else {
		r.Mul(r, scale)
	}
	return r
}

func abs(n int) int {
	if n < 0 {
		return -n
	}
	return n
}

// pyRoundFloat: round(x) (hasN=false: returns int) and round(x, n) (returns float).
func pyRoundFloat(x float64, hasN bool, n int) mv {
	if !hasN {
		switch {
		case math.IsNaN(x):
			return mvExc("ValueError")
		case math.IsInf(x, 0):
			return mvExc("OverflowError")
		}
		r := roundHalfEvenRat(new(big.Rat).SetFloat64(x), 0)
		return mvI(new(big.Int).Set(r.Num()))
	}
	if math.IsNaN(x) || math.IsInf(x, 0) || x == 0 {
		return mvF(x)
	}
	r := roundHalfEvenRat(new(big.Rat).SetFloat64(x), n)
	f, _ := r.Float64()
	if math.IsInf(f, 0) {
		return mvExc("OverflowError")
	}
	if f == 0 {
		f = math.Copysign(0, x)
	}
	return mvF(f)
}

// pyRoundInt: round(i) and round(i, n): ints stay ints; negative n rounds half to even.
func pyRoundInt(i *big.Int, hasN bool, n int) mv {
	if !hasN || n >= 0 {
		return mvI(i)
	}
	r := roundHalfEvenRat(new(big.Rat).SetInt(i), n)
	return mvI(new(big.Int).Set(r.Num()))
}

// ---------------------------------------------------------------------------------------
// repr

// pyFloatRepr is Python's repr(float) == str(float): the shortest digit string that
// round-trips, laid out by format_float_short with type 'r': exponent form iff
// decpt > 16 or decpt < -3 (decpt = position of the decimal point relative to the digits).
func pyFloatRepr(x float64) string {
	switch {
	case math.IsNaN(x):
		return "nan"
	case math.IsInf(x, 1):
		return "inf"
	case math.IsInf(x, -1):
		return "-inf"
	}
	sign := ""
	if math.Signbit(x) {
		sign = "-"
	}
	s := strconv.FormatFloat(math.Abs(x), 'e', -1, 64) // d[.ddd]e±XX, shortest round-trip digits
	ei := strings.IndexByte(s, 'e')
	mant, es := s[:ei], s[ei+1:]
	e10, _ := strconv.Atoi(es)
	digits := strings.Replace(mant, ".", "", 1)
	if x == 0 {
		digits, e10 = "0", 0
	}
	decpt := e10 + 1
	if decpt > 16 || decpt < -3 {
		out := digits[:1]
		if len(digits) > 1 {
			out += "." + digits[1:]
		}
		e := decpt - 1
		es := strconv.Itoa(abs(e))
		if len(es) < 2 {
			es = "0" + es
		}
		if e < 0 {
			return sign + out + "e-" + es
		}
		return sign + out + "e+" + es
	}
	switch {
	case decpt <= 0:
		return sign + "0." + strings.Repeat("0", -decpt) + digits
	case len(digits) <= decpt:
		return sign + digits + strings.Repeat("0", decpt-len(digits)) + ".0"
	}
	return sign + digits[:decpt] + "." + digits[decpt:]
}

// pyFloatFromText: float(text) for the text alphabet of the check (ASCII, no underscores).
// ok=false: ValueError.
func pyFloatFromText(t string) (float64, bool) {
	s := strings.Trim(t, " \t\n\r\x0b\x0c")
	if s == "" {
		return 0, false
	}
	neg := false
	body := s
	if body[0] == '+' || body[0] == '-' {
		neg = body[0] == '-'
		body = body[1:]
	}
	low := strings.ToLower(body)
	var f float64
	switch low {
	case "inf", "infinity":
		f = math.Inf(1)
	case "nan":
		f = math.NaN()
	default:
		// decimal: digits [. digits] [e [sign] digits], at least one digit in the mantissa
		i := 0
		nd := 0
		for i < len(low) && low[i] >= '0' && low[i] <= '9' {
			i++
			nd++
		}
		if i < len(low) && low[i] == '.' {
			i++
			for i < len(low) && low[i] >= '0' && low[i] <= '9' {
				i++
				nd++
			}
		}
		if nd == 0 {
			return 0, false
		}
		if i < len(low) && low[i] == 'e' {
			i++
			if i < len(low) && (low[i] == '+' || low[i] == '-') {
				i++
			}
			ne := 0
			for i < len(low) && low[i] >= '0' && low[i] <= '9' {
				i++
				ne++
			}
			if ne == 0 {
				return 0, false
			}
		}
		if i != len(low) {
			return 0, false
		}
		// exact decimal -> nearest double through big.Rat (not through strconv.ParseFloat)
		r, ok := new(big.Rat).SetString(low)
		if !ok {
			return 0, false
		}
		f, _ = r.Float64() // nearest even; ±Inf when too large (Python: inf, no error)
	}
	if neg {
		f = -f
	}
	return f, true
}

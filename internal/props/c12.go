//go:build verifov

package props

// C12: emitted code objects are well-formed and stack-safe on every path; the stack
// and block depths the VM actually reaches are the statically predicted ones.

import (
	"fmt"
	"os"
	"path/filepath"
	"runtime/debug"
	"runtime/pprof"
	"sort"
	"strings"

	"github.com/go-python/gpython/py"
	"verif/internal/core"
	"verif/internal/harness"
	"verif/verifrt"
)

const c12Prelude = `
class CMc:
    def __enter__(self):
        return (1, 2)
    def __exit__(self, t, v, tb):
        return False
class CSc:
    def __enter__(self):
        return (1, 2)
    def __exit__(self, t, v, tb):
        return True
class Oc:
    pass
def k(*p, **q):
    if p:
        return p[0]
    return 0
def g(*p, **q):
    raise ValueError("g")
CM = CMc()
CS = CSc()
`

type c12Stop struct{}

type c12Mismatch struct {
	Sig    string
	Detail string
}

// hook state (one interpreter per worker process)
var c12h struct {
	cur        map[*py.Code]*c12Analysis // code objects of the program under test
	persistent map[*py.Code]*c12Analysis // prelude / imported modules, analysed lazily
	lastCode   *py.Code
	lastAn     *c12Analysis
	steps      int64
	budget     int64
	validated  int64
	skipped    int64
	mism       []c12Mismatch
	mseen      map[string]bool
	lazy       []*c12Analysis
	maxStates  int
}

func c12Lookup(co *py.Code) *c12Analysis {
	if co == c12h.lastCode {
		return c12h.lastAn
	}
	an := c12h.cur[co]
	if an == nil {
		an = c12h.persistent[co]
	}
	if an == nil {
		// code the corpus did not list (prelude, imported module, exec/eval): analyse now
		for _, c := range AllCodes(co) {
			if c12h.persistent[c] == nil {
				x := c12Analyse(c, 0, c12h.maxStates)
				c12h.persistent[c] = x
				c12h.lazy = append(c12h.lazy, x)
			}
		}
		an = c12h.persistent[co]
	}
	c12h.lastCode, c12h.lastAn = co, an
	return an
}

func c12Mism(sig, format string, args ...interface{}) {
	d := fmt.Sprintf(format, args...)
	k := sig + "|" + d
	if c12h.mseen[k] {
		return
	}
	c12h.mseen[k] = true
	if len(c12h.mism) < 16 {
		c12h.mism = append(c12h.mism, c12Mismatch{sig, d})
	}
}

func c12Hook(frame interface{}, opname string) {
	f, ok := frame.(*py.Frame)
	if !ok {
		return
	}
	c12h.steps++
	if c12h.steps > c12h.budget {
		panic(c12Stop{})
	}
	an := c12Lookup(f.Code)
	lasti := int(f.Lasti)
	idx := int32(-1)
	if lasti >= 0 && lasti < len(an.endAt) {
		idx = an.endAt[lasti]
	}
	if idx < 0 {
		c12Mism("dynamic:pc-not-on-instruction-boundary", "code %q: handler %s entered with Lasti=%d which is not the end of a decoded instruction", f.Code.Name, opname, lasti)
		return
	}
	in := &an.ins[idx]
	if c12Name[in.op] != opname {
		c12Mism("dynamic:opcode-differs-from-decoding", "code %q pc %d: VM runs %s, decoded %s", f.Code.Name, in.pc, opname, c12Name[in.op])
		return
	}
	depth, nb := len(f.Stack), len(f.Blockstack)
	if depth > int(f.Code.Stacksize) {
		c12Mism("dynamic:depth-exceeds-stacksize", "code %q pc %d %s: stack depth %d > stacksize %d", f.Code.Name, in.pc, opname, depth, f.Code.Stacksize)
	}
	if an.capped {
		c12h.skipped++
		return
	}
	if _, ok := an.reach[c12proj(in.pc, depth, nb)]; !ok {
		c12Mism("dynamic:state-not-in-abstract-set", "code %q pc %d %s: VM has (stack depth %d, block depth %d); abstract reachable set at this pc: %s", f.Code.Name, in.pc, opname, depth, nb, c12At(an, in.pc))
		return
	}
	c12h.validated++
}

// c12At lists the abstract (depth, blocks) pairs reachable at pc.
func c12At(an *c12Analysis, pc int32) string {
	var o []string
	for k := range an.reach {
		if int32(k>>32) == pc {
			o = append(o, fmt.Sprintf("(%d,%d)", uint16(k>>16), uint16(k)))
		}
	}
	sort.Strings(o)
	if len(o) == 0 {
		return "{} (statically unreachable)"
	}
	return "{" + strings.Join(o, " ") + "}"
}

type c12Env struct {
	ev      *evaluator
	prelude py.StringDict
}

func c12NewEnv() *c12Env {
	ev := newEvaluator()
	g, err := ev.Exec(c12Prelude)
	if err != nil {
		panic(fmt.Sprintf("c12 prelude: %v", err))
	}
	return &c12Env{ev: ev, prelude: g}
}

func (e *c12Env) globals() py.StringDict {
	g := py.StringDict{"__builtins__": e.ev.ctx.Store().Builtins, "__name__": py.String("__main__")}
	for _, n := range []string{"CM", "CS", "k", "g"} {
		g[n] = e.prelude[n]
	}
	g["a"], g["b"], g["c"], g["z"] = py.Int(1), py.Int(2), py.Int(3), py.Int(0)
	g["E1"], g["E2"] = py.ValueError, py.KeyError
	g["R"] = py.Tuple{py.Int(0), py.Int(1)}
	g["L"] = py.NewListFromItems([]py.Object{py.Int(1), py.Int(2), py.Int(3)})
	d := py.NewStringDict()
	d["p"] = py.Int(1)
	g["D"] = d
	if o, err := py.Call(e.prelude["Oc"], nil, nil); err == nil {
		g["O"] = o
	}
	n := 0
	g["T"] = py.MustNewMethod("T", func(self py.Object, args py.Tuple) (py.Object, error) {
		n++
		return py.NewBool(n <= 12 && n%3 != 0), nil
	}, 0, "")
	return g
}

// run executes f with the step hook installed; stopped reports a budget abort.
func c12WithHook(budget int64, f func()) (stopped bool) {
	c12h.steps, c12h.budget = 0, budget
	c12h.lastCode, c12h.lastAn = nil, nil
	verifrt.StepHook = c12Hook
	defer func() {
		verifrt.StepHook = nil
		if r := recover(); r != nil {
			if _, ok := r.(c12Stop); ok {
				stopped = true
				return
			}
			panic(r)
		}
	}()
	f()
	return false
}

var c12RepoRunDirs = []string{"py/tests", "vm/tests", "stdlib/builtin/tests", "stdlib/math/tests", "stdlib/string/testdata",
	"stdlib/array/testdata", "stdlib/binascii/testdata", "vm/benchmarks", "examples", "testdata", "pytest/testdata"}

func c12RepoRunnable(path string) bool {
	dir := filepath.ToSlash(filepath.Dir(path))
	for _, d := range c12RepoRunDirs {
		if strings.HasSuffix(dir, "/"+d) {
			return true
		}
	}
	return false
}

func c12CountLines(src string) int {
	n := strings.Count(src, "\n")
	if !strings.HasSuffix(src, "\n") {
		n++
	}
	return n
}

func c12Run(rc *core.RunCtx) {
	// every case compiles a fresh program (the parser allocates its stacks anew each
	// time): collect less often, the heap stays small anyway
	debug.SetGCPercent(1000)
	env := c12NewEnv()
	c12h.persistent = map[*py.Code]*c12Analysis{}
	c12h.maxStates = 200000
	if !rc.Quick() {
		c12h.maxStates = 4000000
	}

	check := func(p c12Prog, file string, repo bool) {
		fields := core.Fields{"gen": p.Gen, "shape": p.Shape, "leaf": p.Leaf}
		input := func() string { return p.Src }
		if repo {
			input = func() string { return "file " + file }
		}
		rc.Guard(fields, input, func() {
			name := file
			if name == "" {
				name = "<c12>"
			}
			code, err := py.Compile(p.Src, name, py.ExecMode, 0, true)
			if err != nil {
				t, _, msg := excOf(err)
				rc.Eval("rejected:"+t, "")
				if t != "SyntaxError" && t != "IndentationError" && !repo {
					rc.Deviate(core.Deviation{Fields: fields, Input: p.Src, Expected: "a code object or SyntaxError", Observed: t + ": " + short(msg, 200), Sig: "compile:fails-with-" + t})
				}
				return
			}
			nlines := c12CountLines(p.Src)
			c12h.cur = map[*py.Code]*c12Analysis{}
			c12h.mism, c12h.mseen, c12h.lazy = nil, map[string]bool{}, nil
			c12h.validated, c12h.skipped = 0, 0
			codes := AllCodes(code)
			report := func(an *c12Analysis, part string) {
				seen := map[string]bool{}
				for _, v := range c12SortedViols(an.viols) {
					if seen[v.Sig] {
						continue
					}
					seen[v.Sig] = true
					fl := core.Fields{"gen": p.Gen, "shape": p.Shape, "leaf": p.Leaf, "code": an.code.Name, "part": part}
					rc.Deviate(core.Deviation{Fields: fl, Input: short(p.Src, 1500) + "\n--- code " + an.code.Name + fmt.Sprintf(" stacksize=%d flags=%#x\n", an.code.Stacksize, an.code.Flags) + c12Disasm(an.code, 120),
						Expected: "invariant holds on every reachable abstract state", Observed: v.Detail, Sig: v.Sig})
				}
				if an.capped {
					rc.Cap(fmt.Sprintf("state cap reached for code %q of %s %s %s", an.code.Name, p.Gen, p.Shape, p.Leaf))
				}
			}
			var key strings.Builder
			for _, c := range codes {
				an := c12Analyse(c, nlines, c12h.maxStates)
				c12h.cur[c] = an
				rc.Count("code_objects", 1)
				rc.Count("states", an.states)
				rc.Count("transitions", an.trans)
				rc.Count("exception_edges", an.excEdge)
				rc.Count("max_states_per_code_object", an.states)
				rc.Count("max_abstract_depth", int64(an.maxDep))
				rc.Count("max_abstract_block_depth", int64(an.maxBlk))
				report(an, "static")
				fmt.Fprintf(&key, "%s|%d|%d;", c.Code, c.Stacksize, len(c.Consts))
			}
			outcome := "compiled"
			if p.Run {
				var rerr error
				var stopped bool
				if repo {
					stopped = c12WithHook(400000, func() {
						o := harness.RunOpts(p.Src, harness.Opts{Filename: file, SysPaths: []string{filepath.Dir(file)}})
						if o.ExcType != "" {
							rerr = fmt.Errorf("%s", o.ExcType)
							outcome = "ran:raised:" + o.ExcType
						}
					})
				} else {
					g := env.globals()
					stopped = c12WithHook(50000, func() {
						_, rerr = env.ev.ctx.RunCode(code, g, g, nil)
					})
					if rerr != nil {
						t, _, _ := excOf(rerr)
						outcome = "ran:raised:" + t
					}
				}
				if rerr == nil {
					outcome = "ran:ok"
				}
				if stopped {
					outcome = "ran:step-budget"
				}
				for _, m := range c12h.mism {
					fl := core.Fields{"gen": p.Gen, "shape": p.Shape, "leaf": p.Leaf, "part": "dynamic"}
					rc.Deviate(core.Deviation{Fields: fl, Input: short(p.Src, 3000), Expected: "every executed (code, pc, stack depth, block depth) is a reachable abstract state and depth <= stacksize",
						Observed: m.Detail, Sig: m.Sig})
				}
				for _, an := range c12h.lazy {
					rc.Count("code_objects_lazy", 1)
					rc.Count("states", an.states)
					rc.Count("transitions", an.trans)
					report(an, "static-lazy")
				}
				rc.Count("traces_validated", c12h.validated)
				rc.Count("traces_skipped_capped_analysis", c12h.skipped)
				rc.Count("max_steps_one_program", c12h.steps)
			}
			rc.Eval(outcome, key.String())
			if rc.WantSample() && rc.Index()%9973 == 0 {
				rc.Sample(map[string]string{"gen": p.Gen, "shape": p.Shape, "leaf": p.Leaf, "outcome": outcome, "code_objects": itoa(len(codes)), "src": short(p.Src, 300)})
			}
			c12h.cur = nil
		})
	}

	if f := os.Getenv("C12_PROF"); f != "" {
		if w, err := os.Create(f); err == nil {
			pprof.StartCPUProfile(w)
			defer pprof.StopCPUProfile()
		}
	}
	if f := os.Getenv("C12_SRC"); f != "" {
		// development aid: check one source file and print everything
		b, _ := os.ReadFile(f)
		c12Debug(env, string(b))
		return
	}
	// (a) scope corpus
	rc.Part = "scope"
	for _, p := range ScopeCorpus() {
		if rc.Expired() || rc.Done() {
			return
		}
		if !rc.Take() {
			continue
		}
		check(c12Prog{Gen: "scope", Shape: p.Name, Leaf: "-", Src: p.Src, Run: true}, "", false)
	}
	// (b) hand-written limit programs
	rc.Part = "special"
	for _, p := range c12Special(rc.Quick()) {
		if rc.Expired() || rc.Done() {
			return
		}
		if !rc.Take() {
			continue
		}
		check(p, "", false)
	}
	// (c) every .py file of the repository
	rc.Part = "repo"
	root := repoRoot()
	for _, p := range RepoCorpus() {
		if rc.Expired() || rc.Done() {
			return
		}
		if !rc.Take() {
			continue
		}
		rel := strings.TrimPrefix(p.Name, root+"/")
		check(c12Prog{Gen: "repo", Shape: rel, Leaf: "-", Src: p.Src, Run: c12RepoRunnable(p.Name)}, p.Name, true)
	}
	// (d) generated programs
	rc.Part = "generated"
	c12EachGenerated(rc.Quick(), func(build func() c12Prog) bool {
		if rc.Expired() || rc.Done() {
			return false
		}
		if !rc.Take() {
			return true
		}
		check(build(), "", false)
		return true
	})
}

func repoRoot() string {
	files := RepoPyFiles()
	if len(files) == 0 {
		return ""
	}
	// longest common directory prefix
	pre := filepath.Dir(files[0])
	for _, f := range files {
		for !strings.HasPrefix(f, pre+"/") {
			pre = filepath.Dir(pre)
		}
	}
	return pre
}

func init() {
	core.Register(&core.Check{
		ID:    "C12",
		Level: "model_checking",
		Mode:  "ov",
		Rule: "corpus = every code object (recursively through co_consts) compiled from: the scope corpus; every .py file of the repository; hand-written limit programs (19/20/21/25 nested for/try/with, EXTENDED_ARG jump, relative jumps over > 65535 bytes, loop headers and jump targets at every byte offset around 0xFFFF, chains of 999..2500 if / if-else / elif / and / conditional expression / while / try statements followed by a 25-argument call, line/byte gaps > 255 in the line table, wide operands); and the generated programs: " +
			"(1) SPINES: wrapper in {module, function, generator, class body, closure} x every sequence of 0..2 (quick) / 0..3 (thorough; sequences of 3 only in the module/function/generator wrappers with the first 11 leaves) one-hole compound-statement contexts out of 49 (if/elif/else arms, while/for body and else, try body/handler (bare, typed, `as`, 2nd handler)/else/finally entered normally, by exception, return, break, continue, with (1-2 managers, `as`, swallowing), def/generator/def with all parameter kinds/closure/decorated def/class/class in def) x leaf in {pass, assignment, break, continue, return v, raise E, yield, bare raise, bare return, x = yield, yield from (+ raising call, raise from: thorough)}; " +
			"(2) TEMPLATES: 13 compound statements with 2-4 suites, every combination of 6 (quick) / 10 (thorough) leaves in the suites, in 6 wrappers (function/generator/module, inside for/while/with/try-finally); " +
			"(3) ~100 straight-line statement forms (augmented assignment to name/attribute/subscript/slice, star-unpacking, del, assert, global/nonlocal, import forms, call forms with */**, decorators, keyword-only defaults, annotations, class forms, comprehensions, yield forms) bare and under each context in each wrapper; " +
			"(4) EXPRESSIONS: 66 one-hole expression contexts (boolean operators, chained comparisons, conditional, calls with */**, attribute/subscript/slices, displays, list/set/dict comprehensions and generator expressions with conditions and nested fors, lambdas with defaults, yield) nested 0..1 deep at 31 statement positions and 2 deep at assignment/return (quick); 2 deep at every position and 3 deep at assignment (thorough), closed by 6 atoms. " +
			"Programs the compiler rejects with SyntaxError are counted as rejected. For each code object: table checks, then explicit-state search of an abstract VM over (pc, stack of tags, block stack) along normal, both conditional, FOR_ITER-exhaustion, exception (from every instruction that can raise), break/continue/return unwinding edges; invariants on every state. " +
			"Then the program is executed on the real VM with a hook at every opcode handler: every executed (code, pc, stack depth, block depth) must be in the abstract reachable set and depth <= co_stacksize. Non-trivial: distinct (bytecode, stacksize) sets.",
		Run: c12Run,
		Assumptions: []string{
			"the abstract VM (internal/props/c12abs.go) is my reading of vm/eval.go and CPython 3.4 ceval.c; it is bound to the real VM by the dynamic conformance pass (every executed instruction is checked against it), so a modelling error shows up as a dynamic deviation rather than silently",
			"exception edges are assumed from every instruction except pure stack shuffles, constant loads, jumps and block set-up/tear-down; data-dependent infeasible paths make 'every path' conservative",
			"an instruction's pc is derived from frame.Lasti at handler entry (already advanced past the instruction) through the decoded instruction boundaries; the opcode name passed by the hook must equal the decoded opcode",
			"generated programs run with a 50 000 instruction budget, repository files (test and example directories only; os/tempfile/glob/time test scripts are analysed but not run) with 400 000",
		},
		Explanation: "exhaustive abstract interpretation of every emitted code object (all control-flow paths including unwinding) plus dynamic conformance of the real VM against the abstract reachable set",
	})
}

func c12Debug(env *c12Env, src string) {
	code, err := py.Compile(src, "<c12>", py.ExecMode, 0, true)
	if err != nil {
		fmt.Fprintf(os.Stderr, "compile error: %v\n", err)
		return
	}
	c12h.cur = map[*py.Code]*c12Analysis{}
	c12h.mism, c12h.mseen, c12h.lazy = nil, map[string]bool{}, nil
	for _, c := range AllCodes(code) {
		an := c12Analyse(c, c12CountLines(src), c12h.maxStates)
		c12h.cur[c] = an
		fmt.Fprintf(os.Stderr, "--- code %q stacksize=%d flags=%#x states=%d trans=%d maxdepth=%d\n%s", c.Name, c.Stacksize, c.Flags, an.states, an.trans, an.maxDep, c12Disasm(c, 400))
		for _, v := range an.viols {
			fmt.Fprintf(os.Stderr, "VIOL %s: %s\n", v.Sig, v.Detail)
		}
	}
	g := env.globals()
	var rerr error
	stopped := c12WithHook(50000, func() { _, rerr = env.ev.ctx.RunCode(code, g, g, nil) })
	fmt.Fprintf(os.Stderr, "run: err=%v stopped=%v steps=%d validated=%d\n", rerr, stopped, c12h.steps, c12h.validated)
	for _, m := range c12h.mism {
		fmt.Fprintf(os.Stderr, "MISMATCH %s: %s\n", m.Sig, m.Detail)
	}
}

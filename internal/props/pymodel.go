package props

import (
	"fmt"
	"math"
	"math/big"
	"strconv"
	"strings"

	"verif/internal/harness"
)

// A deliberately small reference model of Python values and operators, used by the
// language-semantics checks. It only claims what it is sure about: any operation
// outside its table returns errUnknown and the case is left out of the comparison.

type vkind int

const (
	kInt vkind = iota
	kBool
	kNone
	kStr
	kFloat
	kTuple
	kList
	kFunc // the prelude function F
	kObj  // the prelude object O (attribute a = 7)
)

type V struct {
	k     vkind
	i     *big.Int
	f     float64
	s     string
	items []V
}

func vInt(n int64) V    { return V{k: kInt, i: big.NewInt(n)} }
func vBig(x *big.Int) V { return V{k: kInt, i: x} }
func vBool(b bool) V {
	if b {
		return V{k: kBool, i: big.NewInt(1)}
	}
	return V{k: kBool, i: big.NewInt(0)}
}
func vFloat(f float64) V { return V{k: kFloat, f: f} }
func vStr(s string) V    { return V{k: kStr, s: s} }
func vTuple(xs ...V) V   { return V{k: kTuple, items: xs} }
func vList(xs ...V) V    { return V{k: kList, items: xs} }

var vNone = V{k: kNone}
var vF = V{k: kFunc}
var vO = V{k: kObj}

type pyExc struct{ typ string }

func (e *pyExc) Error() string { return e.typ }

var errUnknown = fmt.Errorf("outside the model")

func raise(t string) error { return &pyExc{t} }

// Canon must agree with harness.Canon on the real objects.
func (v V) Canon() string {
	switch v.k {
	case kInt:
		return v.i.String()
	case kBool:
		if v.i.Sign() != 0 {
			return "True"
		}
		return "False"
	case kNone:
		return "None"
	case kStr:
		return harness.CanonStr(v.s)
	case kFloat:
		return harness.CanonFloat(v.f)
	case kTuple, kList:
		var p []string
		for _, x := range v.items {
			p = append(p, x.Canon())
		}
		if v.k == kTuple {
			return "(" + strings.Join(p, ",") + ")"
		}
		return "[" + strings.Join(p, ",") + "]"
	case kFunc:
		return "<function>"
	case kObj:
		return "<O>"
	}
	return "?"
}

// Lit is the Python source spelling of the value.
func (v V) Lit() string {
	switch v.k {
	case kInt:
		if v.i.Sign() < 0 {
			return "(" + v.i.String() + ")"
		}
		return v.i.String()
	case kBool:
		if v.i.Sign() != 0 {
			return "True"
		}
		return "False"
	case kNone:
		return "None"
	case kStr:
		return pyStrLit(v.s)
	case kFloat:
		// non-finite floats have no literal: names bound by the prelude of the check that uses them
		switch {
		case math.IsNaN(v.f):
			return "NAN"
		case math.IsInf(v.f, 1):
			return "INF"
		case math.IsInf(v.f, -1):
			return "(-INF)"
		}
		return strconv.FormatFloat(v.f, 'g', 17, 64) + floatDot(v.f)
	case kTuple:
		var p []string
		for _, x := range v.items {
			p = append(p, x.Lit())
		}
		if len(p) == 1 {
			return "(" + p[0] + ",)"
		}
		return "(" + strings.Join(p, ", ") + ")"
	case kList:
		var p []string
		for _, x := range v.items {
			p = append(p, x.Lit())
		}
		return "[" + strings.Join(p, ", ") + "]"
	case kFunc:
		return "F"
	case kObj:
		return "O"
	}
	return "?"
}

func floatDot(f float64) string {
	s := strconv.FormatFloat(f, 'g', 17, 64)
	if strings.ContainsAny(s, ".e") {
		return ""
	}
	return ".0"
}

// numRat: exact rational value of an int/bool/finite float
func (v V) numRat() (*big.Rat, bool) {
	switch v.k {
	case kInt, kBool:
		return new(big.Rat).SetInt(v.i), true
	case kFloat:
		r := new(big.Rat)
		if r.SetFloat64(v.f) == nil {
			return nil, false
		}
		return r, true
	}
	return nil, false
}

func (v V) isNum() bool { return v.k == kInt || v.k == kBool }

func (v V) truth() bool {
	switch v.k {
	case kInt, kBool:
		return v.i.Sign() != 0
	case kNone:
		return false
	case kStr:
		return v.s != ""
	case kFloat:
		return v.f != 0
	case kTuple, kList:
		return len(v.items) > 0
	}
	return true
}

func mUnary(op string, x V) (V, error) {
	switch op {
	case "not":
		return vBool(!x.truth()), nil
	case "-", "+", "~":
		if !x.isNum() {
			if x.k == kFloat {
				return V{}, errUnknown
			}
			return V{}, raise("TypeError")
		}
		switch op {
		case "-":
			return vBig(new(big.Int).Neg(x.i)), nil
		case "+":
			return vBig(new(big.Int).Set(x.i)), nil
		default:
			return vBig(new(big.Int).Not(x.i)), nil
		}
	}
	return V{}, errUnknown
}

func mBinary(op string, a, b V) (V, error) {
	if a.k == kFloat || b.k == kFloat {
		return V{}, errUnknown
	}
	if a.isNum() && b.isNum() {
		x, y := a.i, b.i
		switch op {
		case "+":
			return vBig(new(big.Int).Add(x, y)), nil
		case "-":
			return vBig(new(big.Int).Sub(x, y)), nil
		case "*":
			return vBig(new(big.Int).Mul(x, y)), nil
		case "//", "%":
			if y.Sign() == 0 {
				return V{}, raise("ZeroDivisionError")
			}
			q, m := floorDivMod(x, y)
			if op == "//" {
				return vBig(q), nil
			}
			return vBig(m), nil
		case "/":
			if y.Sign() == 0 {
				return V{}, raise("ZeroDivisionError")
			}
			if !x.IsInt64() || !y.IsInt64() || x.BitLen() > 50 || y.BitLen() > 50 {
				return V{}, errUnknown
			}
			return V{k: kFloat, f: float64(x.Int64()) / float64(y.Int64())}, nil
		case "**":
			if y.Sign() < 0 {
				return V{}, errUnknown // float result (ZeroDivisionError for 0): left to C15
			}
			if y.BitLen() > 6 || x.BitLen() > 64 {
				return V{}, errUnknown
			}
			return vBig(new(big.Int).Exp(x, y, nil)), nil
		case "<<", ">>":
			if y.Sign() < 0 {
				return V{}, raise("ValueError")
			}
			if y.BitLen() > 7 {
				return V{}, errUnknown
			}
			if op == "<<" {
				return vBig(new(big.Int).Lsh(x, uint(y.Int64()))), nil
			}
			return vBig(new(big.Int).Rsh(x, uint(y.Int64()))), nil
		case "&", "|", "^":
			// bool op bool stays bool
			var r *big.Int
			switch op {
			case "&":
				r = new(big.Int).And(x, y)
			case "|":
				r = new(big.Int).Or(x, y)
			default:
				r = new(big.Int).Xor(x, y)
			}
			if a.k == kBool && b.k == kBool {
				return vBool(r.Sign() != 0), nil
			}
			return vBig(r), nil
		}
		return V{}, errUnknown
	}
	// sequences
	seq := func(v V) bool { return v.k == kStr || v.k == kTuple || v.k == kList }
	switch op {
	case "+":
		if a.k == b.k && seq(a) {
			if a.k == kStr {
				return vStr(a.s + b.s), nil
			}
			return V{k: a.k, items: append(append([]V{}, a.items...), b.items...)}, nil
		}
		return V{}, raise("TypeError")
	case "*":
		s, n := a, b
		if seq(b) && a.isNum() {
			s, n = b, a
		}
		if seq(s) && n.isNum() {
			if n.i.BitLen() > 4 {
				return V{}, errUnknown
			}
			c := int(n.i.Int64())
			if c < 0 {
				c = 0
			}
			if s.k == kStr {
				return vStr(strings.Repeat(s.s, c)), nil
			}
			var it []V
			for i := 0; i < c; i++ {
				it = append(it, s.items...)
			}
			return V{k: s.k, items: it}, nil
		}
		return V{}, raise("TypeError")
	case "%":
		if a.k == kStr {
			return V{}, errUnknown // string formatting
		}
		return V{}, raise("TypeError")
	case "-", "/", "//", "**", "<<", ">>", "&", "|", "^":
		if a.k == kFunc || a.k == kObj || b.k == kFunc || b.k == kObj {
			return V{}, errUnknown
		}
		return V{}, raise("TypeError")
	}
	return V{}, errUnknown
}

func vEqual(a, b V) (bool, error) {
	if a.isNum() && b.isNum() {
		return a.i.Cmp(b.i) == 0, nil
	}
	if a.k == kFloat || b.k == kFloat {
		ra, oka := a.numRat()
		rb, okb := b.numRat()
		if oka && okb {
			return ra.Cmp(rb) == 0, nil // int/float comparisons are exact
		}
		if (a.k == kFloat && (b.k == kNone || b.k == kStr)) || (b.k == kFloat && (a.k == kNone || a.k == kStr)) {
			return false, nil
		}
	}
	if a.k == kFloat || b.k == kFloat || a.k == kFunc || b.k == kFunc || a.k == kObj || b.k == kObj {
		return false, errUnknown
	}
	if a.k != b.k {
		return false, nil
	}
	switch a.k {
	case kNone:
		return true, nil
	case kStr:
		return a.s == b.s, nil
	case kTuple, kList:
		if len(a.items) != len(b.items) {
			return false, nil
		}
		for i := range a.items {
			eq, err := vEqual(a.items[i], b.items[i])
			if err != nil || !eq {
				return eq, err
			}
		}
		return true, nil
	}
	return false, errUnknown
}

func mCompare(op string, a, b V) (V, error) {
	// a non-finite float against a number: IEEE comparison (every comparison with nan is false
	// except !=); the ints of the alphabets are small, so float64 is exact for them
	if nf := func(v V) bool { return v.k == kFloat && (math.IsNaN(v.f) || math.IsInf(v.f, 0)) }; (nf(a) || nf(b)) && (a.isNum() || a.k == kFloat) && (b.isNum() || b.k == kFloat) {
		f := func(v V) float64 {
			if v.k == kFloat {
				return v.f
			}
			x, _ := new(big.Float).SetInt(v.i).Float64()
			return x
		}
		x, y := f(a), f(b)
		switch op {
		case "==":
			return vBool(x == y), nil
		case "!=":
			return vBool(x != y), nil
		case "<":
			return vBool(x < y), nil
		case "<=":
			return vBool(x <= y), nil
		case ">":
			return vBool(x > y), nil
		case ">=":
			return vBool(x >= y), nil
		}
	}
	switch op {
	case "==", "!=":
		eq, err := vEqual(a, b)
		if err != nil {
			return V{}, err
		}
		return vBool(eq == (op == "==")), nil
	case "<", "<=", ">", ">=":
		var c int
		ra, oka := a.numRat()
		rb, okb := b.numRat()
		switch {
		case a.isNum() && b.isNum():
			c = a.i.Cmp(b.i)
		case (a.k == kFloat || b.k == kFloat) && oka && okb:
			c = ra.Cmp(rb)
		case (a.k == kFloat && (b.k == kNone || b.k == kStr)) || (b.k == kFloat && (a.k == kNone || a.k == kStr)):
			return V{}, raise("TypeError")
		case a.k == kStr && b.k == kStr:
			c = strings.Compare(a.s, b.s)
		case a.k == kFloat || b.k == kFloat || a.k == kTuple || a.k == kList || b.k == kTuple || b.k == kList || a.k == kFunc || b.k == kFunc || a.k == kObj || b.k == kObj:
			return V{}, errUnknown
		default:
			return V{}, raise("TypeError")
		}
		switch op {
		case "<":
			return vBool(c < 0), nil
		case "<=":
			return vBool(c <= 0), nil
		case ">":
			return vBool(c > 0), nil
		default:
			return vBool(c >= 0), nil
		}
	case "is", "is not":
		// identity is only defined by the language for the singletons
		var same bool
		switch {
		case a.k == kNone || b.k == kNone:
			same = a.k == kNone && b.k == kNone
		case a.k == kBool && b.k == kBool:
			same = a.i.Cmp(b.i) == 0
		case a.k == kBool && b.k != kInt || b.k == kBool && a.k != kInt:
			same = false
		default:
			return V{}, errUnknown
		}
		return vBool(same == (op == "is")), nil
	case "in", "not in":
		var found bool
		switch b.k {
		case kStr:
			if a.k != kStr {
				return V{}, raise("TypeError")
			}
			found = strings.Contains(b.s, a.s)
		case kTuple, kList:
			for _, x := range b.items {
				eq, err := vEqual(a, x)
				if err != nil {
					return V{}, err
				}
				if eq {
					found = true
					break
				}
			}
		case kInt, kBool, kNone:
			return V{}, raise("TypeError")
		default:
			return V{}, errUnknown
		}
		return vBool(found == (op == "in")), nil
	}
	return V{}, errUnknown
}

func mSubscript(x, i V) (V, error) {
	switch x.k {
	case kStr, kTuple, kList:
		if !i.isNum() {
			return V{}, raise("TypeError")
		}
		var n int
		var rs []rune
		if x.k == kStr {
			rs = []rune(x.s)
			n = len(rs)
		} else {
			n = len(x.items)
		}
		if i.i.BitLen() > 30 {
			return V{}, raise("IndexError")
		}
		k := int(i.i.Int64())
		if k < 0 {
			k += n
		}
		if k < 0 || k >= n {
			return V{}, raise("IndexError")
		}
		if x.k == kStr {
			return vStr(string(rs[k])), nil
		}
		return x.items[k], nil
	case kInt, kBool, kNone:
		return V{}, raise("TypeError")
	}
	return V{}, errUnknown
}

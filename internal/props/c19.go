package props

import (
	"os"
	"path/filepath"
	"sort"
	"strings"

	"github.com/go-python/gpython/py"
	"verif/internal/core"
	"verif/internal/harness"
)

// C19: a module body runs once per context; all importers share the module.
//
// A case is a set of generated modules: `main` (run as __main__), source modules m1..mN
// (files found through sys.path) and two Go-registered modules (c19gm: plain Go module,
// c19gs: Go-registered module with an embedded Python body). Every body is a short
// sequence of items of a small DSL (see c19Item); the oracle is an interpreter of that
// DSL written directly in Go (c19Model) with a per-context module cache.

// ---------------------------------------------------------------------------------
// the DSL

const (
	ckImport      = iota // import T
	ckImportAs           // import T as n
	ckFromA              // from T import a
	ckFromAB             // from T import a as b
	ckStar               // from T import *
	ckFromMissing        // from T import zz      (zz is never bound anywhere)
	ckNoSuch             // import c19nosuch      (no such module; target unused)
	ckMut                // import T; T.a = T.a + 100
	ckNKinds
)

var c19KindCode = [...]string{"i", "n", "f", "b", "s", "z", "x", "u"}

// targets: 1..4 = source module m<k>; c19TGM, c19TGS = the Go-registered modules
const (
	c19TGM = 5
	c19TGS = 6
)

const (
	c19GM     = "c19gm"
	c19GS     = "c19gs"
	c19NoSuch = "c19nosuch"
)

func c19TName(t int) string {
	switch t {
	case 0:
		return "M"
	case c19TGM:
		return c19GM
	case c19TGS:
		return c19GS
	}
	return "m" + itoa(t)
}

func c19TCode(t int) string {
	switch t {
	case c19TGM:
		return "g"
	case c19TGS:
		return "h"
	}
	return itoa(t)
}

type c19Item struct {
	kind   int
	target int
	try    bool // wrapped in try: ... except ImportError: log
}

// c19Mod is one generated module. bind: 0 = the module binds nothing, 1 = the binding
// block (a, _u, c [, __all__]) comes before the items, 2 = after them.
type c19Mod struct {
	bind  int
	all   bool
	empty bool // with all: `__all__ = []` (star import binds nothing) instead of ['a', '_u']
	items []c19Item
}

type c19Case struct {
	n    int      // number of source modules
	mods []c19Mod // mods[0] = main, mods[k] = m<k>
}

func (cs *c19Case) enc() string {
	var b strings.Builder
	for i, m := range cs.mods {
		if i == 0 {
			b.WriteString("M")
		} else {
			b.WriteString(";" + itoa(i))
			b.WriteString([]string{"-", "e", "l"}[m.bind])
			if m.all {
				b.WriteString("A")
			}
			if m.empty {
				b.WriteString("0")
			}
		}
		b.WriteString(":")
		for j, it := range m.items {
			if j > 0 {
				b.WriteString(",")
			}
			b.WriteString(c19KindCode[it.kind])
			if it.kind != ckNoSuch {
				b.WriteString(c19TCode(it.target))
			}
			if it.try {
				b.WriteString("t")
			}
		}
	}
	return b.String()
}

// statement text and probe of an item inside module `who` at position i
func c19ItemSrc(who string, i int, it c19Item) (stmt []string, probe string) {
	t := c19TName(it.target)
	tag := "'" + who + "'," + itoa(i)
	switch it.kind {
	case ckImport:
		return []string{"import " + t}, "vh.log((" + tag + ",hasattr(" + t + ",'a')))"
	case ckImportAs:
		return []string{"import " + t + " as n"}, "vh.log((" + tag + ",hasattr(n,'a')))"
	case ckFromA:
		return []string{"from " + t + " import a"}, "vh.log((" + tag + ",a))"
	case ckFromAB:
		return []string{"from " + t + " import a as b"}, "vh.log((" + tag + ",b))"
	case ckStar:
		return []string{"from " + t + " import *"}, "vh.log((" + tag + ",sorted([k for k in globals() if k[:2] != '__'])))"
	case ckFromMissing:
		// a name no module of the case binds: by position, a name that is nothing at all or the
		// name of a module that is loaded in the context (a loaded module is not an attribute of T)
		zz := []string{"zz", "sys", "builtins"}[i%3]
		return []string{"from " + t + " import " + zz}, "vh.log((" + tag + "," + zz + "))"
	case ckNoSuch:
		return []string{"import " + c19NoSuch}, "vh.log((" + tag + ",'imported'))"
	case ckMut:
		return []string{"import " + t, t + ".a = " + t + ".a + 100"}, "vh.log((" + tag + "," + t + ".a))"
	}
	panic("bad item")
}

func c19BindSrc(k int, all bool, empty ...bool) string {
	s := "a = " + itoa(10*k) + "\n_u = " + itoa(10*k+1) + "\nc = " + itoa(10*k+2) + "\n"
	if all && len(empty) > 0 && empty[0] {
		s += "__all__ = []\n"
	} else if all {
		s += "__all__ = ['a', '_u']\n"
	}
	return s
}

// c19Src renders module k of the case (k = 0: main, which has `vh` predefined).
func c19Src(cs *c19Case, k int) string {
	m := cs.mods[k]
	who := c19TName(k)
	var b strings.Builder
	if k > 0 {
		b.WriteString("import vh\nvh.log('" + who + "')\nvh.probe()\n")
	}
	if m.bind == 1 {
		b.WriteString(c19BindSrc(k, m.all, m.empty))
	}
	for i, it := range m.items {
		stmt, probe := c19ItemSrc(who, i, it)
		if it.try {
			b.WriteString("try:\n")
			for _, s := range stmt {
				b.WriteString("    " + s + "\n")
			}
			b.WriteString("    " + probe + "\n")
			b.WriteString("except ImportError:\n    vh.log(('" + who + "'," + itoa(i) + ",'caught'))\n")
		} else {
			for _, s := range stmt {
				b.WriteString(s + "\n")
			}
			b.WriteString(probe + "\n")
		}
	}
	if m.bind == 2 {
		b.WriteString(c19BindSrc(k, m.all, m.empty))
	}
	b.WriteString("vh.log('" + who + ".')\n")
	return b.String()
}

const c19GSSrc = "import vh\nvh.log('" + c19GS + "')\na = 70\n_u = 71\nc = 72\n"

func init() {
	py.RegisterModule(&py.ModuleImpl{
		Info: py.ModuleInfo{Name: c19GM, Doc: "C19 plain Go module"},
		Methods: []*py.Method{py.MustNewMethod("f", func(self py.Object, args py.Tuple) (py.Object, error) {
			return py.None, nil
		}, 0, "")},
		Globals: py.StringDict{"a": py.Int(7), "_u": py.Int(8)},
	})
	py.RegisterModule(&py.ModuleImpl{
		Info:    py.ModuleInfo{Name: c19GS, Doc: "C19 Go-registered module with a Python body", FileDesc: c19GS + ".py"},
		CodeSrc: c19GSSrc,
	})
}

// ---------------------------------------------------------------------------------
// the reference model: an interpreter of the DSL with a per-context module cache

type c19Val struct {
	k byte // 'i' int, 'm' module, 'o' opaque (Go method), 'l' list of strings
	i int
	m *c19MMod
	l []string
}

type c19MMod struct {
	name string
	ns   map[string]c19Val
	done bool // body completed
}

type c19Model struct {
	cs      *c19Case
	cache   map[string]*c19MMod
	log     []string
	runs    map[string]int
	main    *c19MMod
	retried bool // a module whose body had failed was imported again
	failed  map[string]bool
	partial bool // an importer saw a partially initialised module
}

func c19Q(s string) string { return "'" + s + "'" }

func c19NewModel(cs *c19Case) *c19Model {
	m := &c19Model{cs: cs, cache: map[string]*c19MMod{}, runs: map[string]int{}, failed: map[string]bool{}}
	vh := &c19MMod{name: "vh", done: true, ns: map[string]c19Val{}}
	m.cache["vh"] = vh
	m.main = &c19MMod{name: "__main__", ns: map[string]c19Val{"vh": {k: 'm', m: vh}}}
	return m
}

// importModule is the model of __import__(name) for a top-level module name.
func (m *c19Model) importModule(name string) (*c19MMod, string) {
	if mod, ok := m.cache[name]; ok {
		return mod, ""
	}
	switch name {
	case c19GM:
		mod := &c19MMod{name: name, done: true, ns: map[string]c19Val{"a": {k: 'i', i: 7}, "_u": {k: 'i', i: 8}, "f": {k: 'o'}}}
		m.cache[name] = mod
		return mod, ""
	case c19GS:
		mod := &c19MMod{name: name, ns: map[string]c19Val{}}
		m.cache[name] = mod
		m.runs[name]++
		mod.ns["vh"] = c19Val{k: 'm', m: m.cache["vh"]}
		m.log = append(m.log, c19Q(name))
		mod.ns["a"] = c19Val{k: 'i', i: 70}
		mod.ns["_u"] = c19Val{k: 'i', i: 71}
		mod.ns["c"] = c19Val{k: 'i', i: 72}
		mod.done = true
		return mod, ""
	}
	k := 0
	for i := 1; i <= m.cs.n; i++ {
		if c19TName(i) == name {
			k = i
		}
	}
	if k == 0 {
		return nil, "ImportError"
	}
	if m.failed[name] {
		m.retried = true
	}
	mod := &c19MMod{name: name, ns: map[string]c19Val{}}
	// the module is in the cache BEFORE its body runs
	m.cache[name] = mod
	if exc := m.runBody(mod, k); exc != "" {
		// a module whose body raised is removed from the cache again
		delete(m.cache, name)
		m.failed[name] = true
		return nil, exc
	}
	mod.done = true
	return mod, ""
}

func (m *c19Model) bindBlock(mod *c19MMod, k int, all bool, empty ...bool) {
	mod.ns["a"] = c19Val{k: 'i', i: 10 * k}
	mod.ns["_u"] = c19Val{k: 'i', i: 10*k + 1}
	mod.ns["c"] = c19Val{k: 'i', i: 10*k + 2}
	if all && len(empty) > 0 && empty[0] {
		mod.ns["__all__"] = c19Val{k: 'l', l: []string{}}
	} else if all {
		mod.ns["__all__"] = c19Val{k: 'l', l: []string{"a", "_u"}}
	}
}

func (m *c19Model) runBody(mod *c19MMod, k int) string {
	def := m.cs.mods[k]
	who := c19TName(k)
	if k > 0 {
		m.runs[who]++
		mod.ns["vh"] = c19Val{k: 'm', m: m.cache["vh"]}
		m.log = append(m.log, c19Q(who))
	}
	if def.bind == 1 {
		m.bindBlock(mod, k, def.all, def.empty)
	}
	for i, it := range def.items {
		exc := m.execItem(mod, who, i, it)
		if exc == "ImportError" && it.try {
			m.log = append(m.log, "("+c19Q(who)+","+itoa(i)+",'caught')")
			exc = ""
		}
		if exc != "" {
			return exc
		}
	}
	if def.bind == 2 {
		m.bindBlock(mod, k, def.all, def.empty)
	}
	m.log = append(m.log, c19Q(who+"."))
	return ""
}

func c19Bool(b bool) string {
	if b {
		return "True"
	}
	return "False"
}

func (m *c19Model) execItem(mod *c19MMod, who string, i int, it c19Item) string {
	tag := "(" + c19Q(who) + "," + itoa(i) + ","
	tname := c19TName(it.target)
	if it.kind == ckNoSuch {
		tname = c19NoSuch
	}
	t, exc := m.importModule(tname)
	if exc != "" {
		return exc
	}
	if !t.done && t != mod {
		// still executing: the importer sees a partially initialised module
		m.partial = true
	}
	switch it.kind {
	case ckImport:
		mod.ns[tname] = c19Val{k: 'm', m: t}
		_, has := t.ns["a"]
		m.log = append(m.log, tag+c19Bool(has)+")")
	case ckImportAs:
		mod.ns["n"] = c19Val{k: 'm', m: t}
		_, has := t.ns["a"]
		m.log = append(m.log, tag+c19Bool(has)+")")
	case ckFromA, ckFromAB:
		v, ok := t.ns["a"]
		if !ok {
			return "ImportError"
		}
		if it.kind == ckFromA {
			mod.ns["a"] = v
		} else {
			mod.ns["b"] = v
		}
		m.log = append(m.log, tag+itoa(v.i)+")")
	case ckFromMissing:
		return "ImportError"
	case ckStar:
		if all, ok := t.ns["__all__"]; ok {
			for _, nm := range all.l {
				v, ok := t.ns[nm]
				if !ok {
					return "AttributeError"
				}
				mod.ns[nm] = v
			}
		} else {
			// snapshot first: t may be mod itself
			var names []string
			for nm := range t.ns {
				if !strings.HasPrefix(nm, "_") {
					names = append(names, nm)
				}
			}
			for _, nm := range names {
				mod.ns[nm] = t.ns[nm]
			}
		}
		var names []string
		for nm := range mod.ns {
			if !strings.HasPrefix(nm, "__") {
				names = append(names, c19Q(nm))
			}
		}
		sort.Strings(names)
		m.log = append(m.log, tag+"["+strings.Join(names, ",")+"])")
	case ckMut:
		mod.ns[tname] = c19Val{k: 'm', m: t}
		v, ok := t.ns["a"]
		if !ok {
			return "AttributeError"
		}
		v.i += 100
		t.ns["a"] = v
		m.log = append(m.log, tag+itoa(v.i)+")")
	}
	return ""
}

func (m *c19Model) canonVal(v c19Val) string {
	switch v.k {
	case 'i':
		return itoa(v.i)
	case 'o':
		return "<method>"
	case 'l':
		q := make([]string, len(v.l))
		for i, s := range v.l {
			q[i] = c19Q(s)
		}
		return "[" + strings.Join(q, ",") + "]"
	case 'm':
		if m.cache[v.m.name] == v.m || v.m == m.main {
			return "mod:" + v.m.name
		}
		return "mod:" + v.m.name + ":stale"
	}
	return "?"
}

func c19NsString(name string, items map[string]string) string {
	ks := make([]string, 0, len(items))
	for k := range items {
		ks = append(ks, k)
	}
	sort.Strings(ks)
	var b strings.Builder
	b.WriteString(name + "{")
	for i, k := range ks {
		if i > 0 {
			b.WriteByte(' ')
		}
		b.WriteString(k + "=" + items[k])
	}
	b.WriteString("}")
	return b.String()
}

func c19Visible(name string) bool {
	return !strings.HasPrefix(name, "__") || name == "__all__"
}

func (m *c19Model) snapshot() []string {
	var out []string
	dump := func(label string, mod *c19MMod) {
		items := map[string]string{}
		for k, v := range mod.ns {
			if c19Visible(k) {
				items[k] = m.canonVal(v)
			}
		}
		out = append(out, c19NsString(label, items))
	}
	dump("M", m.main)
	for _, nm := range c19SnapNames(m.cs.n) {
		if mod, ok := m.cache[nm]; ok {
			dump(nm, mod)
		} else {
			out = append(out, nm+":absent")
		}
	}
	return out
}

func c19SnapNames(n int) []string {
	var out []string
	for i := 1; i <= n; i++ {
		out = append(out, c19TName(i))
	}
	return append(out, c19GM, c19GS, c19NoSuch)
}

func c19EpiNames(n int) []string {
	var out []string
	for i := 1; i <= n; i++ {
		out = append(out, c19TName(i))
	}
	return append(out, c19GM, c19NoSuch)
}

// c19Result is what is compared between model and implementation.
type c19Result struct {
	log   []string // whole log (main program, epilogue, 'alive')
	exc   string   // exception type that ended the main program ("" = completed)
	snap1 []string // module cache and namespaces after the main program
	epi   []string // outcome of re-importing every module afterwards
	snap2 []string // module cache and namespaces after that
	runs  map[string]int
	mods  map[string]*py.Module // implementation side: the cached module objects
	note  string                // implementation side: cross-context interference
}

func (r *c19Result) String() string {
	e := r.exc
	if e == "" {
		e = "-"
	}
	if r.note != "" {
		e += " " + r.note
	}
	return "log=[" + strings.Join(r.log, ",") + "] exc=" + e + " | after-main: " + strings.Join(r.snap1, " ") +
		" | reimport: " + strings.Join(r.epi, " ") + " | after-reimport: " + strings.Join(r.snap2, " ")
}

func c19Expect(cs *c19Case) (*c19Result, *c19Model) {
	m := c19NewModel(cs)
	r := &c19Result{}
	r.exc = m.runBody(m.main, 0)
	r.snap1 = m.snapshot()
	for _, nm := range c19EpiNames(cs.n) {
		t, exc := m.importModule(nm)
		if exc != "" {
			r.epi = append(r.epi, nm+"="+exc)
		} else {
			m.main.ns[nm] = c19Val{k: 'm', m: t}
			r.epi = append(r.epi, nm+"=ok")
		}
	}
	m.log = append(m.log, "'alive'")
	r.snap2 = m.snapshot()
	r.log = m.log
	r.runs = m.runs
	return r, m
}

// ---------------------------------------------------------------------------------
// the implementation side

type c19Env struct {
	root                      string
	dirs                      map[string]string // module name + NUL + source -> directory holding exactly that file
	next                      int
	epi                       map[string]*py.Code
	nonexistent, empty, decoy string
}

func c19NewEnv() *c19Env {
	base := os.Getenv("VERIF_WORKDIR")
	root, err := os.MkdirTemp(base, "c19-")
	if err != nil {
		panic(err)
	}
	e := &c19Env{root: root, dirs: map[string]string{}, epi: map[string]*py.Code{}}
	e.nonexistent = filepath.Join(root, "nonexistent")
	e.empty = filepath.Join(root, "empty")
	os.Mkdir(e.empty, 0o755)
	e.decoy = filepath.Join(root, "decoy")
	os.Mkdir(e.decoy, 0o755)
	for k := 1; k <= 4; k++ {
		os.WriteFile(filepath.Join(e.decoy, c19TName(k)+".py"), []byte("import vh\nvh.log('decoy "+c19TName(k)+"')\n"), 0o644)
	}
	return e
}

func (e *c19Env) close() { os.RemoveAll(e.root) }

// flush bounds the number of module directories on disk (called between cases only).
func (e *c19Env) flush() {
	if len(e.dirs) < 3000 {
		return
	}
	for _, d := range e.dirs {
		os.RemoveAll(d)
	}
	e.dirs = map[string]string{}
}

// dirFor returns a directory containing only <name>.py with the given source. Distinct
// sources of the same module live in distinct directories, so a case only sees its own
// files (sys.path lists exactly its directories).
func (e *c19Env) dirFor(name, src string) string {
	key := name + "\x00" + src
	if d, ok := e.dirs[key]; ok {
		return d
	}
	d := filepath.Join(e.root, "d"+itoa(e.next))
	e.next++
	if err := os.Mkdir(d, 0o755); err != nil {
		panic(err)
	}
	if err := os.WriteFile(filepath.Join(d, name+".py"), []byte(src), 0o644); err != nil {
		panic(err)
	}
	e.dirs[key] = d
	return d
}

func (e *c19Env) epiCode(name string) *py.Code {
	if c, ok := e.epi[name]; ok {
		return c
	}
	src := "import " + name + "\n"
	if name == "" {
		src = "vh.log('alive')\n"
	}
	c, err := py.Compile(src, "<epilogue>", py.ExecMode, 0, true)
	if err != nil {
		panic(err)
	}
	e.epi[name] = c
	return c
}

func c19ExcName(err error) string {
	if err == nil {
		return ""
	}
	t, bases, _, _ := harness.ExcInfo(err)
	for _, b := range bases {
		if b == "ImportError" {
			return "ImportError" // the ImportError family is accepted as ImportError
		}
	}
	return t
}

func c19CanonObs(ctx py.Context, main *py.Module, v py.Object) string {
	switch x := v.(type) {
	case *py.Module:
		nm, _ := x.Globals["__name__"].(py.String)
		if x == main {
			return "mod:__main__"
		}
		if cur, err := ctx.GetModule(string(nm)); err == nil && cur == x {
			return "mod:" + string(nm)
		}
		return "mod:" + string(nm) + ":stale"
	case *py.Method:
		return "<method>"
	}
	return harness.Canon(v)
}

func c19SnapObs(ctx py.Context, main *py.Module, n int) []string {
	var out []string
	dump := func(label string, mod *py.Module) {
		items := map[string]string{}
		for k, v := range mod.Globals {
			if c19Visible(k) {
				items[k] = c19CanonObs(ctx, main, v)
			}
		}
		out = append(out, c19NsString(label, items))
	}
	dump("M", main)
	for _, nm := range c19SnapNames(n) {
		if mod, err := ctx.GetModule(nm); err == nil {
			dump(nm, mod)
		} else {
			out = append(out, nm+":absent")
		}
	}
	return out
}

// c19Observe runs the case on the real interpreter. via = "source": main is compiled
// Python; via = "goapi": main's (plain `import T`) items are performed through
// py.ImportModuleLevelObject.
// Runaway guard: vh.probe() is called at the start of every generated module body. More
// body executions than any correct run of a case can have (see limit in runCase) raise
// RuntimeError there, so that an implementation that re-executes modules without end (a
// module registered only after its body ran, in a cycle) yields a deviation, not a hang.
var c19Bodies, c19BodyLimit int

func c19Probe(args py.Tuple) (py.Object, error) {
	c19Bodies++
	if c19BodyLimit > 0 && c19Bodies > c19BodyLimit {
		return nil, py.ExceptionNewf(py.RuntimeError, "C19 harness: runaway module execution")
	}
	return py.None, nil
}

func (e *c19Env) observe(cs *c19Case, via string, reversePath, extraDirs bool) *c19Result {
	var paths []string
	for k := 1; k <= cs.n; k++ {
		paths = append(paths, e.dirFor(c19TName(k), c19Src(cs, k)))
	}
	if reversePath {
		for i, j := 0, len(paths)-1; i < j; i, j = i+1, j-1 {
			paths[i], paths[j] = paths[j], paths[i]
		}
	}
	if extraDirs {
		// in front: entries without the module; at the end: a directory with files of the
		// same names that must never be picked (the first match on sys.path wins)
		paths = append([]string{e.nonexistent, e.empty}, paths...)
		paths = append(paths, e.decoy)
	}
	r := &c19Result{}
	var ctx py.Context
	var main *py.Module
	var lg *harness.Log
	var other *c19Result
	if strings.HasPrefix(via, "runfile") {
		// main is a file run through py.RunFile, the way the gpython command runs a script
		mainDir := e.dirFor("c19main", "import vh\n"+c19Src(cs, 0))
		if via == "runfile-rel" {
			paths = append(paths, mainDir)
		}
		ctx = py.NewContext(py.ContextOpts{SysArgs: []string{"t"}, SysPaths: paths})
		defer ctx.Close()
		vhm, err := ctx.ModuleInit(py.GetModuleImpl("vh"))
		if err != nil {
			panic(err)
		}
		lg = &harness.Log{}
		vhm.Globals["__vhlog__"] = lg
		switch via {
		case "runfile-rel":
			_, err = py.RunFile(ctx, "c19main", py.CompileOpts{UseSysPaths: true}, nil)
		case "runfile-abs":
			_, err = py.RunFile(ctx, filepath.Join(mainDir, "c19main.py"), py.CompileOpts{}, nil)
		case "runfile-abs-syspath":
			_, err = py.RunFile(ctx, filepath.Join(mainDir, "c19main.py"), py.CompileOpts{UseSysPaths: true}, nil)
		default:
			panic("bad via " + via)
		}
		r.exc = c19ExcName(err)
		var gerr error
		if main, gerr = ctx.GetModule("__main__"); gerr != nil {
			r.exc = "main-was-not-run:" + r.exc
			r.log = lg.Entries
			return r
		}
	} else {
		mainSrc := c19Src(cs, 0)
		if via == "goapi" {
			mainSrc = "pass\n"
		}
		var pre func(py.Context)
		if via == "two-contexts" {
			// after this context has been created, a second one runs the whole case and
			// is closed; then this one runs it
			pre = func(py.Context) { other = e.observe(cs, "source", reversePath, extraDirs) }
		}
		out := harness.RunOpts(mainSrc, harness.Opts{SysPaths: paths, KeepCtx: true, Filename: "<main>", Pre: pre})
		if out.Compile {
			panic("c19: generated main does not compile: " + out.ExcMsg)
		}
		ctx = out.Ctx
		defer ctx.Close()
		main = out.Module
		lg = main.Globals["vh"].(*py.Module).Globals["__vhlog__"].(*harness.Log)
		if out.ExcType != "" {
			r.exc = out.ExcType
			for _, b := range out.ExcBases {
				if b == "ImportError" {
					r.exc = "ImportError"
				}
			}
		}
	}
	if via == "goapi" {
		for i, it := range cs.mods[0].items {
			nm := c19TName(it.target)
			mod, err := py.ImportModuleLevelObject(ctx, nm, main.Globals, main.Globals, py.Tuple{}, 0)
			if err != nil {
				r.exc = c19ExcName(err)
				break
			}
			main.Globals[nm] = mod
			has := false
			if mm, ok := mod.(*py.Module); ok {
				_, has = mm.Globals["a"]
			}
			lg.Entries = append(lg.Entries, "('M',"+itoa(i)+","+c19Bool(has)+")")
		}
		if r.exc == "" {
			lg.Entries = append(lg.Entries, "'M.'")
		}
	}
	r.snap1 = c19SnapObs(ctx, main, cs.n)
	for _, nm := range c19EpiNames(cs.n) {
		_, err := ctx.RunCode(e.epiCode(nm), main.Globals, main.Globals, nil)
		if err != nil {
			r.epi = append(r.epi, nm+"="+c19ExcName(err))
		} else {
			r.epi = append(r.epi, nm+"=ok")
		}
	}
	if _, err := ctx.RunCode(e.epiCode(""), main.Globals, main.Globals, nil); err != nil {
		lg.Entries = append(lg.Entries, "<final statement raised "+c19ExcName(err)+">")
	}
	r.snap2 = c19SnapObs(ctx, main, cs.n)
	r.log = lg.Entries
	r.mods = map[string]*py.Module{}
	for _, nm := range c19SnapNames(cs.n) {
		if m, err := ctx.GetModule(nm); err == nil {
			r.mods[nm] = m
		}
	}
	if other != nil {
		if other.String() != r.String() {
			r.note = "<the same case in a second context: " + other.String() + ">"
		}
		for nm, m := range r.mods {
			if other.mods[nm] == m {
				r.note += "<module " + nm + " is the same object in two contexts>"
			}
		}
	}
	r.runs = map[string]int{}
	for _, l := range r.log {
		if len(l) > 2 && l[0] == '\'' && l[len(l)-2] != '.' && l != "'alive'" {
			r.runs[l[1:len(l)-1]]++
		}
	}
	return r
}

func c19Eq(a, b []string) bool {
	if len(a) != len(b) {
		return false
	}
	for i := range a {
		if a[i] != b[i] {
			return false
		}
	}
	return true
}

// c19Diff classifies the first disagreement; "" = agreement.
func c19Diff(exp, got *c19Result) string {
	if strings.HasPrefix(got.exc, "main-was-not-run:") {
		return "runfile:" + got.exc
	}
	if got.note != "" {
		return "contexts:interference"
	}
	// execution counts first: the heart of the property
	names := map[string]bool{}
	for nm := range got.runs {
		names[nm] = true
	}
	for nm := range exp.runs {
		names[nm] = true
	}
	often, seldom := false, false
	for nm := range names {
		if got.runs[nm] > exp.runs[nm] {
			often = true
		} else if got.runs[nm] < exp.runs[nm] {
			seldom = true
		}
	}
	if often {
		return "exec-count:body-ran-too-often"
	}
	if seldom {
		return "exec-count:body-ran-too-seldom"
	}
	if exp.exc != got.exc {
		switch {
		case exp.exc == "":
			return "main:unexpected-" + got.exc
		case got.exc == "":
			return "main:no-exception-for-" + exp.exc
		}
		return "main:wrong-exception:" + got.exc + "-for-" + exp.exc
	}
	if !c19Eq(exp.log, got.log) {
		return "log:differs"
	}
	if !c19Eq(exp.snap1, got.snap1) {
		for i := range exp.snap1 {
			if i < len(got.snap1) && exp.snap1[i] != got.snap1[i] {
				if strings.HasSuffix(exp.snap1[i], ":absent") {
					return "cache-after-main:module-present-should-be-absent"
				}
				if strings.HasSuffix(got.snap1[i], ":absent") {
					return "cache-after-main:module-absent"
				}
			}
		}
		return "namespace-after-main:differs"
	}
	if !c19Eq(exp.epi, got.epi) {
		return "reimport:wrong-outcome"
	}
	if !c19Eq(exp.snap2, got.snap2) {
		return "namespace-after-reimport:differs"
	}
	return ""
}

// ---------------------------------------------------------------------------------
// enumeration

type c19Flav struct {
	bind  int
	all   bool
	empty bool
}

type c19Alpha struct {
	kind int
	try  bool
}

type c19Bounds struct {
	nmax     int
	perMod   int
	total    int        // exact total number of items (-1: unbounded)
	exactN   int        // exact number of source modules (-1: any)
	alpha    []c19Alpha // statement forms for source-module targets (and c19nosuch)
	goAlpha  []c19Alpha // statement forms for the two Go-registered targets
	norepeat bool       // no target twice in one body
	flavours []c19Flav
}

type c19Gen struct {
	b     c19Bounds
	cs    c19Case
	known int
	used  int
	emit  func(cs *c19Case) bool // false = stop
	stop  bool
}

func c19Enumerate(b c19Bounds, emit func(cs *c19Case) bool) {
	g := &c19Gen{b: b, emit: emit}
	g.cs.mods = make([]c19Mod, 1, 6)
	g.items(0, 0)
}

func (g *c19Gen) module(mi int) {
	g.cs.mods = append(g.cs.mods, c19Mod{})
	for _, f := range g.b.flavours {
		g.cs.mods[mi].bind, g.cs.mods[mi].all, g.cs.mods[mi].empty = f.bind, f.all, f.empty
		g.cs.mods[mi].items = g.cs.mods[mi].items[:0]
		g.items(mi, 0)
		if g.stop {
			break
		}
	}
	g.cs.mods = g.cs.mods[:mi]
}

func (g *c19Gen) items(mi, pos int) {
	if g.stop {
		return
	}
	// option 1: the body ends here
	if mi+1 <= g.known {
		g.module(mi + 1)
	} else if (g.b.total < 0 || g.used == g.b.total) && (g.b.exactN < 0 || g.known == g.b.exactN) {
		g.cs.n = g.known
		if !g.emit(&g.cs) {
			g.stop = true
		}
	}
	if g.stop || pos >= g.b.perMod || (g.b.total >= 0 && g.used >= g.b.total) {
		return
	}
	// option 2: one more item
	m := &g.cs.mods[mi]
	try1 := func(al c19Alpha, t int) {
		if g.b.norepeat {
			for _, it := range m.items {
				if it.target == t {
					return
				}
			}
		}
		m.items = append(m.items, c19Item{kind: al.kind, target: t, try: al.try})
		g.used++
		newMod := t >= 1 && t <= 4 && t == g.known+1
		if newMod {
			g.known++
		}
		g.items(mi, pos+1)
		m = &g.cs.mods[mi]
		if newMod {
			g.known--
		}
		g.used--
		m.items = m.items[:len(m.items)-1]
	}
	for _, al := range g.b.alpha {
		if al.kind == ckNoSuch {
			try1(al, 0)
			continue
		}
		for t := 1; t <= g.known+1 && t <= g.b.nmax && !g.stop; t++ {
			try1(al, t)
		}
	}
	for _, al := range g.b.goAlpha {
		for _, t := range []int{c19TGM, c19TGS} {
			if g.stop {
				return
			}
			try1(al, t)
		}
	}
}

func c19Features(cs *c19Case, m *c19Model, exp *c19Result) string {
	var f []string
	if m.retried {
		f = append(f, "retry")
	}
	if len(m.failed) > 0 {
		f = append(f, "bodyfail")
	}
	if m.partial {
		f = append(f, "partial")
	}
	for _, md := range cs.mods {
		for _, it := range md.items {
			if it.kind == ckNoSuch {
				f = append(f, "nosuch")
				goto done
			}
		}
	}
done:
	if exp.exc != "" {
		f = append(f, "exc")
	}
	if len(f) == 0 {
		return "-"
	}
	return strings.Join(f, ",")
}

func c19Input(cs *c19Case, paths string) string {
	var b strings.Builder
	b.WriteString("# main (run as __main__, `vh` predefined); sys.path order: " + paths + "\n" + c19Src(cs, 0))
	for k := 1; k <= cs.n; k++ {
		b.WriteString("# " + c19TName(k) + ".py\n" + c19Src(cs, k))
	}
	b.WriteString("# then, in the same context: import of every module again, `import " + c19NoSuch + "`, vh.log('alive')\n")
	return b.String()
}

type c19 struct {
	rc  *core.RunCtx
	env *c19Env
}

func (c *c19) runCase(part, form string, cs *c19Case, via string) {
	rc := c.rc
	rev := rc.Index()%2 == 1
	extra := rc.Index()%8 < 2 // also a nonexistent and an empty directory in front of sys.path
	fields := core.Fields{"part": part, "n": itoa(cs.n), "enc": cs.enc(), "via": via}
	if form != "" {
		fields["form"] = form
	}
	pathDesc := "m1..mN"
	if rev {
		pathDesc = "mN..m1"
	}
	if extra {
		pathDesc = "<nonexistent dir>, <empty dir>, " + pathDesc + ", <dir with decoy m1..m4.py>"
	}
	cp := *cs
	cp.mods = append([]c19Mod{}, cs.mods...)
	for i := range cp.mods {
		cp.mods[i].items = append([]c19Item{}, cs.mods[i].items...)
	}
	input := func() string { return "via " + via + "\n" + c19Input(&cp, pathDesc) }
	exp, model := c19Expect(&cp)
	fields["feat"] = c19Features(&cp, model, exp)
	rc.Guard(fields, input, func() {
		c.env.flush()
		harness.Probe = c19Probe
		c19Bodies, c19BodyLimit = 0, 0
		for _, n := range exp.runs {
			c19BodyLimit += 2 * n // two-contexts runs the case twice
		}
		c19BodyLimit += 6
		got := c.env.observe(&cp, via, rev, extra)
		c19BodyLimit = 0
		class := "completed"
		if exp.exc != "" {
			class = "main raises " + exp.exc
		}
		bodies := 0
		for _, n := range exp.runs {
			bodies += n
		}
		nt := ""
		if len(exp.runs) > 0 {
			nt = part + form + via + cp.enc()
		}
		rc.Eval(part+": "+class, nt)
		rc.Count("module_bodies_executed", int64(bodies))
		if model.partial {
			rc.Count("cases_with_partially_initialised_module_visible", 1)
		}
		if model.retried {
			rc.Count("cases_reimporting_a_failed_module", 1)
		}
		if rc.WantSample() && rc.Index()%4999 == 0 {
			rc.Sample(map[string]string{"case": input(), "expected": exp.String(), "observed": got.String()})
		}
		if sig := c19Diff(exp, got); sig != "" {
			rc.Deviate(core.Deviation{Fields: fields, Input: input(), Expected: exp.String(), Observed: got.String(), Sig: sig})
		}
	})
}

// c19Space enumerates the whole bounded space in its fixed order. visit returns false to stop.
func c19Space(quick bool, visit func(part, form string, cs *c19Case, via string) bool) {
	stop := false
	var full, fullGo, core, coreGo []c19Alpha
	for _, k := range []int{ckImport, ckImportAs, ckFromA, ckFromAB, ckStar, ckFromMissing, ckNoSuch, ckMut} {
		full = append(full, c19Alpha{k, false}, c19Alpha{k, true})
		if k != ckNoSuch {
			fullGo = append(fullGo, c19Alpha{k, false}, c19Alpha{k, true})
		}
	}
	core = []c19Alpha{{ckImport, false}, {ckImport, true}, {ckFromA, false}, {ckFromA, true}, {ckStar, false},
		{ckFromMissing, false}, {ckFromMissing, true}, {ckNoSuch, false}, {ckNoSuch, true}, {ckMut, false}}
	coreGo = nil // the Go-registered targets are covered by the full alphabet
	allFlav := []c19Flav{{1, false, false}, {1, true, false}, {2, false, false}, {2, true, false}, {1, true, true}}
	coreFlav := []c19Flav{{1, false, false}, {2, true, false}}

	fullTotal := 2
	if !quick {
		fullTotal = 3
	}
	run := func(part string, b c19Bounds) {
		if stop {
			return
		}
		c19Enumerate(b, func(cs *c19Case) bool {
			if !visit(part, "", cs, "source") {
				stop = true
				return false
			}
			// small cases: main as a file run through py.RunFile
			if part == "forms" && b.total <= fullTotal-1 {
				for _, via := range []string{"runfile-rel", "runfile-abs", "runfile-abs-syspath", "two-contexts"} {
					if !visit(part, "", cs, via) {
						stop = true
						return false
					}
				}
			}
			// plain imports in main: the same case through the Go API
			plain := len(cs.mods[0].items) > 0
			for _, it := range cs.mods[0].items {
				if it.kind != ckImport || it.try {
					plain = false
				}
			}
			if plain && !visit(part, "", cs, "goapi") {
				stop = true
				return false
			}
			return true
		})
	}
	// part "forms": every statement form, try-wrapped or not, every target, small total size
	for total := 0; total <= fullTotal; total++ {
		run("forms", c19Bounds{nmax: 2, perMod: 3, total: total, exactN: -1, alpha: full, goAlpha: fullGo, flavours: allFlav})
	}
	// part "forms-core": one item more over the reduced alphabet
	run("forms-core", c19Bounds{nmax: 2, perMod: 3, total: fullTotal + 1, exactN: -1, alpha: core, goAlpha: coreGo, flavours: coreFlav})

	// part "graphs": every import graph (ordered adjacency lists, self loops, cycles,
	// diamonds) with one statement form on every edge
	type gform struct {
		name string
		kind int
		all  bool
	}
	forms := []gform{{"import", ckImport, false}, {"import-as", ckImportAs, false}, {"from", ckFromA, false}, {"from-as", ckFromAB, false},
		{"star", ckStar, false}, {"star-all", ckStar, true}, {"mutate", ckMut, false}}
	type gb struct{ n, per int }
	gbs := []gb{{0, 3}, {1, 3}, {2, 3}, {3, 3}}
	if quick {
		gbs = []gb{{0, 3}, {1, 3}, {2, 3}, {3, 2}}
	} else {
		gbs = append(gbs, gb{4, 2})
	}
	for _, x := range gbs {
		for fi, f := range forms {
			if stop {
				return
			}
			if x.n == 4 && fi != 0 && fi != 2 && fi != 5 {
				continue // four modules: import, from, star-all only
			}
			b := c19Bounds{nmax: x.n, perMod: x.per, total: -1, exactN: x.n, alpha: []c19Alpha{{f.kind, false}}, norepeat: true,
				flavours: []c19Flav{{1, f.all, false}, {2, f.all, false}, {1, f.all, f.all}}}
			c19Enumerate(b, func(cs *c19Case) bool {
				if !visit("graphs", f.name, cs, "source") {
					stop = true
					return false
				}
				return true
			})
		}
	}
}

func c19Run(rc *core.RunCtx) {
	c := &c19{rc: rc, env: c19NewEnv()}
	defer c.env.close()
	c19Space(rc.Quick(), func(part, form string, cs *c19Case, via string) bool {
		if rc.Expired() || rc.Done() {
			return false
		}
		rc.Part = part
		if rc.Take() {
			c.runCase(part, form, cs, via)
		}
		return true
	})
	if !rc.Expired() && !rc.Done() {
		c19Dotted(rc)
	}
	if !rc.Expired() && !rc.Done() {
		c19LatePath(rc)
	}
}

func init() {
	core.Register(&core.Check{
		ID:    "C19",
		Level: "model_checking",
		Rule: "case = main (run as __main__) + source modules m1..mN found through sys.path (one directory per module file, in both orders, sometimes behind a nonexistent and an empty directory) " +
			"+ Go-registered modules c19gm (plain Go) and c19gs (Go-registered with an embedded Python body). A module body = [log own name] [a=K;_u=K+1;c=K+2 (optionally __all__=['a','_u']) before or after the items] items [log end]; " +
			"item alphabet: import T | import T as n | from T import a | from T import a as b | from T import * | from T import zz / sys / builtins (a name T does not bind; two of them name modules loaded in the context) | import c19nosuch (missing module) | import T; T.a = T.a + 100, " +
			"each bare or inside try/except ImportError, T ranging over every module of the case (itself included) and both Go modules; every item is followed by a probe logging what it bound. " +
			"Modules are numbered in order of first mention (symmetry reduction), every module is reachable. Enumerated exhaustively: " +
			"part forms: full alphabet, N<=2, <=3 items per body, total items <=2 (quick) / <=3 (thorough), 4 binding flavours per module; cases with total <= 1 / <= 2 also with main run through py.RunFile (name via sys.path, absolute path, absolute path + sys.path) and with the same case run in a second context while the first is alive; " +
			"cases whose main only has plain imports also through py.ImportModuleLevelObject (Go API). " +
			"part forms-core: one more item (total = 3 / 4) over the reduced alphabet {import, from-a, star, missing name, missing module, mutate; try variants of import, from-a, missing name, missing module}, source targets, 2 flavours. " +
			"part graphs: ALL import graphs as ordered adjacency lists without repeated edges (self loops, cycles, diamonds, every order of first import) over exactly N modules, one form on every edge (import, import-as, from, from-as, star, star with __all__, mutate), " +
			"binding block before/after the imports per module: N<=2 with <=3 edges per module, N=3 with <=2 (quick) / <=3 (thorough), N=4 with <=2 edges per module and forms import/from/star-all (thorough only). " +
			"After main, in the same context: every module is imported again, the missing module is imported, a final statement logs. Compared with the model: the whole log (execution order, probes), per-module execution counts, " +
			"the exception type ending main, the module store membership and every module's namespace (values; module identities against the store) after main and after the re-imports, the re-import outcomes. Non-trivial: at least one module body executes. " +
			"part latepath: one context, a module name that two directories provide (a third provides it with a body that raises, a fourth only has a plain directory of that name) and a second module whose name starts with the first one's: every history of <= 5 (thorough 6) steps over {import, from-import, import of the longer-named module (each inside try/except), sys.path.append(dirA), sys.path[0:0] = [dirB | dirF | dirP], del sys.path[-1:]} ending in an import, against a model of the search path and the loaded modules (a failed import leaves nothing behind; the first directory that has the file wins; a body runs once; a loaded module stays loaded and keeps its state whatever happens to modules with similar names).",
		Run: c19Run,
		Assumptions: []string{
			"Python 3.4 semantics as implemented by the model: a module is in the cache before its body runs; a module whose body raised is removed from the cache again (importlib._bootstrap since 3.3), modules it imported stay; `from m import a` of an unbound name raises ImportError; star import binds __all__ or the names not starting with an underscore. The model was cross-checked against CPython 3.11 on > 600000 generated cases (scripts/c19_crosscheck.py) with zero mismatches; the ImportError family (ModuleNotFoundError) counts as ImportError",
			"packages, dotted names and relative imports are not in the statement's listed forms and raise SystemError 'not supported yet' in gpython: left out",
			"module names are symmetric: only the canonical numbering (order of first mention) of each graph is run",
			"module files are written once per distinct (name, source) into their own directory; a case sees exactly its own files through sys.path, contexts are fresh per case",
		},
		Explanation: "bounded-exhaustive enumeration of module graphs and import statement forms; oracle = an interpreter of the module DSL with a per-context module cache written in Go, independent of gpython's import code",
	})
}

package props

import (
	"fmt"
	"math"
	"math/big"
	"sort"
	"strings"

	"github.com/go-python/gpython/py"
	"verif/internal/core"
	"verif/internal/harness"
)

// C10: no Python-level action can panic or abort the embedding process.
//
// Crash classifier only: a Go panic (recovered per case), a fatal error / abort of the
// worker (attributed by the coordinator) or a hang (watchdog) is a deviation; a Python
// exception of any type is fine.

const c10Prelude = `
def mkgen():
    yield 1
    yield 2
def mkstarted():
    g = mkgen()
    next(g)
    return g
def mkexhausted():
    it = iter([1])
    next(it)
    try:
        next(it)
    except StopIteration:
        pass
    return it
class UC:
    def __init__(self):
        self.a = 1
    def m(self, x=0):
        return x
class UE(Exception):
    pass
def pyfunc(a=1, *b, **c):
    return a
def mkcell():
    x = 1
    def f():
        return x
    return f
def mkselflist():
    l = [1]
    l.append(l)
    return l
def mkselfdict():
    d = {'a': 1}
    d['self'] = d
    return d
def mkselfset():
    s = set()
    s.add(1)
    l = [s]
    try:
        s.add(l)
    except TypeError:
        pass
    return l
class Liar:
    def __repr__(self):
        return 5
    def __str__(self):
        return 5
    def __len__(self):
        return -1
    def __index__(self):
        return 'x'
    def __bool__(self):
        return 2
    def __iter__(self):
        return 5
    def __next__(self):
        return self
    def __contains__(self, x):
        return 'y'
    def __getitem__(self, k):
        return self
    def __int__(self):
        return 'x'
    def __float__(self):
        return 'x'
    def __bytes__(self):
        return 'x'
    def __enter__(self):
        return self
    def __exit__(self, *a):
        return self
class Liar2:
    def __len__(self):
        return 'x'
    def __index__(self):
        return 2 ** 70
    def __iter__(self):
        return self
    def __next__(self):
        raise StopIteration(self)
    def __repr__(self):
        raise ValueError
    def __bool__(self):
        raise KeyError
class Liar3:
    def __len__(self):
        return 1 << 60
    def __iter__(self):
        return iter([1, 2, 3])
    def __getitem__(self, i):
        return [1, 2, 3][i]
class Liar4:
    def __len__(self):
        return -5
    def __iter__(self):
        return iter((1, 2))
    def __index__(self):
        return -(1 << 62)
    def __length_hint__(self):
        return 1 << 62
def call(f, a, k):
    return f(*a, **k)
`

type c10val struct {
	name string
	mk   func(c *c10) py.Object
}

type c10 struct {
	rc   *core.RunCtx
	ev   *evaluator
	base py.StringDict
	code map[string]*py.Code
}

func (c *c10) pyv(expr string) py.Object {
	code := c.code[expr]
	if code == nil {
		var err error
		code, err = py.Compile(expr, "<c10v>", py.EvalMode, 0, true)
		if err != nil {
			panic("c10 value " + expr + ": " + err.Error())
		}
		c.code[expr] = code
	}
	g := c.base.Copy()
	o, err := c.ev.ctx.RunCode(code, g, g, nil)
	if err != nil {
		// the interpreter cannot build this value at all (recorded once as a note, the case is skipped)
		c.rc.Note("value_unavailable:"+expr, err.Error())
		return nil
	}
	return o
}

func c10Universe(quick bool) []c10val {
	gv := func(name string, o func() py.Object) c10val {
		return c10val{name, func(*c10) py.Object { return o() }}
	}
	pv := func(name, expr string) c10val {
		return c10val{name, func(c *c10) py.Object { return c.pyv(expr) }}
	}
	big64 := func() py.Object { return (*py.BigInt)(new(big.Int).Lsh(big.NewInt(1), 64)) }
	vs := []c10val{
		gv("None", func() py.Object { return py.None }),
		gv("True", func() py.Object { return py.True }),
		gv("0", func() py.Object { return py.Int(0) }),
		gv("1", func() py.Object { return py.Int(1) }),
		gv("-1", func() py.Object { return py.Int(-1) }),
		gv("2", func() py.Object { return py.Int(2) }),
		gv("255", func() py.Object { return py.Int(255) }),
		gv("intmax", func() py.Object { return py.Int(math.MaxInt64) }),
		gv("intmin", func() py.Object { return py.Int(math.MinInt64) }),
		gv("2**64", big64),
		gv("0.0", func() py.Object { return py.Float(0) }),
		gv("-0.0", func() py.Object { return py.Float(math.Copysign(0, -1)) }),
		gv("1.5", func() py.Object { return py.Float(1.5) }),
		gv("inf", func() py.Object { return py.Float(math.Inf(1)) }),
		gv("nan", func() py.Object { return py.Float(math.NaN()) }),
		gv("1j", func() py.Object { return py.Complex(complex(0, 1)) }),
		gv("''", func() py.Object { return py.String("") }),
		gv("'a'", func() py.Object { return py.String("a") }),
		gv("'é😀'", func() py.Object { return py.String("é😀") }),
		gv("'%s%d'", func() py.Object { return py.String("%s%d") }),
		gv("b''", func() py.Object { return py.Bytes("") }),
		gv("b'ab'", func() py.Object { return py.Bytes("ab") }),
		gv("()", func() py.Object { return py.Tuple{} }),
		gv("(1,)", func() py.Object { return py.Tuple{py.Int(1)} }),
		gv("('a',2)", func() py.Object { return py.Tuple{py.String("a"), py.Int(2)} }),
		gv("[]", func() py.Object { return py.NewList() }),
		gv("[1,2]", func() py.Object { return py.NewListFromItems([]py.Object{py.Int(1), py.Int(2)}) }),
		gv("['b','a']", func() py.Object { return py.NewListFromItems([]py.Object{py.String("b"), py.String("a")}) }),
		gv("{}", func() py.Object { return py.NewStringDict() }),
		gv("{'a':1}", func() py.Object { return py.StringDict{"a": py.Int(1)} }),
		pv("set()", "set()"),
		pv("{1,2}", "{1, 2}"),
		pv("frozenset", "frozenset([1])"),
		pv("range(0)", "range(0)"),
		pv("range(3)", "range(3)"),
		pv("range(big-empty)", "range(9223372036854775807, 0, 3)"),
		pv("slice(None)", "slice(None)"),
		pv("slice(1,2,0)", "slice(1, 2, 0)"),
		pv("slice(big)", "slice(-9223372036854775808, 9223372036854775807, 2)"),
		// objects that hold values whose Go representation cannot be compared or hashed by the host
		pv("slice(containers)", "slice((1,), [2], {'a': 1})"),
		pv("tuple-method", "(1,).count"),
		pv("dict-of-tuple", "{'a': (1,)}"),
		pv("exc-tuple-arg", "KeyError((1,))"),
		pv("generator", "mkgen()"),
		pv("started-generator", "mkstarted()"),
		pv("exhausted-iterator", "mkexhausted()"),
		pv("list-iterator", "iter([1, 2])"),
		pv("lambda", "lambda *a, **k: None"),
		pv("pyfunc", "pyfunc"),
		pv("builtin-len", "len"),
		pv("bound-method", "[].append"),
		pv("user-method", "UC().m"),
		pv("type-int", "int"),
		pv("type-type", "type"),
		pv("type-object", "object"),
		pv("user-class", "UC"),
		pv("user-instance", "UC()"),
		pv("object()", "object()"),
		pv("module", "vh"),
		pv("exc-class", "ValueError"),
		pv("exc-inst0", "ValueError()"),
		pv("exc-inst1", "KeyError('k')"),
		pv("user-exc", "UE(1, 2)"),
		pv("StopIteration()", "StopIteration()"),
		pv("Ellipsis", "..."),
		pv("NotImplemented", "NotImplemented"),
		pv("code", "pyfunc.__code__"),
		pv("closure-func", "mkcell()"),
		pv("closure-code", "mkcell().__code__"),
		pv("liar", "Liar()"),
		pv("liar2", "Liar2()"),
		// lengths that have nothing to do with what the object yields
		pv("liar-huge-len", "Liar3()"),
		pv("liar-negative-len", "Liar4()"),
		pv("call-iterator", "iter(lambda: (1,), (1,))"),
		pv("self-list", "mkselflist()"),
		pv("self-dict", "mkselfdict()"),
		pv("self-set", "mkselfset()"),
		pv("[()]", "[()]"),
		pv("[('a',)]", "[('a',)]"),
		pv("zip", "zip([1], [2])"),
		pv("map", "map(len, ['a'])"),
		pv("enumerate", "enumerate([1])"),
		pv("classmethod-obj", "classmethod(len)"),
		pv("staticmethod-obj", "staticmethod(len)"),
	}
	if !quick {
		vs = append(vs,
			pv("deep-tuple", "((((((((1,),),),),),),),)"),
			pv("filter", "filter(None, [0, 1])"),
			pv("bytes-nonascii", "b'\\xff\\x00'"),
			gv("1e308", func() py.Object { return py.Float(1e308) }),
			gv("-2**64", func() py.Object { return (*py.BigInt)(new(big.Int).Neg(new(big.Int).Lsh(big.NewInt(1), 64))) }),
		)
	}
	return vs
}

type c10callable struct {
	name string
	get  func(c *c10) (py.Object, bool)
}

var c10Types = map[string]*py.Type{
	"int": py.IntType, "bool": py.BoolType, "float": py.FloatType, "complex": py.ComplexType, "str": py.StringType, "bytes": py.BytesType,
	"list": py.ListType, "tuple": py.TupleType, "dict": py.StringDictType, "set": py.SetType, "frozenset": py.FrozenSetType,
	"range": py.RangeType, "slice": py.SliceType, "type": py.TypeType, "object": py.ObjectType, "generator": py.GeneratorType,
	"function": py.FunctionType, "method": py.MethodType, "module": py.ModuleType, "code": py.CodeType, "BaseException": py.BaseException,
	"enumerate": py.EnumerateType, "zip": py.ZipType, "map": py.MapType, "filter": py.FilterType, "iterator": py.IteratorType,
	"classmethod": py.ClassMethodType, "staticmethod": py.StaticMethodType, "bigint": py.BigIntType, "cell": py.CellType, "NoneType": py.NoneTypeType,
	"file": py.FileType, "frame": py.FrameType, "traceback": py.TracebackType, "boundmethod": py.BoundMethodType, "property": py.PropertyType,
}

// instance expression for a type name (to reach its methods through an instance)
var c10Inst = map[string]string{
	"int": "7", "bool": "True", "float": "1.5", "complex": "1j", "str": "'abc'", "bytes": "b'abc'", "list": "[3, 1, 2]", "tuple": "(1, 2)",
	"dict": "{'a': 1}", "set": "{1, 2}", "frozenset": "frozenset([1])", "range": "range(3)", "slice": "slice(1, 2)", "type": "int", "object": "object()",
	"generator": "mkgen()", "function": "pyfunc", "method": "len", "module": "vh", "code": "pyfunc.__code__", "BaseException": "ValueError('x')",
	"enumerate": "enumerate([1])", "zip": "zip([1], [2])", "map": "map(len, ['a'])", "filter": "filter(None, [1])", "iterator": "iter([1])",
	"classmethod": "classmethod(len)", "staticmethod": "staticmethod(len)", "bigint": "2 ** 70", "boundmethod": "UC().m",
}

func c10Callables(c *c10) []c10callable {
	var out []c10callable
	// everything in builtins
	b := c.ev.ctx.Store().Builtins.Globals
	var names []string
	for n := range b {
		names = append(names, n)
	}
	sort.Strings(names)
	skip := map[string]bool{"input": true} // blocks on a terminal; reads stdin
	for _, n := range names {
		n := n
		if skip[n] {
			continue
		}
		switch b[n].(type) {
		case py.NoneType, py.Bool, py.String, py.EllipsisType:
			continue
		}
		out = append(out, c10callable{"builtins." + n, func(c *c10) (py.Object, bool) {
			return c.ev.ctx.Store().Builtins.Globals[n], true
		}})
	}
	// every attribute of every built-in type's dictionary, through an instance and through the class
	var tnames []string
	for n := range c10Types {
		tnames = append(tnames, n)
	}
	sort.Strings(tnames)
	for _, tn := range tnames {
		t := c10Types[tn]
		var attrs []string
		for a := range t.Dict {
			attrs = append(attrs, a)
		}
		sort.Strings(attrs)
		for _, a := range attrs {
			tn, a, t := tn, a, t
			if inst, ok := c10Inst[tn]; ok {
				out = append(out, c10callable{tn + "()." + a, func(c *c10) (py.Object, bool) {
					o := c.pyv(inst)
					if o == nil {
						return nil, false
					}
					r, err := py.GetAttrString(o, a)
					if err != nil {
						return nil, false
					}
					return r, true
				}})
			}
			out = append(out, c10callable{tn + "." + a, func(c *c10) (py.Object, bool) {
				r, err := py.GetAttrString(t, a)
				if err != nil {
					return nil, false
				}
				return r, true
			}})
		}
	}
	return out
}

func c10Run(rc *core.RunCtx) {
	c := &c10{rc: rc, ev: newEvaluator(), code: map[string]*py.Code{}}
	g, err := c.ev.Exec(c10Prelude)
	if err != nil {
		panic("c10 prelude: " + err.Error())
	}
	c.base = g
	V := c10Universe(rc.Quick())
	callCode, err := py.Compile("call(__f, __a, __k)", "<c10call>", py.EvalMode, 0, true)
	if err != nil {
		panic(err)
	}
	// drop the values this interpreter cannot construct at all (noted in the evidence)
	{
		var ok []c10val
		for _, v := range V {
			if v.mk(c) != nil {
				ok = append(ok, v)
			}
		}
		V = ok
	}
	rc.Note("universe_size", itoa(len(V)))

	outcomeOf := func(err error) string {
		if err == nil {
			return "returns"
		}
		t, _, _, _ := harness.ExcInfo(err)
		return "raises:" + t
	}
	// one call through the VM: call(f, args, kwargs)
	doCall := func(part, cname string, get func(c *c10) (py.Object, bool), vals []c10val, kw string, kwv *c10val) {
		var an []string
		for _, v := range vals {
			an = append(an, v.name)
		}
		desc := cname + "(" + strings.Join(an, ", ")
		if kw != "" {
			desc += ", " + kw + "=" + kwv.name
		}
		desc += ")"
		fields := core.Fields{"part": part, "callable": cname, "args": strings.Join(an, ","), "kw": kw}
		if kwv != nil {
			fields["kwv"] = kwv.name
		}
		rc.Guard(fields, func() string { return desc }, func() {
			f, ok := get(c)
			if !ok {
				rc.Eval("no-such-attribute", "")
				return
			}
			args := make(py.Tuple, len(vals))
			for i, v := range vals {
				args[i] = v.mk(c)
				if args[i] == nil {
					rc.Eval("value-unavailable", "")
					return
				}
			}
			k := py.NewStringDict()
			if kw != "" {
				k[kw] = kwv.mk(c)
			}
			gl := c.base.Copy()
			gl["__f"], gl["__a"], gl["__k"] = f, args, k
			_, err := c.ev.ctx.RunCode(callCode, gl, gl, nil)
			rc.Eval(outcomeOf(err), desc)
			if rc.WantSample() && rc.Index()%15013 == 0 {
				rc.Sample(map[string]string{"call": desc, "outcome": outcomeOf(err)})
			}
		})
	}

	calls := c10Callables(c)
	rc.Note("callables", itoa(len(calls)))
	// dangerous-by-specification combinations (legitimately unbounded work), excluded:
	// pow / ** / << with astronomically large exponents, repetition by huge counts is
	// NOT excluded (an implementation must refuse it)
	excluded := func(cname string, vals []c10val) bool {
		base := cname[strings.LastIndex(cname, ".")+1:]
		if base == "pow" || base == "__pow__" || base == "__rpow__" || base == "__lshift__" || base == "__rlshift__" || base == "__ipow__" || base == "__ilshift__" {
			for _, v := range vals {
				if v.name == "intmax" || v.name == "2**64" || v.name == "intmin" || v.name == "-2**64" || v.name == "255" {
					return true
				}
			}
		}
		if base == "exit" || base == "quit" {
			return false
		}
		return false
	}
	rc.Part = "calls"
	maxArity := 2
	for _, cl := range calls {
		for ar := 0; ar <= maxArity; ar++ {
			idx := make([]int, ar)
			for {
				if rc.Expired() || rc.Done() {
					return
				}
				vals := make([]c10val, ar)
				for i := range idx {
					vals[i] = V[idx[i]]
				}
				if !excluded(cl.name, vals) {
					if rc.Take() {
						doCall("calls", cl.name, cl.get, vals, "", nil)
					}
				}
				k := ar - 1
				for k >= 0 {
					idx[k]++
					if idx[k] < len(V) {
						break
					}
					idx[k] = 0
					k--
				}
				if k < 0 {
					break
				}
			}
		}
	}
	// arity 3 over a reduced universe (thorough)
	small := []int{}
	for i, v := range V {
		switch v.name {
		case "None", "0", "1", "-1", "intmax", "2**64", "1.5", "nan", "'a'", "b'ab'", "(1,)", "[1,2]", "{'a':1}", "{1,2}", "range(3)", "slice(None)", "generator", "lambda", "type-int", "user-instance", "exc-inst0":
			small = append(small, i)
		}
	}
	if !rc.Quick() {
		rc.Part = "calls3"
		for _, cl := range calls {
			for _, i := range small {
				for _, j := range small {
					for _, k := range small {
						if rc.Expired() || rc.Done() {
							return
						}
						vals := []c10val{V[i], V[j], V[k]}
						if excluded(cl.name, vals) {
							continue
						}
						if rc.Take() {
							doCall("calls3", cl.name, cl.get, vals, "", nil)
						}
					}
				}
			}
		}
	}
	// one keyword argument
	rc.Part = "kwcalls"
	kws := []string{"x", "key", "sep", "end", "file", "base", "reverse", "start", "default", "flush"}
	for _, cl := range calls {
		for _, kw := range kws {
			for _, i := range small {
				for _, j := range append([]int{-1}, small...) {
					if rc.Expired() || rc.Done() {
						return
					}
					if rc.Quick() && j >= 0 && (i+j)%3 != 0 {
						continue
					}
					var vals []c10val
					if j >= 0 {
						vals = []c10val{V[j]}
					}
					if rc.Take() {
						kv := V[i]
						doCall("kwcalls", cl.name, cl.get, vals, kw, &kv)
					}
				}
			}
		}
	}
	// two keyword arguments at once (the combinations builtins treat specially: key with default,
	// sep with end, ...) for the callables of the builtins module
	rc.Part = "kw2calls"
	{
		var tiny []int
		for i, v := range V {
			switch v.name {
			case "None", "0", "'a'", "[]", "[1,2]", "builtin-len", "lambda", "liar":
				tiny = append(tiny, i)
			}
		}
		callCode2, err := py.Compile("__r = __f(*__a, **__k)\n", "<c10kw2>", py.ExecMode, 0, true)
		if err != nil {
			panic(err)
		}
		for _, cl := range calls {
			if !strings.HasPrefix(cl.name, "builtins.") {
				continue
			}
			for a := 0; a < len(kws); a++ {
				for b := a + 1; b < len(kws); b++ {
					for _, i := range tiny {
						for _, j := range tiny {
							for _, p := range append([]int{-1}, tiny...) {
								if rc.Expired() || rc.Done() {
									return
								}
								if rc.Quick() && p >= 0 && (i+j+p)%2 != 0 {
									continue
								}
								if !rc.Take() {
									continue
								}
								cl, ka, kb, va, vb := cl, kws[a], kws[b], V[i], V[j]
								desc := cl.name + "("
								var pv *c10val
								if p >= 0 {
									pv = &V[p]
									desc += pv.name + ", "
								}
								desc += ka + "=" + va.name + ", " + kb + "=" + vb.name + ")"
								f := core.Fields{"part": "kw2calls", "callable": cl.name, "kw": ka + "," + kb, "kwv": va.name + "," + vb.name}
								if pv != nil {
									f["args"] = pv.name
								}
								rc.Guard(f, func() string { return desc }, func() {
									fn, ok := cl.get(c)
									if !ok {
										rc.Eval("no-such-attribute", "")
										return
									}
									args := py.Tuple{}
									if pv != nil {
										args = py.Tuple{pv.mk(c)}
									}
									k := py.StringDict{ka: va.mk(c), kb: vb.mk(c)}
									for _, x := range []py.Object{k[ka], k[kb]} {
										if x == nil {
											rc.Eval("value-unavailable", "")
											return
										}
									}
									gl := c.base.Copy()
									gl["__f"], gl["__a"], gl["__k"] = fn, args, k
									_, err := c.ev.ctx.RunCode(callCode2, gl, gl, nil)
									rc.Eval(outcomeOf(err), desc)
								})
							}
						}
					}
				}
			}
		}
	}
	// operators, subscripts, attributes, iteration, truth: Go API and compiled source
	rc.Part = "operators"
	type binop struct {
		name string
		api  func(a, b py.Object) (py.Object, error)
		src  string
	}
	wrap2 := func(f func(a, b py.Object) (py.Object, py.Object, error)) func(a, b py.Object) (py.Object, error) {
		return func(a, b py.Object) (py.Object, error) { x, _, e := f(a, b); return x, e }
	}
	bins := []binop{
		{"add", py.Add, "a + b"}, {"sub", py.Sub, "a - b"}, {"mul", py.Mul, "a * b"}, {"truediv", py.TrueDiv, "a / b"},
		{"floordiv", py.FloorDiv, "a // b"}, {"mod", py.Mod, "a % b"}, {"divmod", wrap2(py.DivMod), "divmod(a, b)"},
		{"and", py.And, "a & b"}, {"or", py.Or, "a | b"}, {"xor", py.Xor, "a ^ b"}, {"rshift", py.Rshift, "a >> b"},
		{"lt", py.Lt, "a < b"}, {"le", py.Le, "a <= b"}, {"eq", py.Eq, "a == b"}, {"ne", py.Ne, "a != b"}, {"gt", py.Gt, "a > b"}, {"ge", py.Ge, "a >= b"},
		{"iadd", py.IAdd, ""}, {"isub", py.ISub, ""}, {"imul", py.IMul, ""}, {"iand", py.IAnd, ""}, {"ior", py.IOr, ""}, {"ixor", py.IXor, ""},
		{"getitem", py.GetItem, "a[b]"}, {"delitem", func(a, b py.Object) (py.Object, error) { return py.DelItem(a, b) }, ""},
		{"contains", nil, "b in a"}, {"is", nil, "a is b"}, {"getattr", func(a, b py.Object) (py.Object, error) { return py.GetAttr(a, b) }, "getattr(a, b)"},
		{"call1", func(a, b py.Object) (py.Object, error) { return py.Call(a, py.Tuple{b}, nil) }, "a(b)"},
		{"isinstance", nil, "isinstance(a, b)"}, {"slice-get", nil, "a[b:]"}, {"slice-get2", nil, "a[:b:b]"},
		{"unpack-star", nil, "[*x] = a" /* placeholder replaced below */}, {"format", nil, "a % (b,)"},
	}
	augs := []string{"+=", "-=", "*=", "/=", "//=", "%=", "**=", "<<=", ">>=", "&=", "|=", "^="}
	srcCode := map[string]*py.Code{}
	runSrc := func(src string, mode py.CompileMode, a, b, x py.Object) error {
		code := srcCode[src]
		if code == nil {
			var err error
			code, err = py.Compile(src, "<c10op>", mode, 0, true)
			if err != nil {
				return err
			}
			srcCode[src] = code
		}
		gl := c.base.Copy()
		gl["a"], gl["b"], gl["x"] = a, b, x
		_, err := c.ev.ctx.RunCode(code, gl, gl, nil)
		return err
	}
	hugeExp := func(v c10val) bool {
		return v.name == "intmax" || v.name == "2**64" || v.name == "intmin" || v.name == "-2**64" || v.name == "255"
	}
	for _, va := range V {
		for _, vb := range V {
			if rc.Expired() || rc.Done() {
				return
			}
			for _, op := range bins {
				op := op
				if op.api != nil && rc.Take() {
					f := core.Fields{"part": "operators", "op": op.name, "a": va.name, "b": vb.name, "via": "api"}
					d := "py." + op.name + "(" + va.name + ", " + vb.name + ")"
					rc.Guard(f, func() string { return d }, func() {
						_, err := op.api(va.mk(c), vb.mk(c))
						rc.Eval(outcomeOf(err), d)
					})
				}
				if op.src != "" && op.name != "unpack-star" && rc.Take() {
					f := core.Fields{"part": "operators", "op": op.name, "a": va.name, "b": vb.name, "via": "source"}
					d := op.src + "  with a=" + va.name + ", b=" + vb.name
					rc.Guard(f, func() string { return d }, func() {
						err := runSrc(op.src, py.EvalMode, va.mk(c), vb.mk(c), py.None)
						rc.Eval(outcomeOf(err), d)
					})
				}
			}
			// power and left shift: astronomically large exponents are legitimately unbounded work
			if !hugeExp(vb) {
				for _, src := range []string{"a ** b", "a << b", "pow(a, b, a)"} {
					if rc.Take() {
						f := core.Fields{"part": "operators", "op": src, "a": va.name, "b": vb.name, "via": "source"}
						d := src + "  with a=" + va.name + ", b=" + vb.name
						rc.Guard(f, func() string { return d }, func() {
							err := runSrc(src, py.EvalMode, va.mk(c), vb.mk(c), py.None)
							rc.Eval(outcomeOf(err), d)
						})
					}
				}
			}
			for _, ag := range augs {
				if (ag == "**=" || ag == "<<=") && hugeExp(vb) {
					continue
				}
				if rc.Take() {
					src := "a " + ag + " b\n"
					f := core.Fields{"part": "operators", "op": "aug" + ag, "a": va.name, "b": vb.name, "via": "source"}
					d := strings.TrimSpace(src) + "  with a=" + va.name + ", b=" + vb.name
					rc.Guard(f, func() string { return d }, func() {
						err := runSrc(src, py.ExecMode, va.mk(c), vb.mk(c), py.None)
						rc.Eval(outcomeOf(err), d)
					})
				}
			}
			// statements with two operands
			for _, src := range []string{"a[b] = b\n", "del a[b]\n", "a.x = b\n", "x, y = a, b\n", "for x in a:\n    b\n", "with a as x:\n    b\n", "raise a from b\n",
				"try:\n    raise a\nexcept b:\n    pass\n", "x = [i for i in a if b]\n", "x = {**{}}\n" /* rejected at compile time: fine */, "class K(a):\n    x = b\n", "assert a, b\n",
				"def f(p=a, *q, r=b):\n    return p\nf()\n", "x = a if b else b\n", "x = a and b or a\n", "x = not a < b\n", "x = (yield)\n" /* compile error */, "x = a(*b)\n", "x = a(**b)\n", "x = a(b, k=b)\n",
				"import vh\nvh.log(a, b)\n", "@a\ndef f(p=b):\n    return p\n", "@a\n@b\ndef f(p=1, *, k=b):\n    return p\n", "def f(p: a = b) -> a:\n    return p\nf()\n", "@a\nclass K(b):\n    pass\n",
				"def f(p=a):\n    yield p\n    yield b\nx = list(f())\n", "x = lambda p=a, *q, **r: b\nx()\n", "def f():\n    return a\n    yield b\nnext(f())\n", "class K:\n    x = a\n    def m(self, p=b):\n        return self.x\nK().m()\n", "x = '%s %r' % (a, b)\n", "x = str(a) + repr(b)\n", "x = a[b:b]\n", "a[b:b] = a\n", "del a[b:b]\n", "x = a[b, b]\n", "x = a.real\n", "del a.x\n", "global a\na = b\n"} {
				if rc.Take() {
					f := core.Fields{"part": "statements", "op": strings.SplitN(src, "\n", 2)[0], "a": va.name, "b": vb.name, "via": "source"}
					d := strings.ReplaceAll(strings.TrimSpace(src), "\n", "; ") + "  with a=" + va.name + ", b=" + vb.name
					rc.Guard(f, func() string { return d }, func() {
						err := runSrc(src, py.ExecMode, va.mk(c), vb.mk(c), py.None)
						rc.Eval(outcomeOf(err), d)
					})
				}
			}
		}
	}
	// unary forms
	rc.Part = "unary"
	for _, va := range V {
		for _, src := range []string{"-a", "+a", "~a", "not a", "abs(a)", "bool(a)", "len(a)", "iter(a)", "next(a)", "list(a)", "tuple(a)", "set(a)", "dict(a)", "str(a)", "repr(a)", "hash(a)",
			"int(a)", "float(a)", "complex(a)", "bytes(a)", "sorted(a)", "sum(a)", "min(a)", "max(a)", "any(a)", "all(a)", "type(a)", "id(a) and 1", "dir(a)", "callable(a)", "a()", "a.__class__",
			"a.__doc__", "a.__name__", "a.__dict__", "a.__mro__", "a.__bases__", "a[0]", "a[-1]", "a[::2]", "a[::-1]", "a[1:0]", "[x for x in a]", "{x for x in a}", "(lambda *p: p)(*a)", "(lambda **p: p)(**a)",
			"isinstance(a, a)", "a == a", "a < a", "a is a", "a in a", "a + a", "a * 2", "2 * a", "a * -1", "a % a", "a ** 2", "round(a)", "round(a, 2)", "divmod(a, a)", "chr(a)", "ord(a)", "hex(a)", "oct(a)", "bin(a)",
			"range(a)", "slice(a)", "enumerate(a)", "zip(a, a)", "map(a, a)", "filter(a, a)", "getattr(a, 'x', None)", "hasattr(a, 'x')", "print(a)", "'{}'.format(a)", "'%s' % a", "'%d' % a", "'%r' % (a,)", "','.join(a)", "a.join(a)",
			"''.join([str(a)])", "a.m(a)", "open(a)", "compile(a, 'f', 'exec')", "eval(a)", "exec(a)", "__import__(a)", "vars(a)", "globals()", "locals()", "super(a)", "object.__new__(a)", "type(a)(a)", "type(a)()"} {
			if rc.Expired() || rc.Done() {
				return
			}
			if rc.Take() {
				f := core.Fields{"part": "unary", "op": src, "a": va.name, "via": "source"}
				d := src + "  with a=" + va.name
				rc.Guard(f, func() string { return d }, func() {
					err := runSrc(src, py.EvalMode, va.mk(c), py.None, py.None)
					rc.Eval(outcomeOf(err), d)
				})
			}
		}
		// Go API entry points an embedder uses directly
		type un struct {
			name string
			f    func(o py.Object) error
		}
		for _, u := range []un{
			{"py.Repr", func(o py.Object) error { _, e := py.Repr(o); return e }}, {"py.Str", func(o py.Object) error { _, e := py.Str(o); return e }},
			{"py.Len", func(o py.Object) error { _, e := py.Len(o); return e }}, {"py.Iter", func(o py.Object) error { _, e := py.Iter(o); return e }},
			{"py.Iterate", func(o py.Object) error { n := 0; return py.Iterate(o, func(py.Object) bool { n++; return n > 3 }) }},
			{"py.MakeBool", func(o py.Object) error { _, e := py.MakeBool(o); return e }}, {"py.Neg", func(o py.Object) error { _, e := py.Neg(o); return e }},
			{"py.Invert", func(o py.Object) error { _, e := py.Invert(o); return e }}, {"py.Abs", func(o py.Object) error { _, e := py.Abs(o); return e }},
			{"py.MakeInt", func(o py.Object) error { _, e := py.MakeInt(o); return e }}, {"py.MakeFloat", func(o py.Object) error { _, e := py.MakeFloat(o); return e }},
			{"py.Index", func(o py.Object) error { _, e := py.Index(o); return e }}, {"py.Next", func(o py.Object) error { _, e := py.Next(o); return e }},
			{"py.Call0", func(o py.Object) error { _, e := py.Call(o, nil, nil); return e }},
			{"py.GetAttrString(__doc__)", func(o py.Object) error { _, e := py.GetAttrString(o, "__doc__"); return e }},
			{"py.SetAttrString(x)", func(o py.Object) error { _, e := py.SetAttrString(o, "x", py.Int(1)); return e }},
			{"py.DeleteAttrString(x)", func(o py.Object) error { return py.DeleteAttrString(o, "x") }},
			{"err.Error()", func(o py.Object) error {
				if e, ok := o.(error); ok {
					_ = e.Error()
				}
				return nil
			}},
		} {
			u := u
			if rc.Take() {
				f := core.Fields{"part": "unary", "op": u.name, "a": va.name, "via": "api"}
				d := u.name + "(" + va.name + ")"
				rc.Guard(f, func() string { return d }, func() {
					err := u.f(va.mk(c))
					rc.Eval(outcomeOf(err), d)
				})
			}
		}
	}
	// the special attributes of a function object replaced by any value, then the function called
	rc.Part = "function-attributes"
	for _, attr := range []string{"__defaults__", "__kwdefaults__", "__code__", "__name__", "__qualname__", "__doc__", "__dict__", "__annotations__", "__globals__", "__closure__", "__module__"} {
		for _, v := range V {
			for _, alt := range []string{"x", "(1, 2, 3)", "(1,)", "()", "{'k': 5}", "{'zz': 5}", "None"} {
				if rc.Expired() || rc.Done() {
					return
				}
				if alt != "x" && (v.name != "None" || attr != "__defaults__" && attr != "__kwdefaults__") {
					continue
				}
				if !rc.Take() {
					continue
				}
				attr, v, alt := attr, v, alt
				src := "def g(a, b=0, *c, k=1, **d):\n    return (a, b, c, k, d)\ndef h(a=1, b=2):\n    return (a, b)\nfor fn in (g, h):\n    try:\n        fn." + attr + " = " + alt +
					"\n    except Exception:\n        pass\n    for call in (lambda: fn(), lambda: fn(5), lambda: fn(5, 6), lambda: fn(b=9), lambda: fn(5, 6, 7, k=8, z=9), lambda: repr(fn), lambda: fn." + attr + "):\n        try:\n            call()\n        except Exception:\n            pass\n"
				f := core.Fields{"part": "function-attributes", "attr": attr, "a": v.name, "alt": alt}
				d := "fn." + attr + " = " + alt + " (x=" + v.name + "), then calls"
				rc.Guard(f, func() string { return d + "\n" + src }, func() {
					x := v.mk(c)
					if x == nil {
						rc.Eval("value-unavailable", "")
						return
					}
					err := runSrc(strings.ReplaceAll(src, " = x\n", " = a\n"), py.ExecMode, x, py.None, py.None)
					rc.Eval(outcomeOf(err), d)
				})
			}
		}
	}
	// callbacks that mutate the container while a builtin or the VM is working on it
	rc.Part = "mutating-callbacks"
	{
		type cont struct{ name, init string }
		conts := []cont{{"list", "a = [3, 1, 2, 5, 4]"}, {"list2", "a = [2, 1]"}, {"list1", "a = [1]"}, {"dict", "a = {'x': 1, 'y': 2, 'z': 3}"}, {"set", "a = {1, 2, 3}"}}
		muts := map[string][]string{
			"list":  {"del a[1:]", "del a[:]", "del a[-1]", "a[:] = []", "a.append(0) if len(a) < 9 else None", "a.extend([7, 8]) if len(a) < 9 else None", "a[:] = [9, 8, 7, 6, 5, 4, 3] if len(a) < 7 else a", "a.sort()", "a *= 0", "a += [1] if len(a) < 9 else []"},
			"list2": {"del a[1:]", "del a[:]", "a.append(0) if len(a) < 9 else None"},
			"list1": {"del a[:]", "a.append(0) if len(a) < 9 else None"},
			"dict":  {"a['w'] = 0", "del a['x']", "a.clear() if hasattr(a, 'clear') else None"},
			"set":   {"a.add(9)", "a.add(len(a) + 10) if len(a) < 9 else None"},
		}
		cons := []string{
			"a.sort(key=f)", "a.sort(key=f, reverse=True)", "r = sorted(a, key=f)", "r = max(a, key=f)", "r = min(a, key=f)", "r = list(map(f, a))", "r = list(filter(f, a))",
			"r = [f(x) for x in a]", "for x in a:\n    f(x)", "r = sum(map(f, a))", "a.extend(map(f, a))", "a[:] = map(f, a)", "a += map(f, a)", "a[::2] = map(f, a)",
			"r = ','.join(map(str, map(f, a)))", "r = any(map(f, a))", "r = all(map(f, a))", "r = tuple(map(f, a))", "r = set(map(f, a))", "r = list(zip(a, map(f, a)))",
			"r = list(enumerate(map(f, a)))", "r = {x: f(x) for x in map(str, a)}", "r = {f(x) for x in a}", "p, q = map(f, a)", "p, *q = map(f, a)", "r = (lambda *z: z)(*map(f, a))",
			"r = f(1) in a", "r = a == [f(x) for x in a]", "r = repr(list(map(f, a)))", "it = iter(a)\nf(0)\nr = list(it)", "it = iter(a)\nnext(it)\nf(0)\nr = list(it)",
			"g = (f(x) for x in a)\nnext(g)\nf(0)\nr = list(g)", "r = list(reversed(a)) if hasattr(a, '__reversed__') else 0", "r = a[f(0):f(1)]", "a[f(0)] = f(1)", "del a[f(0)]", "r = len(a) + f(len(a))",
			// an index object whose __index__ runs the mutation while the container is being indexed
			"r = a[I()]", "r = a[I():4]", "r = a[0:I()]", "r = a[::I()]", "r = a[I():I():I()]", "a[I()] = 0", "a[I():4] = [7, 8]", "a[::I()] = [7]", "del a[I()]", "del a[I():4]", "del a[::I()]",
			"r = a * I()", "a *= I()", "r = a[-I()]", "r = range(9)[I():len(a)]", "r = (1, 2, 3, 4)[I():len(a)]", "r = 'abcdef'[I():len(a)]", "a[len(a) - 1:I()] = a",
			"r = a.index(1, I()) if hasattr(a, 'index') else 0", "r = a.pop(I()) if hasattr(a, 'pop') else 0", "a.insert(I(), 5) if hasattr(a, 'insert') else 0",
		}
		for _, ct := range conts {
			for _, mu := range muts[ct.name] {
				for _, cn := range cons {
					if rc.Expired() || rc.Done() {
						return
					}
					if !rc.Take() {
						continue
					}
					src := ct.init + "\ndef f(x):\n    " + mu + "\n    return x\nclass I:\n    def __index__(self):\n        f(0)\n        return 1\n" + cn + "\n"
					f := core.Fields{"part": "mutating-callbacks", "container": ct.name, "mutation": mu, "op": strings.SplitN(cn, "\n", 2)[0]}
					rc.Guard(f, func() string { return src }, func() {
						err := runSrc(src, py.ExecMode, py.None, py.None, py.None)
						rc.Eval(outcomeOf(err), src)
						if rc.WantSample() && rc.Index()%211 == 0 {
							rc.Sample(map[string]string{"program": src, "outcome": outcomeOf(err)})
						}
					})
				}
			}
		}
	}
	// unbounded recursion written in Python, through every way one Python-level action can
	// start another: the host must get an exception, not a stack overflow
	rc.Part = "recursion"
	{
		progs := []string{
			"def f():\n    return f()\nf()\n",
			"def f(n):\n    return f(n + 1) + 1\nf(0)\n",
			"def a():\n    return b()\ndef b():\n    return a()\na()\n",
			"f = lambda: f()\nf()\n",
			"def f(*a, **k):\n    return f(*a, **k)\nf(1, x=2)\n",
			"class R:\n    def __repr__(self):\n        return repr(self)\nrepr(R())\n",
			"class R:\n    def __str__(self):\n        return str(self)\nstr(R())\n",
			"class R:\n    def __repr__(self):\n        return repr([self])\nrepr(R())\n",
			"class R:\n    def __repr__(self):\n        return '%r' % (self,)\nrepr(R())\n",
			"class G:\n    def __getattr__(self, n):\n        return getattr(self, n)\nG().x\n",
			"class G:\n    def __getattr__(self, n):\n        return self.y\nG().x\n",
			"class G:\n    def __getitem__(self, k):\n        return self[k]\nG()[0]\n",
			"class G:\n    def __len__(self):\n        return len(self)\nlen(G())\n",
			"class G:\n    def __bool__(self):\n        return bool(self)\nbool(G())\n",
			"class G:\n    def __bool__(self):\n        return not self\nif G():\n    pass\n",
			"class G:\n    def __iter__(self):\n        return iter(self)\nlist(G())\n",
			"class G:\n    def __next__(self):\n        return next(self)\n    def __iter__(self):\n        return self\nfor x in G():\n    pass\n",
			"class G:\n    def __contains__(self, x):\n        return x in self\n1 in G()\n",
			"class G:\n    def __index__(self):\n        return [0][self]\n[0][G()]\n",
			"class G:\n    def __init__(self):\n        G()\nG()\n",
			"class G:\n    def __enter__(self):\n        with self:\n            pass\n    def __exit__(self, *a):\n        pass\nwith G():\n    pass\n",
			"class G:\n    def __setattr__(self, k, v):\n        self.x = v\nG().x = 1\n",
			"class G:\n    def __delattr__(self, k):\n        del self.x\ndel G().x\n",
			"class G:\n    def __getattribute__(self, k):\n        return self.x\nG().x\n",
			"def g():\n    yield from g()\nnext(g())\n",
			"def g():\n    for x in g():\n        yield x\nlist(g())\n",
			"def g():\n    yield next(g())\nnext(g())\n",
			"def f(x):\n    return list(map(f, [x]))\nf(1)\n",
			"def f(x):\n    return sorted([x, x], key=f)\nf(1)\n",
			"def f(x):\n    return [f(y) for y in [x]]\nf(1)\n",
			"def f(x):\n    return max([x], key=f)\nf(1)\n",
			"def f(x):\n    return list(filter(f, [x]))\nf(1)\n",
			"def f():\n    return eval('f()')\nf()\n",
			"def f():\n    exec('f()')\nf()\n",
			"def f():\n    try:\n        f()\n    finally:\n        pass\nf()\n",
			"def f():\n    try:\n        return f()\n    except KeyError:\n        return 0\nf()\n",
			"def f():\n    with CM:\n        f()\nclass C:\n    def __enter__(self):\n        return self\n    def __exit__(self, *a):\n        return False\nCM = C()\nf()\n",
			"def deco(fn):\n    return deco(fn)\n@deco\ndef f():\n    pass\n",
			"class M:\n    def m(self):\n        return self.m()\nM().m()\n",
			"class M:\n    @classmethod\n    def m(cls):\n        return cls.m()\nM.m()\n",
			"class M:\n    @staticmethod\n    def m():\n        return M.m()\nM.m()\n",
			"class M:\n    @property\n    def p(self):\n        return self.p\nM().p\n",
			"class A:\n    def m(self):\n        return B().m()\nclass B(A):\n    def m(self):\n        return super().m()\nB().m()\n",
			"def f(n=0):\n    def g():\n        return f(n + 1)\n    return g()\nf()\n",
			"import sys\ndef f():\n    return f()\ntry:\n    f()\nexcept RuntimeError:\n    pass\ndef g(n):\n    return 0 if n == 0 else g(n - 1)\ng(500)\n",
			"def f():\n    return f()\nfor i in range(3):\n    try:\n        f()\n    except RuntimeError:\n        pass\n",
			"l = []\nfor i in range(3000):\n    l = [l]\nrepr(l)\nl == l\n",
			"d = {}\nfor i in range(3000):\n    d = {'k': d}\nstr(d)\nd == {'k': d}\n",
			"t = ()\nfor i in range(3000):\n    t = (t,)\nrepr(t)\nhash(t) if hasattr(t, '__hash__') else 0\n",
		}
		for i, src := range progs {
			if rc.Expired() || rc.Done() {
				return
			}
			if !rc.Take() {
				continue
			}
			src := src
			f := core.Fields{"part": "recursion", "program": itoa(i), "src": src}
			rc.Guard(f, func() string { return src }, func() {
				err := runSrc(src, py.ExecMode, py.None, py.None, py.None)
				rc.Eval(outcomeOf(err), src)
				if rc.WantSample() {
					rc.Sample(map[string]string{"program": src, "outcome": outcomeOf(err)})
				}
			})
		}
	}
	// resource shapes a program can take without recursing: 19..64 blocks open at once in one
	// frame (loops, try/finally, try/except, with, and handlers being executed), inside a
	// function and at module level; 100..300 nested parentheses / list displays / calls
	rc.Part = "nesting"
	{
		type kind struct{ name, open, close string }
		kinds := []kind{
			{"for", "for i%d in (1,):\n", ""}, {"while", "while x:\n", ""}, {"try-finally", "try:\n", "finally:\n pass\n"},
			{"try-except", "try:\n", "except KeyError:\n pass\n"}, {"with", "with CM:\n", ""}, {"handler", "try:\n raise KeyError\nexcept KeyError:\n", ""},
			{"mixed", "", ""},
		}
		indent := func(src string, n int) string {
			pad := strings.Repeat(" ", n)
			var b strings.Builder
			for _, l := range strings.Split(strings.TrimSuffix(src, "\n"), "\n") {
				b.WriteString(pad + l + "\n")
			}
			return b.String()
		}
		var progs []struct{ name, src string }
		for _, k := range kinds {
			for _, n := range []int{19, 20, 21, 25, 64} {
				var head, tail []string
				for d := 0; d < n; d++ {
					kk := k
					if k.name == "mixed" {
						kk = kinds[d%6]
					}
					open := kk.open
					if strings.Contains(open, "%d") {
						open = fmt.Sprintf(open, d)
					}
					// a handler body is one level deeper than its try
					lines := strings.Split(strings.TrimSuffix(open, "\n"), "\n")
					for _, l := range lines {
						head = append(head, strings.Repeat(" ", d)+l+"\n")
					}
					if kk.close != "" {
						tail = append([]string{indent(kk.close, d)}, tail...)
					}
				}
				body := strings.Repeat(" ", n) + "x = 0\n"
				core := strings.Join(head, "") + body + strings.Join(tail, "")
				pre := "class C:\n def __enter__(self):\n  return self\n def __exit__(self, *a):\n  return False\nCM = C()\nx = 1\n"
				progs = append(progs, struct{ name, src string }{k.name + "-" + itoa(n) + "-module", pre + core})
				progs = append(progs, struct{ name, src string }{k.name + "-" + itoa(n) + "-def", pre + "def f(x):\n" + indent(core, 1) + " return x\nf(1)\n"})
			}
		}
		for _, n := range []int{100, 200, 300} {
			progs = append(progs, struct{ name, src string }{"parens-" + itoa(n), "x = " + strings.Repeat("(", n) + "1" + strings.Repeat(")", n) + "\n"})
			progs = append(progs, struct{ name, src string }{"lists-" + itoa(n), "x = " + strings.Repeat("[", n) + "1" + strings.Repeat("]", n) + "\nrepr(x)\n"})
			progs = append(progs, struct{ name, src string }{"calls-" + itoa(n), "def i(v):\n return v\nx = " + strings.Repeat("i(", n) + "1" + strings.Repeat(")", n) + "\n"})
		}
		// class statements whose bases have no consistent linearisation, detected early and late
		// in the merge (the error path builds a message from the lists still being merged)
		base := "class A: pass\nclass B: pass\nclass C: pass\nclass X(A, B): pass\nclass Y(B, A): pass\nclass P(A): pass\nclass Q(A, C): pass\n"
		for i, last := range []string{"class Z(X, Y): pass", "class Z(Y, X): pass", "class Z(A, P): pass", "class Z(A, A): pass", "class Z(X, Y, C): pass", "class Z(C, X, Y): pass",
			"class Z(A, B, X): pass", "class Z(X, A, B): pass", "class Z(Q, X, Y): pass", "class Z(object, A): pass", "class Z(P, Q, X, Y): pass", "class Z(X, Q, P, Y): pass",
			"Z = type('Z', (X, Y), {})", "Z = type('Z', (A, P), {})", "class Z(int, str): pass", "class Z(A, int, X): pass", "class Z(5): pass", "class Z(A, None): pass"} {
			progs = append(progs, struct{ name, src string }{"mro-" + itoa(i), base + "try:\n    " + last + "\nexcept TypeError:\n    pass\n" + last + "\n"})
		}
		for _, pr := range progs {
			if rc.Expired() || rc.Done() {
				return
			}
			if !rc.Take() {
				continue
			}
			src := pr.src
			f := core.Fields{"part": "nesting", "program": pr.name}
			rc.Guard(f, func() string { return src }, func() {
				err := runSrc(src, py.ExecMode, py.None, py.None, py.None)
				rc.Eval(outcomeOf(err), "nesting:"+pr.name)
			})
		}
	}
	// setitem with three operands over the reduced universe
	rc.Part = "ternary"
	for _, i := range small {
		for _, j := range small {
			for _, k := range small {
				if rc.Expired() || rc.Done() {
					return
				}
				va, vb, vc := V[i], V[j], V[k]
				for _, src := range []string{"a[b] = x\n", "a[b:x] = a\n", "y = a[b:x]\n", "y = a[b:x:b]\n", "setattr(a, 'k', x)\ny = a.k\n", "y = a(b, x)\n", "y = a if b else x\n", "y = pow(b, 2, x)\n", "y = a.get(b, x)\n", "y = range(a, b, x)\n", "y = slice(a, b, x)\n", "y = getattr(a, b, x)\n", "y = sorted(a, key=b, reverse=x)\n", "y = sum(a, x)\n", "y = str(a, b, x)\n", "y = int(a, b)\n", "y = a.replace(b, x)\n", "y = a.split(b, x)\n", "y = a.find(b, x)\n", "y = type(a)(b, x)\n"} {
					if rc.Take() {
						f := core.Fields{"part": "ternary", "op": strings.TrimSpace(strings.SplitN(src, "\n", 2)[0]), "a": va.name, "b": vb.name, "x": vc.name, "via": "source"}
						d := strings.ReplaceAll(strings.TrimSpace(src), "\n", "; ") + "  with a=" + va.name + ", b=" + vb.name + ", x=" + vc.name
						rc.Guard(f, func() string { return d }, func() {
							err := runSrc(src, py.ExecMode, va.mk(c), vb.mk(c), vc.mk(c))
							rc.Eval(outcomeOf(err), d)
						})
					}
				}
			}
		}
	}
	_ = fmt.Sprint
}

func init() {
	core.Register(&core.Check{
		ID:    "C10",
		Level: "model_checking",
		Rule: "callables = every entry of builtins plus every attribute of every built-in type's dictionary (reached through an instance and through the class) x all argument tuples of arity 0-2 over a universe of ~70 values of every type (None, bools, ints at the word limits and beyond, floats incl. inf/nan/-0.0, complex, str incl. non-BMP, bytes, tuples, lists, dicts, sets, ranges, slices, generators in every state, iterators, functions, methods, classes, instances, instances whose special methods return values of the wrong type or raise, modules, exceptions, code with and without free variables, Ellipsis, NotImplemented, self-referential list/dict/set, iter(callable, tuple sentinel)) - thorough: arity 3 over a 21-value sub-universe - one keyword argument, and for the builtins module every pair of keywords out of 10 names over an 8-value sub-universe; the 11 special attributes of a function object replaced by every universe value (and by tuples/dicts of other lengths), then the function called in five ways; " +
			"every binary/augmented/unary operator, subscript, slice, attribute, call, iteration, format and 30 two-operand statement forms over the universe squared, through the Go API and as compiled source; 58 consumers (sort/sorted/min/max with key, map/filter/zip/enumerate, comprehensions, for, unpacking, star-call, slice assignment from an iterator, suspended iterators and generators, index objects whose __index__ runs the mutation in item/slice get, set and delete and in repetition) x callbacks that shrink, empty, grow, replace or sort the very container being processed (list, dict, set). 49 programs that recurse without bound through every way one Python-level action starts another (calls, lambdas, special methods, generators, map/sorted/filter callbacks, eval/exec, with, decorators, properties, super) or build 3000-deep nested containers. Fresh values per case. Oracle: the host neither panics, aborts nor hangs; any Python exception is acceptable. Every case is non-trivial.",
		Run:         c10Run,
		HangAfterS:  25,
		Assumptions: []string{"legitimately unbounded work is excluded by construction: pow/**/<< with astronomically large exponents; input() (blocks on stdin)", "side effects are confined to the worker's scratch directory; stdin is empty"},
		Explanation: "exhaustive enumeration of (callable or operator) x argument tuples over a closed universe, executed on the real VM in worker processes; crash classifier: recovered Go panic (site), fatal error/abort (attributed to the case in flight), hang (watchdog)",
	})
}

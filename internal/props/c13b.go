package props

import (
	"fmt"
	"strings"

	"github.com/go-python/gpython/py"
	"verif/internal/core"
	"verif/internal/harness"
)

// C13 part "shared": immutable sequences whose storage has spare capacity or is a window on a
// longer sequence (tuple(iterator), bytes(iterator), a slice of a longer tuple / bytes), and two
// values derived from the same base one after the other by +=, *=, + or *. Tuples and bytes are
// immutable: neither the base nor the first derived value may change when the second is built.
func (c *c13) partShared() {
	rc := c.rc
	rc.Part = "shared"
	type maker struct {
		name string
		src  func(n int) string
		kind string
	}
	ints := func(n int) string {
		var xs []string
		for i := 0; i < n; i++ {
			xs = append(xs, itoa(10+i))
		}
		return strings.Join(xs, ", ")
	}
	bytesLit := func(n int) string { return "b'" + "abcdefgh"[:n] + "'" }
	makers := []maker{
		{"tuple(iter)", func(n int) string { return "tuple(iter([" + ints(n) + "]))" }, "tuple"},
		{"tuple(list)", func(n int) string { return "tuple([" + ints(n) + "])" }, "tuple"},
		{"tuple-prefix", func(n int) string { return "(" + ints(n+2) + ",)[:" + itoa(n) + "]" }, "tuple"},
		{"tuple-middle", func(n int) string { return "(9, " + ints(n+2) + ",)[1:" + itoa(n+1) + "]" }, "tuple"},
		{"tuple-genexp", func(n int) string { return "tuple(v for v in [" + ints(n) + "])" }, "tuple"},
		{"bytes(iter)", func(n int) string { return "bytes(iter([" + ints(n) + "]))" }, "bytes"},
		{"bytes(list)", func(n int) string { return "bytes([" + ints(n) + "])" }, "bytes"},
		{"bytes+bytes", func(n int) string { return "(" + bytesLit(n) + " + b'')" }, "bytes"},
	}
	type step struct{ name, stmt string } // %s = the variable, %v = operand element
	steps := []step{{"iadd", "%s += %v"}, {"imul", "%s *= 2"}, {"add", "%s = %s + %v"}, {"mul", "%s = %s * 2"}, {"iadd-empty", "%s += %e"}}
	maxN := 3
	if !rc.Quick() {
		maxN = 5
	}
	for _, mk := range makers {
		for n := 0; n <= maxN; n++ {
			for _, s1 := range steps {
				for _, s2 := range steps {
					if rc.Expired() || rc.Done() {
						return
					}
					if mk.kind == "bytes" && (strings.Contains(s1.name, "mul") || strings.Contains(s2.name, "mul")) {
						continue // bytes has no repetition and no slicing in gpython (findings C13-F02, C13-F06)
					}
					if !rc.Take() {
						continue
					}
					mk, n, s1, s2 := mk, n, s1, s2
					render := func(st step, v string, elem int) string {
						op, empty := "("+itoa(elem)+",)", "()"
						if mk.kind == "bytes" {
							op, empty = fmt.Sprintf("bytes([%d])", elem), "b''"
						}
						r := strings.ReplaceAll(st.stmt, "%s", v)
						r = strings.ReplaceAll(r, "%v", op)
						return strings.ReplaceAll(r, "%e", empty)
					}
					src := "base = " + mk.src(n) + "\na = base\n" + render(s1, "a", 77) + "\nb = base\n" + render(s2, "b", 88) + "\n"
					var base []int64
					for i := 0; i < n; i++ {
						v := int64(10 + i)
						if mk.name == "bytes+bytes" {
							v = int64("abcdefgh"[i])
						}
						base = append(base, v)
					}
					apply := func(st step, elem int64) []int64 {
						switch st.name {
						case "iadd", "add":
							return append(append([]int64{}, base...), elem)
						case "imul", "mul":
							return append(append([]int64{}, base...), base...)
						}
						return append([]int64{}, base...)
					}
					exp := valRes("base=" + c13canonKE(mk.kind, base) + ";a=" + c13canonKE(mk.kind, apply(s1, 77)) + ";b=" + c13canonKE(mk.kind, apply(s2, 88)))
					f := core.Fields{"op": "shared", "kind": mk.kind, "maker": mk.name, "n": itoa(n), "first": s1.name, "second": s2.name, "via": "src"}
					c.do(f, "src: "+src, func() (Res, Res, string, string) {
						g, err := c.ev.Exec(src)
						if err != nil {
							return exp, c13obs(nil, err), "", ""
						}
						return exp, valRes("base=" + c13Canon(g["base"]) + ";a=" + c13Canon(g["a"]) + ";b=" + c13Canon(g["b"])), "", ""
					})
				}
			}
		}
	}
	// the Go API on values whose Go slices have spare capacity
	for _, kind := range []string{"tuple", "bytes"} {
		for n := 0; n <= maxN; n++ {
			for _, op := range []string{"IAdd", "Add", "IMul", "Mul"} {
				if rc.Expired() || rc.Done() {
					return
				}
				if kind == "bytes" && strings.Contains(op, "Mul") {
					continue
				}
				if !rc.Take() {
					continue
				}
				kind, n, op := kind, n, op
				var base []int64
				for i := 0; i < n; i++ {
					base = append(base, int64(10+i))
				}
				mkv := func() py.Object {
					if kind == "bytes" {
						b := make([]byte, n, n+8)
						for i := range b {
							b[i] = byte(10 + i)
						}
						return py.Bytes(b)
					}
					t := make([]py.Object, n, n+8)
					for i := range t {
						t[i] = py.Int(10 + i)
					}
					return py.Tuple(t)
				}
				operand := func(e int) py.Object {
					if kind == "bytes" {
						return py.Bytes([]byte{byte(e)})
					}
					return py.Tuple{py.Int(e)}
				}
				f := core.Fields{"op": "shared", "kind": kind, "maker": "go-slice-with-capacity", "n": itoa(n), "first": op, "second": op, "via": "api"}
				in := fmt.Sprintf("api: base = %s of length %d with spare capacity; a = py.%s(base, 77); b = py.%s(base, 88)", kind, n, op, op)
				c.do(f, in, func() (Res, Res, string, string) {
					bo := mkv()
					do := func(e int) (py.Object, error) {
						switch op {
						case "IAdd":
							return py.IAdd(bo, operand(e))
						case "Add":
							return py.Add(bo, operand(e))
						case "IMul":
							return py.IMul(bo, py.Int(2))
						}
						return py.Mul(bo, py.Int(2))
					}
					var ea, eb []int64
					if op == "IAdd" || op == "Add" {
						ea, eb = append(append([]int64{}, base...), 77), append(append([]int64{}, base...), 88)
					} else {
						ea = append(append([]int64{}, base...), base...)
						eb = ea
					}
					exp := valRes("base=" + c13canonKE(kind, base) + ";a=" + c13canonKE(kind, ea) + ";b=" + c13canonKE(kind, eb))
					a, err := do(77)
					if err != nil {
						return exp, c13obs(nil, err), "", ""
					}
					b, err := do(88)
					if err != nil {
						return exp, c13obs(nil, err), "", ""
					}
					_ = harness.Same
					return exp, valRes("base=" + c13Canon(bo) + ";a=" + c13Canon(a) + ";b=" + c13Canon(b)), "", ""
				})
			}
		}
	}
}

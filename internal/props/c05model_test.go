package props

import (
	"bufio"
	"encoding/json"
	"os"
	"strings"
	"testing"
)

// TestC05ModelDump writes the C05 reference models' answers (generator traces of part (a)
// for the quick plans, consumer results of part (b)) as JSON lines for
// scripts/c05_crosscheck.py, which runs the same programs on CPython (3.11 in the sandbox)
// with a Python re-implementation of the harness log. Cases whose semantics changed after
// 3.4 (PEP 479: StopIteration raised inside a generator body) are marked and skipped there.
// Skipped unless C05_DUMP names the output file.
func TestC05ModelDump(t *testing.T) {
	path := os.Getenv("C05_DUMP")
	if path == "" {
		t.Skip("C05_DUMP not set")
	}
	f, err := os.Create(path)
	if err != nil {
		t.Fatal(err)
	}
	defer f.Close()
	w := bufio.NewWriter(f)
	defer w.Flush()
	enc := json.NewEncoder(w)
	n := 0
	for _, pl := range c05Plans(os.Getenv("C05_DUMP_TIER") != "thorough") {
		for _, tup := range pl.tuples {
			c05Walk(pl, tup, func() bool { return false }, func(gc *gcase) {
				n++
				enc.Encode(map[string]interface{}{"part": pl.part, "defs": c05Prelude + gc.defSrc, "prog": gc.program(), "log": gc.exp})
			})
		}
	}
	for _, p := range c05Producers() {
		for _, cn := range c05Consumers() {
			if cn.goAPI != nil || (cn.name == "dictcomp" && p.kind == "range") {
				continue
			}
			defs, expr := p.source(cn.items)
			code := strings.ReplaceAll(cn.code, "IT", expr)
			a := p.model(cn.items)
			res, exc := cn.model(a)
			log := a.log
			if cn.made {
				log = append([]string{"'made'"}, log...)
			}
			if log == nil {
				log = []string{}
			}
			// PEP 479 (3.7+): StopIteration raised in a generator body becomes RuntimeError
			pep479 := strings.HasSuffix(p.kind, "gen") && strings.HasPrefix(p.raised, "StopIteration")
			n++
			enc.Encode(map[string]interface{}{"part": "b", "defs": c05bPrelude + defs, "prog": code, "log": log, "res": res, "exc": exc, "skip": pep479,
				"name": cn.name + "/" + p.kind + "/" + itoa(p.failAt) + "/" + p.raised})
		}
	}
	t.Logf("dumped %d cases", n)
}

package props

// C06: generators of ast trees (built directly as ast.* values).

import (
	"math/big"
	"reflect"
	"sort"
	"strings"

	"github.com/go-python/gpython/ast"
	"github.com/go-python/gpython/py"
)

// ---- small constructors ----

func c6n(id string) *ast.Name  { return &ast.Name{Id: ast.Identifier(id), Ctx: ast.Load} }
func c6s(id string) *ast.Name  { return &ast.Name{Id: ast.Identifier(id), Ctx: ast.Store} }
func c6d(id string) *ast.Name  { return &ast.Name{Id: ast.Identifier(id), Ctx: ast.Del} }
func c6i(v int64) *ast.Num     { return &ast.Num{N: py.Int(v)} }
func c6str(s string) *ast.Str  { return &ast.Str{S: py.String(s)} }
func c6arg(n string) *ast.Arg  { return &ast.Arg{Arg: ast.Identifier(n)} }
func c6pass() []ast.Stmt       { return []ast.Stmt{&ast.Pass{}} }
func c6es(e ast.Expr) ast.Stmt { return &ast.ExprStmt{Value: e} }
func c6argA(n string, ann ast.Expr) *ast.Arg {
	return &ast.Arg{Arg: ast.Identifier(n), Annotation: ann}
}
func c6tup(ctx ast.ExprContext, es ...ast.Expr) *ast.Tuple { return &ast.Tuple{Elts: es, Ctx: ctx} }
func c6lst(ctx ast.ExprContext, es ...ast.Expr) *ast.List  { return &ast.List{Elts: es, Ctx: ctx} }
func c6star(ctx ast.ExprContext, e ast.Expr) *ast.Starred  { return &ast.Starred{Value: e, Ctx: ctx} }
func c6attr(v ast.Expr, a string, ctx ast.ExprContext) *ast.Attribute {
	return &ast.Attribute{Value: v, Attr: ast.Identifier(a), Ctx: ctx}
}
func c6sub(v ast.Expr, s ast.Slicer, ctx ast.ExprContext) *ast.Subscript {
	return &ast.Subscript{Value: v, Slice: s, Ctx: ctx}
}
func c6idx(e ast.Expr) *ast.Index { return &ast.Index{Value: e} }
func c6comp(t, it ast.Expr, ifs ...ast.Expr) ast.Comprehension {
	return ast.Comprehension{Target: t, Iter: it, Ifs: ifs}
}
func c6kw(n string, v ast.Expr) *ast.Keyword { return &ast.Keyword{Arg: ast.Identifier(n), Value: v} }
func c6noargs() *ast.Arguments               { return &ast.Arguments{} }

// name supply: distinct operand names so that swapped or dropped operands are visible
var c6names = []string{"a", "b", "c", "d", "e", "f", "g", "h", "i", "j", "k", "l", "m", "n", "o", "p", "q"}

type c6supply struct{ next int }

func (s *c6supply) name() ast.Expr {
	n := c6names[s.next%len(c6names)]
	if s.next >= len(c6names) {
		n += c6names[(s.next/len(c6names))%len(c6names)]
	}
	s.next++
	return c6n(n)
}

// c6frame is an expression constructor with n expression slots.
type c6frame struct {
	name  string
	n     int
	build func(a []ast.Expr) ast.Expr
	rep   bool // member of the reduced representative set
}

type c6argShape struct {
	name string
	n    int // default-value slots
	ann  int // annotation slots (after the default slots)
	mk   func(s []ast.Expr) *ast.Arguments
}

// c6ArgShapes: all parameter-list shapes (positional, defaults, *a, bare *, keyword-only
// with/without defaults, **k). withAnn adds annotated shapes (def only).
func c6ArgShapes(withAnn bool) []c6argShape {
	A := c6arg
	out := []c6argShape{
		{"none", 0, 0, func(s []ast.Expr) *ast.Arguments { return &ast.Arguments{} }},
		{"a", 0, 0, func(s []ast.Expr) *ast.Arguments { return &ast.Arguments{Args: []*ast.Arg{A("x")}} }},
		{"a,b", 0, 0, func(s []ast.Expr) *ast.Arguments { return &ast.Arguments{Args: []*ast.Arg{A("x"), A("y")}} }},
		{"a=", 1, 0, func(s []ast.Expr) *ast.Arguments {
			return &ast.Arguments{Args: []*ast.Arg{A("x")}, Defaults: []ast.Expr{s[0]}}
		}},
		{"a,b=", 1, 0, func(s []ast.Expr) *ast.Arguments {
			return &ast.Arguments{Args: []*ast.Arg{A("x"), A("y")}, Defaults: []ast.Expr{s[0]}}
		}},
		{"a=,b=", 2, 0, func(s []ast.Expr) *ast.Arguments {
			return &ast.Arguments{Args: []*ast.Arg{A("x"), A("y")}, Defaults: []ast.Expr{s[0], s[1]}}
		}},
		{"*a", 0, 0, func(s []ast.Expr) *ast.Arguments { return &ast.Arguments{Vararg: A("v")} }},
		{"**k", 0, 0, func(s []ast.Expr) *ast.Arguments { return &ast.Arguments{Kwarg: A("w")} }},
		{"*a,**k", 0, 0, func(s []ast.Expr) *ast.Arguments { return &ast.Arguments{Vararg: A("v"), Kwarg: A("w")} }},
		{"a,*b", 0, 0, func(s []ast.Expr) *ast.Arguments {
			return &ast.Arguments{Args: []*ast.Arg{A("x")}, Vararg: A("v")}
		}},
		{"a,**k", 0, 0, func(s []ast.Expr) *ast.Arguments {
			return &ast.Arguments{Args: []*ast.Arg{A("x")}, Kwarg: A("w")}
		}},
		{"a=,*b,**k", 1, 0, func(s []ast.Expr) *ast.Arguments {
			return &ast.Arguments{Args: []*ast.Arg{A("x")}, Defaults: []ast.Expr{s[0]}, Vararg: A("v"), Kwarg: A("w")}
		}},
		{"*,k=", 1, 0, func(s []ast.Expr) *ast.Arguments {
			return &ast.Arguments{Kwonlyargs: []*ast.Arg{A("y")}, KwDefaults: []ast.Expr{s[0]}}
		}},
		{"*a,k=", 1, 0, func(s []ast.Expr) *ast.Arguments {
			return &ast.Arguments{Vararg: A("v"), Kwonlyargs: []*ast.Arg{A("y")}, KwDefaults: []ast.Expr{s[0]}}
		}},
		{"*,k=,l=,**w", 2, 0, func(s []ast.Expr) *ast.Arguments {
			return &ast.Arguments{Kwonlyargs: []*ast.Arg{A("y"), A("z")}, KwDefaults: []ast.Expr{s[0], s[1]}, Kwarg: A("w")}
		}},
		{"a,*,k=", 1, 0, func(s []ast.Expr) *ast.Arguments {
			return &ast.Arguments{Args: []*ast.Arg{A("x")}, Kwonlyargs: []*ast.Arg{A("y")}, KwDefaults: []ast.Expr{s[0]}}
		}},
		// keyword-only parameters without a default: kw_defaults holds None at their index
		{"*,k", 0, 0, func(s []ast.Expr) *ast.Arguments {
			return &ast.Arguments{Kwonlyargs: []*ast.Arg{A("y")}, KwDefaults: []ast.Expr{nil}}
		}},
		{"*a,k", 0, 0, func(s []ast.Expr) *ast.Arguments {
			return &ast.Arguments{Vararg: A("v"), Kwonlyargs: []*ast.Arg{A("y")}, KwDefaults: []ast.Expr{nil}}
		}},
		{"*,k,l=", 1, 0, func(s []ast.Expr) *ast.Arguments {
			return &ast.Arguments{Kwonlyargs: []*ast.Arg{A("y"), A("z")}, KwDefaults: []ast.Expr{nil, s[0]}}
		}},
		{"*,k=,l", 1, 0, func(s []ast.Expr) *ast.Arguments {
			return &ast.Arguments{Kwonlyargs: []*ast.Arg{A("y"), A("z")}, KwDefaults: []ast.Expr{s[0], nil}}
		}},
		{"a,b=,*c,k,l=,**w", 2, 0, func(s []ast.Expr) *ast.Arguments {
			return &ast.Arguments{Args: []*ast.Arg{A("x"), A("y")}, Defaults: []ast.Expr{s[0]}, Vararg: A("v"),
				Kwonlyargs: []*ast.Arg{A("z"), A("u")}, KwDefaults: []ast.Expr{nil, s[1]}, Kwarg: A("w")}
		}},
	}
	if withAnn {
		AA := c6argA
		out = append(out,
			c6argShape{"a:", 0, 1, func(s []ast.Expr) *ast.Arguments { return &ast.Arguments{Args: []*ast.Arg{AA("x", s[0])}} }},
			c6argShape{"a:=", 1, 1, func(s []ast.Expr) *ast.Arguments {
				return &ast.Arguments{Args: []*ast.Arg{AA("x", s[1])}, Defaults: []ast.Expr{s[0]}}
			}},
			c6argShape{"*a:", 0, 1, func(s []ast.Expr) *ast.Arguments { return &ast.Arguments{Vararg: AA("v", s[0])} }},
			c6argShape{"**k:", 0, 1, func(s []ast.Expr) *ast.Arguments { return &ast.Arguments{Kwarg: AA("w", s[0])} }},
			c6argShape{"*,k:=", 1, 1, func(s []ast.Expr) *ast.Arguments {
				return &ast.Arguments{Kwonlyargs: []*ast.Arg{AA("y", s[1])}, KwDefaults: []ast.Expr{s[0]}}
			}},
			c6argShape{"a:,b:=,*c:,k:=,**w:", 2, 5, func(s []ast.Expr) *ast.Arguments {
				return &ast.Arguments{Args: []*ast.Arg{AA("x", s[2]), AA("y", s[3])}, Defaults: []ast.Expr{s[0]}, Vararg: AA("v", s[4]),
					Kwonlyargs: []*ast.Arg{AA("z", s[5])}, KwDefaults: []ast.Expr{s[1]}, Kwarg: AA("w", s[6])}
			}},
		)
	}
	return out
}

type c6callShape struct {
	name string
	n    int
	mk   func(s []ast.Expr) (args []ast.Expr, kws []*ast.Keyword, star, kwargs ast.Expr)
}

// c6CallShapes: all argument-list shapes of calls / class headers.
func c6CallShapes() []c6callShape {
	return []c6callShape{
		{"()", 0, func(s []ast.Expr) ([]ast.Expr, []*ast.Keyword, ast.Expr, ast.Expr) { return nil, nil, nil, nil }},
		{"(a)", 1, func(s []ast.Expr) ([]ast.Expr, []*ast.Keyword, ast.Expr, ast.Expr) {
			return []ast.Expr{s[0]}, nil, nil, nil
		}},
		{"(a,b)", 2, func(s []ast.Expr) ([]ast.Expr, []*ast.Keyword, ast.Expr, ast.Expr) {
			return []ast.Expr{s[0], s[1]}, nil, nil, nil
		}},
		{"(k=a)", 1, func(s []ast.Expr) ([]ast.Expr, []*ast.Keyword, ast.Expr, ast.Expr) {
			return nil, []*ast.Keyword{c6kw("y", s[0])}, nil, nil
		}},
		{"(k=a,l=b)", 2, func(s []ast.Expr) ([]ast.Expr, []*ast.Keyword, ast.Expr, ast.Expr) {
			return nil, []*ast.Keyword{c6kw("y", s[0]), c6kw("z", s[1])}, nil, nil
		}},
		{"(a,k=b)", 2, func(s []ast.Expr) ([]ast.Expr, []*ast.Keyword, ast.Expr, ast.Expr) {
			return []ast.Expr{s[0]}, []*ast.Keyword{c6kw("y", s[1])}, nil, nil
		}},
		{"(*a)", 1, func(s []ast.Expr) ([]ast.Expr, []*ast.Keyword, ast.Expr, ast.Expr) { return nil, nil, s[0], nil }},
		{"(**a)", 1, func(s []ast.Expr) ([]ast.Expr, []*ast.Keyword, ast.Expr, ast.Expr) { return nil, nil, nil, s[0] }},
		{"(*a,**b)", 2, func(s []ast.Expr) ([]ast.Expr, []*ast.Keyword, ast.Expr, ast.Expr) { return nil, nil, s[0], s[1] }},
		{"(a,*b)", 2, func(s []ast.Expr) ([]ast.Expr, []*ast.Keyword, ast.Expr, ast.Expr) {
			return []ast.Expr{s[0]}, nil, s[1], nil
		}},
		{"(a,**b)", 2, func(s []ast.Expr) ([]ast.Expr, []*ast.Keyword, ast.Expr, ast.Expr) {
			return []ast.Expr{s[0]}, nil, nil, s[1]
		}},
		{"(k=a,*b)", 2, func(s []ast.Expr) ([]ast.Expr, []*ast.Keyword, ast.Expr, ast.Expr) {
			return nil, []*ast.Keyword{c6kw("y", s[0])}, s[1], nil
		}},
		{"(k=a,**b)", 2, func(s []ast.Expr) ([]ast.Expr, []*ast.Keyword, ast.Expr, ast.Expr) {
			return nil, []*ast.Keyword{c6kw("y", s[0])}, nil, s[1]
		}},
		{"(a,k=b,*c,**d)", 4, func(s []ast.Expr) ([]ast.Expr, []*ast.Keyword, ast.Expr, ast.Expr) {
			return []ast.Expr{s[0]}, []*ast.Keyword{c6kw("y", s[1])}, s[2], s[3]
		}},
	}
}

func c6BinOps() []ast.OperatorNumber {
	return []ast.OperatorNumber{ast.Add, ast.Sub, ast.Mult, ast.Div, ast.Modulo, ast.Pow, ast.LShift, ast.RShift, ast.BitOr, ast.BitXor, ast.BitAnd, ast.FloorDiv}
}
func c6CmpOps() []ast.CmpOp {
	return []ast.CmpOp{ast.Eq, ast.NotEq, ast.Lt, ast.LtE, ast.Gt, ast.GtE, ast.Is, ast.IsNot, ast.In, ast.NotIn}
}

// c6Frames: every expression kind of the 3.4 abstract grammar with its shapes.
func c6Frames() []c6frame {
	var fs []c6frame
	add := func(name string, n int, rep bool, b func(a []ast.Expr) ast.Expr) {
		fs = append(fs, c6frame{name, n, b, rep})
	}
	add("BoolOp:and2", 2, true, func(a []ast.Expr) ast.Expr { return &ast.BoolOp{Op: ast.And, Values: []ast.Expr{a[0], a[1]}} })
	add("BoolOp:or2", 2, true, func(a []ast.Expr) ast.Expr { return &ast.BoolOp{Op: ast.Or, Values: []ast.Expr{a[0], a[1]}} })
	add("BoolOp:and3", 3, false, func(a []ast.Expr) ast.Expr { return &ast.BoolOp{Op: ast.And, Values: []ast.Expr{a[0], a[1], a[2]}} })
	add("BoolOp:or3", 3, false, func(a []ast.Expr) ast.Expr { return &ast.BoolOp{Op: ast.Or, Values: []ast.Expr{a[0], a[1], a[2]}} })
	repBin := map[ast.OperatorNumber]bool{ast.Add: true, ast.Mult: true, ast.Pow: true, ast.LShift: true, ast.BitOr: true, ast.BitXor: true, ast.BitAnd: true, ast.Sub: true, ast.Div: true}
	for _, op := range c6BinOps() {
		op := op
		add("BinOp:"+c6BinName[op], 2, repBin[op], func(a []ast.Expr) ast.Expr { return &ast.BinOp{Left: a[0], Op: op, Right: a[1]} })
	}
	for _, op := range []ast.UnaryOpNumber{ast.Invert, ast.Not, ast.UAdd, ast.USub} {
		op := op
		add("UnaryOp:"+c6UnSym[op], 1, op == ast.Not || op == ast.USub, func(a []ast.Expr) ast.Expr { return &ast.UnaryOp{Op: op, Operand: a[0]} })
	}
	for _, sh := range c6ArgShapes(false) {
		sh := sh
		add("Lambda:"+sh.name, sh.n+1, sh.name == "none" || sh.name == "a=", func(a []ast.Expr) ast.Expr {
			return &ast.Lambda{Args: sh.mk(a[:sh.n]), Body: a[sh.n]}
		})
	}
	add("IfExp", 3, true, func(a []ast.Expr) ast.Expr { return &ast.IfExp{Body: a[0], Test: a[1], Orelse: a[2]} })
	add("Dict:1", 2, true, func(a []ast.Expr) ast.Expr { return &ast.Dict{Keys: []ast.Expr{a[0]}, Values: []ast.Expr{a[1]}} })
	add("Dict:2", 4, false, func(a []ast.Expr) ast.Expr {
		return &ast.Dict{Keys: []ast.Expr{a[0], a[2]}, Values: []ast.Expr{a[1], a[3]}}
	})
	add("Set:1", 1, true, func(a []ast.Expr) ast.Expr { return &ast.Set{Elts: []ast.Expr{a[0]}} })
	add("Set:2", 2, false, func(a []ast.Expr) ast.Expr { return &ast.Set{Elts: []ast.Expr{a[0], a[1]}} })
	x, y := func() ast.Expr { return c6s("x") }, func() ast.Expr { return c6s("y") }
	add("ListComp:1", 2, true, func(a []ast.Expr) ast.Expr {
		return &ast.ListComp{Elt: a[0], Generators: []ast.Comprehension{c6comp(x(), a[1])}}
	})
	add("ListComp:if", 3, false, func(a []ast.Expr) ast.Expr {
		return &ast.ListComp{Elt: a[0], Generators: []ast.Comprehension{c6comp(x(), a[1], a[2])}}
	})
	add("ListComp:if,if", 4, false, func(a []ast.Expr) ast.Expr {
		return &ast.ListComp{Elt: a[0], Generators: []ast.Comprehension{c6comp(x(), a[1], a[2], a[3])}}
	})
	add("ListComp:for,for", 3, false, func(a []ast.Expr) ast.Expr {
		return &ast.ListComp{Elt: a[0], Generators: []ast.Comprehension{c6comp(x(), a[1]), c6comp(y(), a[2])}}
	})
	add("ListComp:for-if-for-if", 5, false, func(a []ast.Expr) ast.Expr {
		return &ast.ListComp{Elt: a[0], Generators: []ast.Comprehension{c6comp(x(), a[1], a[2]), c6comp(y(), a[3], a[4])}}
	})
	add("ListComp:tuple-target", 2, false, func(a []ast.Expr) ast.Expr {
		return &ast.ListComp{Elt: a[0], Generators: []ast.Comprehension{c6comp(c6tup(ast.Store, x(), y()), a[1])}}
	})
	add("ListComp:1tuple-target", 2, false, func(a []ast.Expr) ast.Expr {
		return &ast.ListComp{Elt: a[0], Generators: []ast.Comprehension{c6comp(c6tup(ast.Store, x()), a[1])}}
	})
	// a one-element tuple target (written `x,`) followed by further clauses: a different grammar
	// alternative (comp_for with a comp_iter) than the same target in the last clause
	add("ListComp:1tuple-target-if", 3, false, func(a []ast.Expr) ast.Expr {
		return &ast.ListComp{Elt: a[0], Generators: []ast.Comprehension{c6comp(c6tup(ast.Store, x()), a[1], a[2])}}
	})
	add("ListComp:1tuple-target-for", 3, false, func(a []ast.Expr) ast.Expr {
		return &ast.ListComp{Elt: a[0], Generators: []ast.Comprehension{c6comp(c6tup(ast.Store, x()), a[1]), c6comp(c6tup(ast.Store, y()), a[2])}}
	})
	add("GeneratorExp:1tuple-target-for-if", 4, false, func(a []ast.Expr) ast.Expr {
		return &ast.GeneratorExp{Elt: a[0], Generators: []ast.Comprehension{c6comp(c6tup(ast.Store, x()), a[1]), c6comp(y(), a[2], a[3])}}
	})
	add("DictComp:2tuple-target-if", 4, false, func(a []ast.Expr) ast.Expr {
		return &ast.DictComp{Key: a[0], Value: a[1], Generators: []ast.Comprehension{c6comp(c6tup(ast.Store, x(), y()), a[2], a[3])}}
	})
	add("ListComp:star-target", 2, false, func(a []ast.Expr) ast.Expr {
		return &ast.ListComp{Elt: a[0], Generators: []ast.Comprehension{c6comp(c6tup(ast.Store, x(), c6star(ast.Store, y())), a[1])}}
	})
	add("ListComp:attr-target", 2, false, func(a []ast.Expr) ast.Expr {
		return &ast.ListComp{Elt: a[0], Generators: []ast.Comprehension{c6comp(c6attr(c6n("x"), "y", ast.Store), a[1])}}
	})
	add("SetComp:1", 2, true, func(a []ast.Expr) ast.Expr {
		return &ast.SetComp{Elt: a[0], Generators: []ast.Comprehension{c6comp(x(), a[1])}}
	})
	add("SetComp:if", 3, false, func(a []ast.Expr) ast.Expr {
		return &ast.SetComp{Elt: a[0], Generators: []ast.Comprehension{c6comp(x(), a[1], a[2])}}
	})
	add("DictComp:1", 3, true, func(a []ast.Expr) ast.Expr {
		return &ast.DictComp{Key: a[0], Value: a[1], Generators: []ast.Comprehension{c6comp(x(), a[2])}}
	})
	add("DictComp:if", 4, false, func(a []ast.Expr) ast.Expr {
		return &ast.DictComp{Key: a[0], Value: a[1], Generators: []ast.Comprehension{c6comp(x(), a[2], a[3])}}
	})
	add("GeneratorExp:1", 2, true, func(a []ast.Expr) ast.Expr {
		return &ast.GeneratorExp{Elt: a[0], Generators: []ast.Comprehension{c6comp(x(), a[1])}}
	})
	add("GeneratorExp:if", 3, false, func(a []ast.Expr) ast.Expr {
		return &ast.GeneratorExp{Elt: a[0], Generators: []ast.Comprehension{c6comp(x(), a[1], a[2])}}
	})
	add("GeneratorExp:for,for", 3, false, func(a []ast.Expr) ast.Expr {
		return &ast.GeneratorExp{Elt: a[0], Generators: []ast.Comprehension{c6comp(x(), a[1]), c6comp(y(), a[2])}}
	})
	add("Yield:0", 0, true, func(a []ast.Expr) ast.Expr { return &ast.Yield{} })
	add("Yield:1", 1, true, func(a []ast.Expr) ast.Expr { return &ast.Yield{Value: a[0]} })
	add("Yield:tuple", 2, false, func(a []ast.Expr) ast.Expr { return &ast.Yield{Value: c6tup(ast.Load, a[0], a[1])} })
	add("YieldFrom", 1, true, func(a []ast.Expr) ast.Expr { return &ast.YieldFrom{Value: a[0]} })
	repCmp := map[ast.CmpOp]bool{ast.Lt: true, ast.NotIn: true, ast.IsNot: true, ast.In: true}
	for _, op := range c6CmpOps() {
		op := op
		add("Compare:"+c6CmpName[op], 2, repCmp[op], func(a []ast.Expr) ast.Expr {
			return &ast.Compare{Left: a[0], Ops: []ast.CmpOp{op}, Comparators: []ast.Expr{a[1]}}
		})
	}
	chains := [][]ast.CmpOp{{ast.Lt, ast.Eq}, {ast.In, ast.NotIn}, {ast.Is, ast.IsNot}, {ast.NotIn, ast.In}, {ast.IsNot, ast.Is}, {ast.GtE, ast.NotEq}}
	for _, ch := range chains {
		ch := ch
		add("Compare:"+c6CmpName[ch[0]]+","+c6CmpName[ch[1]], 3, false, func(a []ast.Expr) ast.Expr {
			return &ast.Compare{Left: a[0], Ops: ch, Comparators: []ast.Expr{a[1], a[2]}}
		})
	}
	add("Compare:Lt,Lt,Lt", 4, false, func(a []ast.Expr) ast.Expr {
		return &ast.Compare{Left: a[0], Ops: []ast.CmpOp{ast.Lt, ast.Lt, ast.Lt}, Comparators: []ast.Expr{a[1], a[2], a[3]}}
	})
	for _, sh := range c6CallShapes() {
		sh := sh
		add("Call:"+sh.name, sh.n+1, sh.name == "(a)" || sh.name == "()", func(a []ast.Expr) ast.Expr {
			args, kws, st, kw := sh.mk(a[1:])
			return &ast.Call{Func: a[0], Args: args, Keywords: kws, Starargs: st, Kwargs: kw}
		})
	}
	add("Call:(genexp)", 3, false, func(a []ast.Expr) ast.Expr {
		return &ast.Call{Func: a[0], Args: []ast.Expr{&ast.GeneratorExp{Elt: a[1], Generators: []ast.Comprehension{c6comp(x(), a[2])}}}}
	})
	add("Call:(genexp,a)", 4, false, func(a []ast.Expr) ast.Expr {
		return &ast.Call{Func: a[0], Args: []ast.Expr{&ast.GeneratorExp{Elt: a[1], Generators: []ast.Comprehension{c6comp(x(), a[2])}}, a[3]}}
	})
	add("Attribute", 1, true, func(a []ast.Expr) ast.Expr { return c6attr(a[0], "z", ast.Load) })
	add("Subscript:index", 2, true, func(a []ast.Expr) ast.Expr { return c6sub(a[0], c6idx(a[1]), ast.Load) })
	add("Subscript:index-tuple2", 3, false, func(a []ast.Expr) ast.Expr {
		return c6sub(a[0], c6idx(c6tup(ast.Load, a[1], a[2])), ast.Load)
	})
	add("Subscript:index-tuple1", 2, false, func(a []ast.Expr) ast.Expr { return c6sub(a[0], c6idx(c6tup(ast.Load, a[1])), ast.Load) })
	add("Subscript:index-tuple0", 1, false, func(a []ast.Expr) ast.Expr { return c6sub(a[0], c6idx(c6tup(ast.Load)), ast.Load) })
	for m := 0; m < 8; m++ {
		m := m
		n := 1
		nm := "Subscript:slice["
		for b := 0; b < 3; b++ {
			if m&(1<<uint(b)) != 0 {
				n++
				nm += "x"
			} else {
				nm += "_"
			}
		}
		add(nm+"]", n, m == 3, func(a []ast.Expr) ast.Expr {
			s := &ast.Slice{}
			k := 1
			if m&1 != 0 {
				s.Lower = a[k]
				k++
			}
			if m&2 != 0 {
				s.Upper = a[k]
				k++
			}
			if m&4 != 0 {
				s.Step = a[k]
				k++
			}
			return c6sub(a[0], s, ast.Load)
		})
	}
	add("Subscript:ext[a:b,c]", 4, true, func(a []ast.Expr) ast.Expr {
		return c6sub(a[0], &ast.ExtSlice{Dims: []ast.Slicer{&ast.Slice{Lower: a[1], Upper: a[2]}, c6idx(a[3])}}, ast.Load)
	})
	add("Subscript:ext[a,b:c]", 4, false, func(a []ast.Expr) ast.Expr {
		return c6sub(a[0], &ast.ExtSlice{Dims: []ast.Slicer{c6idx(a[1]), &ast.Slice{Lower: a[2], Upper: a[3]}}}, ast.Load)
	})
	add("Subscript:ext[a:b,]", 3, false, func(a []ast.Expr) ast.Expr {
		return c6sub(a[0], &ast.ExtSlice{Dims: []ast.Slicer{&ast.Slice{Lower: a[1], Upper: a[2]}}}, ast.Load)
	})
	add("Subscript:ext[:,::c]", 2, false, func(a []ast.Expr) ast.Expr {
		return c6sub(a[0], &ast.ExtSlice{Dims: []ast.Slicer{&ast.Slice{}, &ast.Slice{Step: a[1]}}}, ast.Load)
	})
	add("Subscript:ext[(a,b),c:]", 4, false, func(a []ast.Expr) ast.Expr {
		return c6sub(a[0], &ast.ExtSlice{Dims: []ast.Slicer{c6idx(c6tup(ast.Load, a[1], a[2])), &ast.Slice{Lower: a[3]}}}, ast.Load)
	})
	add("Subscript:ext[a:,b,...]", 3, false, func(a []ast.Expr) ast.Expr {
		return c6sub(a[0], &ast.ExtSlice{Dims: []ast.Slicer{&ast.Slice{Lower: a[1]}, c6idx(a[2]), c6idx(&ast.Ellipsis{})}}, ast.Load)
	})
	add("List:1", 1, true, func(a []ast.Expr) ast.Expr { return c6lst(ast.Load, a[0]) })
	add("List:2", 2, false, func(a []ast.Expr) ast.Expr { return c6lst(ast.Load, a[0], a[1]) })
	add("Tuple:1", 1, true, func(a []ast.Expr) ast.Expr { return c6tup(ast.Load, a[0]) })
	add("Tuple:2", 2, true, func(a []ast.Expr) ast.Expr { return c6tup(ast.Load, a[0], a[1]) })
	add("Tuple:3", 3, false, func(a []ast.Expr) ast.Expr { return c6tup(ast.Load, a[0], a[1], a[2]) })
	return fs
}

type c6atom struct {
	name string
	mk   func() ast.Expr
}

func c6Atoms() []c6atom {
	big1, _ := new(big.Int).SetString("123456789012345678901234567890", 10)
	return []c6atom{
		{"Name", func() ast.Expr { return c6n("t") }},
		{"Num:int", func() ast.Expr { return c6i(1) }},
		{"Num:zero", func() ast.Expr { return c6i(0) }},
		{"Num:big", func() ast.Expr { return &ast.Num{N: (*py.BigInt)(big1)} }},
		{"Num:float", func() ast.Expr { return &ast.Num{N: py.Float(1.5)} }},
		{"Num:imag", func() ast.Expr { return &ast.Num{N: py.Complex(complex(0, 2))} }},
		{"Str", func() ast.Expr { return c6str("s") }},
		{"Str:empty", func() ast.Expr { return c6str("") }},
		{"Bytes", func() ast.Expr { return &ast.Bytes{S: py.Bytes("s")} }},
		{"None", func() ast.Expr { return &ast.NameConstant{Value: py.None} }},
		{"True", func() ast.Expr { return &ast.NameConstant{Value: py.True} }},
		{"False", func() ast.Expr { return &ast.NameConstant{Value: py.False} }},
		{"Ellipsis", func() ast.Expr { return &ast.Ellipsis{} }},
		{"Tuple:0", func() ast.Expr { return c6tup(ast.Load) }},
		{"List:0", func() ast.Expr { return c6lst(ast.Load) }},
		{"Dict:0", func() ast.Expr { return &ast.Dict{} }},
	}
}

// fill builds frame f with fresh names in every slot except slot `at`, which gets `in`.
func (f *c6frame) fill(sup *c6supply, at int, in ast.Expr) ast.Expr {
	a := make([]ast.Expr, f.n)
	for i := range a {
		if i == at {
			a[i] = in
		} else {
			a[i] = sup.name()
		}
	}
	return f.build(a)
}

// ---- targets ----

type c6target struct {
	name string
	mk   func(ctx ast.ExprContext) ast.Expr
}

func c6Targets() []c6target {
	N := func(id string, ctx ast.ExprContext) ast.Expr { return &ast.Name{Id: ast.Identifier(id), Ctx: ctx} }
	return []c6target{
		{"name", func(c ast.ExprContext) ast.Expr { return N("t", c) }},
		{"attr", func(c ast.ExprContext) ast.Expr { return c6attr(c6n("t"), "u", c) }},
		{"attr2", func(c ast.ExprContext) ast.Expr { return c6attr(c6attr(c6n("t"), "u", ast.Load), "v", c) }},
		{"sub", func(c ast.ExprContext) ast.Expr { return c6sub(c6n("t"), c6idx(c6n("u")), c) }},
		{"slice", func(c ast.ExprContext) ast.Expr {
			return c6sub(c6n("t"), &ast.Slice{Lower: c6n("u"), Upper: c6n("v")}, c)
		}},
		{"call-attr", func(c ast.ExprContext) ast.Expr {
			return c6attr(&ast.Call{Func: c6n("t")}, "u", c)
		}},
		{"tuple2", func(c ast.ExprContext) ast.Expr { return c6tup(c, N("t", c), N("u", c)) }},
		{"tuple1", func(c ast.ExprContext) ast.Expr { return c6tup(c, N("t", c)) }},
		{"tuple-nested", func(c ast.ExprContext) ast.Expr {
			return c6tup(c, N("t", c), c6tup(c, N("u", c), N("v", c)))
		}},
		{"tuple-mixed", func(c ast.ExprContext) ast.Expr {
			return c6tup(c, c6attr(c6n("t"), "u", c), c6sub(c6n("v"), c6idx(c6i(0)), c))
		}},
		{"list2", func(c ast.ExprContext) ast.Expr { return c6lst(c, N("t", c), N("u", c)) }},
		{"list0", func(c ast.ExprContext) ast.Expr { return c6lst(c) }},
		{"star-last", func(c ast.ExprContext) ast.Expr { return c6tup(c, N("t", c), c6star(c, N("u", c))) }},
		{"star-first", func(c ast.ExprContext) ast.Expr { return c6tup(c, c6star(c, N("t", c)), N("u", c)) }},
		{"star-list", func(c ast.ExprContext) ast.Expr { return c6lst(c, c6star(c, N("t", c)), N("u", c)) }},
		{"star-attr", func(c ast.ExprContext) ast.Expr {
			return c6tup(c, c6star(c, c6attr(c6n("t"), "u", c)), N("v", c))
		}},
	}
}

func c6targetByName(n string) c6target {
	for _, t := range c6Targets() {
		if t.name == n {
			return t
		}
	}
	panic("no target " + n)
}

// ---- statements ----

// c6stmtShape is a statement constructor with n expression slots.
type c6stmtShape struct {
	name  string
	n     int
	build func(a []ast.Expr) ast.Stmt
	min   bool // the minimal variant of its kind
}

func c6StmtShapes() []c6stmtShape {
	var out []c6stmtShape
	add := func(name string, n int, min bool, b func(a []ast.Expr) ast.Stmt) {
		out = append(out, c6stmtShape{name, n, b, min})
	}
	P := c6pass
	// FunctionDef
	for _, sh := range c6ArgShapes(true) {
		sh := sh
		add("FunctionDef:"+sh.name, sh.n+sh.ann, sh.name == "none", func(a []ast.Expr) ast.Stmt {
			return &ast.FunctionDef{Name: "f", Args: sh.mk(a), Body: P()}
		})
	}
	add("FunctionDef:returns", 1, false, func(a []ast.Expr) ast.Stmt {
		return &ast.FunctionDef{Name: "f", Args: c6noargs(), Body: P(), Returns: a[0]}
	})
	add("FunctionDef:decorator", 0, false, func(a []ast.Expr) ast.Stmt {
		return &ast.FunctionDef{Name: "f", Args: c6noargs(), Body: P(), DecoratorList: []ast.Expr{c6n("t")}}
	})
	add("FunctionDef:decorator-dotted", 0, false, func(a []ast.Expr) ast.Stmt {
		return &ast.FunctionDef{Name: "f", Args: c6noargs(), Body: P(), DecoratorList: []ast.Expr{c6attr(c6n("t"), "u", ast.Load)}}
	})
	add("FunctionDef:decorator-dotted3", 0, false, func(a []ast.Expr) ast.Stmt {
		return &ast.FunctionDef{Name: "f", Args: c6noargs(), Body: P(), DecoratorList: []ast.Expr{c6attr(c6attr(c6n("t"), "u", ast.Load), "v", ast.Load)}}
	})
	add("FunctionDef:decorator-call0", 0, false, func(a []ast.Expr) ast.Stmt {
		return &ast.FunctionDef{Name: "f", Args: c6noargs(), Body: P(), DecoratorList: []ast.Expr{&ast.Call{Func: c6n("t")}}}
	})
	add("FunctionDef:decorator-call", 2, false, func(a []ast.Expr) ast.Stmt {
		return &ast.FunctionDef{Name: "f", Args: c6noargs(), Body: P(), DecoratorList: []ast.Expr{
			&ast.Call{Func: c6n("t"), Args: []ast.Expr{a[0]}, Keywords: []*ast.Keyword{c6kw("y", a[1])}}}}
	})
	add("FunctionDef:decorator-dotted-call", 1, false, func(a []ast.Expr) ast.Stmt {
		return &ast.FunctionDef{Name: "f", Args: c6noargs(), Body: P(), DecoratorList: []ast.Expr{
			&ast.Call{Func: c6attr(c6n("t"), "u", ast.Load), Args: []ast.Expr{a[0]}}}}
	})
	add("FunctionDef:decorators2", 0, false, func(a []ast.Expr) ast.Stmt {
		return &ast.FunctionDef{Name: "f", Args: c6noargs(), Body: P(), DecoratorList: []ast.Expr{c6n("t"), c6n("u")}}
	})
	add("FunctionDef:body2", 1, false, func(a []ast.Expr) ast.Stmt {
		return &ast.FunctionDef{Name: "f", Args: c6noargs(), Body: []ast.Stmt{c6es(c6str("doc")), &ast.Return{Value: a[0]}}}
	})
	// ClassDef
	for _, sh := range c6CallShapes() {
		sh := sh
		add("ClassDef:"+sh.name, sh.n, sh.name == "()", func(a []ast.Expr) ast.Stmt {
			args, kws, st, kw := sh.mk(a)
			return &ast.ClassDef{Name: "C", Bases: args, Keywords: kws, Starargs: st, Kwargs: kw, Body: P()}
		})
	}
	add("ClassDef:decorator", 0, false, func(a []ast.Expr) ast.Stmt {
		return &ast.ClassDef{Name: "C", Body: P(), DecoratorList: []ast.Expr{c6n("t")}}
	})
	add("ClassDef:decorator-dotted", 0, false, func(a []ast.Expr) ast.Stmt {
		return &ast.ClassDef{Name: "C", Body: P(), DecoratorList: []ast.Expr{c6attr(c6n("t"), "u", ast.Load)}}
	})
	// Return
	add("Return:none", 0, true, func(a []ast.Expr) ast.Stmt { return &ast.Return{} })
	add("Return:value", 1, false, func(a []ast.Expr) ast.Stmt { return &ast.Return{Value: a[0]} })
	add("Return:tuple", 2, false, func(a []ast.Expr) ast.Stmt { return &ast.Return{Value: c6tup(ast.Load, a[0], a[1])} })
	add("Return:tuple1", 1, false, func(a []ast.Expr) ast.Stmt { return &ast.Return{Value: c6tup(ast.Load, a[0])} })
	// Delete
	for _, t := range c6Targets() {
		t := t
		if strings.HasPrefix(t.name, "star") {
			continue
		}
		add("Delete:"+t.name, 0, t.name == "name", func(a []ast.Expr) ast.Stmt {
			return &ast.Delete{Targets: []ast.Expr{t.mk(ast.Del)}}
		})
	}
	add("Delete:2", 0, false, func(a []ast.Expr) ast.Stmt {
		return &ast.Delete{Targets: []ast.Expr{c6d("t"), c6attr(c6n("u"), "v", ast.Del)}}
	})
	// Assign
	for _, t := range c6Targets() {
		t := t
		add("Assign:"+t.name, 1, t.name == "name", func(a []ast.Expr) ast.Stmt {
			return &ast.Assign{Targets: []ast.Expr{t.mk(ast.Store)}, Value: a[0]}
		})
	}
	add("Assign:chain2", 1, false, func(a []ast.Expr) ast.Stmt {
		return &ast.Assign{Targets: []ast.Expr{c6s("t"), c6s("u")}, Value: a[0]}
	})
	add("Assign:chain3-mixed", 1, false, func(a []ast.Expr) ast.Stmt {
		return &ast.Assign{Targets: []ast.Expr{c6s("t"), c6tup(ast.Store, c6s("u"), c6s("v")), c6attr(c6n("w"), "z", ast.Store)}, Value: a[0]}
	})
	add("Assign:value-tuple", 2, false, func(a []ast.Expr) ast.Stmt {
		return &ast.Assign{Targets: []ast.Expr{c6s("t")}, Value: c6tup(ast.Load, a[0], a[1])}
	})
	add("Assign:value-yield", 1, false, func(a []ast.Expr) ast.Stmt {
		return &ast.Assign{Targets: []ast.Expr{c6s("t")}, Value: &ast.Yield{Value: a[0]}}
	})
	add("Assign:value-yield-from", 1, false, func(a []ast.Expr) ast.Stmt {
		return &ast.Assign{Targets: []ast.Expr{c6s("t")}, Value: &ast.YieldFrom{Value: a[0]}}
	})
	// AugAssign
	for _, op := range c6BinOps() {
		op := op
		add("AugAssign:"+c6BinName[op], 1, op == ast.Add, func(a []ast.Expr) ast.Stmt {
			return &ast.AugAssign{Target: c6s("t"), Op: op, Value: a[0]}
		})
	}
	for _, tn := range []string{"attr", "sub", "slice"} {
		t := c6targetByName(tn)
		add("AugAssign:target-"+tn, 1, false, func(a []ast.Expr) ast.Stmt {
			return &ast.AugAssign{Target: t.mk(ast.Store), Op: ast.Sub, Value: a[0]}
		})
	}
	add("AugAssign:value-yield", 0, false, func(a []ast.Expr) ast.Stmt {
		return &ast.AugAssign{Target: c6s("t"), Op: ast.Add, Value: &ast.Yield{}}
	})
	add("AugAssign:value-tuple", 2, false, func(a []ast.Expr) ast.Stmt {
		return &ast.AugAssign{Target: c6s("t"), Op: ast.Add, Value: c6tup(ast.Load, a[0], a[1])}
	})
	// For
	for _, t := range c6Targets() {
		t := t
		if t.name == "list0" {
			continue
		}
		add("For:"+t.name, 1, t.name == "name", func(a []ast.Expr) ast.Stmt {
			return &ast.For{Target: t.mk(ast.Store), Iter: a[0], Body: P()}
		})
	}
	add("For:else", 1, false, func(a []ast.Expr) ast.Stmt {
		return &ast.For{Target: c6s("t"), Iter: a[0], Body: P(), Orelse: []ast.Stmt{&ast.Break{}}}
	})
	add("For:iter-tuple", 2, false, func(a []ast.Expr) ast.Stmt {
		return &ast.For{Target: c6s("t"), Iter: c6tup(ast.Load, a[0], a[1]), Body: P()}
	})
	add("For:iter-tuple1", 1, false, func(a []ast.Expr) ast.Stmt {
		return &ast.For{Target: c6s("t"), Iter: c6tup(ast.Load, a[0]), Body: P()}
	})
	// While
	add("While", 1, true, func(a []ast.Expr) ast.Stmt { return &ast.While{Test: a[0], Body: P()} })
	add("While:else", 1, false, func(a []ast.Expr) ast.Stmt {
		return &ast.While{Test: a[0], Body: []ast.Stmt{&ast.Continue{}}, Orelse: P()}
	})
	// If
	add("If", 1, true, func(a []ast.Expr) ast.Stmt { return &ast.If{Test: a[0], Body: P()} })
	add("If:else", 1, false, func(a []ast.Expr) ast.Stmt {
		return &ast.If{Test: a[0], Body: P(), Orelse: []ast.Stmt{&ast.Break{}}}
	})
	add("If:elif", 2, false, func(a []ast.Expr) ast.Stmt {
		return &ast.If{Test: a[0], Body: P(), Orelse: []ast.Stmt{&ast.If{Test: a[1], Body: []ast.Stmt{&ast.Break{}}}}}
	})
	add("If:elif-else", 2, false, func(a []ast.Expr) ast.Stmt {
		return &ast.If{Test: a[0], Body: P(), Orelse: []ast.Stmt{&ast.If{Test: a[1], Body: []ast.Stmt{&ast.Break{}}, Orelse: []ast.Stmt{&ast.Continue{}}}}}
	})
	add("If:elif-elif-else", 3, false, func(a []ast.Expr) ast.Stmt {
		return &ast.If{Test: a[0], Body: P(), Orelse: []ast.Stmt{&ast.If{Test: a[1], Body: []ast.Stmt{&ast.Break{}},
			Orelse: []ast.Stmt{&ast.If{Test: a[2], Body: []ast.Stmt{&ast.Continue{}}, Orelse: []ast.Stmt{&ast.Return{}}}}}}}
	})
	add("If:else-if-and-more", 2, false, func(a []ast.Expr) ast.Stmt {
		// else: holding an if AND another statement: cannot be spelled elif
		return &ast.If{Test: a[0], Body: P(), Orelse: []ast.Stmt{&ast.If{Test: a[1], Body: []ast.Stmt{&ast.Break{}}}, &ast.Continue{}}}
	})
	// With
	add("With", 1, true, func(a []ast.Expr) ast.Stmt {
		return &ast.With{Items: []*ast.WithItem{{ContextExpr: a[0]}}, Body: P()}
	})
	for _, tn := range []string{"name", "attr", "sub", "tuple2", "list2", "star-last"} {
		t := c6targetByName(tn)
		add("With:as-"+tn, 1, false, func(a []ast.Expr) ast.Stmt {
			return &ast.With{Items: []*ast.WithItem{{ContextExpr: a[0], OptionalVars: t.mk(ast.Store)}}, Body: P()}
		})
	}
	add("With:2", 2, false, func(a []ast.Expr) ast.Stmt {
		return &ast.With{Items: []*ast.WithItem{{ContextExpr: a[0], OptionalVars: c6s("t")}, {ContextExpr: a[1]}}, Body: P()}
	})
	add("With:3", 3, false, func(a []ast.Expr) ast.Stmt {
		return &ast.With{Items: []*ast.WithItem{{ContextExpr: a[0]}, {ContextExpr: a[1], OptionalVars: c6s("t")}, {ContextExpr: a[2], OptionalVars: c6s("u")}}, Body: P()}
	})
	// Raise
	add("Raise:bare", 0, true, func(a []ast.Expr) ast.Stmt { return &ast.Raise{} })
	add("Raise:exc", 1, false, func(a []ast.Expr) ast.Stmt { return &ast.Raise{Exc: a[0]} })
	add("Raise:from", 2, false, func(a []ast.Expr) ast.Stmt { return &ast.Raise{Exc: a[0], Cause: a[1]} })
	// Try
	H := func(t ast.Expr, n string, body []ast.Stmt) *ast.ExceptHandler {
		return &ast.ExceptHandler{ExprType: t, Name: ast.Identifier(n), Body: body}
	}
	add("Try:except", 0, true, func(a []ast.Expr) ast.Stmt {
		return &ast.Try{Body: P(), Handlers: []*ast.ExceptHandler{H(nil, "", P())}}
	})
	add("Try:except-type", 1, false, func(a []ast.Expr) ast.Stmt {
		return &ast.Try{Body: P(), Handlers: []*ast.ExceptHandler{H(a[0], "", P())}}
	})
	add("Try:except-type-as", 1, false, func(a []ast.Expr) ast.Stmt {
		return &ast.Try{Body: P(), Handlers: []*ast.ExceptHandler{H(a[0], "t", P())}}
	})
	add("Try:except2", 2, false, func(a []ast.Expr) ast.Stmt {
		return &ast.Try{Body: P(), Handlers: []*ast.ExceptHandler{H(a[0], "t", P()), H(a[1], "", []ast.Stmt{&ast.Break{}}), H(nil, "", []ast.Stmt{&ast.Continue{}})}}
	})
	add("Try:except-tuple", 2, false, func(a []ast.Expr) ast.Stmt {
		return &ast.Try{Body: P(), Handlers: []*ast.ExceptHandler{H(c6tup(ast.Load, a[0], a[1]), "", P())}}
	})
	add("Try:finally", 0, false, func(a []ast.Expr) ast.Stmt {
		return &ast.Try{Body: P(), Finalbody: []ast.Stmt{&ast.Break{}}}
	})
	add("Try:except-else", 0, false, func(a []ast.Expr) ast.Stmt {
		return &ast.Try{Body: P(), Handlers: []*ast.ExceptHandler{H(nil, "", P())}, Orelse: []ast.Stmt{&ast.Break{}}}
	})
	add("Try:except-finally", 0, false, func(a []ast.Expr) ast.Stmt {
		return &ast.Try{Body: P(), Handlers: []*ast.ExceptHandler{H(nil, "", P())}, Finalbody: []ast.Stmt{&ast.Break{}}}
	})
	add("Try:except-else-finally", 1, false, func(a []ast.Expr) ast.Stmt {
		return &ast.Try{Body: P(), Handlers: []*ast.ExceptHandler{H(a[0], "t", P())}, Orelse: []ast.Stmt{&ast.Break{}}, Finalbody: []ast.Stmt{&ast.Continue{}}}
	})
	// Assert
	add("Assert", 1, true, func(a []ast.Expr) ast.Stmt { return &ast.Assert{Test: a[0]} })
	add("Assert:msg", 2, false, func(a []ast.Expr) ast.Stmt { return &ast.Assert{Test: a[0], Msg: a[1]} })
	// Import
	AL := func(n, as string) *ast.Alias { return &ast.Alias{Name: ast.Identifier(n), AsName: ast.Identifier(as)} }
	add("Import", 0, true, func(a []ast.Expr) ast.Stmt { return &ast.Import{Names: []*ast.Alias{AL("t", "")}} })
	add("Import:dotted", 0, false, func(a []ast.Expr) ast.Stmt { return &ast.Import{Names: []*ast.Alias{AL("t.u.v", "")}} })
	add("Import:as", 0, false, func(a []ast.Expr) ast.Stmt { return &ast.Import{Names: []*ast.Alias{AL("t", "u")}} })
	add("Import:dotted-as", 0, false, func(a []ast.Expr) ast.Stmt { return &ast.Import{Names: []*ast.Alias{AL("t.u", "v")}} })
	add("Import:3", 0, false, func(a []ast.Expr) ast.Stmt {
		return &ast.Import{Names: []*ast.Alias{AL("t", ""), AL("u.v", "w"), AL("z", "")}}
	})
	// ImportFrom
	add("ImportFrom", 0, true, func(a []ast.Expr) ast.Stmt {
		return &ast.ImportFrom{Module: "t", Names: []*ast.Alias{AL("u", "")}}
	})
	add("ImportFrom:as", 0, false, func(a []ast.Expr) ast.Stmt {
		return &ast.ImportFrom{Module: "t", Names: []*ast.Alias{AL("u", "v")}}
	})
	add("ImportFrom:2", 0, false, func(a []ast.Expr) ast.Stmt {
		return &ast.ImportFrom{Module: "t.w", Names: []*ast.Alias{AL("u", "v"), AL("z", "")}}
	})
	add("ImportFrom:star", 0, false, func(a []ast.Expr) ast.Stmt {
		return &ast.ImportFrom{Module: "t", Names: []*ast.Alias{AL("*", "")}}
	})
	for lv := 1; lv <= 5; lv++ {
		lv := lv
		add("ImportFrom:level"+itoa(lv), 0, false, func(a []ast.Expr) ast.Stmt {
			return &ast.ImportFrom{Module: "", Names: []*ast.Alias{AL("u", "")}, Level: lv}
		})
		add("ImportFrom:level"+itoa(lv)+"-module", 0, false, func(a []ast.Expr) ast.Stmt {
			return &ast.ImportFrom{Module: "t.w", Names: []*ast.Alias{AL("u", "")}, Level: lv}
		})
	}
	add("ImportFrom:level1-star", 0, false, func(a []ast.Expr) ast.Stmt {
		return &ast.ImportFrom{Module: "", Names: []*ast.Alias{AL("*", "")}, Level: 1}
	})
	// Global / Nonlocal
	add("Global", 0, true, func(a []ast.Expr) ast.Stmt { return &ast.Global{Names: []ast.Identifier{"t"}} })
	add("Global:2", 0, false, func(a []ast.Expr) ast.Stmt { return &ast.Global{Names: []ast.Identifier{"t", "u"}} })
	add("Nonlocal", 0, true, func(a []ast.Expr) ast.Stmt { return &ast.Nonlocal{Names: []ast.Identifier{"t"}} })
	add("Nonlocal:2", 0, false, func(a []ast.Expr) ast.Stmt { return &ast.Nonlocal{Names: []ast.Identifier{"t", "u"}} })
	// Expr
	add("Expr", 1, true, func(a []ast.Expr) ast.Stmt { return c6es(a[0]) })
	add("Expr:tuple", 2, false, func(a []ast.Expr) ast.Stmt { return c6es(c6tup(ast.Load, a[0], a[1])) })
	add("Expr:yield", 1, false, func(a []ast.Expr) ast.Stmt { return c6es(&ast.Yield{Value: a[0]}) })
	add("Expr:yield-bare", 0, false, func(a []ast.Expr) ast.Stmt { return c6es(&ast.Yield{}) })
	add("Expr:yield-from", 1, false, func(a []ast.Expr) ast.Stmt { return c6es(&ast.YieldFrom{Value: a[0]}) })
	// Pass / Break / Continue
	add("Pass", 0, true, func(a []ast.Expr) ast.Stmt { return &ast.Pass{} })
	add("Break", 0, true, func(a []ast.Expr) ast.Stmt { return &ast.Break{} })
	add("Continue", 0, true, func(a []ast.Expr) ast.Stmt { return &ast.Continue{} })
	return out
}

func (s *c6stmtShape) fill(sup *c6supply, at int, in ast.Expr) ast.Stmt {
	a := make([]ast.Expr, s.n)
	for i := range a {
		if i == at {
			a[i] = in
		} else {
			a[i] = sup.name()
		}
	}
	return s.build(a)
}

// c6container wraps a body into each compound statement clause.
type c6container struct {
	name string
	mk   func(body []ast.Stmt) ast.Stmt
}

func c6Containers() []c6container {
	H := func(body []ast.Stmt) []*ast.ExceptHandler { return []*ast.ExceptHandler{{Body: body}} }
	return []c6container{
		{"def", func(b []ast.Stmt) ast.Stmt { return &ast.FunctionDef{Name: "f", Args: c6noargs(), Body: b} }},
		{"class", func(b []ast.Stmt) ast.Stmt { return &ast.ClassDef{Name: "C", Body: b} }},
		{"for", func(b []ast.Stmt) ast.Stmt { return &ast.For{Target: c6s("x"), Iter: c6n("y"), Body: b} }},
		{"for-else", func(b []ast.Stmt) ast.Stmt {
			return &ast.For{Target: c6s("x"), Iter: c6n("y"), Body: c6pass(), Orelse: b}
		}},
		{"while", func(b []ast.Stmt) ast.Stmt { return &ast.While{Test: c6n("x"), Body: b} }},
		{"while-else", func(b []ast.Stmt) ast.Stmt { return &ast.While{Test: c6n("x"), Body: c6pass(), Orelse: b} }},
		{"if", func(b []ast.Stmt) ast.Stmt { return &ast.If{Test: c6n("x"), Body: b} }},
		{"if-else", func(b []ast.Stmt) ast.Stmt {
			return &ast.If{Test: c6n("x"), Body: c6pass(), Orelse: append([]ast.Stmt{&ast.Continue{}}, b...)}
		}},
		{"elif", func(b []ast.Stmt) ast.Stmt {
			return &ast.If{Test: c6n("x"), Body: c6pass(), Orelse: []ast.Stmt{&ast.If{Test: c6n("y"), Body: b}}}
		}},
		{"with", func(b []ast.Stmt) ast.Stmt {
			return &ast.With{Items: []*ast.WithItem{{ContextExpr: c6n("x")}}, Body: b}
		}},
		{"try", func(b []ast.Stmt) ast.Stmt { return &ast.Try{Body: b, Handlers: H(c6pass())} }},
		{"except", func(b []ast.Stmt) ast.Stmt { return &ast.Try{Body: c6pass(), Handlers: H(b)} }},
		{"try-else", func(b []ast.Stmt) ast.Stmt { return &ast.Try{Body: c6pass(), Handlers: H(c6pass()), Orelse: b} }},
		{"finally", func(b []ast.Stmt) ast.Stmt { return &ast.Try{Body: c6pass(), Finalbody: b} }},
	}
}

// ---- features of a tree (used to key known findings) ----

func c6features(tree interface{}) string {
	set := map[string]bool{}
	var walk func(v reflect.Value)
	walk = func(v reflect.Value) {
		if !v.IsValid() {
			return
		}
		switch v.Kind() {
		case reflect.Interface, reflect.Ptr:
			if v.IsNil() {
				return
			}
			if v.CanInterface() {
				switch x := v.Interface().(type) {
				case *ast.FunctionDef:
					c6decoFeat(x.DecoratorList, set)
				case *ast.ClassDef:
					c6decoFeat(x.DecoratorList, set)
				case *ast.Arguments:
					for _, d := range x.KwDefaults {
						if d == nil {
							set["kwonly-nodefault"] = true
						}
					}
				case *ast.For:
					if t, ok := x.Target.(*ast.Tuple); ok && len(t.Elts) == 1 {
						set["for-target-1tuple"] = true
					}
				case *ast.Num:
					switch n := x.N.(type) {
					case py.Complex:
						set["num-imag"] = true
					case py.Float:
						// floats whose repr needs an exponent, is inf, or has more than 15 significant digits
						r := c6pyFloatRepr(float64(n))
						digits := 0
						for _, ch := range strings.SplitN(r, "e", 2)[0] {
							if ch >= '0' && ch <= '9' {
								digits++
							}
						}
						if strings.ContainsAny(r, "ein") || digits > 15 {
							set["num-float-nonplain"] = true
						}
					}
					return
				case *py.BigInt:
					return
				}
			}
			walk(v.Elem())
		case reflect.Struct:
			for i := 0; i < v.NumField(); i++ {
				if c6skipField(v.Type().Field(i).Name) {
					continue
				}
				walk(v.Field(i))
			}
		case reflect.Slice:
			if v.Type().Elem().Kind() == reflect.Uint8 {
				return
			}
			for i := 0; i < v.Len(); i++ {
				walk(v.Index(i))
			}
		}
	}
	walk(reflect.ValueOf(tree))
	var ks []string
	for k := range set {
		ks = append(ks, k)
	}
	sort.Strings(ks)
	return strings.Join(ks, ",")
}

func c6decoFeat(ds []ast.Expr, set map[string]bool) {
	for _, d := range ds {
		if c, ok := d.(*ast.Call); ok {
			d = c.Func
		}
		if _, ok := d.(*ast.Attribute); ok {
			set["decorator-dotted"] = true
		}
	}
}

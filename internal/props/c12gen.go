//go:build verifov

package props

// C12 program generator: a statement-tree DSL rendered to source text, enumerated
// exhaustively by index, simplest first.
//
//   * a CONTEXT is a compound statement with exactly one hole "@" (the other suites are
//     filled so that the hole is reached at run time);
//   * a SPINE is a sequence of contexts nested into each other, closed by a LEAF
//     (simple statement) and placed into a WRAPPER (module, function, generator,
//     class body, closure);
//   * a TEMPLATE is a compound statement with 2-4 holes, all filled with leaves
//     (every combination);
//   * EXPRESSION contexts (one hole "@") are nested the same way, closed by an atom
//     and put into a statement POSITION.
//
// Names available at run time: a b c (1 2 3; parameters in function wrappers), z (0),
// L (list), D (dict), O (object), R ((0, 1)), T (true twice, then false), k (returns its
// first argument), g (raises ValueError), E1 E2 (ValueError KeyError), CM (context
// manager), CS (context manager that swallows exceptions).

import (
	"strings"
)

type c12Prog struct {
	Gen   string // generator family
	Shape string // structural descriptor (contexts joined by "/")
	Leaf  string // leaf / atom name
	Src   string
	Run   bool
}

type c12Tpl struct {
	Name string
	Text string // lines; a line whose trimmed text is "@" (or "@1".."@4") is a hole
}

func c12Fill(t string, bodies ...string) string {
	var out []string
	for _, line := range strings.Split(t, "\n") {
		tr := strings.TrimLeft(line, " ")
		if tr == "@" || (len(tr) == 2 && tr[0] == '@' && tr[1] >= '1' && tr[1] <= '4') {
			idx := 0
			if len(tr) > 1 {
				idx = int(tr[1] - '1')
			}
			ind := line[:len(line)-len(tr)]
			for _, bl := range strings.Split(bodies[idx], "\n") {
				out = append(out, ind+bl)
			}
			continue
		}
		out = append(out, line)
	}
	return strings.Join(out, "\n")
}

// statement leaves whose POSITION matters (control flow)
var c12Leaves = []c12Tpl{
	{"pass", "pass"},
	{"assign", "a = 1"},
	{"break", "break"},
	{"continue", "continue"},
	{"return-value", "return 1"},
	{"raise-E1", "raise E1"},
	{"yield", "yield 1"},
	{"raise-bare", "raise"},
	{"return-bare", "return"},
	{"yield-assign", "a = yield 2"},
	{"yield-from", "yield from R"},
	{"call-raising", "g()"},
	{"raise-from", "raise E1 from E2()"},
}

const c12QuickLeaves = 11 // quick tier: the first 11 leaves in spines

// one-hole statement contexts
var c12Ctxs = []c12Tpl{
	{"if", "if a:\n @"},
	{"if-else", "if z:\n pass\nelse:\n @"},
	{"if-elif", "if z:\n pass\nelif a:\n @\nelse:\n pass"},
	{"if-elif-else", "if z:\n pass\nelif z:\n pass\nelse:\n @"},
	{"while", "while T():\n @"},
	{"while-B-else", "while T():\n @\nelse:\n b = 2"},
	{"while-else-E", "while T():\n b = 2\nelse:\n @"},
	{"for", "for i in R:\n @"},
	{"for-B-else", "for i in R:\n @\nelse:\n b = 2"},
	{"for-else-E", "for i in R:\n b = 2\nelse:\n @"},
	{"try-B-bare", "try:\n @\nexcept:\n b = 2"},
	{"try-B-E", "try:\n @\nexcept E1:\n b = 2"},
	{"try-B-as", "try:\n @\nexcept E1 as e:\n b = 2"},
	{"try-B-2h", "try:\n @\nexcept E1:\n b = 2\nexcept E2 as e:\n b = 3"},
	{"try-B-else", "try:\n @\nexcept E1:\n b = 2\nelse:\n b = 3"},
	{"try-B-fin", "try:\n @\nfinally:\n b = 2"},
	{"try-B-E-fin", "try:\n @\nexcept E1:\n b = 2\nfinally:\n b = 3"},
	{"try-B-all", "try:\n @\nexcept E1 as e:\n b = 2\nelse:\n b = 3\nfinally:\n b = 4"},
	{"try-H-bare", "try:\n raise E1\nexcept:\n @"},
	{"try-H-E", "try:\n raise E1\nexcept E1:\n @"},
	{"try-H-as", "try:\n raise E1\nexcept E1 as e:\n @"},
	{"try-H2-E", "try:\n raise E2\nexcept E1:\n b = 2\nexcept E2:\n @"},
	{"try-H2-as", "try:\n raise E2\nexcept E1 as e:\n b = 2\nexcept E2 as e:\n @"},
	{"try-H2-bare", "try:\n raise E2\nexcept E1:\n b = 2\nexcept:\n @"},
	{"try-H-fin", "try:\n raise E1\nexcept E1:\n @\nfinally:\n b = 3"},
	{"try-H-all", "try:\n raise E1\nexcept E1 as e:\n @\nelse:\n b = 2\nfinally:\n b = 3"},
	{"try-else-E", "try:\n b = 2\nexcept E1:\n b = 3\nelse:\n @"},
	{"try-else-E-fin", "try:\n b = 2\nexcept E1:\n b = 3\nelse:\n @\nfinally:\n b = 4"},
	{"try-fin-F", "try:\n b = 2\nfinally:\n @"},
	{"try-fin-F-exc", "try:\n raise E1\nfinally:\n @"},
	{"try-fin-F-ret", "try:\n return 1\nfinally:\n @"},
	{"try-fin-F-brk", "for i in R:\n try:\n  break\n finally:\n  @"},
	{"try-fin-F-cnt", "for i in R:\n try:\n  continue\n finally:\n  @"},
	{"try-fin-F-caught", "try:\n raise E1\nexcept E1:\n b = 2\nfinally:\n @"},
	{"try-fin-F-uncaught", "try:\n raise E2\nexcept E1:\n b = 2\nfinally:\n @"},
	{"try-fin-F-all", "try:\n b = 2\nexcept E1:\n b = 3\nelse:\n b = 4\nfinally:\n @"},
	{"with", "with CM:\n @"},
	{"with-as", "with CM as v:\n @"},
	{"with-2", "with CM, CS as v:\n @"},
	{"with-swallow", "with CS:\n @"},
	{"with-as-tuple", "with CM as (u, v):\n @"},
	{"def", "def f1():\n @\nf1()"},
	{"def-gen", "def f2():\n @\n yield 3\nfor w in f2():\n pass"},
	{"def-args", "def f3(p, q=1, *r, s, t=2, **u):\n @\nf3(1, s=2)"},
	{"def-closure", "def f4():\n y = 1\n def f5():\n  nonlocal y\n  y = 2\n  @\n f5()\nf4()"},
	{"def-decorated", "@k\ndef f6():\n @\nf6()"},
	{"class", "class C1:\n @"},
	{"class-in-def", "def f7(y):\n class C2:\n  x = y\n  @\nf7(1)"},
	{"lambda-in", "b = lambda: 1\n@"},
}

// wrappers (outermost context)
var c12Wraps = []c12Tpl{
	{"module", "@"},
	{"func", "def f(a, b, c):\n @\nr = f(1, 2, 3)\nfor w in r or ():\n pass"},
	{"gen", "def f(a, b, c):\n @\n yield 9\nfor w in f(1, 2, 3):\n pass"},
	{"class", "class C:\n @"},
	{"closure", "def o(a, b, c):\n def f():\n  nonlocal a\n  @\n return f\nr = o(1, 2, 3)()\nfor w in r or ():\n pass"},
}

// multi-hole templates (every hole gets a leaf)
var c12Templates = []c12Tpl{
	{"if-else", "if a:\n @1\nelse:\n @2"},
	{"while-else", "while T():\n @1\nelse:\n @2"},
	{"for-else", "for j in R:\n @1\nelse:\n @2"},
	{"try-E", "try:\n @1\nexcept E1:\n @2"},
	{"try-as", "try:\n @1\nexcept E1 as e:\n @2"},
	{"try-fin", "try:\n @1\nfinally:\n @2"},
	{"with-then", "with CM as v:\n @1\n@2"},
	{"if-elif-else", "if z:\n @1\nelif a:\n @2\nelse:\n @3"},
	{"try-E-bare", "try:\n @1\nexcept E1:\n @2\nexcept:\n @3"},
	{"try-E-else", "try:\n @1\nexcept E1:\n @2\nelse:\n @3"},
	{"try-E-fin", "try:\n @1\nexcept E1:\n @2\nfinally:\n @3"},
	{"try-as-else-fin", "try:\n @1\nexcept E1 as e:\n @2\nelse:\n @3\nfinally:\n @4"},
	{"try-E-as-fin", "try:\n @1\nexcept E1:\n @2\nexcept E2 as e:\n @3\nfinally:\n @4"},
}

func c12Holes(t string) int {
	n := 0
	for i := 1; i <= 4; i++ {
		if strings.Contains(t, "@"+string(rune('0'+i))) {
			n = i
		}
	}
	return n
}

var c12TplWraps = []c12Tpl{
	{"func-loop", "def f(a, b, c):\n for i in R:\n  @\n return 5\nr = f(1, 2, 3)\nfor w in r or ():\n pass"},
	{"module-loop", "for i in R:\n @"},
	{"func", "def f(a, b, c):\n @\nr = f(1, 2, 3)\nfor w in r or ():\n pass"},
	{"gen-while", "def f(a, b, c):\n while T():\n  @\n yield 9\nfor w in f(1, 2, 3):\n pass"},
	{"func-with-loop", "def f(a, b, c):\n for i in R:\n  with CM:\n   @\nr = f(1, 2, 3)\nfor w in r or ():\n pass"},
	{"func-fin-loop", "def f(a, b, c):\n for i in R:\n  try:\n   @\n  finally:\n   b = 7\nr = f(1, 2, 3)\nfor w in r or ():\n pass"},
}

// straight-line and miscellaneous statement forms
var c12Misc = []c12Tpl{
	{"aug-name", "a += 1"},
	{"aug-attr", "O.x = 1\nO.x += 1"},
	{"aug-subscr", "L[0] += 1"},
	{"aug-slice", "L[0:1] += [1]"},
	{"aug-slice3", "L[0:2:1] *= 1"},
	{"aug-extslice", "D[0, 1:2] = 1\nD[0, 1:2] += 1"},
	{"aug-ops", "a -= 1\na *= 2\na /= 2\na //= 2\na %= 3\na **= 2\na <<= 1\na >>= 1\na &= 3\na ^= 1\na |= 4"},
	{"multi-assign", "a = b = c = 1"},
	{"unpack-2", "a, b = R"},
	{"unpack-nested", "a, (b, c) = 1, R"},
	{"unpack-list", "[a, b] = R"},
	{"unpack-star-first", "*a, b = L"},
	{"unpack-star-mid", "a, *b, c = L"},
	{"unpack-star-last", "a, b, *c = L"},
	{"unpack-star-only", "*a, = L"},
	{"unpack-star-nested", "a, (b, *c) = 1, L"},
	{"unpack-fail", "a, b, c = R"},
	{"for-unpack", "for a, b in (R, R):\n pass"},
	{"for-star", "for a, *b in (L, L):\n pass"},
	{"attr-store", "O.x = a"},
	{"attr-del", "O.x = 1\ndel O.x"},
	{"subscr-store", "L[0] = a"},
	{"subscr-del", "del L[0]"},
	{"slice-del", "del L[0:1]"},
	{"del-name", "a = 1\ndel a"},
	{"del-multi", "a = b = 1\ndel a, b"},
	{"del-tuple", "a = b = 1\ndel (a, [b])"},
	{"del-unbound", "del qq"},
	{"assert", "assert a"},
	{"assert-msg", "assert z, 'm'"},
	{"assert-false", "assert z"},
	{"global", "global gg\ngg = 1\ndel gg"},
	{"global-read", "global a\na = a"},
	{"nonlocal", "def n1():\n y = 1\n def n2():\n  nonlocal y\n  y += 1\n  del y\n n2()\nn1()"},
	{"import", "import math"},
	{"import-as", "import math as m"},
	{"import-dotted", "import os.path"},
	{"import-dotted-as", "import os.path as p"},
	{"import-multi", "import math, sys as s"},
	{"from-import", "from math import floor"},
	{"from-import-as", "from math import floor as fl, ceil"},
	{"from-import-star", "from math import *"},
	{"from-import-missing", "from math import nosuch"},
	{"import-missing", "import nosuchmodule"},
	{"raise-call", "raise E1('x')"},
	{"raise-from-none", "raise E1 from None"},
	{"expr-const", "1\n'doc'\nNone\n..."},
	{"docstring-def", "def d1():\n 'doc'\n return 1\nd1()"},
	{"docstring-class", "class D2:\n 'doc'"},
	{"call-forms", "k(1, 2)\nk(a, p=1)\nk(*L)\nk(**D)\nk(1, *L, **D)\nk(1, p=2, *L, **D)\nk(p=1, **D)"},
	{"call-nested", "k(k(1), k(p=k(2)), *k(L), **k(D))"},
	{"method-call", "L.append(1)\nD.get('p', 2)"},
	{"decorators", "@k\n@k\ndef d3():\n pass"},
	{"decorator-class", "@k\nclass D4:\n pass"},
	{"def-defaults", "def d5(p, q=a, *, r=b, s, **t):\n return p, q, r, s, t\nd5(1, s=2)"},
	{"def-kwonly", "def d6(*, r=1, s=2):\n return r, s\nd6(s=3)"},
	{"def-kwonly-nodefault-first", "def d7(*, r, s=2):\n return r, s\nd7(r=3)"},
	{"def-annotations", "def d8(p: a, *q: b, r: c = 1, **s: a) -> b:\n return p\nd8(1)"},
	{"def-ann-closure", "def d9():\n y = 1\n def d10(p: a = 1) -> b:\n  return y\n return d10()\nd9()"},
	{"lambda-forms", "b = (lambda: 1)()\nb = (lambda p, q=2: p)(1)\nb = (lambda *p, **q: p)(1)\nb = (lambda *, p=1: p)()"},
	{"class-bases", "class D11(object):\n pass"},
	{"class-keywords", "class D12(object, metaclass=type):\n pass"},
	{"class-star", "class D13(*(object,), **{}):\n pass"},
	{"class-method", "class D14:\n x = 1\n def m(self):\n  return self.x\nD14().m()"},
	{"class-super", "class D15:\n def m(self):\n  return __class__\nD15().m()"},
	{"class-closure", "def d16(y):\n class D17:\n  x = y\n  def m(self):\n   return y\n return D17().m()\nd16(1)"},
	{"classderef-local", "def d18(y):\n class D19:\n  locals()['y'] = 5\n  x = y\n return D19.x\nd18(1)"},
	{"nested-funcs", "def d20():\n def d21():\n  def d22():\n   return 1\n  return d22()\n return d21()\nd20()"},
	{"cell-arg", "def d23(p, q):\n def d24():\n  return q\n return d24()\nd23(1, 2)"},
	{"cell-arg-star", "def d25(*p, **q):\n def d26():\n  return p, q\n return d26()\nd25(1, x=2)"},
	{"cell-kwonly", "def d27(*, p=1):\n return lambda: p\nd27()()"},
	{"comp-closure", "def d28(y):\n return [y + i for i in R]\nd28(1)"},
	{"comp-in-class", "class D29:\n x = [i for i in R]"},
	{"genexp-arg", "b = list(i for i in R)\nb = sum((i for i in R), 0)"},
	{"chained-compare", "b = a < b < c\nb = a < b > c != z"},
	{"boolops", "b = a and b or c\nb = not (a or z) and c"},
	{"ifexp", "b = a if z else c"},
	{"dict-set-display", "b = {1: a, 2: b}\nb = {a, 1}\nb = {}\nb = [1, a]\nb = (a,)\nb = ()"},
	{"slices", "b = L[:]\nb = L[1:]\nb = L[:1]\nb = L[::2]\nb = L[0:1:1]\nb = D.get((0, 1))\nb = L[0]"},
	{"ext-slice", "D[0:1, 2] = 1\nb = D[0:1, 2]\nD[..., 0] = 2"},
	{"with-nested-try", "with CM:\n try:\n  raise E1\n finally:\n  b = 1"},
	{"try-in-finally", "try:\n pass\nfinally:\n try:\n  raise E1\n except E1:\n  pass"},
	{"loop-in-finally", "try:\n pass\nfinally:\n for i in R:\n  continue"},
	{"while-true-break", "while True:\n break"},
	{"while-const-false", "while 0:\n pass\nelse:\n b = 1"},
	{"if-const", "if 0:\n b = 1\nelif 1:\n b = 2"},
	{"yield-expr-forms", "def y1():\n b = yield\n b = (yield 1) + (yield 2)\n yield (yield)\n b = [(yield 3)]\nfor w in y1():\n pass"},
	{"yield-from-forms", "def y2():\n b = yield from R\n yield from (yield from R) or R\n return b\nfor w in y2():\n pass"},
	{"yield-in-with", "def y3():\n with CM as v:\n  yield v\n  yield from R\nfor w in y3():\n pass"},
	{"yield-in-handlers", "def y4():\n try:\n  yield 1\n  raise E1\n except E1 as e:\n  yield 2\n else:\n  yield 3\n finally:\n  yield 4\nfor w in y4():\n pass"},
	{"yield-in-loops", "def y5():\n for i in R:\n  yield i\n else:\n  yield 5\n while T():\n  yield 6\n else:\n  yield 7\nfor w in y5():\n pass"},
	{"gen-return-value", "def y6():\n yield 1\n return 2\nfor w in y6():\n pass"},
	{"genexp-nested", "b = list((i, j) for i in R if i or 1 for j in R if j or 1)"},
}

// one-hole expression contexts
var c12ECtxs = []c12Tpl{
	{"and-l", "@ and b"},
	{"and-r", "b and @"},
	{"or-l", "@ or b"},
	{"or-r", "z or @"},
	{"and-or", "a and @ or b"},
	{"and-3", "a and @ and b"},
	{"not", "not @"},
	{"neg", "-@"},
	{"add-l", "@ + b"},
	{"pow-r", "b ** @"},
	{"cmp-l", "@ < b"},
	{"cmp-r", "b < @"},
	{"cmp2-m", "a < @ < c"},
	{"cmp2-l", "@ < b < c"},
	{"cmp2-r", "a < b < @"},
	{"cmp3-r", "a < b < c < @"},
	{"cmp3-m", "a < @ <= c != z"},
	{"in", "@ in L"},
	{"is-not", "@ is not b"},
	{"ifexp-body", "@ if b else c"},
	{"ifexp-test", "b if @ else c"},
	{"ifexp-else", "b if z else @"},
	{"call-arg", "k(@)"},
	{"call-arg2", "k(b, @)"},
	{"call-kw", "k(p=@)"},
	{"call-star", "k(*@)"},
	{"call-dstar", "k(**@)"},
	{"call-mixed-arg", "k(@, p=1, *L, **D)"},
	{"call-mixed-star", "k(1, p=1, *@, **D)"},
	{"call-mixed-dstar", "k(1, *L, **@)"},
	{"call-func", "(@)(b)"},
	{"attr", "(@).real"},
	{"subscr-obj", "(@)[0]"},
	{"subscr-idx", "L[@]"},
	{"slice-lo", "L[@:b]"},
	{"slice-hi", "L[a:@]"},
	{"slice-step", "L[a:b:@]"},
	{"slice-lo-only", "L[@:]"},
	{"slice-step-only", "L[::@]"},
	{"extslice", "D[@, b:c]"},
	{"extslice-s", "D[a:@, b]"},
	{"list", "[@, b]"},
	{"tuple", "(@, b)"},
	{"set", "{@, b}"},
	{"dict-key", "{@: b}"},
	{"dict-val", "{a: @}"},
	{"dict-2", "{a: b, @: c}"},
	{"listcomp-elt", "[@ for i in R]"},
	{"listcomp-iter", "[i for i in @]"},
	{"listcomp-if", "[i for i in R if @]"},
	{"listcomp-iter2", "[i for i in R for j in @]"},
	{"listcomp-2if", "[@ for i in R if i or a for j in R if j or a if a]"},
	{"setcomp-elt", "{@ for i in R}"},
	{"dictcomp-key", "{@: i for i in R}"},
	{"dictcomp-val", "{i: @ for i in R}"},
	{"dictcomp-if", "{i: i for i in R if @}"},
	{"genexp-elt", "list(@ for i in R)"},
	{"genexp-if", "list(i for i in R if @)"},
	{"genexp-iter2", "list(i for i in R for j in @)"},
	{"lambda-body", "(lambda: @)()"},
	{"lambda-default", "(lambda p=@: p)()"},
	{"lambda-kwdefault", "(lambda *, p=@: p)()"},
	{"lambda-mixed", "(lambda p, *q, r=@, **s: r)(1)"},
	{"yield", "(yield @)"},
	{"yield-from", "(yield from @)"},
	{"paren-star", "k(*@, **D)"},
}

var c12Atoms = []c12Tpl{
	{"name", "a"},
	{"const", "1"},
	{"none", "None"},
	{"call", "k(R)"},
	{"raising", "g()"},
	{"list", "L"},
}

// statement positions for an expression
var c12EPos = []c12Tpl{
	{"assign", "b = @"},
	{"return", "return @"},
	{"expr-stmt", "@"},
	{"if-test", "if @:\n b = 2\nelse:\n b = 3"},
	{"while-test", "while @:\n break"},
	{"for-iter", "for i in @:\n b = 2"},
	{"with-item", "with @:\n b = 2"},
	{"with-item-as", "with CM as v, @ as u:\n b = 2"},
	{"assert-test", "assert @"},
	{"assert-msg", "assert z, @"},
	{"raise", "raise @"},
	{"raise-cause", "raise E1 from @"},
	{"del-subscr", "del L[@]"},
	{"store-subscr", "L[@] = 1"},
	{"store-attr", "O.x = @"},
	{"aug-name", "b += @"},
	{"aug-subscr", "L[@] += 1"},
	{"aug-attr", "(@).x += 1"},
	{"unpack", "b, *c = @"},
	{"try-body", "try:\n b = @\nexcept E1:\n b = 2"},
	{"except-type", "try:\n raise E1\nexcept @:\n b = 2"},
	{"except-type-as", "try:\n raise E1\nexcept @ as e:\n b = 2"},
	{"finally-expr", "try:\n b = 1\nfinally:\n b = @"},
	{"decorator", "@@\ndef h():\n pass"},
	{"default", "def h(p=@):\n pass"},
	{"kwdefault", "def h(*, p=@):\n pass"},
	{"annotation", "def h(p: @ = 1) -> @:\n pass"},
	{"class-base", "class H(@):\n pass"},
	{"class-keyword", "class H(metaclass=@):\n pass"},
	{"yield-stmt", "yield @"},
	{"yield-from-stmt", "yield from @"},
}

var c12EWraps = []c12Tpl{
	{"module", "@"},
	{"func", "def f(a, b, c):\n @\nr = f(1, 2, 3)\nfor w in r or ():\n pass"},
}

// c12FillExpr substitutes the expression hole "@" (the decorator position uses "@@").
func c12FillExpr(t, e string) string {
	if strings.Contains(t, "@@") {
		return strings.Replace(t, "@@", "@"+e, 1)
	}
	return strings.ReplaceAll(t, "@", e)
}

// c12EachGenerated enumerates the generated corpus in a fixed order, simplest first.
// visit is called once per program with a lazy builder; it returns false to stop.
func c12EachGenerated(quick bool, visit func(build func() c12Prog) bool) {
	nLeaves := len(c12Leaves)
	depth := 3
	if quick {
		nLeaves = c12QuickLeaves
		depth = 2
	}
	nc := len(c12Ctxs)

	// (1) spines
	for d := 0; d <= depth; d++ {
		total := 1
		for i := 0; i < d; i++ {
			total *= nc
		}
		nw, nl := len(c12Wraps), nLeaves
		if d == 3 { // deepest level: module / function / generator wrappers, the 11 main leaves
			nw, nl = 3, c12QuickLeaves
		}
		for idx := 0; idx < total; idx++ {
			for w := 0; w < nw; w++ {
				for l := 0; l < nl; l++ {
					idx, d, w, l := idx, d, w, l
					if !visit(func() c12Prog {
						body := c12Leaves[l].Text
						names := make([]string, d)
						x := idx
						for i := d - 1; i >= 0; i-- { // innermost context = least significant digit
							c := c12Ctxs[x%nc]
							x /= nc
							body = c12Fill(c.Text, body)
							names[i] = c.Name
						}
						src := c12Fill(c12Wraps[w].Text, body) + "\n"
						return c12Prog{Gen: "spine", Shape: c12Wraps[w].Name + ":" + strings.Join(names, "/"), Leaf: c12Leaves[l].Name, Src: src, Run: true}
					}) {
						return
					}
				}
			}
		}
	}

	// (2) multi-hole templates, every combination of leaves
	tl := 6
	if !quick {
		tl = 10
	}
	tplLeaves := []int{1, 2, 3, 4, 5, 6, 7, 8, 9, 10}[:tl] // assign break continue return-value raise-E1 yield | raise-bare return-bare yield-assign yield-from
	for _, t := range c12Templates {
		h := c12Holes(t.Text)
		total := 1
		for i := 0; i < h; i++ {
			total *= tl
		}
		for w := range c12TplWraps {
			for idx := 0; idx < total; idx++ {
				t, w, idx := t, w, idx
				if !visit(func() c12Prog {
					bodies := make([]string, h)
					names := make([]string, h)
					x := idx
					for i := h - 1; i >= 0; i-- {
						lf := c12Leaves[tplLeaves[x%tl]]
						x /= tl
						bodies[i] = lf.Text
						names[i] = lf.Name
					}
					src := c12Fill(c12TplWraps[w].Text, c12Fill(t.Text, bodies...)) + "\n"
					return c12Prog{Gen: "template", Shape: c12TplWraps[w].Name + ":" + t.Name, Leaf: strings.Join(names, ","), Src: src, Run: true}
				}) {
					return
				}
			}
		}
	}

	// (3) miscellaneous statement forms: bare and under every context, in every wrapper
	for ci := -1; ci < nc; ci++ {
		for w := range c12Wraps {
			for _, m := range c12Misc {
				ci, w, m := ci, w, m
				if !visit(func() c12Prog {
					body := m.Text
					shape := c12Wraps[w].Name + ":"
					if ci >= 0 {
						body = c12Fill(c12Ctxs[ci].Text, body)
						shape += c12Ctxs[ci].Name
					}
					return c12Prog{Gen: "misc", Shape: shape, Leaf: m.Name, Src: c12Fill(c12Wraps[w].Text, body) + "\n", Run: true}
				}) {
					return
				}
			}
		}
	}

	// (4) expressions: depth 1 at every position; deeper at the assign/return positions
	// (quick: depth 2 there; thorough: depth 2 everywhere, depth 3 at assign in a function)
	ne := len(c12ECtxs)
	na := len(c12Atoms)
	exprs := func(d int, pos []int, wraps []int) bool {
		total := 1
		for i := 0; i < d; i++ {
			total *= ne
		}
		for idx := 0; idx < total; idx++ {
			for at := 0; at < na; at++ {
				for _, p := range pos {
					for _, w := range wraps {
						idx, at, p, w := idx, at, p, w
						if !visit(func() c12Prog {
							e := c12Atoms[at].Text
							names := make([]string, d)
							x := idx
							for i := d - 1; i >= 0; i-- {
								c := c12ECtxs[x%ne]
								x /= ne
								e = "(" + c12FillExpr(c.Text, e) + ")"
								names[i] = c.Name
							}
							src := c12Fill(c12EWraps[w].Text, c12FillExpr(c12EPos[p].Text, e)) + "\n"
							return c12Prog{Gen: "expr", Shape: c12EWraps[w].Name + ":" + c12EPos[p].Name + ":" + strings.Join(names, "/"), Leaf: c12Atoms[at].Name, Src: src, Run: true}
						}) {
							return false
						}
					}
				}
			}
		}
		return true
	}
	allPos := make([]int, len(c12EPos))
	for i := range allPos {
		allPos[i] = i
	}
	bothWraps := []int{0, 1}
	if !exprs(0, allPos, bothWraps) || !exprs(1, allPos, bothWraps) {
		return
	}
	if quick {
		exprs(2, []int{0, 1}, bothWraps)
		return
	}
	if !exprs(2, allPos, bothWraps) {
		return
	}
	exprs(3, []int{0}, []int{1})
}

// hand-written programs for limits the generators do not reach
func c12Special(quick bool) []c12Prog {
	var out []c12Prog
	// 20 and 21 statically nested blocks (CPython: "too many statically nested blocks" at 21)
	for _, n := range []int{19, 20, 21, 25} {
		var b strings.Builder
		for i := 0; i < n; i++ {
			b.WriteString(strings.Repeat(" ", i) + "for i" + itoa(i) + " in R:\n")
		}
		b.WriteString(strings.Repeat(" ", n) + "pass\n")
		out = append(out, c12Prog{Gen: "special", Shape: "nested-for", Leaf: itoa(n), Src: b.String(), Run: true})
		b.Reset()
		for i := 0; i < n; i++ {
			b.WriteString(strings.Repeat(" ", i) + "try:\n")
		}
		b.WriteString(strings.Repeat(" ", n) + "pass\n")
		for i := n - 1; i >= 0; i-- {
			b.WriteString(strings.Repeat(" ", i) + "finally:\n" + strings.Repeat(" ", i+1) + "pass\n")
		}
		out = append(out, c12Prog{Gen: "special", Shape: "nested-try", Leaf: itoa(n), Src: b.String(), Run: true})
		b.Reset()
		for i := 0; i < n; i++ {
			b.WriteString(strings.Repeat(" ", i) + "with CM:\n")
		}
		b.WriteString(strings.Repeat(" ", n) + "pass\n")
		out = append(out, c12Prog{Gen: "special", Shape: "nested-with", Leaf: itoa(n), Src: b.String(), Run: true})
	}
	// EXTENDED_ARG: an absolute jump target beyond 65535 and a name index beyond 65535
	{
		var b strings.Builder
		b.WriteString("x = 0\n")
		for i := 0; i < 11000; i++ {
			b.WriteString("x = x\n")
		}
		b.WriteString("if x:\n x = 1\nelse:\n x = 2\nx = x and x or x\n")
		out = append(out, c12Prog{Gen: "special", Shape: "extended-arg", Leaf: "jump", Src: b.String(), Run: true})
		// (a name or constant index beyond 65535 is not generated: the compiler's table lookups are
		// quadratic, such a program takes longer to compile than the coordinator's hang watchdog allows)
		_ = quick
	}
	// relative jumps over more than 65535 bytes: JUMP_FORWARD over an if body, SETUP_LOOP over a
	// while body and a for body (FOR_ITER), SETUP_EXCEPT / SETUP_FINALLY / SETUP_WITH over a suite
	for _, h := range []struct{ name, head, tail string }{
		{"if-else", "x = 1\nif x:\n", "else:\n x = 2\n"},
		{"while", "x = 1\nwhile x:\n", " x = 0\n"},
		{"for", "x = 1\nfor i in R:\n", ""},
		{"try-except", "x = 1\ntry:\n", "except E:\n x = 2\n"},
		{"try-finally", "x = 1\ntry:\n", "finally:\n x = 2\n"},
		{"with", "x = 1\nwith CM:\n", ""},
	} {
		var b strings.Builder
		b.WriteString(h.head)
		b.WriteString(strings.Repeat(" x = x\n", 11000))
		b.WriteString(h.tail)
		b.WriteString("x = 3\n")
		out = append(out, c12Prog{Gen: "special", Shape: "relative-jump>65535", Leaf: h.name, Src: b.String(), Run: true})
	}
	// operands that do not fit one byte where the opcode packs two counts into its argument:
	// star-unpacking with 255 / 256 / 257 / 300 targets before and after the starred one (executed:
	// what UNPACK_EX pushes has to be what the following stores pop), and calls with 254..256
	// positional or keyword arguments
	{
		names := func(p string, n int) []string {
			var out []string
			for i := 0; i < n; i++ {
				out = append(out, p+itoa(i))
			}
			return out
		}
		for _, ba := range [][2]int{{0, 255}, {0, 256}, {0, 257}, {255, 0}, {256, 0}, {257, 1}, {1, 300}, {255, 255}, {256, 256}} {
			if quick && ba[0]+ba[1] > 400 {
				continue
			}
			ns := append(append(names("p", ba[0]), "*s"), names("q", ba[1])...)
			t := strings.Join(ns, ", ")
			check := "r = (len(s)"
			if ba[0] > 0 {
				check += ", p0, p" + itoa(ba[0]-1)
			}
			if ba[1] > 0 {
				check += ", q0, q" + itoa(ba[1]-1)
			}
			check += ")\n"
			leaf := itoa(ba[0]) + "-" + itoa(ba[1])
			out = append(out, c12Prog{Gen: "special", Shape: "star-unpack", Leaf: leaf, Src: "t = list(range(700))\n" + t + " = t\n" + check, Run: true})
			out = append(out, c12Prog{Gen: "special", Shape: "star-unpack-in-def", Leaf: leaf, Src: "def f(t):\n " + t + " = t\n return s\nr = len(f(list(range(700))))\n", Run: true})
			out = append(out, c12Prog{Gen: "special", Shape: "star-unpack-for", Leaf: leaf, Src: "for " + t + " in [list(range(700))]:\n r = len(s)\n", Run: true})
		}
		for _, n := range []int{254, 255, 256} {
			var pos, kws []string
			for i := 0; i < n; i++ {
				pos = append(pos, itoa(i))
				kws = append(kws, "k"+itoa(i)+"="+itoa(i))
			}
			out = append(out, c12Prog{Gen: "special", Shape: "call-positional", Leaf: itoa(n), Src: "def f(*a, **k):\n return len(a) + len(k)\nr = f(" + strings.Join(pos, ", ") + ")\n", Run: true})
			out = append(out, c12Prog{Gen: "special", Shape: "call-keywords", Leaf: itoa(n), Src: "def f(*a, **k):\n return len(a) + len(k)\nr = f(" + strings.Join(kws, ", ") + ")\n", Run: true})
		}
	}
	// long chains of jumps followed by code that needs more stack than anything before it: the
	// declared stack size has to cover what comes after the 1000th, 2000th ... jump target too
	{
		deep := "x = k(" + strings.Repeat("x, ", 24) + "x)\n"
		for _, n := range []int{999, 1000, 1001, 1200, 2500} {
			chains := []struct{ name, src string }{
				{"if", strings.Repeat("if x:\n x = x\n", n)},
				{"if-else", strings.Repeat("if x:\n x = x\nelse:\n x = 0\n", n)},
				{"elif", "if x:\n x = x\n" + strings.Repeat("elif x:\n x = x\n", n)},
				{"and", "x = " + strings.Repeat("x and ", n) + "x\n"},
				{"ternary", strings.Repeat("x = x if x else 0\n", n)},
				{"while", strings.Repeat("while x:\n x = 0\n", n)},
				{"try", strings.Repeat("try:\n x = x\nexcept E:\n x = 0\n", n)},
			}
			for _, ch := range chains {
				if quick && n != 1001 && n != 1200 {
					continue
				}
				out = append(out, c12Prog{Gen: "special", Shape: "jump-chain-" + ch.name, Leaf: itoa(n), Src: "x = 1\n" + ch.src + deep, Run: true})
				out = append(out, c12Prog{Gen: "special", Shape: "jump-chain-in-def-" + ch.name, Leaf: itoa(n), Src: "def f(x):\n" + indentLines(ch.src+deep, " ") + " return x\nf(1)\n", Run: true})
			}
		}
	}
	// the 16-bit operand boundary: a loop header (the target of the backward absolute jump of
	// `while` and of `continue`) and a forward jump target at every byte offset from 0xFFFF-9 to
	// 0xFFFF+9 (an operand of exactly 0xFFFF is the last one that fits without EXTENDED_ARG)
	{
		pads := map[int]string{0: "", 4: "x\n", 5: "-x\n", 2: "x\nx\n", 3: "x\n-x\n", 1: "x\nx\n-x\n"}
		padLen := map[int]int{0: 0, 4: 4, 5: 5, 2: 8, 3: 9, 1: 13}
		lo, hi := 0xFFFF-9, 0xFFFF+9
		if quick {
			lo, hi = 0xFFFF-3, 0xFFFF+3
		}
		for T := lo; T <= hi; T++ {
			for _, tail := range []struct {
				name, src string
				before    int
			}{
				{"while", "while x:\n x = 0\n", 3},                       // header = SETUP_LOOP + 3
				{"continue", "while x:\n x = 0\n continue\n x = 2\n", 3}, // CONTINUE_LOOP / JUMP_ABSOLUTE to the header
				{"if", "if x:\n x = 0\nx = 5\n", 12},                     // POP_JUMP_IF_FALSE over LOAD_NAME, LOAD_CONST, STORE_NAME
			} {
				// 6 bytes of `x = 1`, n statements `x = x` of 6 bytes, a pad, then the tail
				rest := T - tail.before - 6
				r := rest % 6
				n := (rest - padLen[r]) / 6
				var b strings.Builder
				b.WriteString("x = 1\n")
				b.WriteString(strings.Repeat("x = x\n", n))
				b.WriteString(pads[r])
				b.WriteString(tail.src)
				out = append(out, c12Prog{Gen: "special", Shape: "operand-boundary-" + tail.name, Leaf: itoa(T - 0xFFFF), Src: b.String(), Run: true})
			}
		}
	}
	// many lines between instructions (lnotab line increment > 255) and long lines of code (> 255 bytes)
	{
		out = append(out, c12Prog{Gen: "special", Shape: "lnotab", Leaf: "line-gap", Src: "x = 1\n" + strings.Repeat("\n", 600) + "x = 2\n" + strings.Repeat("#\n", 300) + "x = 3\n", Run: true})
		out = append(out, c12Prog{Gen: "special", Shape: "lnotab", Leaf: "byte-gap", Src: "x = 0\nx = (" + strings.Repeat("x + ", 400) + "x)\nx = 2\ny = [\n" + strings.Repeat("x,\n", 300) + "]\nx = 3\n", Run: true})
		out = append(out, c12Prog{Gen: "special", Shape: "lnotab", Leaf: "multiline-expr", Src: "x = 1\ny = (x +\n x +\n\n\n x)\nz = k(x,\n  y,\n  p=x)\n", Run: true})
		out = append(out, c12Prog{Gen: "special", Shape: "lnotab", Leaf: "no-trailing-newline", Src: "x = 1\nif x:\n  y = 2", Run: true})
		out = append(out, c12Prog{Gen: "special", Shape: "lnotab", Leaf: "def-far-down", Src: strings.Repeat("\n", 300) + "def f():\n return 1\n" + strings.Repeat("\n", 300) + "f()\n", Run: true})
	}
	// wide operands
	{
		var b strings.Builder
		b.WriteString("x = [")
		for i := 0; i < 300; i++ {
			b.WriteString("R, ")
		}
		b.WriteString("]\n")
		b.WriteString("y = k(" + strings.Repeat("1, ", 200) + ")\n")
		var t []string
		for i := 0; i < 200; i++ {
			t = append(t, "u"+itoa(i))
		}
		b.WriteString(strings.Join(t, ", ") + " = range(200)\n")
		b.WriteString(strings.Join(t[:100], ", ") + ", *rest = range(200)\n")
		out = append(out, c12Prog{Gen: "special", Shape: "wide", Leaf: "operands", Src: b.String(), Run: true})
	}
	return out
}

func indentLines(src, ind string) string {
	var b strings.Builder
	for _, l := range strings.SplitAfter(src, "\n") {
		if l != "" {
			b.WriteString(ind + l)
		}
	}
	return b.String()
}

package props

import (
	"fmt"
	"reflect"
	"sort"
	"strings"

	"github.com/go-python/gpython/py"
	"verif/internal/core"
	"verif/internal/harness"
)

// C04 part "slots": the special methods of Go-implemented objects read as attributes
// (x.__setitem__, x.__add__, ...) are Go callables too: py.GetAttrString wraps the Go method
// M__name__ whatever its signature. For every value of a universe of built-in objects and
// every such method (found by reflection, so a new one is covered automatically) every
// argument tuple of length 0..4 over a 3-value pool is passed through the wrapper; the Go
// signature of the method is the specification: a tuple of another length (or a keyword, for a
// method that takes none) is a TypeError, a tuple of the right length must produce exactly what
// calling the Go method directly with those arguments on an equal fresh receiver produces
// (value or exception type, and the receiver afterwards).

type c04slotVal struct {
	name string
	mk   func() py.Object
}

func c04slotUniverse(ev *evaluator) []c04slotVal {
	pv := func(name, expr string) c04slotVal {
		return c04slotVal{name, func() py.Object {
			o, err := ev.Eval(expr)
			if err != nil {
				panic("c04 slots: " + expr + ": " + err.Error())
			}
			return o
		}}
	}
	all := []c04slotVal{
		pv("int", "5"), pv("bigint", "2**70"), pv("bool", "True"), pv("float", "1.5"), pv("complex", "1j"),
		pv("str", "'ab'"), pv("bytes", "b'ab'"), pv("tuple", "(1, 2)"), pv("list", "[1, 2]"), pv("dict", "{'a': 1}"),
		pv("set", "{1}"), pv("range", "range(3)"), pv("slice", "slice(1, 2)"),
		pv("None", "None"), pv("NotImplemented", "NotImplemented"), pv("Ellipsis", "..."),
		pv("type", "int"), pv("function", "lambda a=1: a"), pv("builtin", "len"), pv("bound-method", "[].append"),
		pv("list-iterator", "iter([1, 2])"), pv("exception", "ValueError(1)"), pv("property", "property(len)"),
		pv("classmethod", "classmethod(len)"), pv("staticmethod", "staticmethod(len)"), pv("enumerate", "enumerate([1])"),
		pv("zip", "zip([1], [2])"), pv("map", "map(len, ['a'])"), pv("module", "vh"),
	}
	// values this interpreter cannot build are left out (their absence is not this property's subject)
	var out []c04slotVal
	for _, v := range all {
		ok := func() (ok bool) {
			defer func() {
				if recover() != nil {
					ok = false
				}
			}()
			v.mk()
			return true
		}()
		if ok {
			out = append(out, v)
		}
	}
	return out
}

var (
	c04tObject = reflect.TypeOf((*py.Object)(nil)).Elem()
	c04tError  = reflect.TypeOf((*error)(nil)).Elem()
	c04tString = reflect.TypeOf("")
	c04tTuple  = reflect.TypeOf(py.Tuple{})
	c04tSDict  = reflect.TypeOf(py.StringDict{})
)

// c04slotKind classifies the Go signature (receiver excluded): arity n >= 0 for n Object
// parameters, "s" for one string, "t" for (Tuple), "tk" for (Tuple, StringDict), "" unsupported.
func c04slotKind(t reflect.Type) (kind string, arity int) {
	if t.NumOut() != 2 || t.Out(0) != c04tObject || t.Out(1) != c04tError {
		return "", 0
	}
	n := t.NumIn()
	switch {
	case n == 1 && t.In(0) == c04tString:
		return "s", 1
	case n == 1 && t.In(0) == c04tTuple:
		return "t", -1
	case n == 2 && t.In(0) == c04tTuple && t.In(1) == c04tSDict:
		return "tk", -1
	}
	if n > 3 {
		return "", 0
	}
	for i := 0; i < n; i++ {
		if t.In(i) != c04tObject {
			return "", 0
		}
	}
	return "o", n
}

func (c *c04) slotsPart() {
	rc := c.rc
	rc.Part = "slots"
	pool := []func() py.Object{func() py.Object { return py.Int(0) }, func() py.Object { return py.Int(1) }, func() py.Object { return py.String("a") }}
	poolNames := []string{"0", "1", "'a'"}
	maxArgs := 3
	if !rc.Quick() {
		maxArgs = 4
	}
	skipped := map[string]bool{}
	for _, uv := range c04slotUniverse(c.ev) {
		probe := uv.mk()
		rt := reflect.TypeOf(probe)
		var names []string
		for i := 0; i < rt.NumMethod(); i++ {
			m := rt.Method(i)
			if strings.HasPrefix(m.Name, "M__") && strings.HasSuffix(m.Name, "__") && len(m.Name) >= 6 {
				names = append(names, m.Name)
			}
		}
		sort.Strings(names)
		for _, mname := range names {
			key := mname[1:]
			mt := reflect.ValueOf(probe).MethodByName(mname).Type()
			kind, arity := c04slotKind(mt)
			if kind == "" {
				skipped[mt.String()] = true
				continue
			}
			if key == "__next__" || key == "__del__" {
				// stateful across the two calls compared below only through the receiver, which is fresh: fine
			}
			for n := 0; n <= maxArgs; n++ {
				idx := make([]int, n)
				for {
					for _, kw := range []bool{false, true} {
						if kw && n != 1 {
							continue
						}
						if rc.Expired() || rc.Done() {
							return
						}
						if rc.Take() {
							c.slotCase(uv, key, mname, kind, arity, idx, kw, pool, poolNames)
						}
					}
					k := n - 1
					for k >= 0 {
						idx[k]++
						if idx[k] < len(pool) {
							break
						}
						idx[k] = 0
						k--
					}
					if k < 0 {
						break
					}
				}
			}
		}
	}
	var sk []string
	for s := range skipped {
		sk = append(sk, s)
	}
	sort.Strings(sk)
	rc.Note("slot_signatures_outside_the_wrapper", strings.Join(sk, "; "))
}

func (c *c04) slotCase(uv c04slotVal, key, mname, kind string, arity int, idx []int, kw bool, pool []func() py.Object, poolNames []string) {
	rc := c.rc
	var argNames []string
	for _, i := range idx {
		argNames = append(argNames, poolNames[i])
	}
	n := len(idx)
	if kw {
		// the single argument is passed by keyword instead
		argNames = []string{"k=" + argNames[0]}
	}
	input := fmt.Sprintf("%s.%s(%s)", uv.name, key, strings.Join(argNames, ", "))
	fields := core.Fields{"part": "slots", "value": uv.name, "slot": key, "gosig": kind + itoa(arity), "nargs": itoa(n), "kw": fmt.Sprint(kw)}
	rc.Guard(fields, func() string { return input }, func() {
		mkArgs := func() py.Tuple {
			t := py.Tuple{}
			for _, i := range idx {
				t = append(t, pool[i]())
			}
			return t
		}
		// through the wrapper
		recv := uv.mk()
		var got Res
		var gotRecv string
		attr, err := py.GetAttrString(recv, key)
		if err != nil {
			got = observe(nil, err)
		} else {
			var res py.Object
			if kw {
				res, err = py.Call(attr, py.Tuple{}, py.StringDict{"k": pool[idx[0]]()})
			} else {
				res, err = py.Call(attr, mkArgs(), nil)
			}
			got = observe(res, err)
		}
		gotRecv = harness.Canon(recv)
		// the specification
		var exp Res
		expRecv := ""
		direct := func(in []reflect.Value) {
			r2 := uv.mk()
			out := reflect.ValueOf(r2).MethodByName(mname).Call(in)
			var o py.Object
			var e error
			if !out[0].IsNil() {
				o = out[0].Interface().(py.Object)
			}
			if !out[1].IsNil() {
				e = out[1].Interface().(error)
			}
			exp = observe(o, e)
			expRecv = harness.Canon(r2)
		}
		switch {
		case kw && kind != "tk":
			exp = excRes("TypeError")
		case kind == "tk":
			kwargs := py.StringDict(nil)
			args := mkArgs()
			if kw {
				kwargs = py.StringDict{"k": pool[idx[0]]()}
				args = py.Tuple{}
			}
			direct([]reflect.Value{reflect.ValueOf(args), reflect.ValueOf(kwargs)})
		case kind == "t":
			direct([]reflect.Value{reflect.ValueOf(mkArgs())})
		case n != arity:
			exp = excRes("TypeError")
		case kind == "s":
			s, ok := pool[idx[0]]().(py.String)
			if !ok {
				// a name that is not a str: whether it is converted or refused is not an
				// argument-binding question; not judged
				rc.Eval("slots:s1:non-str-name", "")
				return
			}
			direct([]reflect.Value{reflect.ValueOf(string(s))})
		default:
			var in []reflect.Value
			args := mkArgs()
			for i := range args {
				in = append(in, reflect.ValueOf(&args[i]).Elem())
			}
			direct(in)
		}
		rc.Eval("slots:"+kind+itoa(arity)+":n="+itoa(n), input)
		if rc.WantSample() && rc.Index()%499 == 0 {
			rc.Sample(map[string]string{"part": "slots", "call": input, "expected": exp.String(), "observed": got.String()})
		}
		if !got.matches(exp) {
			cls := "wrong-result"
			switch {
			case exp.Exc == "TypeError" && got.Exc == "":
				cls = "arity-misuse-accepted"
			case exp.Exc == "" && got.Exc != "":
				cls = "unexpected-" + got.Exc
			case exp.Exc != "" && got.Exc != "":
				cls = "wrong-exception-" + got.Exc + "-for-" + exp.Exc
			}
			rc.Deviate(core.Deviation{Fields: fields, Input: input, Expected: exp.String(), Observed: got.String(), Sig: "slots:" + cls})
			return
		}
		if expRecv != "" && gotRecv != expRecv {
			rc.Deviate(core.Deviation{Fields: fields, Input: input, Expected: "receiver afterwards " + expRecv, Observed: "receiver afterwards " + gotRecv, Sig: "slots:receiver-differs"})
		}
	})
}

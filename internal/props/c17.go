package props

import (
	"encoding/json"
	"fmt"
	"os"
	"reflect"
	"sort"
	"strconv"
	"strings"

	"github.com/go-python/gpython/py"
	"verif/internal/core"
	"verif/internal/harness"
)

// C17: lists, dicts and sets match a reference model over any history.
//
// Explicit-state breadth-first search. A state is (alias relation of the two variables
// p and q, abstract contents of each distinct object). The state graph is computed from
// the Go reference model alone (identically in every worker); what is distributed is
// the expensive part: for every (state, enabled operation) the shortest operation path
// to the state is replayed on a fresh interpreter, the operation is applied, and every
// observation made along the way is compared with the model. The operation tables are
// in c17_ops.go.

const c17Cap = 4 // container length cap: an operation whose result exceeds it is disabled

func init() {
	core.Register(&core.Check{ID: "C17", Level: "model_checking",
		Rule: "explicit-state BFS per container kind (list, dict, set) from `p = <empty>; q = <empty>`. State = (p is q, contents of each distinct object); " +
			"list values {0,1,2}, dict keys {a,b,c} with values {0,1,2}, set values {0,1,2}; length cap 4 (an operation whose model result exceeds the cap is disabled in that state); " +
			"14762 list states, 4160 dict states, 72 set states. Operations (tables in c17_ops.go; ~1000 for lists: alias, swap, 10 ways to copy, sorted/sliced/tuple-derived copies, displays, + and * into a new object, " +
			"append, extend and += with alias/self/list/tuple/range/generator/set/iterator/non-iterable, *= n for n in -1..3, item set/del/get at every index -5..4, slice get/set/del for every (i,j,k) with " +
			"i,j in {None,-1,0,1,2}, k in {None,1,-1,2} (and k=0) with right-hand sides [] / [2] / [1,2] / (0,) / q / p itself / non-iterable for plain slices and fitting / over-long / q / p for extended slices, " +
			"the same slice reads on tuple(p), sort with key/reverse/stability, iteration while appending/deleting/assigning/replacing, builtins (sum/min/max/zip/enumerate/map/filter/all/any/sorted), unpacking, " +
			"comparisons with literals; ~50 for dicts: displays, constructor copies (dict(p), dict(items), dict(**p), dict(pairs), comprehensions, dict(p, b=1)), set/del/get item, get, loops that update/clear/bump " +
			"values, iteration with size change, views; ~80 for sets: displays, constructor copies, add, add of an equal scalar (True/1.0), & | - ^ and &= |= -= ^= with alias/self/literal/non-set, iteration with add). " +
			"One case = one (state, enabled operation) transition, enumerated level by level in a fixed order. For each: the shortest operation path to the state is replayed as a Python program on a FRESH " +
			"interpreter context (one statement per operation, a light observation (p, q, identity) after each; a replay whose prefix leaves the model is counted as tainted and not judged, the faulty transition being " +
			"a case of its own), then the operation inside try/except, a full observation (len, contents by Canon, by iteration, by index/get, membership of every value and of a foreign one, p == q, p != q, q == p, " +
			"identity by Go pointer, `p is q`) and a postlude that overwrites and grows p, then q (detects storage shared between distinct objects). Code objects are compiled once per state prefix / per operation " +
			"and reused; contexts never are. The same transition is also driven through the Go API where one exists (objects of the state built with NewList/Append, NewStringDict/SetItem, NewSet/Add; operation via " +
			"py.SetItem/DelItem/GetItem/IAdd/IMul/Add/Mul/And/Or/..., List.Append/Extend/ExtendSequence/Copy, NewListFromItems, SortInPlace, StringDict.Copy, DictNew, SetNew, SequenceSet/List/Tuple; observation and " +
			"postlude via py.Len/Iter/Next/GetItem/SequenceContains/Eq/Ne). thorough: every reachable state is expanded; quick: list states of BFS depth < 3, every dict and set state. " +
			"Non-trivial = every transition (distinct state x operation x access path).",
		Run: c17Run,
		Assumptions: []string{
			"merged states have identical futures: the canonical form is the complete abstract value of every object plus aliasing; hidden sharing of storage between distinct objects is probed by the postlude after every transition, not by longer histories",
			"operations whose Python result is undefined by the language (a key function mutating the list being sorted, a key function raising) are run for host panics only",
			"iteration of a dict/set while its size changes may raise RuntimeError (CPython) or complete over a snapshot; both are accepted because the language reference allows either",
			"observations of unordered containers are order-normalised (sorted) before comparison",
			"methods gpython does not provide at all (list.pop/insert/remove/index/count/reverse/clear/copy, dict.update/pop/setdefault/copy/clear, set.remove/discard/update/..., ordering comparisons of lists/sets/tuples) are outside the alphabet",
			"the Go API access path starts from objects built directly for the state (no history); histories are exercised by the Python access path",
			"the reference model agrees with CPython 3.11 on every non-probe program of the quick tier (scripts/c17_cpython.py replays a C17_DUMP of the programs and expected logs)",
		},
		Explanation: "A deviation means: after replaying the printed program, an observation of p or q (or the exception raised by the last statement) differs from the reference model of Python 3.4 containers.",
	})
}

// c17Same is object identity decided without gpython's own `is`: containers are the same
// object when they are the same Go pointer / the same Go map. It is exposed to the
// replayed programs as vh17.same (harness.Same cannot compare two dicts).
func c17Same(a, b py.Object) bool {
	switch x := a.(type) {
	case *py.List:
		y, ok := b.(*py.List)
		return ok && x == y
	case *py.Set:
		y, ok := b.(*py.Set)
		return ok && x == y
	case py.StringDict:
		y, ok := b.(py.StringDict)
		return ok && reflect.ValueOf(x).Pointer() == reflect.ValueOf(y).Pointer()
	}
	return false
}

func init() {
	py.RegisterModule(&py.ModuleImpl{
		Info: py.ModuleInfo{Name: "vh17", Doc: "C17 helper"},
		Methods: []*py.Method{py.MustNewMethod("same", func(self py.Object, args py.Tuple) (py.Object, error) {
			if len(args) != 2 {
				return nil, py.ExceptionNewf(py.TypeError, "vh17.same takes 2 args")
			}
			return py.NewBool(c17Same(args[0], args[1])), nil
		}, 0, "")},
		Globals: py.StringDict{},
	})
}

// ---------- model values and their canonical rendering (must equal harness.Canon) ----------

type c17tup []interface{}
type c17exc string
type c17setv []int // sorted

func c17f(v interface{}) string {
	var b strings.Builder
	c17fw(&b, v)
	return b.String()
}

func c17fw(b *strings.Builder, v interface{}) {
	switch x := v.(type) {
	case nil:
		b.WriteString("None")
	case bool:
		if x {
			b.WriteString("True")
		} else {
			b.WriteString("False")
		}
	case int:
		b.WriteString(strconv.Itoa(x))
	case string:
		b.WriteString("'" + x + "'")
	case c17exc:
		b.WriteString("<exc " + string(x) + ">")
	case []int:
		b.WriteByte('[')
		for i, e := range x {
			if i > 0 {
				b.WriteByte(',')
			}
			b.WriteString(strconv.Itoa(e))
		}
		b.WriteByte(']')
	case []string:
		b.WriteByte('[')
		for i, e := range x {
			if i > 0 {
				b.WriteByte(',')
			}
			b.WriteString("'" + e + "'")
		}
		b.WriteByte(']')
	case []interface{}:
		b.WriteByte('[')
		for i, e := range x {
			if i > 0 {
				b.WriteByte(',')
			}
			c17fw(b, e)
		}
		b.WriteByte(']')
	case c17tup:
		b.WriteByte('(')
		for i, e := range x {
			if i > 0 {
				b.WriteByte(',')
			}
			c17fw(b, e)
		}
		b.WriteByte(')')
	case map[string]int:
		ks := make([]string, 0, len(x))
		for k := range x {
			ks = append(ks, k)
		}
		sort.Strings(ks)
		b.WriteByte('{')
		for i, k := range ks {
			if i > 0 {
				b.WriteByte(',')
			}
			b.WriteString("'" + k + "':" + strconv.Itoa(x[k]))
		}
		b.WriteByte('}')
	case c17setv:
		ss := make([]string, len(x))
		for i, e := range x {
			ss[i] = strconv.Itoa(e)
		}
		sort.Strings(ss)
		b.WriteString("set{" + strings.Join(ss, ",") + "}")
	default:
		panic(fmt.Sprintf("c17f: %T", v))
	}
}

// ---------- model state ----------

type c17obj struct {
	L []int          // list
	D map[string]int // dict
	S map[int]bool   // set
}

func (o *c17obj) clone() *c17obj {
	n := &c17obj{}
	if o.L != nil {
		n.L = append([]int{}, o.L...)
	}
	if o.D != nil {
		n.D = map[string]int{}
		for k, v := range o.D {
			n.D[k] = v
		}
	}
	if o.S != nil {
		n.S = map[int]bool{}
		for k := range o.S {
			n.S[k] = true
		}
	}
	return n
}

func (o *c17obj) size() int { return len(o.L) + len(o.D) + len(o.S) }

func (o *c17obj) setv() c17setv {
	var out []int
	for k := range o.S {
		out = append(out, k)
	}
	sort.Ints(out)
	return c17setv(out)
}

func (o *c17obj) dkeys() []string {
	ks := make([]string, 0, len(o.D))
	for k := range o.D {
		ks = append(ks, k)
	}
	sort.Strings(ks)
	return ks
}

type c17st struct {
	P, Q *c17obj
}

func (s *c17st) clone() *c17st {
	n := &c17st{P: s.P.clone()}
	if s.P == s.Q {
		n.Q = n.P
	} else {
		n.Q = s.Q.clone()
	}
	return n
}

// c17log collects the expected log of the model run.
type c17log struct{ ent []string }

func (l *c17log) L(vs ...interface{}) {
	if l == nil {
		return
	}
	l.ent = append(l.ent, c17f(append(c17tup{"L"}, vs...)))
}

// ---------- operations ----------

// c17env is what a Go API implementation of an operation works on: the globals of the
// module in which the prefix was replayed.
type c17env struct {
	g  py.StringDict
	lg []string
}

func (e *c17env) P() py.Object { return e.g["p"] }
func (e *c17env) Q() py.Object { return e.g["q"] }
func (e *c17env) L(vs ...py.Object) {
	e.lg = append(e.lg, harness.Canon(append(py.Tuple{py.String("L")}, vs...)))
}

type c17op struct {
	name string // class of the operation (Fields["op"])
	arg  string // its parameters (Fields["arg"])
	src  string // Python statement(s)
	// run applies the operation to the model state, appends the values the statement logs
	// and returns the exception type it must raise ("" = none). A raising operation leaves
	// the model state as the statement must leave it.
	run func(s *c17st, lg *c17log) string
	// okNoExc: the language allows the statement either to raise this exception or to
	// complete (iteration of a dict/set whose size changes); the final state is the same.
	okNoExc string
	// probe: result undefined by the language; run for host panics only, no successors.
	probe bool
	// noPath: never used as an edge of the shortest-path tree (set for operations with a
	// recorded finding, so that replayed prefixes stay on the model's states).
	noPath bool
	// when: the operation is part of the alphabet only in states where it holds (nil = always).
	when func(s *c17st) bool
	// api: the same operation through the Go API (nil = none).
	api func(e *c17env) error
}

// c17kind describes one container kind.
type c17kind struct {
	name    string
	initSrc string
	init    func() *c17st
	enc     func(o *c17obj) string
	ops     []*c17op
	obsSrc  func(tag string) string // python statement logging a full observation
	obs     func(tag string, s *c17st) string
	postSrc string
	post    func(s *c17st) []string
	apiObs  func(tag string, e *c17env) string
	apiPost func(e *c17env) []string
	// light observation made after every operation of the replayed prefix
	lightSrc string
	light    func(s *c17st) string
	// build makes the objects of a state directly through the Go API
	build func(s *c17st) py.StringDict
}

func c17key(k *c17kind, s *c17st) string {
	if s.P == s.Q {
		return k.enc(s.P) + "="
	}
	return k.enc(s.P) + "|" + k.enc(s.Q)
}

type c17node struct {
	st     *c17st
	parent int
	op     int
	depth  int
}

type c17x struct {
	rc   *core.RunCtx
	dump *os.File
	tail map[*c17op]*c17code // compiled once per worker: the tail does not depend on the state
}

type c17code struct {
	src  string
	code *py.Code
	exc  string // compile error type
}

func c17compile(src string) *c17code {
	c := &c17code{src: src}
	code, err := py.Compile(src, "<t>", py.ExecMode, 0, true)
	if err != nil {
		c.exc, _, _, _ = harness.ExcInfo(err)
		if c.exc == "" {
			c.exc = "compile-error"
		}
		return c
	}
	c.code = code
	return c
}

// c17exec runs the code objects one after the other as __main__ of a FRESH context with
// `vh` pre-imported, exactly as harness.RunOpts does for a single source text (the code
// objects are compiled once and reused; a context is never reused).
func c17exec(codes ...*py.Code) (log []string, excType string) {
	ctx := py.NewContext(py.ContextOpts{SysArgs: []string{"t"}})
	defer ctx.Close()
	vhm, err := ctx.ModuleInit(py.GetModuleImpl("vh"))
	if err != nil {
		panic(err)
	}
	lg := &harness.Log{}
	vhm.Globals["__vhlog__"] = lg
	impl := &py.ModuleImpl{Info: py.ModuleInfo{Name: "__main__", FileDesc: "<t>"}, Globals: py.StringDict{"vh": vhm}}
	mod, err := ctx.Store().NewModule(ctx, impl)
	if err != nil {
		panic(err)
	}
	for _, c := range codes {
		if _, err = ctx.RunCode(c, mod.Globals, mod.Globals, nil); err != nil {
			excType, _, _, _ = harness.ExcInfo(err)
			break
		}
	}
	return lg.Entries, excType
}

func c17Run(rc *core.RunCtx) {
	x := &c17x{rc: rc, tail: map[*c17op]*c17code{}}
	// every case builds and drops a whole interpreter context: collect less often
	if p := os.Getenv("C17_DUMP"); p != "" {
		f, err := os.Create(fmt.Sprintf("%s.%d", p, rc.Shard))
		if err == nil {
			x.dump = f
			defer f.Close()
		}
	}
	// quick: BFS depth per kind chosen to fit ~60 s; thorough: whole reachable space.
	depth := map[string]int{"list": -1, "dict": -1, "set": -1}
	if rc.Quick() {
		depth = map[string]int{"list": 3, "dict": -1, "set": -1}
	}
	if v := os.Getenv("C17_DEPTH"); v != "" { // development aid
		n, _ := strconv.Atoi(v)
		depth["list"] = n
	}
	for _, k := range []*c17kind{c17SetKind(), c17DictKind(), c17ListKind()} {
		rc.Part = k.name
		rc.Note("ops_"+k.name, strconv.Itoa(len(k.ops)))
		x.explore(k, depth[k.name])
		if rc.Expired() || rc.Done() {
			return
		}
	}
}

func (x *c17x) explore(k *c17kind, maxDepth int) {
	rc := x.rc
	nodes := []*c17node{{st: k.init(), parent: -1, op: -1}}
	index := map[string]int{c17key(k, nodes[0].st): 0}
	var transitions, expanded int64
	dry := os.Getenv("C17_DRY") != "" // development aid: state graph only
	maxd := 0
	defer func() {
		if rc.Shard == 0 {
			rc.Count("states", int64(len(nodes)))
			rc.Count("states_"+k.name, int64(len(nodes)))
			rc.Count("states_expanded_"+k.name, expanded)
			rc.Count("transitions_"+k.name, transitions)
			rc.Count("max_depth_"+k.name, int64(maxd))
		}
	}()
	for head := 0; head < len(nodes); head++ {
		n := nodes[head]
		if n.depth > maxd {
			maxd = n.depth
		}
		if maxDepth >= 0 && n.depth >= maxDepth {
			continue
		}
		expanded++
		var pre *c17prefix
		for oi, op := range k.ops {
			if op.when != nil && !op.when(n.st) {
				continue
			}
			s2 := n.st.clone()
			op.run(s2, nil)
			if s2.P.size() > c17Cap || s2.Q.size() > c17Cap {
				continue // disabled in this state
			}
			if !op.probe && !op.noPath {
				k2 := c17key(k, s2)
				if _, seen := index[k2]; !seen {
					index[k2] = len(nodes)
					nodes = append(nodes, &c17node{st: s2, parent: head, op: oi, depth: n.depth + 1})
				}
			}
			transitions++
			if rc.Take() && !dry {
				rc.Count("transitions", 1)
				if pre == nil {
					pre = x.prefix(k, nodes, head)
				}
				x.transition(k, n, pre, op)
			}
			if rc.Done() || rc.Expired() {
				return
			}
		}
	}
}

// c17prefix is the replay program for a state and the log the model expects from it.
type c17prefix struct {
	code *c17code
	log  []string
	path string
}

func (x *c17x) prefix(k *c17kind, nodes []*c17node, head int) *c17prefix {
	var chain []int
	for i := head; nodes[i].parent >= 0; i = nodes[i].parent {
		chain = append(chain, nodes[i].op)
	}
	var b strings.Builder
	b.WriteString(k.initSrc + "\n" + k.lightSrc + "\n")
	s := k.init()
	lg := &c17log{}
	lg.ent = append(lg.ent, k.light(s))
	var names []string
	for i := len(chain) - 1; i >= 0; i-- {
		op := k.ops[chain[i]]
		b.WriteString(op.src + "\n" + k.lightSrc + "\n")
		if exc := op.run(s, lg); exc != "" {
			panic("c17: raising operation on a shortest path: " + op.src)
		}
		lg.ent = append(lg.ent, k.light(s))
		names = append(names, op.name+"("+op.arg+")")
	}
	if got := c17key(k, s); got != c17key(k, nodes[head].st) {
		panic("c17: model replay reached " + got + " instead of " + c17key(k, nodes[head].st))
	}
	return &c17prefix{code: c17compile(b.String()), log: lg.ent, path: strings.Join(names, " ")}
}

func c17indent(s string) string {
	return "    " + strings.ReplaceAll(s, "\n", "\n    ")
}

func yn(b bool) string {
	if b {
		return "y"
	}
	return "n"
}

func (x *c17x) transition(k *c17kind, n *c17node, pre *c17prefix, op *c17op) {
	rc := x.rc
	fields := core.Fields{"kind": k.name, "op": op.name, "arg": op.arg, "alias": yn(n.st.P == n.st.Q),
		"p": k.enc(n.st.P), "q": k.enc(n.st.Q), "via": "src"}
	tail := x.tail[op]
	if tail == nil {
		tail = c17compile("try:\n" + c17indent(op.src) + "\nexcept BaseException as e:\n    vh.log('X', e)\n" + k.obsSrc("S") + "\n" + k.postSrc + "\n")
		x.tail[op] = tail
	}
	src := pre.code.src + tail.src
	input := func() string { return src }

	// expected log of the last step
	s := n.st.clone()
	lg := &c17log{}
	exc := op.run(s, lg)
	if exc != "" {
		lg.ent = append(lg.ent, c17f(c17tup{"X", c17exc(exc)}))
	}
	lg.ent = append(lg.ent, k.obs("S", s))
	lg.ent = append(lg.ent, k.post(s)...)
	exp := lg.ent
	var alts [][]string
	if op.okNoExc != "" && exc == op.okNoExc {
		var alt []string
		for _, e := range exp {
			if !strings.HasPrefix(e, "('X',") {
				alt = append(alt, e)
			}
		}
		alts = append(alts, alt)
	}
	if x.dump != nil {
		j, _ := json.Marshal(map[string]interface{}{"src": src, "pre": pre.log, "exp": exp, "alts": alts, "probe": op.probe})
		x.dump.Write(append(j, '\n'))
	}

	rc.Guard(fields, input, func() {
		if pre.code.code == nil || tail.code == nil {
			x.judge(k, op, fields, src, pre, exp, alts, pre.log, pre.code.exc+tail.exc, true)
			return
		}
		got, excType := c17exec(pre.code.code, tail.code)
		x.judge(k, op, fields, src, pre, exp, alts, got, excType, false)
	})
	if op.api == nil || rc.Done() {
		return
	}
	// the same transition through the Go API: the objects of the state are built directly
	// (NewList/Append, NewStringDict/SetItem, NewSet/Add), then the operation, the
	// observation and the postlude are Go API calls
	afields := core.Fields{}
	for kk, v := range fields {
		afields[kk] = v
	}
	afields["via"] = "api"
	ainput := func() string {
		return "Go API: state p=" + fields["p"] + " q=" + fields["q"] + " alias=" + fields["alias"] + "; operation equivalent to: " + op.src
	}
	rc.Guard(afields, ainput, func() {
		e := &c17env{g: k.build(n.st)}
		err := op.api(e)
		got := append(append([]string{}, pre.log...), e.lg...)
		if err != nil {
			t, _, _, _ := harness.ExcInfo(err)
			got = append(got, "('X',<exc "+t+">)")
		}
		got = append(got, k.apiObs("S", e))
		got = append(got, k.apiPost(e)...)
		x.judge(k, op, afields, ainput(), pre, exp, alts, got, "", false)
	})
}

func c17eq(a, b []string) bool {
	if len(a) != len(b) {
		return false
	}
	for i := range a {
		if a[i] != b[i] {
			return false
		}
	}
	return true
}

// judge compares a replay's log with the model's.
func (x *c17x) judge(k *c17kind, op *c17op, fields core.Fields, input string, pre *c17prefix, exp []string, alts [][]string, got []string, excType string, compileErr bool) {
	rc := x.rc
	np := len(pre.log)
	// the prefix is made of transitions that are cases of their own: a replay whose prefix
	// already left the model is not judged again
	if len(got) < np || !c17eq(got[:np], pre.log) {
		rc.Eval(k.name+":tainted-prefix", "")
		rc.Count("tainted_replays", 1)
		return
	}
	last := got[np:]
	key := k.name + "|" + fields["p"] + "|" + fields["q"] + "|" + fields["alias"] + "|" + op.name + "|" + op.arg + "|" + fields["via"]
	if op.probe {
		rc.Eval(k.name+":"+op.name+":probe", key)
		if compileErr {
			rc.Deviate(core.Deviation{Fields: fields, Input: input, Expected: "program compiles", Observed: "compile error " + excType, Sig: op.name + ":compile-error"})
		}
		return
	}
	cls := "ok"
	for _, e := range exp {
		if strings.HasPrefix(e, "('X',") {
			cls = c17excName(e)
		}
	}
	rc.Eval(k.name+":"+op.name+":"+cls, key)
	if rc.WantSample() && rc.Index()%1009 == 0 {
		rc.Sample(map[string]string{"path": pre.path, "op": op.src, "expected": strings.Join(exp, " "), "observed": strings.Join(last, " ")})
	}
	if c17eq(last, exp) {
		return
	}
	for _, a := range alts {
		if c17eq(last, a) {
			return
		}
	}
	sig := op.name + ":" + c17class(exp, last, excType, compileErr)
	rc.Deviate(core.Deviation{Fields: fields, Input: input, Expected: strings.Join(exp, " "), Observed: strings.Join(last, " ") + c17excNote(excType), Sig: sig})
}

func c17excNote(t string) string {
	if t == "" {
		return ""
	}
	return " uncaught=" + t
}

func c17tag(e string) string {
	if len(e) >= 4 && e[0] == '(' && e[1] == '\'' {
		return e[2:3]
	}
	return "?"
}

// c17class names the first difference between the expected and the observed log of the
// last step in input-independent terms.
func c17class(exp, got []string, excType string, compileErr bool) string {
	if compileErr {
		return "compile-error:" + excType
	}
	for i := 0; i < len(exp); i++ {
		if i >= len(got) {
			if excType != "" {
				return "uncaught-" + excType
			}
			return "log-truncated"
		}
		if exp[i] == got[i] {
			continue
		}
		te, tg := c17tag(exp[i]), c17tag(got[i])
		switch {
		case te == "X" && tg == "X":
			return "wrong-exception:" + c17excName(got[i]) + "-for-" + c17excName(exp[i])
		case te == "X":
			return "no-exception-for-" + c17excName(exp[i])
		case tg == "X":
			return "unexpected-" + c17excName(got[i])
		case te == "L" && tg == "L":
			return "logged-value"
		case te == "S" && tg == "S":
			return "state:" + c17component(exp[i], got[i], c17ObsNames)
		case te == "A" && tg == "A":
			return "post-p:" + c17component(exp[i], got[i], c17PostNames)
		case te == "B" && tg == "B":
			return "post-q:" + c17component(exp[i], got[i], c17PostNames)
		}
		return "log-shape:" + tg + "-for-" + te
	}
	if len(got) > len(exp) {
		return "log-extra:" + c17tag(got[len(exp)])
	}
	return "?"
}

var c17ObsNames = []string{"tag", "len(p)", "p", "iter(p)", "index(p)", "in(p)", "len(q)", "q", "iter(q)", "index(q)", "in(q)", "p==q", "p!=q", "q==p", "same", "is"}
var c17PostNames = []string{"tag", "p", "q", "same"}

// c17split splits a canonical tuple "(a,b,[c,d],...)" at its top-level commas.
func c17split(s string) []string {
	if len(s) < 2 {
		return nil
	}
	s = s[1 : len(s)-1]
	var out []string
	depth, start := 0, 0
	for i := 0; i < len(s); i++ {
		switch s[i] {
		case '(', '[', '{':
			depth++
		case ')', ']', '}':
			depth--
		case ',':
			if depth == 0 {
				out = append(out, s[start:i])
				start = i + 1
			}
		}
	}
	return append(out, s[start:])
}

func c17component(exp, got string, names []string) string {
	a, b := c17split(exp), c17split(got)
	for i := 0; i < len(a) && i < len(b); i++ {
		if a[i] != b[i] {
			if i < len(names) {
				return names[i]
			}
			return "#" + strconv.Itoa(i)
		}
	}
	return "shape"
}

// c17excName extracts T from "('X',<exc T>)".
func c17excName(e string) string {
	e = strings.TrimPrefix(e, "('X',<exc ")
	return strings.TrimSuffix(e, ">)")
}

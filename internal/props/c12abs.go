//go:build verifov

package props

// C12, static part: an abstract VM for one code object, written from vm/eval.go
// (RunFrame's unwinding loop, UnwindBlock, UnwindExceptHandler and every do_* handler)
// and CPython 3.4's ceval.c, which it mirrors.
//
// An abstract state is (pc, stack of TAGS, block stack of (kind, handler, level)).
// Tags are needed because END_FINALLY / WITH_CLEANUP / POP_EXCEPT / MAKE_FUNCTION act
// according to WHAT is on the stack, not only how much.

import (
	"fmt"
	"sort"
	"strings"

	"github.com/go-python/gpython/py"
	"github.com/go-python/gpython/vm"
)

type c12Tag uint32

const (
	tgV          c12Tag = iota // ordinary value
	tgNone                     // LOAD_CONST None
	tgStr                      // LOAD_CONST of a str
	tgCode                     // LOAD_CONST of a code object; payload = const index
	tgTup                      // LOAD_CONST of a tuple; payload = len
	tgCell                     // LOAD_CLOSURE
	tgCellTup                  // BUILD_TUPLE of cells only; payload = n
	tgWhyRet                   // why markers pushed by the unwinder / WITH_CLEANUP
	tgWhyCont                  //
	tgWhyBreak                 //
	tgWhySil                   //
	tgContTarget               // "retval" of a continue: payload = target pc
	tgExcTb                    // the exception triple pushed on handler entry
	tgExcVal                   //
	tgExcType                  //
)

func c12mk(kind c12Tag, payload int) c12Tag { return kind | c12Tag(payload)<<8 }
func (t c12Tag) kind() c12Tag               { return t & 0xff }
func (t c12Tag) payload() int               { return int(t >> 8) }

var c12TagNames = []string{"v", "None", "str", "code", "tuple", "cell", "cells", "WHY_RETURN", "WHY_CONTINUE", "WHY_BREAK", "WHY_SILENCED", "conttarget", "exc_tb", "exc_val", "exc_type"}

func (t c12Tag) String() string { return c12TagNames[t.kind()] }

const (
	bkLoop = iota
	bkExcept
	bkFinally
	bkHandler // EXCEPT_HANDLER
)

var c12BlockNames = []string{"LOOP", "EXCEPT", "FINALLY", "EXCEPT_HANDLER"}

type c12Block struct {
	kind    int8
	handler int32
	level   int32
}

type c12State struct {
	pc     int32
	stack  []c12Tag
	blocks []c12Block
}

func (s *c12State) key() string {
	b := make([]byte, 0, 8+4*len(s.stack)+9*len(s.blocks))
	b = append(b, byte(s.pc), byte(s.pc>>8), byte(s.pc>>16), byte(s.pc>>24), byte(len(s.stack)), byte(len(s.stack)>>8))
	for _, t := range s.stack {
		b = append(b, byte(t), byte(t>>8), byte(t>>16), byte(t>>24))
	}
	for _, k := range s.blocks {
		b = append(b, byte(k.kind), byte(k.handler), byte(k.handler>>8), byte(k.handler>>16), byte(k.handler>>24), byte(k.level), byte(k.level>>8))
	}
	return string(b)
}

func (s *c12State) String() string {
	var st, bl []string
	for _, t := range s.stack {
		st = append(st, t.String())
	}
	for _, k := range s.blocks {
		bl = append(bl, fmt.Sprintf("%s(h=%d,l=%d)", c12BlockNames[k.kind], k.handler, k.level))
	}
	return fmt.Sprintf("pc=%d stack=[%s] blocks=[%s]", s.pc, strings.Join(st, " "), strings.Join(bl, " "))
}

type c12Instr struct {
	pc, next int32
	op       vm.OpCode
	arg      int32
	hasArg   bool
	afterExt bool // preceded by EXTENDED_ARG (not a legal jump target)
}

// c12Viol is one violated invariant; Sig is input independent.
type c12Viol struct {
	Sig    string
	Detail string
}

type c12Analysis struct {
	code    *py.Code
	ins     []c12Instr
	at      []int32 // pc -> index in ins, -1 if not an instruction boundary
	endAt   []int32 // pc just after an instruction -> index in ins, -1
	reach   map[uint64]struct{}
	viols   []c12Viol
	vseen   map[string]bool
	states  int64
	trans   int64
	capped  bool
	maxDep  int
	nSetup  int
	maxBlk  int
	excEdge int64
}

func c12proj(pc int32, depth, blocks int) uint64 {
	return uint64(uint32(pc))<<32 | uint64(uint16(depth))<<16 | uint64(uint16(blocks))
}

func (a *c12Analysis) violate(sig, format string, args ...interface{}) {
	d := fmt.Sprintf(format, args...)
	k := sig + "|" + d
	if a.vseen[k] {
		return
	}
	a.vseen[k] = true
	if len(a.viols) < 64 {
		a.viols = append(a.viols, c12Viol{sig, d})
	}
}

var c12Defined [256]bool
var c12Name [256]string

func init() {
	for i := 0; i < 256; i++ {
		n := vm.OpCode(i).String()
		if !strings.HasPrefix(n, "OpCode(") {
			c12Defined[i] = true
			c12Name[i] = n
		}
	}
	// HAVE_ARGUMENT aliases STORE_NAME (90) in the stringer output
	c12Name[90] = "STORE_NAME"
}

const c12MaxBlocks = 20 // CO_MAXBLOCKS

// decode splits the bytecode into instructions, honouring EXTENDED_ARG.
func (a *c12Analysis) decode() {
	code := a.code.Code
	n := len(code)
	a.at = make([]int32, n+1)
	a.endAt = make([]int32, n+4)
	for i := range a.at {
		a.at[i] = -1
	}
	for i := range a.endAt {
		a.endAt[i] = -1
	}
	var ext int32
	extended := false
	for pc := 0; pc < n; {
		op := vm.OpCode(code[pc])
		in := c12Instr{pc: int32(pc), op: op, afterExt: extended}
		if op.HAS_ARG() {
			if pc+2 >= n {
				a.violate("static:truncated-instruction", "opcode %d at pc %d needs an argument but the code ends at %d", op, pc, n)
				return
			}
			in.hasArg = true
			in.arg = int32(code[pc+1]) | int32(code[pc+2])<<8
			if extended {
				in.arg += ext << 16
			}
			in.next = int32(pc + 3)
		} else {
			in.next = int32(pc + 1)
		}
		extended = false
		if op == vm.EXTENDED_ARG {
			ext = in.arg
			extended = true
		}
		a.at[pc] = int32(len(a.ins))
		a.endAt[in.next] = int32(len(a.ins))
		a.ins = append(a.ins, in)
		pc = int(in.next)
	}
	if extended {
		a.violate("static:truncated-instruction", "EXTENDED_ARG is the last instruction")
	}
}

func (a *c12Analysis) boundary(pc int32) bool {
	return pc >= 0 && int(pc) < len(a.code.Code) && a.at[pc] >= 0 && !a.ins[a.at[pc]].afterExt
}

// c12Analyse runs the table checks and the explicit-state search.
func c12Analyse(co *py.Code, srcLines int, maxStates int) *c12Analysis {
	a := &c12Analysis{code: co, reach: map[uint64]struct{}{}, vseen: map[string]bool{}}
	a.tables(srcLines)
	a.decode()
	if len(a.viols) > 0 && len(a.ins) == 0 {
		return a
	}
	if len(co.Code) == 0 {
		a.violate("static:empty-code", "code object has no instructions")
		return a
	}
	a.operands()
	a.explore(maxStates)
	return a
}

// tables: line table, variable tables, cell2arg.
func (a *c12Analysis) tables(srcLines int) {
	co := a.code
	if len(co.Lnotab)%2 != 0 {
		a.violate("static:lnotab-odd-length", "len(lnotab)=%d", len(co.Lnotab))
	}
	addr, line := 0, int(co.Firstlineno)
	if line < 1 {
		a.violate("static:firstlineno", "firstlineno=%d", line)
	}
	for i := 0; i+1 < len(co.Lnotab); i += 2 {
		addr += int(co.Lnotab[i])
		line += int(co.Lnotab[i+1]) // unsigned in 3.4: lines are non-decreasing by construction
		if addr >= len(co.Code) {
			a.violate("static:lnotab-offset-outside-code", "lnotab entry %d: offset %d, code length %d", i/2, addr, len(co.Code))
			break
		}
		if co.Lnotab[i] == 0 && co.Lnotab[i+1] == 0 {
			a.violate("static:lnotab-empty-entry", "lnotab entry %d is (0,0)", i/2)
		}
	}
	if srcLines > 0 && line > srcLines+1 {
		a.violate("static:lnotab-line-beyond-source", "last line %d, source has %d lines", line, srcLines)
	}
	if int(co.Nlocals) != len(co.Varnames) {
		a.violate("static:nlocals", "nlocals=%d len(varnames)=%d", co.Nlocals, len(co.Varnames))
	}
	total := int(co.Argcount + co.Kwonlyargcount)
	if co.Argcount < 0 || co.Kwonlyargcount < 0 {
		a.violate("static:argcount-negative", "argcount=%d kwonly=%d", co.Argcount, co.Kwonlyargcount)
	}
	if co.Flags&py.CO_VARARGS != 0 {
		total++
	}
	if co.Flags&py.CO_VARKEYWORDS != 0 {
		total++
	}
	if total > len(co.Varnames) {
		a.violate("static:args-exceed-varnames", "argcount=%d kwonly=%d flags=%#x need %d varnames, have %d", co.Argcount, co.Kwonlyargcount, co.Flags, total, len(co.Varnames))
		total = len(co.Varnames)
	}
	if co.Cell2arg != nil && len(co.Cell2arg) != len(co.Cellvars) {
		a.violate("static:cell2arg-length", "len(cell2arg)=%d len(cellvars)=%d", len(co.Cell2arg), len(co.Cellvars))
	} else {
		for i, cv := range co.Cellvars {
			want := -1
			for j := 0; j < total; j++ {
				if co.Varnames[j] == cv {
					want = j
					break
				}
			}
			got := -1
			if co.Cell2arg != nil && co.Cell2arg[i] != py.CO_CELL_NOT_AN_ARG {
				got = int(co.Cell2arg[i])
			}
			if got != want {
				a.violate("static:cell2arg-inconsistent", "cellvar %d: cell2arg=%d, argument index=%d", i, got, want)
			}
		}
	}
	for _, set := range [][]string{co.Varnames, co.Cellvars, co.Freevars} {
		seen := map[string]bool{}
		for _, n := range set {
			if seen[n] {
				a.violate("static:duplicate-variable-name", "a variable table lists a name twice")
			}
			seen[n] = true
		}
	}
	if (len(co.Cellvars)+len(co.Freevars) == 0) != (co.Flags&py.CO_NOFREE != 0) {
		a.violate("static:co_nofree-flag", "flags=%#x cellvars=%d freevars=%d", co.Flags, len(co.Cellvars), len(co.Freevars))
	}
	if co.Stacksize < 0 {
		a.violate("static:stacksize-negative", "stacksize=%d", co.Stacksize)
	}
}

// operands: per-instruction checks that do not depend on the state.
func (a *c12Analysis) operands() {
	co := a.code
	hasYield := false
	for _, in := range a.ins {
		if !c12Defined[in.op] {
			a.violate("static:undefined-opcode", "opcode %d at pc %d", in.op, in.pc)
			continue
		}
		arg := int(in.arg)
		rng := func(n int, what string) {
			if arg < 0 || arg >= n {
				a.violate("static:operand-out-of-range", "%s at pc %d: operand %d, %s has %d entries", c12Name[in.op], in.pc, arg, what, n)
			}
		}
		target := func(t int32) {
			if !a.boundary(t) {
				a.violate("static:jump-target-not-an-instruction", "%s at pc %d: target %d (code length %d)", c12Name[in.op], in.pc, t, len(co.Code))
			}
		}
		switch in.op {
		case vm.LOAD_CONST:
			rng(len(co.Consts), "consts")
		case vm.STORE_NAME, vm.DELETE_NAME, vm.STORE_ATTR, vm.DELETE_ATTR, vm.STORE_GLOBAL, vm.DELETE_GLOBAL, vm.LOAD_NAME, vm.LOAD_ATTR, vm.IMPORT_NAME, vm.IMPORT_FROM, vm.LOAD_GLOBAL:
			rng(len(co.Names), "names")
		case vm.LOAD_FAST, vm.STORE_FAST, vm.DELETE_FAST:
			rng(len(co.Varnames), "varnames")
		case vm.LOAD_CLOSURE, vm.LOAD_DEREF, vm.STORE_DEREF, vm.DELETE_DEREF, vm.LOAD_CLASSDEREF:
			rng(len(co.Cellvars)+len(co.Freevars), "cellvars+freevars")
		case vm.COMPARE_OP:
			rng(vm.PyCmp_BAD, "comparison operators")
		case vm.RAISE_VARARGS:
			rng(3, "raise forms")
		case vm.BUILD_SLICE:
			if arg != 2 && arg != 3 {
				a.violate("static:operand-out-of-range", "BUILD_SLICE at pc %d: operand %d", in.pc, arg)
			}
		case vm.JUMP_FORWARD, vm.FOR_ITER, vm.SETUP_LOOP, vm.SETUP_EXCEPT, vm.SETUP_FINALLY, vm.SETUP_WITH:
			target(in.next + in.arg)
			if in.op != vm.JUMP_FORWARD && in.op != vm.FOR_ITER {
				a.nSetup++
			}
		case vm.JUMP_IF_FALSE_OR_POP, vm.JUMP_IF_TRUE_OR_POP, vm.JUMP_ABSOLUTE, vm.POP_JUMP_IF_FALSE, vm.POP_JUMP_IF_TRUE, vm.CONTINUE_LOOP:
			target(in.arg)
		case vm.YIELD_VALUE, vm.YIELD_FROM:
			hasYield = true
		case vm.LIST_APPEND, vm.SET_ADD, vm.MAP_ADD:
			if arg < 1 {
				a.violate("static:operand-out-of-range", "%s at pc %d: operand %d", c12Name[in.op], in.pc, arg)
			}
		}
	}
	// line table offsets must name instructions
	addr := 0
	for i := 0; i+1 < len(co.Lnotab); i += 2 {
		addr += int(co.Lnotab[i])
		// (entries with line increment 0 only carry a byte offset > 255 forward)
		if co.Lnotab[i+1] != 0 && addr < len(co.Code) && a.at[addr] < 0 {
			a.violate("static:lnotab-offset-not-an-instruction", "lnotab entry %d: offset %d is inside an instruction", i/2, addr)
			break
		}
	}
	if hasYield != (co.Flags&py.CO_GENERATOR != 0) {
		a.violate("static:generator-flag", "flags=%#x but code contains yield: %v", co.Flags, hasYield)
	}
}

// ---- the search ----

type c12Why int

const (
	whyExc c12Why = iota + 1
	whyRet
	whyBrk
	whyCnt
)

var c12WhyNames = map[c12Why]string{whyExc: "exception", whyRet: "return", whyBrk: "break", whyCnt: "continue"}

type c12Search struct {
	a       *c12Analysis
	seen    map[string]struct{}
	work    []c12State
	max     int
	curIn   *c12Instr
	curFrom *c12State
}

func (a *c12Analysis) explore(maxStates int) {
	s := &c12Search{a: a, seen: map[string]struct{}{}, max: maxStates}
	s.push(c12State{pc: 0})
	for len(s.work) > 0 {
		st := s.work[len(s.work)-1]
		s.work = s.work[:len(s.work)-1]
		s.step(&st)
		if len(s.seen) > s.max {
			a.capped = true
			break
		}
	}
	a.states = int64(len(s.seen))
}

// push registers a successor state (checking the per-state invariants).
func (s *c12Search) push(st c12State) {
	a := s.a
	a.trans++
	from := "entry"
	if s.curIn != nil {
		from = fmt.Sprintf("%s at pc %d", c12Name[s.curIn.op], s.curIn.pc)
	}
	if int(st.pc) == len(a.code.Code) {
		a.violate("static:falls-off-the-end", "after %s execution continues at %d = end of code", from, st.pc)
		return
	}
	if st.pc < 0 || int(st.pc) > len(a.code.Code) || a.at[st.pc] < 0 {
		a.violate("static:jump-target-not-an-instruction", "after %s execution continues at %d which is not an instruction boundary", from, st.pc)
		return
	}
	if len(st.stack) > int(a.code.Stacksize) {
		a.violate("static:stack-exceeds-stacksize", "after %s: depth %d > stacksize %d", from, len(st.stack), a.code.Stacksize)
		if len(st.stack) > int(a.code.Stacksize)+16 {
			return // prune: bounds the search on ill-formed code
		}
	}
	if len(st.blocks) > a.nSetup {
		// every block is pushed by a SETUP_* instruction (EXCEPT_HANDLER replaces the block
		// it was entered through), and well-formed code never executes a SETUP twice
		// without popping its block in between
		a.violate("static:block-pushed-again-without-pop", "after %s: %d blocks but the code has only %d SETUP instructions", from, len(st.blocks), a.nSetup)
		return // prune: bounds the search on ill-formed code
	}
	if len(st.blocks) > c12MaxBlocks {
		a.violate("static:block-stack-exceeds-20", "more than 20 (CO_MAXBLOCKS) blocks are set up at once")
	}
	k := st.key()
	if _, ok := s.seen[k]; ok {
		return
	}
	s.seen[k] = struct{}{}
	a.reach[c12proj(st.pc, len(st.stack), len(st.blocks))] = struct{}{}
	if len(st.stack) > a.maxDep {
		a.maxDep = len(st.stack)
	}
	if len(st.blocks) > a.maxBlk {
		a.maxBlk = len(st.blocks)
	}
	s.work = append(s.work, st)
}

func c12copyStack(st []c12Tag, extra int) []c12Tag {
	o := make([]c12Tag, len(st), len(st)+extra)
	copy(o, st)
	return o
}

func c12copyBlocks(b []c12Block, extra int) []c12Block {
	o := make([]c12Block, len(b), len(b)+extra)
	copy(o, b)
	return o
}

// unwind is RunFrame's "something exceptional has happened" loop. stack/blocks are
// private copies. retTag is the tag of vm.retval (return value / continue target).
func (s *c12Search) unwind(why c12Why, stack []c12Tag, blocks []c12Block, contTarget int32) {
	a := s.a
	in := s.curIn
	if why == whyExc {
		a.excEdge++
	}
	for len(blocks) > 0 {
		b := blocks[len(blocks)-1]
		if b.kind == bkLoop && why == whyCnt {
			s.push(c12State{pc: contTarget, stack: stack, blocks: blocks})
			return
		}
		blocks = blocks[:len(blocks)-1]
		if b.kind == bkHandler {
			if len(stack) < int(b.level)+3 {
				a.violate("static:except-handler-unwind-underflow", "%s at pc %d (%s): EXCEPT_HANDLER level %d but depth %d", c12Name[in.op], in.pc, c12WhyNames[why], b.level, len(stack))
				return
			}
			stack = stack[:b.level] // truncate to level+3, pop 3
			continue
		}
		if len(stack) > int(b.level) {
			stack = stack[:b.level]
		} else if len(stack) < int(b.level) {
			a.violate("static:stack-below-block-level", "%s at pc %d (%s): unwinding %s block of level %d at depth %d", c12Name[in.op], in.pc, c12WhyNames[why], c12BlockNames[b.kind], b.level, len(stack))
			return
		}
		if b.kind == bkLoop && why == whyBrk {
			s.push(c12State{pc: b.handler, stack: stack, blocks: blocks})
			return
		}
		if why == whyExc && (b.kind == bkExcept || b.kind == bkFinally) {
			blocks = append(blocks, c12Block{kind: bkHandler, handler: -1, level: int32(len(stack))})
			stack = append(stack, tgV, tgV, tgV, tgExcTb, tgExcVal, tgExcType)
			s.push(c12State{pc: b.handler, stack: stack, blocks: blocks})
			return
		}
		if b.kind == bkFinally {
			switch why {
			case whyRet:
				stack = append(stack, tgV, tgWhyRet)
			case whyCnt:
				stack = append(stack, c12mk(tgContTarget, int(contTarget)), tgWhyCont)
			case whyBrk:
				stack = append(stack, tgWhyBreak)
			}
			s.push(c12State{pc: b.handler, stack: stack, blocks: blocks})
			return
		}
	}
	// the frame exits
	if why == whyBrk || why == whyCnt {
		a.violate("static:"+c12WhyNames[why]+"-escapes-the-frame", "%s at pc %d: no enclosing loop block; the frame would end with neither result nor exception", c12Name[in.op], in.pc)
	}
}

// unwindHandler is UnwindExceptHandler on a popped EXCEPT_HANDLER block.
func (s *c12Search) unwindHandler(stack []c12Tag, b c12Block) ([]c12Tag, bool) {
	if len(stack) < int(b.level)+3 {
		s.a.violate("static:except-handler-unwind-underflow", "%s at pc %d: EXCEPT_HANDLER level %d but depth %d", c12Name[s.curIn.op], s.curIn.pc, b.level, len(stack))
		return nil, false
	}
	return stack[:b.level], true
}

var c12NoRaise = map[vm.OpCode]bool{
	vm.POP_TOP: true, vm.ROT_TWO: true, vm.ROT_THREE: true, vm.DUP_TOP: true, vm.DUP_TOP_TWO: true, vm.NOP: true,
	vm.LOAD_CONST: true, vm.JUMP_FORWARD: true, vm.JUMP_ABSOLUTE: true, vm.POP_BLOCK: true, vm.SETUP_LOOP: true,
	vm.SETUP_EXCEPT: true, vm.SETUP_FINALLY: true, vm.POP_EXCEPT: true, vm.LOAD_CLOSURE: true, vm.STORE_FAST: true,
	vm.EXTENDED_ARG: true, vm.BUILD_TUPLE: true, vm.BUILD_LIST: true, vm.BUILD_MAP: true, vm.LOAD_BUILD_CLASS: true,
	vm.BUILD_SLICE: true, vm.MAKE_FUNCTION: true, vm.MAKE_CLOSURE: true, vm.STORE_DEREF: true,
}

// simple (pop, push) effects; -1 marks "handled specially".
func c12Effect(in *c12Instr) (pop, push int, ok bool) {
	arg := int(in.arg)
	nargs := (arg & 0xff) + 2*((arg>>8)&0xff)
	switch in.op {
	case vm.POP_TOP, vm.PRINT_EXPR, vm.IMPORT_STAR, vm.STORE_NAME, vm.DELETE_ATTR, vm.STORE_GLOBAL, vm.STORE_FAST, vm.STORE_DEREF:
		return 1, 0, true
	case vm.NOP, vm.DELETE_NAME, vm.DELETE_GLOBAL, vm.DELETE_FAST, vm.DELETE_DEREF, vm.EXTENDED_ARG:
		return 0, 0, true
	case vm.UNARY_POSITIVE, vm.UNARY_NEGATIVE, vm.UNARY_NOT, vm.UNARY_INVERT, vm.GET_ITER, vm.LOAD_ATTR:
		return 1, 1, true
	case vm.BINARY_POWER, vm.BINARY_MULTIPLY, vm.BINARY_MODULO, vm.BINARY_ADD, vm.BINARY_SUBTRACT, vm.BINARY_SUBSCR,
		vm.BINARY_FLOOR_DIVIDE, vm.BINARY_TRUE_DIVIDE, vm.INPLACE_FLOOR_DIVIDE, vm.INPLACE_TRUE_DIVIDE,
		vm.INPLACE_ADD, vm.INPLACE_SUBTRACT, vm.INPLACE_MULTIPLY, vm.INPLACE_MODULO, vm.BINARY_LSHIFT, vm.BINARY_RSHIFT,
		vm.BINARY_AND, vm.BINARY_XOR, vm.BINARY_OR, vm.INPLACE_POWER, vm.INPLACE_LSHIFT, vm.INPLACE_RSHIFT,
		vm.INPLACE_AND, vm.INPLACE_XOR, vm.INPLACE_OR, vm.COMPARE_OP, vm.IMPORT_NAME:
		return 2, 1, true
	case vm.STORE_SUBSCR:
		return 3, 0, true
	case vm.DELETE_SUBSCR, vm.STORE_ATTR:
		return 2, 0, true
	case vm.STORE_MAP:
		return 2, 0, true // dict stays below (checked: needs 3)
	case vm.UNPACK_SEQUENCE:
		return 1, arg, true
	case vm.UNPACK_EX:
		return 1, 1 + (arg & 0xff) + (arg >> 8), true
	case vm.LOAD_NAME, vm.LOAD_GLOBAL, vm.LOAD_FAST, vm.LOAD_DEREF, vm.LOAD_CLASSDEREF, vm.BUILD_MAP, vm.LOAD_BUILD_CLASS:
		return 0, 1, true
	case vm.BUILD_LIST, vm.BUILD_SET:
		return arg, 1, true
	case vm.CALL_FUNCTION:
		return nargs + 1, 1, true
	case vm.CALL_FUNCTION_VAR, vm.CALL_FUNCTION_KW:
		return nargs + 2, 1, true
	case vm.CALL_FUNCTION_VAR_KW:
		return nargs + 3, 1, true
	case vm.BUILD_SLICE:
		return arg, 1, true
	}
	return 0, 0, false
}

func (s *c12Search) step(st *c12State) {
	a := s.a
	in := &a.ins[a.at[st.pc]]
	s.curIn = in
	s.curFrom = st
	co := a.code
	depth := len(st.stack)
	if !c12Defined[in.op] {
		return // reported by operands(); do_ILLEGAL raises SystemError
	}
	name := c12Name[in.op]
	need := func(n int) bool {
		if depth < n {
			a.violate("static:stack-underflow", "%s at pc %d needs %d operand(s), depth is %d", name, in.pc, n, depth)
			return false
		}
		return true
	}
	// exception edge with the stack as it is after `popped` operands were removed
	raise := func(popped int) {
		s.unwind(whyExc, c12copyStack(st.stack[:depth-popped], 6), c12copyBlocks(st.blocks, 1), 0)
	}
	next := func(stack []c12Tag, blocks []c12Block) {
		s.push(c12State{pc: in.next, stack: stack, blocks: blocks})
	}
	jump := func(pc int32, stack []c12Tag) {
		s.push(c12State{pc: pc, stack: stack, blocks: st.blocks})
	}

	if pop, push, ok := c12Effect(in); ok {
		n := pop
		if in.op == vm.STORE_MAP {
			n = 3
		}
		if !need(n) {
			return
		}
		if !c12NoRaise[in.op] {
			raise(pop)
		}
		ns := c12copyStack(st.stack[:depth-pop], push)
		for i := 0; i < push; i++ {
			ns = append(ns, tgV)
		}
		next(ns, st.blocks)
		return
	}

	switch in.op {
	case vm.ROT_TWO:
		if !need(2) {
			return
		}
		ns := c12copyStack(st.stack, 0)
		ns[depth-1], ns[depth-2] = ns[depth-2], ns[depth-1]
		next(ns, st.blocks)
	case vm.ROT_THREE:
		if !need(3) {
			return
		}
		ns := c12copyStack(st.stack, 0)
		top, second, third := ns[depth-1], ns[depth-2], ns[depth-3]
		ns[depth-1], ns[depth-2], ns[depth-3] = second, third, top
		next(ns, st.blocks)
	case vm.DUP_TOP:
		if !need(1) {
			return
		}
		next(append(c12copyStack(st.stack, 1), st.stack[depth-1]), st.blocks)
	case vm.DUP_TOP_TWO:
		if !need(2) {
			return
		}
		next(append(c12copyStack(st.stack, 2), st.stack[depth-2], st.stack[depth-1]), st.blocks)
	case vm.LOAD_CONST:
		t := tgV
		if int(in.arg) < len(co.Consts) {
			switch k := co.Consts[in.arg].(type) {
			case py.NoneType:
				t = tgNone
			case py.String:
				t = tgStr
			case *py.Code:
				t = c12mk(tgCode, int(in.arg))
			case py.Tuple:
				t = c12mk(tgTup, len(k))
			}
		}
		next(append(c12copyStack(st.stack, 1), t), st.blocks)
	case vm.LOAD_CLOSURE:
		next(append(c12copyStack(st.stack, 1), tgCell), st.blocks)
	case vm.BUILD_TUPLE:
		n := int(in.arg)
		if !need(n) {
			return
		}
		t := tgV
		if n > 0 {
			all := true
			for _, x := range st.stack[depth-n:] {
				if x.kind() != tgCell {
					all = false
				}
			}
			if all {
				t = c12mk(tgCellTup, n)
			}
		}
		next(append(c12copyStack(st.stack[:depth-n], 1), t), st.blocks)
	case vm.IMPORT_FROM:
		if !need(1) {
			return
		}
		raise(0)
		next(append(c12copyStack(st.stack, 1), tgV), st.blocks)
	case vm.LIST_APPEND, vm.SET_ADD, vm.MAP_ADD:
		pop := 1
		if in.op == vm.MAP_ADD {
			pop = 2
		}
		if !need(pop + int(in.arg)) {
			return
		}
		raise(pop)
		next(c12copyStack(st.stack[:depth-pop], 0), st.blocks)
	case vm.JUMP_FORWARD:
		jump(in.next+in.arg, st.stack)
	case vm.JUMP_ABSOLUTE:
		jump(in.arg, st.stack)
	case vm.POP_JUMP_IF_FALSE, vm.POP_JUMP_IF_TRUE:
		if !need(1) {
			return
		}
		raise(1)
		ns := c12copyStack(st.stack[:depth-1], 0)
		jump(in.arg, ns)
		next(ns, st.blocks)
	case vm.JUMP_IF_FALSE_OR_POP, vm.JUMP_IF_TRUE_OR_POP:
		if !need(1) {
			return
		}
		raise(0)
		jump(in.arg, st.stack)
		next(c12copyStack(st.stack[:depth-1], 0), st.blocks)
	case vm.FOR_ITER:
		if !need(1) {
			return
		}
		raise(0)
		next(append(c12copyStack(st.stack, 1), tgV), st.blocks)
		jump(in.next+in.arg, c12copyStack(st.stack[:depth-1], 0))
	case vm.SETUP_LOOP, vm.SETUP_EXCEPT, vm.SETUP_FINALLY:
		kind := int8(bkLoop)
		if in.op == vm.SETUP_EXCEPT {
			kind = bkExcept
		} else if in.op == vm.SETUP_FINALLY {
			kind = bkFinally
		}
		nb := append(c12copyBlocks(st.blocks, 1), c12Block{kind: kind, handler: in.next + in.arg, level: int32(depth)})
		next(st.stack, nb)
	case vm.SETUP_WITH:
		if !need(1) {
			return
		}
		raise(0) // __exit__/__enter__ lookup or the call failed: mgr or exit still on the stack
		ns := c12copyStack(st.stack, 1)
		ns[depth-1] = tgV // exit
		nb := append(c12copyBlocks(st.blocks, 1), c12Block{kind: bkFinally, handler: in.next + in.arg, level: int32(depth)})
		next(append(ns, tgV), nb)
	case vm.POP_BLOCK:
		if len(st.blocks) == 0 {
			a.violate("static:pop-block-on-empty-block-stack", "POP_BLOCK at pc %d", in.pc)
			return
		}
		b := st.blocks[len(st.blocks)-1]
		if b.kind == bkHandler {
			a.violate("static:pop-block-wrong-kind", "POP_BLOCK at pc %d pops an EXCEPT_HANDLER block", in.pc)
			return
		}
		if depth != int(b.level) {
			// CPython truncates to the level here, gpython's do_POP_BLOCK does not
			a.violate("static:pop-block-depth-differs-from-level", "POP_BLOCK at pc %d: %s block level %d, depth %d", in.pc, c12BlockNames[b.kind], b.level, depth)
			return
		}
		next(st.stack, c12copyBlocks(st.blocks[:len(st.blocks)-1], 0))
	case vm.POP_EXCEPT:
		if len(st.blocks) == 0 {
			a.violate("static:pop-except-on-empty-block-stack", "POP_EXCEPT at pc %d", in.pc)
			return
		}
		b := st.blocks[len(st.blocks)-1]
		if b.kind != bkHandler {
			a.violate("static:pop-except-wrong-kind", "POP_EXCEPT at pc %d pops a %s block", in.pc, c12BlockNames[b.kind])
			return
		}
		ns, ok := s.unwindHandler(c12copyStack(st.stack, 0), b)
		if !ok {
			return
		}
		next(ns, c12copyBlocks(st.blocks[:len(st.blocks)-1], 0))
	case vm.BREAK_LOOP:
		s.unwind(whyBrk, c12copyStack(st.stack, 2), c12copyBlocks(st.blocks, 1), 0)
	case vm.CONTINUE_LOOP:
		s.unwind(whyCnt, c12copyStack(st.stack, 2), c12copyBlocks(st.blocks, 1), in.arg)
	case vm.RETURN_VALUE:
		if !need(1) {
			return
		}
		s.unwind(whyRet, c12copyStack(st.stack[:depth-1], 2), c12copyBlocks(st.blocks, 1), 0)
	case vm.RAISE_VARARGS:
		n := int(in.arg)
		if n > 2 {
			return // reported by operands(); the VM panics
		}
		if !need(n) {
			return
		}
		raise(n)
	case vm.YIELD_VALUE:
		if !need(1) {
			return
		}
		if co.Flags&py.CO_GENERATOR == 0 {
			a.violate("static:yield-in-non-generator", "YIELD_VALUE at pc %d, flags %#x", in.pc, co.Flags)
		}
		raise(1) // generator.throw()/close() (CPython; gpython has neither yet)
		next(append(c12copyStack(st.stack[:depth-1], 1), tgV), st.blocks)
	case vm.YIELD_FROM:
		if !need(2) {
			return
		}
		if co.Flags&py.CO_GENERATOR == 0 {
			a.violate("static:yield-in-non-generator", "YIELD_FROM at pc %d, flags %#x", in.pc, co.Flags)
		}
		raise(1)
		// sub-iterator exhausted: its result replaces it (gpython leaves the iterator there)
		ns := c12copyStack(st.stack[:depth-1], 0)
		ns[depth-2] = tgV
		next(ns, st.blocks)
		// it yielded: the same instruction runs again after the resume pushed the sent value
		rs := c12copyStack(st.stack, 0)
		rs[depth-1] = tgV
		s.push(c12State{pc: in.pc, stack: rs, blocks: st.blocks})
	case vm.END_FINALLY:
		if !need(1) {
			return
		}
		top := st.stack[depth-1]
		switch top.kind() {
		case tgNone:
			next(c12copyStack(st.stack[:depth-1], 0), st.blocks)
		case tgWhyRet:
			if !need(2) {
				return
			}
			s.unwind(whyRet, c12copyStack(st.stack[:depth-2], 2), c12copyBlocks(st.blocks, 1), 0)
		case tgWhyCont:
			if !need(2) {
				return
			}
			t := st.stack[depth-2]
			if t.kind() != tgContTarget {
				a.violate("static:end-finally-continue-without-target", "END_FINALLY at pc %d: below WHY_CONTINUE is %v", in.pc, t)
				return
			}
			s.unwind(whyCnt, c12copyStack(st.stack[:depth-2], 2), c12copyBlocks(st.blocks, 1), int32(t.payload()))
		case tgWhyBreak:
			s.unwind(whyBrk, c12copyStack(st.stack[:depth-1], 2), c12copyBlocks(st.blocks, 1), 0)
		case tgWhySil:
			if len(st.blocks) == 0 || st.blocks[len(st.blocks)-1].kind != bkHandler {
				a.violate("static:end-finally-silenced-without-handler-block", "END_FINALLY at pc %d", in.pc)
				return
			}
			ns, ok := s.unwindHandler(c12copyStack(st.stack[:depth-1], 0), st.blocks[len(st.blocks)-1])
			if !ok {
				return
			}
			next(ns, c12copyBlocks(st.blocks[:len(st.blocks)-1], 0))
		case tgExcType:
			if !need(3) {
				return
			}
			s.unwind(whyExc, c12copyStack(st.stack[:depth-3], 6), c12copyBlocks(st.blocks, 1), 0)
		default:
			a.violate("static:end-finally-unexpected-top", "END_FINALLY at pc %d: top of stack is %v (expected None, a why marker or an exception type)", in.pc, top)
		}
	case vm.WITH_CLEANUP:
		if !need(1) {
			return
		}
		top := st.stack[depth-1]
		var ns []c12Tag
		nb := st.blocks
		mayPush := false
		switch top.kind() {
		case tgNone:
			if !need(2) {
				return
			}
			ns = c12copyStack(st.stack[:depth-1], 1)
			ns[depth-2] = tgNone
		case tgWhyRet, tgWhyCont:
			if !need(3) {
				return
			}
			ns = c12copyStack(st.stack[:depth-1], 1)
			ns[depth-3] = st.stack[depth-2]
			ns[depth-2] = top
		case tgWhyBreak, tgWhySil:
			if !need(2) {
				return
			}
			ns = c12copyStack(st.stack[:depth-1], 1)
			ns[depth-2] = top
		case tgExcType:
			if !need(7) {
				return
			}
			if len(st.blocks) == 0 || st.blocks[len(st.blocks)-1].kind != bkHandler {
				a.violate("static:with-cleanup-without-handler-block", "WITH_CLEANUP at pc %d: exception on the stack but the current block is not EXCEPT_HANDLER", in.pc)
				return
			}
			ns = c12copyStack(st.stack, 1)
			ns[depth-7], ns[depth-6], ns[depth-5], ns[depth-4] = st.stack[depth-6], st.stack[depth-5], st.stack[depth-4], tgV
			nb = c12copyBlocks(st.blocks, 0)
			nb[len(nb)-1].level--
			mayPush = true
		default:
			a.violate("static:with-cleanup-unexpected-top", "WITH_CLEANUP at pc %d: top of stack is %v", in.pc, top)
			return
		}
		// __exit__ raised
		s.unwind(whyExc, c12copyStack(ns, 6), c12copyBlocks(nb, 1), 0)
		next(ns, nb)
		if mayPush {
			next(append(c12copyStack(ns, 1), tgWhySil), nb)
		}
	case vm.MAKE_FUNCTION, vm.MAKE_CLOSURE:
		arg := int(in.arg)
		posd, kwd, nann := arg&0xff, (arg>>8)&0xff, (arg>>16)&0x7fff
		n := 2 + posd + 2*kwd + nann
		if in.op == vm.MAKE_CLOSURE {
			n++
		}
		if !need(n) {
			return
		}
		p := depth - 1
		if st.stack[p].kind() != tgStr {
			a.violate("static:make-function-operands", "%s at pc %d: qualified name operand is %v", name, in.pc, st.stack[p])
		}
		p--
		nfree := -1
		if st.stack[p].kind() != tgCode {
			a.violate("static:make-function-operands", "%s at pc %d: code operand is %v", name, in.pc, st.stack[p])
		} else if c, ok := co.Consts[st.stack[p].payload()].(*py.Code); ok {
			nfree = len(c.Freevars)
		}
		p--
		if in.op == vm.MAKE_CLOSURE {
			t := st.stack[p]
			if t.kind() != tgCellTup {
				a.violate("static:make-function-operands", "MAKE_CLOSURE at pc %d: closure operand is %v", in.pc, t)
			} else if nfree >= 0 && t.payload() != nfree {
				a.violate("static:closure-size", "MAKE_CLOSURE at pc %d: %d cells for a code object with %d free variables", in.pc, t.payload(), nfree)
			}
			p--
		} else if nfree > 0 {
			a.violate("static:closure-size", "MAKE_FUNCTION at pc %d: code object has %d free variables", in.pc, nfree)
		}
		if nann > 0 {
			t := st.stack[p]
			if t.kind() != tgTup || t.payload() != nann-1 {
				a.violate("static:make-function-operands", "%s at pc %d: %d annotations but names operand is %v/%d", name, in.pc, nann, t, t.payload())
			}
			p -= nann
		}
		for i := 0; i < kwd; i++ {
			if st.stack[p-1].kind() != tgStr {
				a.violate("static:make-function-operands", "%s at pc %d: keyword-only default name is %v", name, in.pc, st.stack[p-1])
			}
			p -= 2
		}
		next(append(c12copyStack(st.stack[:depth-n], 1), tgV), st.blocks)
	default:
		a.violate("static:opcode-without-model", "%s at pc %d", name, in.pc)
	}
}

// c12Disasm renders a short listing (for deviation inputs).
func c12Disasm(co *py.Code, limit int) string {
	a := &c12Analysis{code: co, vseen: map[string]bool{}}
	a.decode()
	var b strings.Builder
	for i, in := range a.ins {
		if i >= limit {
			b.WriteString("...\n")
			break
		}
		if in.hasArg {
			fmt.Fprintf(&b, "%4d %s %d\n", in.pc, c12Name[in.op], in.arg)
		} else {
			fmt.Fprintf(&b, "%4d %s\n", in.pc, c12Name[in.op])
		}
	}
	return b.String()
}

func c12SortedViols(v []c12Viol) []c12Viol {
	o := append([]c12Viol{}, v...)
	sort.SliceStable(o, func(i, j int) bool { return o[i].Sig < o[j].Sig })
	return o
}

package props

import (
	"github.com/go-python/gpython/ast"
	"github.com/go-python/gpython/py"
	"verif/internal/core"
)

// part "names": what is and what is not an identifier. Every string of 1..3 (thorough 4)
// characters over an alphabet with members of every class the definition of identifiers
// distinguishes - id_start (ASCII letters, underscore, Ll, Lo, Nl, an astral Lu,
// Other_ID_Start), continue-only (ASCII digit, a non-ASCII Nd, Mn, Mc, Pc,
// Other_ID_Continue) and characters that are neither (Sc, Sm, So, Pi, Zs) - is placed in five
// host positions; it must come back as exactly that Name / attribute / keyword when it is an
// identifier (first character from id_start, the others from id_continue) and be rejected
// with SyntaxError otherwise. Characters that NFKC normalisation would change are not in the
// alphabet (gpython does not normalise identifiers; stated as a limit).
type c6nameChar struct {
	s   string
	cls byte // 'S' start+continue, 'C' continue only, 'X' neither
}

var c6nameAlphabet = []c6nameChar{
	{"a", 'S'}, {"Z", 'S'}, {"_", 'S'}, {"é", 'S'}, {"λ", 'S'}, {"名", 'S'}, {"ᛮ", 'S'}, {"\U00010400", 'S'}, {"℘", 'S'},
	{"1", 'C'}, {"٣", 'C'}, {"̖", 'C'}, {"ा", 'C'}, {"‿", 'C'}, {"·", 'C'},
	{"€", 'X'}, {"×", 'X'}, {"\U0001f600", 'X'}, {"«", 'X'}, {" ", 'X'},
}

func (c *c06) runNames() {
	rc := c.rc
	rc.Part = "names"
	maxLen := 3
	if !c.quick {
		maxLen = 4
	}
	type host struct {
		name string
		text func(id string) string
		mode py.CompileMode
		tree func(id string) ast.Ast
	}
	one := func() ast.Expr { return &ast.Num{N: py.Int(1)} }
	hosts := []host{
		{"alone", func(id string) string { return id }, py.EvalMode, func(id string) ast.Ast { return c6expression(c6n(id)) }},
		{"assign", func(id string) string { return id + " = 1\n" }, py.ExecMode, func(id string) ast.Ast {
			return c6mod(&ast.Assign{Targets: []ast.Expr{c6s(id)}, Value: one()})
		}},
		{"attribute", func(id string) string { return "q." + id }, py.EvalMode, func(id string) ast.Ast {
			return c6expression(c6attr(c6n("q"), id, ast.Load))
		}},
		{"keyword", func(id string) string { return "f(" + id + "=1)" }, py.EvalMode, func(id string) ast.Ast {
			return c6expression(&ast.Call{Func: c6n("f"), Keywords: []*ast.Keyword{{Arg: ast.Identifier(id), Value: one()}}})
		}},
		{"binop-tight", func(id string) string { return id + "+" + id }, py.EvalMode, func(id string) ast.Ast {
			return c6expression(&ast.BinOp{Left: c6n(id), Op: ast.Add, Right: c6n(id)})
		}},
	}
	var rec func(text, classes string)
	rec = func(text, classes string) {
		if c.stop() {
			return
		}
		if len(classes) > 0 && classes[0] != '1' {
			valid := classes[0] == 'S'
			for i := 1; i < len(classes); i++ {
				if classes[i] == 'X' {
					valid = false
				}
			}
			for _, h := range hosts {
				if !rc.Take() {
					continue
				}
				if valid {
					tree := h.tree(text)
					f := core.Fields{"part": "names", "kind": "identifier", "classes": classes, "host": h.name, "mode": string(h.mode), "dev": "name", "feat": ""}
					c.checkText(f, tree, h.mode, h.text(text), c6dump(tree))
				} else {
					f := core.Fields{"part": "names", "kind": "non-identifier", "classes": classes, "host": h.name, "mode": string(h.mode), "inj": "bad-name", "with": classes, "prog": "", "v34": "false"}
					c.checkReject(f, h.mode, h.text(text), false)
				}
			}
		}
		if len(classes) == maxLen {
			return
		}
		for _, ch := range c6nameAlphabet {
			cls := ch.cls
			if ch.s == "1" {
				cls = '1' // an ASCII digit: continue-only, and a number when it comes first
			}
			rec(text+ch.s, classes+string(cls))
		}
	}
	rec("", "")
}

package props

import (
	"fmt"
	"strings"

	"github.com/go-python/gpython/py"
	"verif/internal/core"
	"verif/internal/harness"
)

// ---- (2) assignment forms ----

type c01target struct {
	kind string // name sub attr slice
	name string // variable name for kind name
	obj  int    // 1 or 2: L1/L2 or A1/A2
}

type c01asg struct {
	next int
	src  strings.Builder
	log  []string
}

func (a *c01asg) leaf(lit string) string {
	l := a.next
	a.next++
	return fmt.Sprintf("vh.v(%d, %s)", l, lit)
}

// render a target; returns the source text and a function that appends to the model
// log what evaluating+storing into the target logs when value v is stored.
func (a *c01asg) target(t c01target, key int) (string, func(val string)) {
	switch t.kind {
	case "name":
		return t.name, func(string) {}
	case "sub":
		l1 := a.next
		s := a.leaf(fmt.Sprintf("L%d", t.obj)) + "[" + a.leaf(itoa(key)) + "]"
		return s, func(val string) {
			a.log = append(a.log, itoa(l1), itoa(l1+1), fmt.Sprintf("('set',%d,%d,%s)", t.obj, key, val))
		}
	case "attr":
		l1 := a.next
		s := a.leaf(fmt.Sprintf("A%d", t.obj)) + ".x"
		return s, func(val string) {
			a.log = append(a.log, itoa(l1), fmt.Sprintf("('setattr',%d,'x',%s)", t.obj, val))
		}
	case "slice":
		l1 := a.next
		s := a.leaf(fmt.Sprintf("L%d", t.obj)) + "[" + a.leaf("0") + ":" + a.leaf(itoa(key)) + "]"
		return s, func(val string) {
			a.log = append(a.log, itoa(l1), itoa(l1+1), itoa(l1+2), fmt.Sprintf("('set',%d,('slice',0,%d,None),%s)", t.obj, key, val))
		}
	}
	panic("bad target")
}

func c01Targets() []c01target {
	return []c01target{{"name", "x", 0}, {"sub", "", 1}, {"attr", "", 1}, {"slice", "", 1}}
}

func c01Assign(c *c01) {
	rc := c.rc
	rc.Part = "assign"
	tk := c01Targets()
	check := func(kind string, src string, log []string, names map[string]string, expExc string) {
		if !rc.Take() {
			return
		}
		fields := core.Fields{"part": "assign", "form": kind, "src": src}
		rc.Guard(fields, func() string { return src }, func() {
			_, g, got, err := c.run(src, py.ExecMode)
			gotExc := ""
			if err != nil {
				gotExc, _, _, _ = harness.ExcInfo(err)
			}
			ok := strings.Join(got, ",") == strings.Join(log, ",") && gotExc == expExc
			obsNames := ""
			if ok && err == nil {
				for n, v := range names {
					o, present := g[n]
					if !present || harness.Canon(o) != v {
						ok = false
						obsNames += fmt.Sprintf(" %s=%s", n, canonOrMissing(o))
					}
				}
			}
			rc.Eval("assign:"+kind, src)
			if rc.WantSample() && rc.Index()%97 == 0 {
				rc.Sample(map[string]string{"program": src, "expected_log": strings.Join(log, ",")})
			}
			if !ok {
				cls := "wrong-order-or-count"
				if gotExc != expExc {
					cls = "wrong-exception:" + orDash(gotExc) + "-for-" + orDash(expExc)
				} else if obsNames != "" {
					cls = "wrong-value-stored"
				}
				rc.Deviate(core.Deviation{Fields: fields, Input: src, Expected: "log=[" + strings.Join(log, ",") + "] exc=" + orDash(expExc) + fmt.Sprint(names),
					Observed: "log=[" + strings.Join(got, ",") + "] exc=" + orDash(gotExc) + obsNames, Sig: "assign-" + kind + ":" + cls})
			}
		})
	}
	// S1: T = R   and   S2: T1 = T2 = R
	for _, t1 := range tk {
		a := &c01asg{}
		ts, st := a.target(t1, 3)
		r := a.leaf("5")
		// textual order: target first, but evaluation: rhs first
		a.log = append(a.log, itoa(a.next-1))
		st("5")
		names := map[string]string{}
		if t1.kind == "name" {
			names["x"] = "5"
		}
		check("simple", ts+" = "+r+"\n", a.log, names, "")
		for _, t2 := range tk {
			b := &c01asg{}
			t2c := t2
			if t2c.kind == "name" {
				t2c.name = "y"
			} else {
				t2c.obj = 2
			}
			s1, st1 := b.target(t1, 3)
			s2, st2 := b.target(t2c, 4)
			r := b.leaf("5")
			b.log = append(b.log, itoa(b.next-1))
			st1("5")
			st2("5")
			names := map[string]string{}
			if t1.kind == "name" {
				names["x"] = "5"
			}
			if t2c.kind == "name" {
				names["y"] = "5"
			}
			check("chained", s1+" = "+s2+" = "+r+"\n", b.log, names, "")
			// S3: T1, T2 = R1, R2
			d := &c01asg{}
			u1, su1 := d.target(t1, 3)
			u2, su2 := d.target(t2c, 4)
			r1 := d.leaf("5")
			r2 := d.leaf("6")
			d.log = append(d.log, itoa(d.next-2), itoa(d.next-1))
			if t1.kind == "slice" || t2c.kind == "slice" {
				// storing a non-iterable into a slice of L is fine for the logging container
			}
			su1("5")
			su2("6")
			names = map[string]string{}
			if t1.kind == "name" {
				names["x"] = "5"
			}
			if t2c.kind == "name" {
				names["y"] = "6"
			}
			check("tuple", u1+", "+u2+" = "+r1+", "+r2+"\n", d.log, names, "")
			// unpacking from one iterable operand, with a length mismatch variant
			e := &c01asg{}
			w1, sw1 := e.target(t1, 3)
			w2, sw2 := e.target(t2c, 4)
			rr := e.leaf("(5, 6)")
			e.log = append(e.log, itoa(e.next-1))
			sw1("5")
			sw2("6")
			check("unpack", "["+w1+", "+w2+"] = "+rr+"\n", e.log, names, "")
			f := &c01asg{}
			z1, _ := f.target(t1, 3)
			z2, _ := f.target(t2c, 4)
			r3 := f.leaf("(5, 6, 7)")
			f.log = append(f.log, itoa(f.next-1)) // rhs evaluated, unpack fails before any target is touched
			check("unpack-mismatch", z1+", "+z2+" = "+r3+"\n", f.log, map[string]string{}, "ValueError")
		}
		// starred target
		g := &c01asg{}
		ts2, st2 := g.target(t1, 3)
		r4 := g.leaf("(5, 6, 7)")
		g.log = append(g.log, itoa(g.next-1))
		st2("5")
		names2 := map[string]string{"rest": "[6,7]"}
		if t1.kind == "name" {
			names2["x"] = "5"
		}
		check("starred", ts2+", *rest = "+r4+"\n", g.log, names2, "")
	}
	// S4: augmented assignment, all 12 operators on every target kind
	for _, op := range c01BinAll {
		for _, rv := range []int64{0, 1, 2, 3} {
			for _, t := range tk {
				a := &c01asg{}
				var src string
				cur := vInt(10)
				switch t.kind {
				case "name":
					src = "x = 10\n"
				}
				var ts string
				var l1 int
				switch t.kind {
				case "name":
					ts = "x"
				case "sub":
					l1 = a.next
					ts = a.leaf("L1") + "[" + a.leaf("3") + "]"
					a.log = append(a.log, itoa(l1), itoa(l1+1), "('get',1,3)")
				case "attr":
					l1 = a.next
					ts = a.leaf("A1") + ".x"
					a.log = append(a.log, itoa(l1))
				case "slice":
					l1 = a.next
					ts = a.leaf("L1") + "[" + a.leaf("0") + ":" + a.leaf("2") + "]"
					a.log = append(a.log, itoa(l1), itoa(l1+1), itoa(l1+2), "('get',1,('slice',0,2,None))")
				}
				r := a.leaf(itoa(int(rv)))
				a.log = append(a.log, itoa(a.next-1))
				res, err := mBinary(op, cur, vInt(rv))
				if err == errUnknown {
					continue
				}
				expExc := ""
				names := map[string]string{}
				if err != nil {
					expExc = err.(*pyExc).typ
				} else {
					switch t.kind {
					case "name":
						names["x"] = res.Canon()
					case "sub":
						a.log = append(a.log, fmt.Sprintf("('set',1,3,%s)", res.Canon()))
					case "attr":
						a.log = append(a.log, fmt.Sprintf("('setattr',1,'x',%s)", res.Canon()))
					case "slice":
						a.log = append(a.log, fmt.Sprintf("('set',1,('slice',0,2,None),%s)", res.Canon()))
					}
				}
				check("aug", src+ts+" "+op+"= "+r+"\n", a.log, names, expExc)
			}
		}
	}
	// S5: target op= value on the built-in mutable types runs their in-place method, which
	// changes the one object every alias shares; a plain binary operator never does, and an
	// augmented assignment to an immutable value rebinds the target only
	for _, t := range []struct{ init, alias, stmt string }{
		{"x = [1]", "y = x", "x"}, {"c = [[1]]", "y = c[0]", "c[vh.v(0, 0)]"}, {"O.b = [1]", "y = O.b", "O.b"},
	} {
		pre := []string{}
		if strings.Contains(t.stmt, "vh.v(0") {
			pre = []string{"0"}
		}
		n := itoa(len(pre))
		lg := append(append([]string{}, pre...), n)
		check("aug-alias", t.init+"\n"+t.alias+"\n"+t.stmt+" += vh.v("+n+", [2])\n", lg, map[string]string{"y": "[1,2]"}, "")
		check("aug-alias", t.init+"\n"+t.alias+"\n"+t.stmt+" *= vh.v("+n+", 2)\n", lg, map[string]string{"y": "[1,1]"}, "")
		check("aug-alias", t.init+"\n"+t.alias+"\nz = "+t.stmt+" + vh.v("+n+", [2])\n", lg, map[string]string{"y": "[1]", "z": "[1,2]"}, "")
		check("aug-alias", t.init+"\n"+t.alias+"\nz = "+t.stmt+" * vh.v("+n+", 2)\n", lg, map[string]string{"y": "[1]", "z": "[1,1]"}, "")
	}
	// a binary operator builds a new object even when one operand is empty
	for _, e := range []struct{ src, z string }{
		{"z = x + vh.v(0, [])", "[1,5]"}, {"z = vh.v(0, []) + x", "[1,5]"}, {"z = x * vh.v(0, 1)", "[1,5]"}, {"z = vh.v(0, 1) * x", "[1,5]"}, {"z = x[vh.v(0, 0):]", "[1,5]"},
		{"z = x + vh.v(0, [])\nz = z + []", "[1,5]"},
	} {
		check("aug-alias", "x = [1]\n"+e.src+"\nz += [5]\n", []string{"0"}, map[string]string{"x": "[1]", "z": e.z}, "")
	}
	check("aug-alias", "s = {1}\nz = s | vh.v(0, set())\nz |= {5}\n", []string{"0"}, map[string]string{"s": "set{1}", "z": "set{1,5}"}, "")
	check("aug-alias", "x = (1,)\ny = x\nx += vh.v(0, (2,))\n", []string{"0"}, map[string]string{"x": "(1,2)", "y": "(1)"}, "")
	check("aug-alias", "x = (1, 2, 3)[:1]\ny = x\nx += vh.v(0, (2,))\nw = y\n", []string{"0"}, map[string]string{"x": "(1,2)", "w": "(1)"}, "")
	for _, so := range []struct{ op, res string }{{"|", "set{1,2,3}"}, {"&", "set{2}"}, {"-", "set{1}"}, {"^", "set{1,3}"}} {
		check("aug-alias", "s = {1, 2}\nt = s\ns "+so.op+"= vh.v(0, {2, 3})\n", []string{"0"}, map[string]string{"t": so.res, "s": so.res}, "")
		check("aug-alias", "s = {1, 2}\nt = s\nu = s "+so.op+" vh.v(0, {2, 3})\n", []string{"0"}, map[string]string{"t": "set{1,2}", "u": so.res}, "")
	}
	check("aug-alias", "s = b'a'\nt = s\ns += vh.v(0, b'b')\n", []string{"0"}, map[string]string{"s": "b\"ab\"", "t": "b\"a\""}, "")
	check("aug-alias", "s = bytes(iter([97, 98, 99]))\nt = s\nt += b'x'\nu = s\nu += vh.v(0, b'y')\n", []string{"0"}, map[string]string{"s": "b\"abc\"", "t": "b\"abcx\"", "u": "b\"abcy\""}, "")
	check("aug-alias", "s = tuple(iter([1, 2, 3]))\nt = s\nt += (7,)\nu = s\nu += vh.v(0, (8,))\n", []string{"0"}, map[string]string{"s": "(1,2,3)", "t": "(1,2,3,7)", "u": "(1,2,3,8)"}, "")
	check("aug-alias", "s = 'a'\nt = s\ns += vh.v(0, 'b')\n", []string{"0"}, map[string]string{"s": "'ab'", "t": "'a'"}, "")
	// S6: operators applied to instances of Python classes run the class's special method,
	// once, after the operands: binary, reflected, in-place (falling back to binary),
	// comparison and unary operators
	proto := func(src string, log []string, name, val string) {
		if !rc.Take() {
			return
		}
		fields := core.Fields{"part": "assign", "form": "operator-protocol", "src": src}
		rc.Guard(fields, func() string { return src }, func() {
			_, g, got, err := c.run(src, py.ExecMode)
			rc.Eval("assign:operator-protocol", src)
			exp := "log=[" + strings.Join(log, ",") + "] " + name + "=" + val
			obs := "log=[" + strings.Join(got, ",") + "]"
			if err != nil {
				t, _, _, _ := harness.ExcInfo(err)
				obs += " exc=" + t
				// the operands were evaluated and then the operator did not find the method
				sig := "operator-protocol:wrong-dispatch"
				if t == "TypeError" && strings.Join(got, ",") == strings.Join(log[:len(log)-1], ",") {
					sig = "operator-protocol:not-dispatched"
				}
				rc.Deviate(core.Deviation{Fields: fields, Input: src, Expected: exp, Observed: obs, Sig: sig})
				return
			}
			obs += " " + name + "=" + canonOrMissing(g[name])
			if obs != exp {
				sig := "operator-protocol:wrong-dispatch"
				if strings.Join(got, ",") == strings.Join(log[:len(log)-1], ",") {
					sig = "operator-protocol:not-dispatched" // a value was produced without running the method
				}
				rc.Deviate(core.Deviation{Fields: fields, Input: src, Expected: exp, Observed: obs, Sig: sig})
			}
		})
	}
	for _, op := range c01BinAll {
		lg := func(kind, v string) string { return "('" + kind + "','" + op + "'," + v + ")" }
		proto("r = BP() "+op+" vh.v(0, 1)\n", []string{"0", lg("bin", "1")}, "r", "100")
		proto("r = vh.v(0, 5) "+op+" RP()\n", []string{"0", lg("rbin", "5")}, "r", "300")
		proto("r = IP() "+op+" vh.v(0, 1)\n", []string{"0", lg("bin", "1")}, "r", "100")
		proto("x = IP()\nx "+op+"= vh.v(0, 1)\n", []string{"0", lg("inplace", "1")}, "x", "200")
		proto("x = BP()\nx "+op+"= vh.v(0, 1)\n", []string{"0", lg("bin", "1")}, "x", "100")
		proto("x = 5\nx "+op+"= vh.v(0, RP())\n", []string{"0", lg("rbin", "5")}, "x", "300")
	}
	for _, op := range []string{"<", "<=", "==", "!=", ">", ">="} {
		proto("r = CP() "+op+" vh.v(0, 1)\n", []string{"0", "('cmp','" + op + "',1)"}, "r", "400")
	}
	for _, op := range []string{"-", "+", "~"} {
		proto("r = "+op+"vh.v(0, UP())\n", []string{"0", "('un','" + op + "')"}, "r", "500")
	}
	// decorated definitions: decorators (top to bottom), then defaults, keyword-only defaults
	// and annotations are evaluated at definition time, in that order; then the decorators
	// are applied bottom-up
	for _, ndec := range []int{1, 2} {
		for _, shape := range []string{"plain", "default", "kwdefault", "both", "annotation", "class"} {
			a := &c01asg{}
			var decs, log []string
			for i := 0; i < ndec; i++ {
				l := a.next
				decs = append(decs, "@"+a.leaf("D"))
				log = append(log, itoa(l))
			}
			var src string
			ret := "return (p, k)"
			switch shape {
			case "plain":
				src = strings.Join(decs, "\n") + "\ndef g(p=5, *, k=6):\n    " + ret + "\n"
			case "default":
				l := a.next
				src = strings.Join(decs, "\n") + "\ndef g(p=" + a.leaf("5") + ", *, k=6):\n    " + ret + "\n"
				log = append(log, itoa(l))
			case "kwdefault":
				l := a.next
				src = strings.Join(decs, "\n") + "\ndef g(p=5, *, k=" + a.leaf("6") + "):\n    " + ret + "\n"
				log = append(log, itoa(l))
			case "both":
				l := a.next
				src = strings.Join(decs, "\n") + "\ndef g(p=" + a.leaf("5") + ", *, k=" + a.leaf("6") + "):\n    " + ret + "\n"
				log = append(log, itoa(l), itoa(l+1))
			case "annotation":
				l := a.next
				src = strings.Join(decs, "\n") + "\ndef g(p: " + a.leaf("1") + " = " + a.leaf("5") + ", *, k=6) -> " + a.leaf("2") + ":\n    " + ret + "\n"
				// defaults first, then annotations
				log = append(log, itoa(l+1), itoa(l), itoa(l+2))
			case "class":
				l := a.next
				src = strings.Join(decs, "\n") + "\nclass g(" + a.leaf("object") + "):\n    pass\n"
				log = append(log, itoa(l))
			}
			for i := ndec - 1; i >= 0; i-- {
				log = append(log, fmt.Sprintf("('dec',%d)", i))
			}
			names := map[string]string{}
			prog := "def D(f):\n    vh.log(('dec', DN[0]))\n    DN[0] = DN[0] - 1\n    return f\nDN = [" + itoa(ndec-1) + "]\n" + src
			if shape != "class" {
				prog += "r = g()\n"
				names["r"] = "(5,6)"
			}
			check("decorated-"+shape, prog, log, names, "")
		}
	}
	// deletion targets: evaluated left to right
	{
		a := &c01asg{}
		l1 := a.next
		s1 := a.leaf("L1") + "[" + a.leaf("3") + "]"
		l2 := a.next
		s2 := a.leaf("L2") + "[" + a.leaf("4") + "]"
		log := []string{itoa(l1), itoa(l1 + 1), "('del',1,3)", itoa(l2), itoa(l2 + 1), "('del',2,4)"}
		check("del", "del "+s1+", "+s2+"\n", log, map[string]string{}, "")
	}
}

func canonOrMissing(o py.Object) string {
	if o == nil {
		return "<unbound>"
	}
	return harness.Canon(o)
}

// ---- (3) precedence and associativity ----

// refParser is a recursive-descent parser written from the Python 3.4 grammar
// (or_test ... power) over a flat token list; it is the model of the grouping.
type rtok struct {
	op   string // operator text, or "" for an operand
	leaf *enode
}

type refParser struct {
	toks []rtok
	pos  int
	bad  bool
}

func (p *refParser) peek() string {
	if p.pos < len(p.toks) && p.toks[p.pos].leaf == nil {
		return p.toks[p.pos].op
	}
	return ""
}

func (p *refParser) isOp(ops ...string) bool {
	if p.pos >= len(p.toks) || p.toks[p.pos].leaf != nil {
		return false
	}
	for _, o := range ops {
		if p.toks[p.pos].op == o {
			return true
		}
	}
	return false
}

func (p *refParser) orTest() *enode {
	left := p.andTest()
	if p.isOp("or") {
		n := &enode{kind: "bool", op: "or", kids: []*enode{left}}
		for p.isOp("or") {
			p.pos++
			n.kids = append(n.kids, p.andTest())
		}
		return n
	}
	return left
}

func (p *refParser) andTest() *enode {
	left := p.notTest()
	if p.isOp("and") {
		n := &enode{kind: "bool", op: "and", kids: []*enode{left}}
		for p.isOp("and") {
			p.pos++
			n.kids = append(n.kids, p.notTest())
		}
		return n
	}
	return left
}

func (p *refParser) notTest() *enode {
	if p.isOp("not") {
		p.pos++
		return &enode{kind: "un", op: "not", kids: []*enode{p.notTest()}}
	}
	return p.comparison()
}

func (p *refParser) comparison() *enode {
	left := p.binLevel(0)
	if p.isOp("<", "<=", "==", "!=", ">", ">=", "in", "not in", "is", "is not") {
		n := &enode{kind: "cmp", kids: []*enode{left}}
		for p.isOp("<", "<=", "==", "!=", ">", ">=", "in", "not in", "is", "is not") {
			n.ops = append(n.ops, p.toks[p.pos].op)
			p.pos++
			n.kids = append(n.kids, p.binLevel(0))
		}
		return n
	}
	return left
}

var refLevels = [][]string{{"|"}, {"^"}, {"&"}, {"<<", ">>"}, {"+", "-"}, {"*", "/", "%", "//"}}

// binLevel parses the left-associative binary levels expr .. term
func (p *refParser) binLevel(l int) *enode {
	if l == len(refLevels) {
		return p.factor()
	}
	left := p.binLevel(l + 1)
	for p.isOp(refLevels[l]...) {
		op := p.toks[p.pos].op
		p.pos++
		right := p.binLevel(l + 1)
		left = &enode{kind: "bin", op: op, kids: []*enode{left, right}}
	}
	return left
}

func (p *refParser) factor() *enode {
	if p.isOp("+", "-", "~") {
		op := p.toks[p.pos].op
		p.pos++
		return &enode{kind: "un", op: op, kids: []*enode{p.factor()}}
	}
	return p.power()
}

func (p *refParser) power() *enode {
	if p.pos >= len(p.toks) || p.toks[p.pos].leaf == nil {
		p.bad = true
		if p.pos < len(p.toks) {
			p.pos++
		}
		return &enode{kind: "leaf", val: vNone}
	}
	atom := p.toks[p.pos].leaf
	p.pos++
	if p.isOp("**") {
		p.pos++
		return &enode{kind: "bin", op: "**", kids: []*enode{atom, p.factor()}}
	}
	return atom
}

// parse returns nil if the token list is not an expression of the grammar.
func (p *refParser) parse() *enode {
	t := p.orTest()
	if p.bad || p.pos != len(p.toks) {
		return nil
	}
	return t
}

func c01Precedence(c *c01) {
	rc := c.rc
	rc.Part = "precedence"
	binToks := []string{"or", "and", "<", "==", "!=", ">=", "in", "is", "|", "^", "&", "<<", ">>", "+", "-", "*", "/", "//", "%", "**"}
	preToks := [][]string{nil, {"-"}, {"~"}, {"not"}, {"-", "-"}, {"not", "not"}, {"-", "~"}}
	vals := []int64{0, 1, 2}
	try := func(ops []string, pre [][]string) {
		n := len(ops) + 1
		for i, o := range ops {
			// `a is not b` / `a not in b` are single operators, not a prefix on the operand
			if (o == "is" || o == "in") && len(pre[i+1]) > 0 && pre[i+1][0] == "not" {
				return
			}
		}
		// all value assignments
		total := 1
		for i := 0; i < n; i++ {
			total *= len(vals)
		}
		for a := 0; a < total; a++ {
			if rc.Expired() || rc.Done() {
				return
			}
			if !rc.Take() {
				continue
			}
			vs := make([]V, n)
			x := a
			for i := 0; i < n; i++ {
				v := vals[x%len(vals)]
				x /= len(vals)
				vs[i] = vInt(v)
				// `in` needs a container on its right
			}
			// render flat text and build the reference tree
			leaves := make([]*enode, n)
			var sb strings.Builder
			for i := 0; i < n; i++ {
				val := vs[i]
				if i > 0 && (ops[i-1] == "in" || ops[i-1] == "not in") {
					val = vTuple(vInt(0), vs[i])
				}
				leaves[i] = &enode{kind: "leaf", val: val, label: i}
				if i > 0 {
					sb.WriteString(" " + ops[i-1] + " ")
				}
				for _, u := range pre[i] {
					if u == "not" {
						sb.WriteString("not ")
					} else {
						sb.WriteString(u)
					}
				}
				sb.WriteString(fmt.Sprintf("vh.v(%d, %s)", i, val.Lit()))
			}
			src := sb.String()
			var toks []rtok
			for i := 0; i < n; i++ {
				if i > 0 {
					toks = append(toks, rtok{op: ops[i-1]})
				}
				for _, u := range pre[i] {
					toks = append(toks, rtok{op: u})
				}
				toks = append(toks, rtok{leaf: leaves[i]})
			}
			tree := (&refParser{toks: toks}).parse()
			fields := core.Fields{"part": "precedence", "ops": strings.Join(ops, " "), "pre": fmt.Sprint(pre), "expr": src}
			rc.Guard(fields, func() string { return src }, func() {
				ec := &evalCtx{}
				var exp Res
				if tree == nil {
					exp = excRes("SyntaxError") // e.g. `a + not b`: not a production of the grammar
				} else {
					v, err := tree.eval(ec)
					if err == errUnknown {
						rc.Count("outside_model", 1)
						return
					}
					if err != nil {
						exp = excRes(err.(*pyExc).typ)
					} else {
						exp = valRes(canonModel(v))
					}
				}
				obj, _, log, rerr := c.run(src, py.EvalMode)
				got := observe(obj, rerr)
				rc.Eval("precedence:"+outcomeClass2(exp), src)
				if rc.WantSample() && rc.Index()%5003 == 0 {
					rc.Sample(map[string]string{"expr": src, "expected": exp.String(), "expected_log": strings.Join(ec.log, ",")})
				}
				if !got.matches(exp) || strings.Join(log, ",") != strings.Join(ec.log, ",") {
					cls := "wrong-grouping-or-value"
					if strings.Join(log, ",") != strings.Join(ec.log, ",") {
						cls = "wrong-evaluation-order-or-count"
					}
					rc.Deviate(core.Deviation{Fields: fields, Input: src, Expected: "log=[" + strings.Join(ec.log, ",") + "] " + exp.String(),
						Observed: "log=[" + strings.Join(log, ",") + "] " + got.String(), Sig: "precedence:" + cls + excSuffix(exp, got)})
				}
			})
		}
	}
	none := func(n int) [][]string { return make([][]string, n) }
	// all ordered pairs of binary operator tokens
	for _, o1 := range binToks {
		for _, o2 := range binToks {
			try([]string{o1, o2}, none(3))
		}
	}
	// unary prefixes against every binary operator, prefix on the first or on the second operand
	for _, pt := range preToks[1:] {
		for _, o := range binToks {
			try([]string{o}, [][]string{pt, nil})
			try([]string{o}, [][]string{nil, pt})
			for _, o2 := range []string{"**", "+", "==", "and"} {
				try([]string{o, o2}, [][]string{pt, nil, nil})
				try([]string{o, o2}, [][]string{nil, pt, nil})
			}
		}
	}
	if !rc.Quick() {
		// all ordered triples
		for _, o1 := range binToks {
			for _, o2 := range binToks {
				for _, o3 := range binToks {
					try([]string{o1, o2, o3}, none(4))
				}
			}
		}
	}
}

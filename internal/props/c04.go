package props

import (
	"os"
	"regexp"
	"sort"
	"strings"

	"github.com/go-python/gpython/py"
	"verif/internal/core"
	"verif/internal/harness"
)

// C04: call arguments bind to parameters exactly as Python's algorithm says, for Python
// functions (part "py") and for callables implemented in Go (part "go").

// ---------------------------------------------------------------------------------
// Alphabet: signatures

// c04Sig is `def f(p1[, p2][=..], [*a | *], [k1[=..]][, k2[=..]], [**k])`.
type c04Sig struct {
	npos  int    // positional parameters p1..p<npos>
	ndef  int    // the last ndef of them have a default
	star  bool   // *a
	kwo   []bool // keyword-only parameters k1.. ; true = has a default
	dstar bool   // **k
}

var c04PosNames = []string{"p1", "p2"}
var c04KwoNames = []string{"k1", "k2"}

// default values: p1 -> 51, p2 -> 52, k1 -> 53, k2 -> 54
func c04PosDefault(i int) int { return 51 + i }
func c04KwoDefault(i int) int { return 53 + i }

func (s c04Sig) params(withValues bool) []string {
	var ps []string
	for i := 0; i < s.npos; i++ {
		p := c04PosNames[i]
		if i >= s.npos-s.ndef {
			p += "="
			if withValues {
				p += itoa(c04PosDefault(i))
			}
		}
		ps = append(ps, p)
	}
	if s.star {
		ps = append(ps, "*a")
	} else if len(s.kwo) > 0 {
		ps = append(ps, "*")
	}
	for i, d := range s.kwo {
		p := c04KwoNames[i]
		if d {
			p += "="
			if withValues {
				p += itoa(c04KwoDefault(i))
			}
		}
		ps = append(ps, p)
	}
	if s.dstar {
		ps = append(ps, "**k")
	}
	return ps
}

// key is the compact field form, e.g. "p1,p2=,*a,k1,k2=,**k".
func (s c04Sig) key() string { return strings.Join(s.params(false), ",") }

// retList: the names the function returns, in parameter order.
func (s c04Sig) retList() []string {
	var rs []string
	for i := 0; i < s.npos; i++ {
		rs = append(rs, c04PosNames[i])
	}
	if s.star {
		rs = append(rs, "a")
	}
	for i := range s.kwo {
		rs = append(rs, c04KwoNames[i])
	}
	if s.dstar {
		rs = append(rs, "k")
	}
	return rs
}

func c04TupleSrc(rs []string) string {
	ret := "(" + strings.Join(rs, ", ")
	if len(rs) == 1 {
		ret += ","
	}
	return ret + ")"
}

// def is the Python source of the definition in one of three forms; the callable
// returns every parameter in a tuple. form: "def" (callee f), "lambda" (callee f),
// "method" (callee o.f; the tuple starts with `self is o`).
func (s c04Sig) def(form string) string {
	switch form {
	case "lambda":
		ps := strings.Join(s.params(true), ", ")
		if ps != "" {
			ps = " " + ps
		}
		return "f = lambda" + ps + ": " + c04TupleSrc(s.retList()) + "\n"
	case "method":
		ps := append([]string{"self"}, s.params(true)...)
		rs := append([]string{"self is o"}, s.retList()...)
		return "class C:\n    def f(" + strings.Join(ps, ", ") + "): return " + c04TupleSrc(rs) + "\no = C()\n"
	}
	switch form {
	case "locals":
		// the body has local variables named like a keyword the caller may pass (z): they are not
		// parameters, a keyword z still goes to **k or is an error
		return "def f(" + strings.Join(s.params(true), ", ") + "):\n    z = 99\n    y = z\n    return " + c04TupleSrc(s.retList()) + "\n"
	case "starname":
		// the * or ** parameter itself is called z: it cannot be given by keyword either
		d := "def f(" + strings.Join(s.params(true), ", ") + "): return " + c04TupleSrc(s.retList()) + "\n"
		if strings.Contains(d, "*a") {
			return regexp.MustCompile(`\ba\b`).ReplaceAllString(d, "z")
		}
		return regexp.MustCompile(`\bk\b`).ReplaceAllString(d, "z")
	}
	if form == "closure" {
		// every parameter is read from a nested function: the arguments have to reach the cells
		return "def f(" + strings.Join(s.params(true), ", ") + "):\n    def g(): return " + c04TupleSrc(s.retList()) + "\n    return g()\n"
	}
	return "def f(" + strings.Join(s.params(true), ", ") + "): return " + c04TupleSrc(s.retList()) + "\n"
}

func c04Callee(form string) string {
	if form == "method" {
		return "o.f"
	}
	return "f"
}

// c04FormRes adapts the model's result to the form (a method also returns self).
func c04FormRes(form string, r Res) Res {
	if form == "method" && r.Exc == "" {
		if r.Val == "()" {
			return valRes("(True)")
		}
		return valRes("(True," + r.Val[1:])
	}
	return r
}

func (s c04Sig) weight() int {
	w := s.npos*4 + s.ndef + len(s.kwo)*4
	for _, d := range s.kwo {
		if d {
			w++
		}
	}
	if s.star {
		w += 2
	}
	if s.dstar {
		w += 2
	}
	return w
}

// c04Sigs: the full product (168 signatures), simplest first.
func c04Sigs() []c04Sig {
	var out []c04Sig
	kwos := [][]bool{nil, {false}, {true}, {false, false}, {false, true}, {true, false}, {true, true}}
	for npos := 0; npos <= 2; npos++ {
		for ndef := 0; ndef <= npos; ndef++ {
			for _, star := range []bool{false, true} {
				for _, kwo := range kwos {
					for _, dstar := range []bool{false, true} {
						out = append(out, c04Sig{npos, ndef, star, kwo, dstar})
					}
				}
			}
		}
	}
	sort.SliceStable(out, func(i, j int) bool { return out[i].weight() < out[j].weight() })
	return out
}

// ---------------------------------------------------------------------------------
// Alphabet: call shapes

// c04Call is `f(11, .., name=2x, .., *(31, ..), **{'name': 4x, ..})`.
// Every argument carries a distinct value: explicit positional i -> 11+i, keyword
// name j -> 21+j, *seq item i -> 31+i, **map entry for name j -> 41+j.
type c04Call struct {
	npos    int
	kws     []int // indices into the name alphabet, ascending
	seq     int   // -1: no *seq; otherwise its length
	hasMap  bool
	mp      []int // names in the **map
	kwAfter bool  // keywords written after the *seq instead of before it
}

func (c c04Call) weight() int {
	w := c.npos + len(c.kws)
	if c.seq >= 0 {
		w += 1 + c.seq
	}
	if c.hasMap {
		w += 1 + len(c.mp)
	}
	if c.kwAfter {
		w++
	}
	return w
}

func c04NameList(names []string, idx []int) string {
	var xs []string
	for _, i := range idx {
		xs = append(xs, names[i])
	}
	return strings.Join(xs, ",")
}

// key is the compact field form, e.g. "n=2 kw=p1,z seq=1 map=k1".
func (c c04Call) key(names []string) string {
	s := "n=" + itoa(c.npos) + " kw=" + c04NameList(names, c.kws)
	if c.seq >= 0 {
		s += " seq=" + itoa(c.seq)
	} else {
		s += " seq=-"
	}
	if c.hasMap {
		s += " map=" + c04NameList(names, c.mp)
	} else {
		s += " map=-"
	}
	if c.kwAfter {
		s += " kwafter"
	}
	return s
}

// args is the Python source of the argument list.
func (c c04Call) args(names []string) string {
	var xs, ks []string
	for i := 0; i < c.npos; i++ {
		xs = append(xs, itoa(11+i))
	}
	for _, j := range c.kws {
		ks = append(ks, names[j]+"="+itoa(21+j))
	}
	if !c.kwAfter {
		xs = append(xs, ks...)
	}
	if c.seq >= 0 {
		var it []string
		for i := 0; i < c.seq; i++ {
			it = append(it, itoa(31+i))
		}
		t := "(" + strings.Join(it, ", ")
		if c.seq == 1 {
			t += ","
		}
		xs = append(xs, "*"+t+")")
	}
	if c.kwAfter {
		xs = append(xs, ks...)
	}
	if c.hasMap {
		var it []string
		for _, j := range c.mp {
			it = append(it, "'"+names[j]+"': "+itoa(41+j))
		}
		xs = append(xs, "**{"+strings.Join(it, ", ")+"}")
	}
	return strings.Join(xs, ", ")
}

func c04Subsets(n int) [][]int {
	var out [][]int
	for m := 0; m < 1<<uint(n); m++ {
		var s []int
		for i := 0; i < n; i++ {
			if m&(1<<uint(i)) != 0 {
				s = append(s, i)
			}
		}
		out = append(out, s)
	}
	return out
}

// c04Calls: the full product of call shapes, simplest first.
// maxKw bounds the number of names passed as keywords plus names in the **map (-1: none).
func c04Calls(maxPos, nNames int, kwAfterToo bool, maxKw int) []c04Call {
	subs := c04Subsets(nNames)
	var out []c04Call
	for npos := 0; npos <= maxPos; npos++ {
		for _, kws := range subs {
			for seq := -1; seq <= 2; seq++ {
				for mi := -1; mi < len(subs); mi++ {
					c := c04Call{npos: npos, kws: kws, seq: seq}
					if mi >= 0 {
						c.hasMap = true
						c.mp = subs[mi]
					}
					if maxKw >= 0 && len(c.kws)+len(c.mp) > maxKw {
						continue
					}
					out = append(out, c)
					if kwAfterToo && seq >= 0 && len(kws) > 0 {
						c.kwAfter = true
						out = append(out, c)
					}
				}
			}
		}
	}
	sort.SliceStable(out, func(i, j int) bool { return out[i].weight() < out[j].weight() })
	return out
}

// ---------------------------------------------------------------------------------
// Oracle: the call semantics of the language reference ("Calls", 6.3.4), written from
// the text, not from the implementation.

type c04KV struct {
	name string
	val  int
}

// c04Flatten performs the caller's side: *seq items are appended to the positional
// arguments, **map entries are added to the keyword arguments; a name given both as an
// explicit keyword and in the mapping is a TypeError.
func c04Flatten(c c04Call, names []string) (pos []int, kw []c04KV, typeError bool) {
	for i := 0; i < c.npos; i++ {
		pos = append(pos, 11+i)
	}
	for i := 0; i < c.seq; i++ {
		pos = append(pos, 31+i)
	}
	seen := map[string]bool{}
	for _, j := range c.kws {
		kw = append(kw, c04KV{names[j], 21 + j})
		seen[names[j]] = true
	}
	if c.hasMap {
		for _, j := range c.mp {
			if seen[names[j]] {
				return nil, nil, true
			}
			kw = append(kw, c04KV{names[j], 41 + j})
		}
	}
	return pos, kw, false
}

// c04Bind: "a list of unfilled slots is created for the formal parameters ..."
// Returns the canonical form of the tuple the function returns, or TypeError.
func c04Bind(s c04Sig, pos []int, kw []c04KV) Res {
	type slot struct {
		name   string
		filled bool
		val    int
		hasDef bool
		def    int
	}
	var slots []*slot
	for i := 0; i < s.npos; i++ {
		sl := &slot{name: c04PosNames[i]}
		if i >= s.npos-s.ndef {
			sl.hasDef, sl.def = true, c04PosDefault(i)
		}
		slots = append(slots, sl)
	}
	for i, d := range s.kwo {
		sl := &slot{name: c04KwoNames[i]}
		if d {
			sl.hasDef, sl.def = true, c04KwoDefault(i)
		}
		slots = append(slots, sl)
	}
	// positional arguments fill the first N (positional) slots
	var extraPos []int
	for i, v := range pos {
		if i < s.npos {
			slots[i].filled, slots[i].val = true, v
		} else {
			extraPos = append(extraPos, v)
		}
	}
	// more positional arguments than positional slots: *a receives them, else TypeError
	if len(extraPos) > 0 && !s.star {
		return excRes("TypeError")
	}
	// keyword arguments: the identifier determines the slot; already filled -> TypeError;
	// no such parameter: **k receives it, else TypeError
	var extraKw []c04KV
	for _, a := range kw {
		var hit *slot
		for _, sl := range slots {
			if sl.name == a.name {
				hit = sl
			}
		}
		if hit == nil {
			if !s.dstar {
				return excRes("TypeError")
			}
			extraKw = append(extraKw, a)
			continue
		}
		if hit.filled {
			return excRes("TypeError")
		}
		hit.filled, hit.val = true, a.val
	}
	// unfilled slots take the default; no default -> TypeError
	for _, sl := range slots {
		if !sl.filled {
			if !sl.hasDef {
				return excRes("TypeError")
			}
			sl.filled, sl.val = true, sl.def
		}
	}
	// the returned tuple (p.., a, k.., k)
	var parts []string
	for i := 0; i < s.npos; i++ {
		parts = append(parts, itoa(slots[i].val))
	}
	if s.star {
		var xs []string
		for _, v := range extraPos {
			xs = append(xs, itoa(v))
		}
		parts = append(parts, "("+strings.Join(xs, ",")+")")
	}
	for i := range s.kwo {
		parts = append(parts, itoa(slots[s.npos+i].val))
	}
	if s.dstar {
		parts = append(parts, c04DictStr(extraKw))
	}
	return valRes("(" + strings.Join(parts, ",") + ")")
}

func c04DictStr(kv []c04KV) string {
	kv = append([]c04KV(nil), kv...)
	sort.Slice(kv, func(i, j int) bool { return kv[i].name < kv[j].name })
	var xs []string
	for _, a := range kv {
		xs = append(xs, "'"+a.name+"':"+itoa(a.val))
	}
	return "{" + strings.Join(xs, ",") + "}"
}

// ---------------------------------------------------------------------------------
// Go callables (the embedding boundary)

// c04Rec is what a Go callable saw.
type c04Rec struct {
	calls  int
	name   string
	self   py.Object
	args   py.Tuple
	kwargs py.StringDict
	hasKw  bool // the Go signature has a kwargs parameter
}

var c04Seen c04Rec

func c04Record(name string, self py.Object, args py.Tuple, kwargs py.StringDict, hasKw bool) (py.Object, error) {
	c04Seen.calls++
	c04Seen.name = name
	c04Seen.self = self
	c04Seen.args = append(py.Tuple(nil), args...)
	c04Seen.kwargs = kwargs.Copy()
	c04Seen.hasKw = hasKw
	return py.String("ret:" + name), nil
}

// the four Go signatures accepted by py.NewMethod
var c04GoSigs = []string{"va", "kw", "na", "o1"}

func c04Methods(prefix string) []*py.Method {
	return []*py.Method{
		py.MustNewMethod("va", func(self py.Object, args py.Tuple) (py.Object, error) {
			return c04Record(prefix+"va", self, args, nil, false)
		}, 0, ""),
		py.MustNewMethod("kw", func(self py.Object, args py.Tuple, kwargs py.StringDict) (py.Object, error) {
			return c04Record(prefix+"kw", self, args, kwargs, true)
		}, 0, ""),
		py.MustNewMethod("na", func(self py.Object) (py.Object, error) {
			return c04Record(prefix+"na", self, nil, nil, false)
		}, 0, ""),
		py.MustNewMethod("o1", func(self py.Object, arg py.Object) (py.Object, error) {
			return c04Record(prefix+"o1", self, py.Tuple{arg}, nil, false)
		}, 0, ""),
	}
}

// C04T: a type defined in Go whose methods live in the type's dictionary.
var c04Type = py.NewType("C04T", "type defined in Go for the C04 check")

type c04Obj struct{ tag string }

func (o *c04Obj) Type() *py.Type { return c04Type }

func init() {
	py.RegisterModule(&py.ModuleImpl{
		Info:    py.ModuleInfo{Name: "c04m", Doc: "C04 Go callables"},
		Methods: c04Methods("m."),
		Globals: py.StringDict{},
	})
	for _, m := range c04Methods("T.") {
		c04Type.Dict[m.Name] = m
	}
}

// c04GoExpect: what the Go callable must see. recv is the class of the receiver
// ("module" / "inst"); pos and kw are the flattened arguments after the receiver was
// taken off (pos in canonical form).
func c04GoExpect(gosig, recv string, pos []string, kw []c04KV) string {
	argsS := "(" + strings.Join(pos, ",") + ")"
	switch gosig {
	case "va":
		if len(kw) > 0 {
			return "raises TypeError calls=0"
		}
	case "kw":
	case "na":
		if len(kw) > 0 || len(pos) != 0 {
			return "raises TypeError calls=0"
		}
	case "o1":
		if len(kw) > 0 || len(pos) != 1 {
			return "raises TypeError calls=0"
		}
	}
	kwS := "{}"
	if gosig == "kw" {
		kwS = c04DictStr(kw)
	}
	return "calls=1 self=" + recv + " args=" + argsS + " kw=" + kwS
}

func c04Itoas(xs []int) []string {
	var out []string
	for _, v := range xs {
		out = append(out, itoa(v))
	}
	return out
}

// ---------------------------------------------------------------------------------

type c04Code struct {
	code *py.Code
	err  error
}

type c04 struct {
	codes map[string]c04Code
	rc    *core.RunCtx
	ev    *evaluator
	mod   *py.Module // instance of c04m in the evaluator's context
	inst  *c04Obj
}

func (c *c04) globals() py.StringDict {
	return py.StringDict{"vh": c.ev.vh, "__builtins__": c.ev.ctx.Store().Builtins,
		"m": c.mod, "t": c.inst, "T": c04Type}
}

// compile caches code objects by source text: the definition (one per signature and
// form) and the call statement (one per call shape and callee) are compiled once per
// worker and executed for every pair.
func (c *c04) compile(src string) (*py.Code, error) {
	if e, ok := c.codes[src]; ok {
		return e.code, e.err
	}
	code, err := py.Compile(src, "<c04>", py.ExecMode, 0, true)
	e := c04Code{err: err}
	if err == nil {
		e.code = code
	}
	c.codes[src] = e
	return e.code, e.err
}

// run executes the program `def` + `call` (two statements of one module: both code
// objects run in the same fresh globals); the result is the canonical form of the
// global `r` or the exception type (compile errors are prefixed).
func (c *c04) run(def, call string) Res {
	g := c.globals()
	for _, src := range []string{def, call} {
		if src == "" {
			continue
		}
		code, err := c.compile(src)
		if err != nil {
			t, _, _, _ := harness.ExcInfo(err)
			return Res{Exc: "compile:" + t}
		}
		_, err = c.ev.ctx.RunCode(code, g, g, nil)
		if err != nil {
			return observe(nil, err)
		}
	}
	r, ok := g["r"]
	if !ok {
		return Res{Val: "<no r>"}
	}
	return Res{Val: harness.Canon(r)}
}

// c04DevLog (developer aid): with C04_DEVLOG=<file> every deviation is appended to the
// file as one JSON line, known findings included.
func c04DevLog(d core.Deviation) {
	p := os.Getenv("C04_DEVLOG")
	if p == "" {
		return
	}
	f, err := os.OpenFile(p, os.O_APPEND|os.O_CREATE|os.O_WRONLY, 0o644)
	if err != nil {
		return
	}
	f.WriteString(core.MustJSON(d) + "\n")
	f.Close()
}

func (c *c04) deviate(d core.Deviation) {
	c04DevLog(d)
	c.rc.Deviate(d)
}

// c04PyDump (developer aid): with C04_PYDUMP=<prefix> every source case of the Python
// parts is written with the model's expectation to <prefix>.<pid>, to cross-check the
// model against CPython (scripts in REPORT-C04.md).
var c04PyDumpFile *os.File

func c04PyDump(src string, exp Res) {
	p := os.Getenv("C04_PYDUMP")
	if p == "" {
		return
	}
	if c04PyDumpFile == nil {
		f, err := os.OpenFile(p+"."+itoa(os.Getpid()), os.O_APPEND|os.O_CREATE|os.O_WRONLY, 0o644)
		if err != nil {
			return
		}
		c04PyDumpFile = f
	}
	c04PyDumpFile.WriteString(core.MustJSON([]string{src, exp.String()}) + "\n")
}

func (c *c04) report(fields core.Fields, input string, prefix string, exp, got Res) {
	rc := c.rc
	if fields["via"] == "source" {
		c04PyDump(input, exp)
	}
	rc.Eval(fields["part"]+":"+fields["form"]+":"+c04OutcomeClass(exp), fields["part"]+"|"+fields["form"]+"|"+fields["sig"]+"|"+fields["call"]+"|"+fields["via"])
	if rc.WantSample() && rc.Index()%4999 == 0 {
		rc.Sample(map[string]string{"case": input, "expected": exp.String(), "observed": got.String()})
	}
	if !got.matches(exp) {
		c.deviate(core.Deviation{Fields: fields, Input: input, Expected: exp.String(), Observed: got.String(),
			Sig: prefix + ":" + c04DevClass(exp, got)})
	}
}

func c04DevClass(exp, got Res) string {
	switch {
	case exp.Exc != "" && got.Exc != "":
		return "wrong-exception:" + got.Exc + "-for-" + exp.Exc
	case exp.Exc != "":
		return "no-exception-for-" + exp.Exc
	case got.Exc != "":
		return "unexpected-" + got.Exc
	}
	return "wrong-value"
}

func c04OutcomeClass(r Res) string {
	if r.Exc != "" {
		return r.Exc
	}
	return "bound"
}

func c04Run(rc *core.RunCtx) {
	c := &c04{rc: rc, ev: newEvaluator(), inst: &c04Obj{"t"}, codes: map[string]c04Code{}}
	m, err := c.ev.ctx.ModuleInit(py.GetModuleImpl("c04m"))
	if err != nil {
		panic(err)
	}
	c.mod = m

	sigs := c04Sigs()
	// main product (form "def"); reduced call alphabet for the other definition forms
	names := []string{"p1", "p2", "k1", "k2", "z"}
	var calls, calls2 []c04Call
	if rc.Quick() {
		calls = c04Calls(2, len(names), false, 3)
		calls2 = c04Calls(2, len(names), false, 2)
	} else {
		calls = c04Calls(3, len(names), true, -1)
		calls2 = c04Calls(2, len(names), false, 3)
	}
	rc.Note("signatures", itoa(len(sigs)))
	rc.Note("call_shapes_def", itoa(len(calls)))
	rc.Note("call_shapes_lambda_method", itoa(len(calls2)))

	c.pyPart("def", sigs, calls, names, true)
	if rc.Expired() || rc.Done() {
		return
	}
	c.pyExtras(sigs)
	if rc.Expired() || rc.Done() {
		return
	}
	c.pyPart("lambda", sigs, calls2, names, false)
	if rc.Expired() || rc.Done() {
		return
	}
	c.pyPart("method", sigs, calls2, names, false)
	if rc.Expired() || rc.Done() {
		return
	}
	c.pyPart("closure", sigs, calls2, names, false)
	if rc.Expired() || rc.Done() {
		return
	}
	c.pyPart("locals", sigs, calls2, names, false)
	if rc.Expired() || rc.Done() {
		return
	}
	c.pyPart("starname", sigs, calls2, names, false)
	if rc.Expired() || rc.Done() {
		return
	}
	c.pyReuse(sigs, calls2, names)
	if rc.Expired() || rc.Done() {
		return
	}
	c.goPart(calls, names)
	if rc.Expired() || rc.Done() {
		return
	}
	c.slotsPart()
	if rc.Expired() || rc.Done() {
		return
	}
	c.nativeParsePart()
}

// pyPart: signatures x call shapes in one definition form, through compiled source and
// (withAPI, for shapes without *seq/**map) through py.Call on the function object.
func (c *c04) pyPart(form string, sigs []c04Sig, calls []c04Call, names []string, withAPI bool) {
	rc := c.rc
	rc.Part = "py-" + form
	for _, s := range sigs {
		def := s.def(form)
		skey := s.key()
		var fn py.Object // the function object, for the API path (lazily created)
		for _, cl := range calls {
			if rc.Expired() || rc.Done() {
				return
			}
			pos, kw, dup := c04Flatten(cl, names)
			var exp Res
			if dup {
				exp = excRes("TypeError")
			} else {
				exp = c04FormRes(form, c04Bind(s, pos, kw))
			}
			if rc.Take() {
				call := "r = " + c04Callee(form) + "(" + cl.args(names) + ")\n"
				src := def + call
				f := core.Fields{"part": "py", "form": form, "via": "source", "sig": skey, "call": cl.key(names)}
				rc.Guard(f, func() string { return src }, func() { c.report(f, src, "py", exp, c.run(def, call)) })
			}
			// direct Go API: py.Call(f, args, kwargs) with the same explicit arguments
			if withAPI && cl.seq < 0 && !cl.hasMap {
				if rc.Take() {
					if fn == nil {
						g := c.globals()
						code, err := c.compile(def)
						if err == nil {
							_, err = c.ev.ctx.RunCode(code, g, g, nil)
						}
						if err != nil {
							fn = py.None
						} else {
							fn = g["f"]
						}
					}
					args := py.Tuple{}
					for _, v := range pos {
						args = append(args, py.Int(v))
					}
					var kwargs py.StringDict
					if len(kw) > 0 {
						kwargs = py.NewStringDict()
						for _, a := range kw {
							kwargs[a.name] = py.Int(a.val)
						}
					}
					in := def + "py.Call(f, " + harness.Canon(args) + ", " + harness.Canon(kwargs) + ")"
					f := core.Fields{"part": "py", "form": form, "via": "api", "sig": skey, "call": cl.key(names)}
					fnv := fn
					rc.Guard(f, func() string { return in }, func() { c.report(f, in, "py", exp, observe(py.Call(fnv, args, kwargs))) })
				}
			}
		}
	}
}

// pyReuse: a call never changes the objects given after * and **. The sequence and the
// mapping are built once and the same call is made twice with them: both calls give the
// model's result and the list and the dict are afterwards what they were.
func (c *c04) pyReuse(sigs []c04Sig, calls []c04Call, names []string) {
	rc := c.rc
	rc.Part = "py-reuse"
	for _, s := range sigs {
		def := s.def("def")
		skey := s.key()
		for _, cl := range calls {
			if rc.Expired() || rc.Done() {
				return
			}
			if cl.seq < 0 && !cl.hasMap {
				continue
			}
			if !rc.Take() {
				continue
			}
			pos, kw, dup := c04Flatten(cl, names)
			exp := excRes("TypeError")
			if !dup {
				exp = c04Bind(s, pos, kw)
			}
			var xs, seq, mp, mpc []string
			for i := 0; i < cl.npos; i++ {
				xs = append(xs, itoa(11+i))
			}
			for _, j := range cl.kws {
				xs = append(xs, names[j]+"="+itoa(21+j))
			}
			for i := 0; i < cl.seq; i++ {
				seq = append(seq, itoa(31+i))
			}
			if cl.seq >= 0 {
				xs = append(xs, "*S")
			}
			sort.Ints(cl.mp)
			for _, j := range cl.mp {
				mp = append(mp, "'"+names[j]+"': "+itoa(41+j))
				mpc = append(mpc, "'"+names[j]+"':"+itoa(41+j))
			}
			if cl.hasMap {
				xs = append(xs, "**M")
			}
			call := "S = [" + strings.Join(seq, ", ") + "]\nM = {" + strings.Join(mp, ", ") + "}\nr = []\nfor n in range(2):\n    try:\n        r.append(f(" + strings.Join(xs, ", ") +
				"))\n    except TypeError:\n        r.append('TypeError')\nr.append(S)\nr.append(M)\n"
			e1 := exp.Val
			if exp.Exc != "" {
				e1 = "'TypeError'"
			}
			sortedMp := append([]string{}, mpc...)
			sort.Strings(sortedMp)
			want := valRes("[" + e1 + "," + e1 + ",[" + strings.Join(seq, ",") + "],{" + strings.Join(sortedMp, ",") + "}]")
			src := def + call
			f := core.Fields{"part": "py-reuse", "form": "def", "via": "source", "sig": skey, "call": cl.key(names)}
			rc.Guard(f, func() string { return src }, func() { c.report(f, src, "py-reuse", want, c.run(def, call)) })
		}
	}
}

// pyExtras: unusual * and ** operands against every signature.
func (c *c04) pyExtras(sigs []c04Sig) {
	rc := c.rc
	rc.Part = "py-extra"
	type extra struct {
		key, args string
		pos       []int
		kw        []c04KV
		typeError bool
		raises    string // the evaluation of the star argument itself fails with this exception: it propagates, nothing is bound
	}
	extras := []extra{
		{"*gen-fails-at-0", "*bad(0)", nil, nil, false, "ValueError"},
		{"*gen-fails-at-1", "*bad(1)", nil, nil, false, "ValueError"},
		{"1,*gen-fails-at-1", "11, *bad(1)", nil, nil, false, "ValueError"},
		{"*gen-fails-at-2,kw", "*bad(2), k1=23", nil, nil, false, "ValueError"},
		{"*iterclass-fails-at-1", "*Bad(1)", nil, nil, false, "KeyError"},
		{"*getitem-fails-at-1", "*BadSeq(1)", nil, nil, false, "KeyError"},
		{"*map-fails-at-1", "*map(boom, [31, 0])", nil, nil, false, "ZeroDivisionError"},
		{"*list", "*[31, 32]", []int{31, 32}, nil, false, ""},
		{"1,*list", "11, *[31]", []int{11, 31}, nil, false, ""},
		{"*range", "*range(31, 33)", []int{31, 32}, nil, false, ""},
		{"*genexp", "*(x for x in (31, 32))", []int{31, 32}, nil, false, ""},
		{"*iter", "*iter([31])", []int{31}, nil, false, ""},
		{"*set1", "*{31}", []int{31}, nil, false, ""},
		{"*int", "*5", nil, nil, true, ""},
		{"*None", "*None", nil, nil, true, ""},
		{"**int", "**5", nil, nil, true, ""},
		{"**None", "**None", nil, nil, true, ""},
		{"**list", "**[('z', 45)]", nil, nil, true, ""},
		{"1,**int", "11, **5", nil, nil, true, ""},
		{"**dict()", "**dict(p1=41, z=45)", nil, []c04KV{{"p1", 41}, {"z", 45}}, false, ""},
		{"kw,**dict()", "k1=23, **dict(k2=44)", nil, []c04KV{{"k1", 23}, {"k2", 44}}, false, ""},
		{"kw,**dup()", "k1=23, **dict(k1=43)", nil, nil, true, ""},
	}
	for _, s := range sigs {
		def := s.def("def")
		for _, e := range extras {
			if rc.Expired() || rc.Done() {
				return
			}
			if !rc.Take() {
				continue
			}
			exp := excRes("TypeError")
			if !e.typeError {
				exp = c04Bind(s, e.pos, e.kw)
			}
			if e.raises != "" {
				exp = excRes(e.raises)
			}
			call := "r = f(" + e.args + ")\n"
			d := def
			if e.raises != "" {
				d = def + c04BadIterables
			}
			src := d + call
			f := core.Fields{"part": "py-extra", "form": "def", "via": "source", "sig": s.key(), "call": e.key}
			rc.Guard(f, func() string { return src }, func() { c.report(f, src, "py", exp, c.run(d, call)) })
		}
	}
}

// iterables that fail part-way while a call unpacks them
const c04BadIterables = `def bad(k):
    for i in range(3):
        if i == k:
            raise ValueError
        yield 31 + i
class Bad:
    def __init__(self, k):
        self.k = k
        self.i = -1
    def __iter__(self):
        return self
    def __next__(self):
        self.i += 1
        if self.i == self.k:
            raise KeyError
        if self.i >= 3:
            raise StopIteration
        return 31 + self.i
class BadSeq:
    def __init__(self, k):
        self.k = k
    def __getitem__(self, i):
        if i == self.k:
            raise KeyError
        if i >= 3:
            raise IndexError
        return 31 + i
def boom(v):
    return 31 // v
`

// goPart: the four Go signatures x {module function, method through an instance,
// method through the class with / without an explicit receiver} x call shapes.
func (c *c04) goPart(calls []c04Call, names []string) {
	rc := c.rc
	rc.Part = "go"
	paths := []string{"module", "inst", "class+recv", "class"}
	for _, gosig := range c04GoSigs {
		for _, path := range paths {
			for _, cl := range calls {
				if rc.Expired() || rc.Done() {
					return
				}
				pos, kw, dup := c04Flatten(cl, names)
				// expected
				var exp string
				recv := "module"
				if path != "module" {
					recv = "inst"
				}
				switch {
				case dup:
					exp = "raises TypeError calls=0"
				case path == "class":
					// no receiver given: the first positional argument (an int, or none at
					// all) is not a C04T instance
					exp = "raises TypeError calls=0"
				default:
					exp = c04GoExpect(gosig, recv, c04Itoas(pos), kw)
				}
				// what the callable sees if a method reached through the class is called
				// like a module function without a module (no receiver taken off)
				defect := ""
				if !dup && path == "class" {
					defect = c04GoExpect(gosig, "nil-module", c04Itoas(pos), kw)
				} else if !dup && path == "class+recv" {
					defect = c04GoExpect(gosig, "nil-module", append([]string{"<C04T>"}, c04Itoas(pos)...), kw)
				}
				var callee, argtext string
				argtext = cl.args(names)
				switch path {
				case "module":
					callee = "m." + gosig
				case "inst":
					callee = "t." + gosig
				case "class":
					callee = "T." + gosig
				case "class+recv":
					callee = "T." + gosig
					if argtext == "" {
						argtext = "t"
					} else {
						argtext = "t, " + argtext
					}
				}
				if rc.Take() {
					src := "r = " + callee + "(" + argtext + ")\n"
					f := core.Fields{"part": "go", "via": "source", "sig": gosig, "path": path, "call": cl.key(names)}
					rc.Guard(f, func() string { return src }, func() {
						c04Seen = c04Rec{}
						got := c.run("", src)
						c.goReport(f, src, gosig, path, exp, defect, got)
					})
				}
				if cl.seq < 0 && !cl.hasMap && rc.Take() {
					// direct Go API: look the callable up with py.GetAttrString and py.Call it
					f := core.Fields{"part": "go", "via": "api", "sig": gosig, "path": path, "call": cl.key(names)}
					args := py.Tuple{}
					if path == "class+recv" {
						args = append(args, c.inst)
					}
					for _, v := range pos {
						args = append(args, py.Int(v))
					}
					var kwargs py.StringDict
					if len(kw) > 0 {
						kwargs = py.NewStringDict()
						for _, a := range kw {
							kwargs[a.name] = py.Int(a.val)
						}
					}
					in := "py.Call(py.GetAttrString(" + callee[:1] + ", \"" + gosig + "\"), " + harness.Canon(args) + ", " + harness.Canon(kwargs) + ")"
					rc.Guard(f, func() string { return in }, func() {
						c04Seen = c04Rec{}
						var owner py.Object
						switch path {
						case "module":
							owner = c.mod
						case "inst":
							owner = c.inst
						default:
							owner = c04Type
						}
						var got Res
						fn, err := py.GetAttrString(owner, gosig)
						if err != nil {
							got = observe(nil, err)
						} else {
							got = observe(py.Call(fn, args, kwargs))
						}
						c.goReport(f, in, gosig, path, exp, defect, got)
					})
				}
			}
		}
	}
}

// nativeParsePart: the argument unpacking helpers Go callables use
// (py.ParseTupleAndKeywords, py.UnpackTuple) against the rules of
// PyArg_ParseTupleAndKeywords / PyArg_UnpackTuple; direct Go API calls.
func (c *c04) nativeParsePart() {
	rc := c.rc
	rc.Part = "native"
	type pfmt struct {
		format string
		kwlist []string
		min    int // number of required parameters
		kwOnly int // index of the first keyword-only parameter
	}
	fmts := []pfmt{
		{"OO|O$O:fn", []string{"a", "b", "c", "d"}, 2, 3},
		{"O|OO:fn", []string{"a", "b", "c"}, 1, 3},
		{"OOO:fn", []string{"a", "b", "c"}, 3, 3},
		{"|O$OO:fn", []string{"a", "b", "c"}, 0, 1},
		{"|OO:fn", []string{"a", "b"}, 0, 2},
		{"O:fn", []string{"a"}, 1, 1},
	}
	knames := []string{"a", "b", "c", "d", "z"}
	subs := c04Subsets(len(knames))
	for _, pf := range fmts {
		for npos := 0; npos <= 4; npos++ {
			for _, sub := range subs {
				if rc.Expired() || rc.Done() {
					return
				}
				if !rc.Take() {
					continue
				}
				pf, npos, sub := pf, npos, sub
				args := py.Tuple{}
				for i := 0; i < npos; i++ {
					args = append(args, py.Int(11+i))
				}
				kwargs := py.NewStringDict()
				for _, j := range sub {
					kwargs[knames[j]] = py.Int(21 + j)
				}
				// model
				n := len(pf.kwlist)
				exp := ""
				res := make([]string, n)
				switch {
				case npos+len(sub) > n:
					exp = "raises TypeError"
				case npos > pf.kwOnly:
					exp = "raises TypeError"
				}
				if exp == "" {
					for _, j := range sub {
						known := false
						for _, k := range pf.kwlist {
							if k == knames[j] {
								known = true
							}
						}
						if !known {
							exp = "raises TypeError"
						}
					}
				}
				if exp == "" {
					for i, k := range pf.kwlist {
						v, byKw := kwargs[k]
						switch {
						case i < npos && byKw:
							exp = "raises TypeError" // given by name and position
						case i < npos:
							res[i] = itoa(11 + i)
						case byKw:
							res[i] = harness.Canon(v)
						case i < pf.min:
							exp = "raises TypeError" // required argument not found
						default:
							res[i] = "-"
						}
					}
				}
				if exp == "" {
					exp = "[" + strings.Join(res, ",") + "]"
				}
				f := core.Fields{"part": "native", "via": "api", "sig": "ParseTupleAndKeywords " + pf.format, "call": "n=" + itoa(npos) + " kw=" + c04NameList(knames, sub)}
				in := "py.ParseTupleAndKeywords(" + harness.Canon(args) + ", " + harness.Canon(kwargs) + ", \"" + pf.format + "\", [" + strings.Join(pf.kwlist, ",") + "], ...)"
				rc.Guard(f, func() string { return in }, func() {
					out := make([]py.Object, n)
					ptrs := make([]*py.Object, n)
					for i := range out {
						ptrs[i] = &out[i]
					}
					err := py.ParseTupleAndKeywords(args, kwargs, pf.format, pf.kwlist, ptrs...)
					c.nativeReport(f, in, exp, out, err)
				})
			}
		}
	}
	type urange struct{ min, max int }
	for _, ur := range []urange{{0, 0}, {0, 2}, {1, 1}, {1, 2}, {2, 2}, {1, 3}} {
		for npos := 0; npos <= 4; npos++ {
			for kwi := 0; kwi < 3; kwi++ {
				if rc.Expired() || rc.Done() {
					return
				}
				if !rc.Take() {
					continue
				}
				ur, npos, kwi := ur, npos, kwi
				args := py.Tuple{}
				for i := 0; i < npos; i++ {
					args = append(args, py.Int(11+i))
				}
				var kwargs py.StringDict
				kwS := "nil"
				switch kwi {
				case 1:
					kwargs, kwS = py.NewStringDict(), "{}"
				case 2:
					kwargs, kwS = py.StringDict{"z": py.Int(25)}, "{z}"
				}
				exp := ""
				if kwi == 2 || npos < ur.min || npos > ur.max {
					exp = "raises TypeError"
				} else {
					res := make([]string, ur.max)
					for i := range res {
						res[i] = "-"
						if i < npos {
							res[i] = itoa(11 + i)
						}
					}
					exp = "[" + strings.Join(res, ",") + "]"
				}
				f := core.Fields{"part": "native", "via": "api", "sig": "UnpackTuple " + itoa(ur.min) + ".." + itoa(ur.max), "call": "n=" + itoa(npos) + " kw=" + kwS}
				in := "py.UnpackTuple(" + harness.Canon(args) + ", " + kwS + ", \"fn\", " + itoa(ur.min) + ", " + itoa(ur.max) + ", ...)"
				rc.Guard(f, func() string { return in }, func() {
					out := make([]py.Object, ur.max)
					ptrs := make([]*py.Object, ur.max)
					for i := range out {
						ptrs[i] = &out[i]
					}
					err := py.UnpackTuple(args, kwargs, "fn", ur.min, ur.max, ptrs...)
					c.nativeReport(f, in, exp, out, err)
				})
			}
		}
	}
}

func (c *c04) nativeReport(fields core.Fields, input, exp string, out []py.Object, err error) {
	rc := c.rc
	var obs string
	if err != nil {
		t, _, _, _ := harness.ExcInfo(err)
		obs = "raises " + t
	} else {
		var xs []string
		for _, o := range out {
			if o == nil {
				xs = append(xs, "-")
			} else {
				xs = append(xs, harness.Canon(o))
			}
		}
		obs = "[" + strings.Join(xs, ",") + "]"
	}
	oc := "parsed"
	if strings.HasPrefix(exp, "raises") {
		oc = "TypeError"
	}
	rc.Eval("native:"+oc, fields["sig"]+"|"+fields["call"])
	if obs == exp {
		return
	}
	var sig string
	switch {
	case err != nil && strings.HasPrefix(exp, "raises"):
		sig = "wrong-exception:" + strings.TrimPrefix(obs, "raises ") + "-for-TypeError"
	case err != nil:
		sig = "unexpected-" + strings.TrimPrefix(obs, "raises ")
	case strings.HasPrefix(exp, "raises"):
		sig = "no-exception-for-TypeError"
	default:
		sig = "wrong-value"
	}
	c.deviate(core.Deviation{Fields: fields, Input: input, Expected: exp, Observed: obs, Sig: "native:" + sig})
}

func (c *c04) selfClass(o py.Object) string {
	switch x := o.(type) {
	case nil:
		return "<nil>"
	case *py.Module:
		if x == nil {
			return "nil-module"
		}
		if x == c.mod {
			return "module"
		}
		return "other-module"
	case *c04Obj:
		if x == c.inst {
			return "inst"
		}
		return "other-inst"
	}
	return "other:" + o.Type().Name
}

func (c *c04) goReport(fields core.Fields, input, gosig, path, exp, defect string, got Res) {
	rc := c.rc
	prefixWant := "m."
	if path != "module" {
		prefixWant = "T."
	}
	var obs string
	if got.Exc != "" {
		obs = "raises " + got.Exc + " calls=" + itoa(c04Seen.calls)
	} else {
		obs = "calls=" + itoa(c04Seen.calls)
		if c04Seen.calls > 0 {
			obs += " self=" + c.selfClass(c04Seen.self) + " args=" + harness.Canon(c04Seen.args) + " kw=" + harness.Canon(c04Seen.kwargs)
			if c04Seen.name != prefixWant+gosig {
				obs += " callee=" + c04Seen.name
			}
		}
		if got.Val != "'ret:"+prefixWant+gosig+"'" {
			obs += " ret=" + got.Val
		}
	}
	oc := "delivered"
	if strings.HasPrefix(exp, "raises") {
		oc = "TypeError"
	}
	rc.Eval("go:"+gosig+":"+path+":"+oc, gosig+"|"+path+"|"+fields["call"]+"|"+fields["via"])
	if rc.WantSample() && rc.Index()%4999 == 0 {
		rc.Sample(map[string]string{"case": input, "expected": exp, "observed": obs})
	}
	if obs == exp {
		return
	}
	// classify
	var sig string
	expRaises := strings.HasPrefix(exp, "raises")
	switch {
	case defect != "" && obs == defect:
		sig = "class-call:receiver-not-taken"
	case got.Exc != "" && expRaises && got.Exc == "TypeError":
		sig = "called-before-TypeError"
	case got.Exc != "" && expRaises:
		sig = "wrong-exception:" + got.Exc + "-for-TypeError"
	case got.Exc != "":
		sig = "unexpected-" + got.Exc
	case expRaises:
		sig = "no-exception-for-TypeError"
	default:
		es, os := c04Part(exp, "self="), c04Part(obs, "self=")
		ea, oa := c04Part(exp, "args="), c04Part(obs, "args=")
		ek, ok := c04Part(exp, "kw="), c04Part(obs, "kw=")
		switch {
		case c04Part(obs, "calls=") != "1":
			sig = "wrong-call-count"
		case es != os:
			sig = "wrong-receiver:" + os
		case ea != oa:
			sig = "wrong-args"
		case ek != ok:
			sig = "wrong-kwargs"
		default:
			sig = "wrong-result"
		}
	}
	c.deviate(core.Deviation{Fields: fields, Input: input, Expected: exp, Observed: obs, Sig: "go:" + sig})
}

// c04Part extracts the value of `key` from an observation string.
func c04Part(s, key string) string {
	i := strings.Index(s, key)
	if i < 0 {
		return ""
	}
	s = s[i+len(key):]
	if j := strings.Index(s, " "); j >= 0 {
		s = s[:j]
	}
	return s
}

func init() {
	core.Register(&core.Check{ID: "C04", Level: "model_checking",
		Rule: "Python callables: the full product of all 168 signatures `(p1[=51][, p2[=52]], [*a | *], [k1[=53]][, k2[=54]], [**k])` (0-2 positional parameters with trailing defaults, *a or bare *, 0-2 keyword-only parameters each with/without default, with/without **k) " +
			"x all call shapes `f(11.., name=2x.., *(31..), **{'name': 4x..})` with 0-3 explicit positionals, every subset of the names {p1,p2,k1,k2,z} as keywords, no *seq or a tuple of length 0-2, no **map or a dict over every subset of the names, keywords written before or after the *seq (29172 shapes; " +
			"quick: <=2 positionals, at most 3 names in keywords+map together, keywords before *seq: 2424 shapes); every argument and default is a distinct integer so that a misdelivered value is visible; " +
			"each pair is a two-statement program (definition returning the tuple of all its parameters; call) whose result or exception type is compared with the binding algorithm of the language reference written independently in Go; shapes without *seq/**map also through py.Call on the function object. " +
			"The same signatures with every parameter read from a nested function, with body locals named like a passable keyword (z), and with the * / ** parameter itself named z; as lambda and as method of a class called through an instance (the tuple starts with `self is o`) against the shapes with <=2 positionals and <=3 names (quick <=2); 15 unusual */** operands (list, range, generator, iterator, set; int/None as * and **; list as **; dict() results) against all signatures. " +
			"Go callables: the four Go function signatures of py.NewMethod x {function of a registered module, method of a Go-defined type through an instance, through the class with and without the instance as first argument} x the same call shapes, from source and (without *seq/**map) through py.GetAttrString+py.Call; the callable records receiver, args and kwargs; expected exact delivery or TypeError with the callable not invoked. " +
			"py.ParseTupleAndKeywords for 6 formats (required, optional `|`, keyword-only `$`) x 0-4 positionals x all subsets of {a,b,c,d,z} and py.UnpackTuple for 6 (min,max) ranges x 0-4 positionals x {nil, empty, non-empty kwargs} against the rules of PyArg_ParseTupleAndKeywords / PyArg_UnpackTuple. Every case is non-trivial; distinct by (part, form, signature, call shape, access path).",
		Run: c04Run,
		Assumptions: []string{
			"the oracle is the argument binding algorithm of the Python language reference (section Calls) re-implemented in Go; it agrees with CPython 3.11 on every Python case of both tiers (cross-checked once during development with C04_PYDUMP)",
			"only the exception type is compared, never the message; which of several simultaneous errors is reported first is therefore not observable",
			"parameter and argument counts are bounded as stated; annotations, closures, generators as callees, dict subclasses / user-defined mappings as ** operand and non-string keys are outside the alphabet",
			"definition and call statement are compiled once per worker and cached by source text; every case runs both code objects in fresh globals of one long-lived context",
			"the iteration order of the keyword dictionaries (kws, **map) is whatever the Go runtime chooses; it only decides which TypeError is found first",
		},
		Explanation: "stateless exhaustive enumeration of (signature, call shape) pairs against an independent reference binder; Go callables registered by the check record exactly what they are given"})
}

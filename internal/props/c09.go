//go:build verifov

package props

import (
	"fmt"
	"os"
	"path/filepath"
	"sort"
	"strings"
	"time"

	"github.com/go-python/gpython/py"
	"github.com/go-python/gpython/stdlib"
	"verif/explore"
	"verif/internal/core"
	"verif/internal/harness"
)

// C09: Close/Done are safe under every interleaving with execution.
//
// Explored on the real stdlib.context (sources instrumented by cmd/instr through a build
// overlay): every schedule of 2-3 goroutines, each performing 1-2 of
// R(unCode) M(oduleInit with a Python body) N(=ModuleInit of a Go-only module) C(=ResolveAndCompile) X(=Close) W(ait for Done)
// P(=RunCode whose body panics in a Go extension function; the embedder recovers), within a
// preemption bound, checked by a monitor over the event trace.

type c09mon struct {
	x          *explore.Exec
	inFlight   map[int]int // thread -> bodies started and not ended
	closeRet   bool        // some Close has returned
	doneSeen   bool        // Done observed closed
	callbacks  map[string]int
	modulesOK  map[string]bool // ModuleInit returned success for this module
	closeCalls int
	closeRets  int
	viol       string
}

func (m *c09mon) fail(class, format string, a ...interface{}) {
	if m.viol == "" {
		m.viol = class + ": " + fmt.Sprintf(format, a...)
		m.x.Violation = m.viol
	}
}

func (m *c09mon) totalInFlight() int {
	n := 0
	for _, v := range m.inFlight {
		n += v
	}
	return n
}

func (m *c09mon) bodyStart(tid int) {
	m.x.Event("body-start t%d", tid)
	if m.closeRet {
		m.fail("exec-after-close-returned", "an execution body started after a Close had returned")
	}
	if m.doneSeen {
		m.fail("exec-after-done", "an execution body started after Done was signalled")
	}
	for _, n := range m.callbacks {
		if n > 0 {
			m.fail("exec-after-callbacks", "an execution was admitted (body started) after the close callbacks had run")
			break
		}
	}
	m.inFlight[tid]++
}

func (m *c09mon) bodyEnd(tid int) {
	m.x.Event("body-end t%d", tid)
	m.inFlight[tid]--
	if m.closeRet {
		m.fail("close-returned-early", "an execution body was still running after a Close had returned")
	}
}

func (m *c09mon) callback(name string) {
	m.x.Event("callback %s", name)
	m.callbacks[name]++
	if m.callbacks[name] > 1 {
		m.fail("callback-twice", "close callback of module %s ran %d times", name, m.callbacks[name])
	}
	if m.totalInFlight() > 0 {
		m.fail("callback-while-running", "close callback ran while %d execution(s) were in flight", m.totalInFlight())
	}
	if m.doneSeen {
		m.fail("callback-after-done", "close callback ran after Done was signalled")
	}
}

func (m *c09mon) closeReturned() {
	m.closeRets++
	if m.totalInFlight() > 0 {
		m.fail("close-returned-early", "Close returned while %d admitted execution(s) were in flight", m.totalInFlight())
	}
	if m.callbacks["base"] != 1 {
		m.fail("close-returned-before-callbacks", "Close returned but the close callback of the pre-imported module ran %d times", m.callbacks["base"])
	}
	m.closeRet = true
}

// pollDone is called at every scheduling point.
func (m *c09mon) pollDone(done <-chan struct{}) {
	if m.doneSeen {
		return
	}
	select {
	case <-done:
		m.doneSeen = true
		m.x.Event("done-signalled")
		if m.totalInFlight() > 0 {
			m.fail("done-early", "Done signalled while %d execution(s) were in flight", m.totalInFlight())
		}
		if m.callbacks["base"] != 1 {
			m.fail("done-before-callbacks", "Done signalled before the close callbacks had run (count %d)", m.callbacks["base"])
		}
	default:
	}
}

var c09Code, c09PanicCode *py.Code
var c09File string

// c09Fault is the value an extension function panics with in operation P: the VM has no
// recover, so the panic unwinds through RunCode into the embedder, which recovers it and
// carries on. The execution has then finished, whatever way it ended.
type c09Fault struct{}

func c09Setup() {
	if c09Code != nil {
		return
	}
	var err error
	c09Code, err = py.Compile("import vh\nvh.probe(1)\nvh.probe(2)\n", "<c09>", py.ExecMode, 0, true)
	if err != nil {
		panic(err)
	}
	c09PanicCode, err = py.Compile("import vh\nvh.probe(1)\nvh.probe(3)\n", "<c09p>", py.ExecMode, 0, true)
	if err != nil {
		panic(err)
	}
	dir := os.Getenv("VERIF_WORKDIR")
	if dir == "" {
		dir, _ = os.MkdirTemp("", "c09-")
	}
	c09File = filepath.Join(dir, "c09tiny.py")
	os.WriteFile(c09File, []byte("x = 1\n"), 0o644)
}

// one execution of a configuration under explorer control
// c09StateKeys turns on visited-state pruning (unbounded exploration): the key is the complete
// future-relevant state - the private lifecycle fields, the monitor, and per thread its
// operation index, status, site and a digest of everything it could have observed since its
// current operation began (site + lifecycle snapshot at every resumption).
var c09StateKeys bool

func c09Body(cfg [][]byte) func(x *explore.Exec) string {
	return func(x *explore.Exec) string {
		mon := &c09mon{x: x, inFlight: map[int]int{}, callbacks: map[string]int{}, modulesOK: map[string]bool{}}
		ctx := py.NewContext(py.ContextOpts{SysArgs: []string{"t"}, SysPaths: []string{}})
		// a module imported before the race, with a close callback
		base := &py.ModuleImpl{Info: py.ModuleInfo{Name: "base"}, Globals: py.StringDict{},
			OnContextClosed: func(*py.Module) { mon.callback("base") }}
		if _, err := ctx.ModuleInit(base); err != nil {
			return "harness: base module init failed: " + err.Error()
		}
		if _, err := ctx.ModuleInit(py.GetModuleImpl("vh")); err != nil {
			return "harness: vh init failed: " + err.Error()
		}
		harness.Probe = func(args py.Tuple) (py.Object, error) {
			t := x.Running()
			if t == nil {
				return py.None, nil
			}
			k, _ := args[0].(py.Int)
			if k == 1 {
				mon.bodyStart(t.ID)
				x.Yield("probe")
			} else {
				mon.bodyEnd(t.ID)
				if k == 3 {
					panic(c09Fault{})
				}
			}
			return py.None, nil
		}
		defer func() { harness.Probe = nil }()
		doneCh := ctx.Done() // set-up phase: no scheduling point
		x.OnYield = func(x *explore.Exec) { mon.pollDone(doneCh) }
		opIdx := make([]int, len(cfg))
		if c09StateKeys {
			monDigest := func() string {
				var cb []string
				for k, v := range mon.callbacks {
					cb = append(cb, fmt.Sprintf("%s=%d", k, v))
				}
				sort.Strings(cb)
				var ok []string
				for k := range mon.modulesOK {
					ok = append(ok, k)
				}
				sort.Strings(ok)
				var fl []string
				for k, v := range mon.inFlight {
					if v != 0 {
						fl = append(fl, fmt.Sprintf("%d=%d", k, v))
					}
				}
				sort.Strings(fl)
				return fmt.Sprintf("%v|%v|%v|%d|%d|%v|%v", mon.closeRet, mon.doneSeen, cb, mon.closeCalls, mon.closeRets, ok, fl)
			}
			x.OnResume = func(x *explore.Exec, t *explore.Thread) {
				x.Mix(hash64(stdlib.VerifState(ctx)))
			}
			x.StateKey = func(x *explore.Exec) string {
				var b strings.Builder
				b.WriteString(stdlib.VerifState(ctx))
				b.WriteString(monDigest())
				for i, t := range x.Threads() {
					fmt.Fprintf(&b, "|%d:%d:%v:%v:%s:%x", i, opIdx[i], t.Finished(), t.Blocked(), t.Site, t.Hist)
				}
				return b.String()
			}
		}
		for ti, prog := range cfg {
			ti, prog := ti, prog
			x.Go(fmt.Sprintf("t%d", ti), func() {
				for oi, op := range prog {
					opIdx[ti] = oi
					if t := x.Running(); t != nil {
						t.Hist = uint64(oi + 1)
						t.Site = "op-start"
					}
					issuedAfterClose := mon.closeRet
					var err error
					x.Event("call t%d %c", ti, op)
					switch op {
					case 'R':
						g := py.StringDict{}
						_, err = ctx.RunCode(c09Code, g, g, nil)
					case 'P':
						// an execution that ends by a Go panic in an extension function, recovered by the embedder
						func() {
							defer func() {
								if r := recover(); r != nil {
									if _, ok := r.(c09Fault); !ok {
										panic(r)
									}
									err = py.ExceptionNewf(py.RuntimeError, "recovered fault")
								}
							}()
							g := py.StringDict{}
							_, err = ctx.RunCode(c09PanicCode, g, g, nil)
						}()
					case 'M':
						name := fmt.Sprintf("m%d_%d", ti, oi)
						impl := &py.ModuleImpl{Info: py.ModuleInfo{Name: name}, Globals: py.StringDict{}, Code: c09Code,
							OnContextClosed: func(*py.Module) { mon.callback(name) }}
						_, err = ctx.ModuleInit(impl)
						if err == nil {
							mon.modulesOK[name] = true
						}
						if issuedAfterClose {
							if _, gerr := ctx.GetModule(name); gerr == nil {
								mon.fail("module-registered-after-close", "module %s was registered in the store by a request issued after Close had returned", name)
							}
						}
					case 'N':
						// a Go-only module: no Python body, so no nested execution request
						name := fmt.Sprintf("n%d_%d", ti, oi)
						impl := &py.ModuleImpl{Info: py.ModuleInfo{Name: name}, Globals: py.StringDict{},
							OnContextClosed: func(*py.Module) { mon.callback(name) }}
						_, err = ctx.ModuleInit(impl)
						if err == nil {
							mon.modulesOK[name] = true
						}
						if issuedAfterClose {
							if _, gerr := ctx.GetModule(name); gerr == nil {
								mon.fail("module-registered-after-close", "module %s was registered in the store by a request issued after Close had returned", name)
							}
						}
					case 'C':
						_, err = ctx.ResolveAndCompile(filepath.Base(c09File), py.CompileOpts{CurDir: filepath.Dir(c09File)})
					case 'X':
						mon.closeCalls++
						err = ctx.Close()
						if !x.Aborted() {
							mon.closeReturned()
						}
					case 'W':
						ch := ctx.Done()
						x.Block("WaitDone", func() bool {
							select {
							case <-ch:
								return true
							default:
								return false
							}
						})
						if !x.Aborted() {
							mon.pollDone(doneCh)
						}
					}
					if x.Aborted() {
						return
					}
					cls := "ok"
					if err != nil {
						t, _, _, _ := harness.ExcInfo(err)
						cls = "err:" + t
					}
					x.Event("ret t%d %c %s", ti, op, cls)
					if issuedAfterClose && (op == 'R' || op == 'M' || op == 'C' || op == 'N' || op == 'P') && err == nil {
						mon.fail("request-after-close-succeeded", "a %c request issued after Close had returned succeeded", op)
					}
					if op == 'X' && err != nil {
						mon.fail("close-error", "Close returned an error: %v", err)
					}
				}
			})
		}
		x.Run()
		if x.Diverged {
			return "" // harness nondeterminism: reported separately, never as a violation
		}
		if mon.viol != "" {
			return mon.viol
		}
		if x.Violation != "" {
			return x.Violation
		}
		if x.Pruned {
			return ""
		}
		if x.Deadlock {
			return "deadlock: " + lastEvent(x)
		}
		if x.Horizon {
			return "livelock: step horizon reached"
		}
		if x.Completed && mon.closeCalls > 0 {
			mon.pollDone(doneCh)
			if !mon.doneSeen {
				return "done-never: every Close returned but Done was never signalled"
			}
			for name, ok := range mon.modulesOK {
				if ok && mon.callbacks[name] != 1 {
					return fmt.Sprintf("callback-count: module %s initialised successfully but its close callback ran %d times", name, mon.callbacks[name])
				}
			}
		}
		return mon.viol
	}
}

func hash64(s string) uint64 {
	h := uint64(14695981039346656037)
	for i := 0; i < len(s); i++ {
		h ^= uint64(s[i])
		h *= 1099511628211
	}
	return h
}

func lastEvent(x *explore.Exec) string {
	if len(x.Events) == 0 {
		return ""
	}
	return x.Events[len(x.Events)-1]
}

// all thread programs of length 1..maxLen over ops
func c09Programs(ops string, maxLen int) [][]byte {
	var out [][]byte
	var rec func(cur []byte)
	rec = func(cur []byte) {
		if len(cur) > 0 {
			out = append(out, append([]byte{}, cur...))
		}
		if len(cur) == maxLen {
			return
		}
		for i := 0; i < len(ops); i++ {
			// a thread does nothing after waiting for Done except possibly issue a request
			rec(append(cur, ops[i]))
		}
	}
	rec(nil)
	sort.SliceStable(out, func(i, j int) bool { return len(out[i]) < len(out[j]) })
	return out
}

// c09Configs: multisets of n thread programs containing at least one Close.
func c09Configs(n int, progs [][]byte, maxOps int) [][][]byte {
	var out [][][]byte
	var rec func(start int, cur [][]byte, ops int)
	rec = func(start int, cur [][]byte, ops int) {
		if len(cur) == n {
			hasX := false
			for _, p := range cur {
				if strings.ContainsRune(string(p), 'X') {
					hasX = true
				}
			}
			// a wait for Done needs a Close that can happen: earlier in the same thread or in another one
			for i, p := range cur {
				if w := strings.IndexByte(string(p), 'W'); w >= 0 {
					ok := strings.IndexByte(string(p[:w]), 'X') >= 0
					for j, q := range cur {
						if j != i && strings.IndexByte(string(q), 'X') >= 0 {
							// the other thread must not itself be stuck waiting before its Close
							xq := strings.IndexByte(string(q), 'X')
							wq := strings.IndexByte(string(q), 'W')
							if wq < 0 || wq > xq {
								ok = true
							}
						}
					}
					if !ok {
						hasX = false
					}
				}
			}
			if hasX {
				out = append(out, append([][]byte{}, cur...))
			}
			return
		}
		for i := start; i < len(progs); i++ {
			if ops+len(progs[i]) > maxOps {
				continue
			}
			rec(i, append(cur, progs[i]), ops+len(progs[i]))
		}
	}
	rec(0, nil, 0)
	sort.SliceStable(out, func(i, j int) bool { return cfgOps(out[i]) < cfgOps(out[j]) })
	return out
}

func cfgOps(c [][]byte) int {
	n := 0
	for _, p := range c {
		n += len(p)
	}
	return n
}

func cfgString(c [][]byte) string {
	var s []string
	for _, p := range c {
		s = append(s, string(p))
	}
	return strings.Join(s, "|")
}

func c09Run(rc *core.RunCtx) {
	c09Setup()
	_ = stdlib.VerifState
	ops := "RXMNCWP"
	type plan struct {
		threads, maxLen, maxOps int
		bounds                  []int
	}
	var plans []plan
	if rc.Quick() {
		plans = []plan{{2, 2, 4, []int{0, 1, 2}}, {3, 1, 3, []int{0, 1, 2}}, {3, 2, 4, []int{0, 1}}}
	} else {
		plans = []plan{{2, 2, 4, []int{0, 1, 2, 3, 4}}, {3, 1, 3, []int{0, 1, 2, 3}}, {3, 2, 4, []int{0, 1, 2}}, {3, 2, 5, []int{0, 1, 2}}, {4, 1, 4, []int{0, 1, 2}}}
	}
	// unbounded pass first for the 2-thread configurations (thorough: also 3 threads, 3-4 operations)
	rc.Part = "unbounded"
	{
		type up struct{ threads, maxLen, maxOps int }
		ups := []up{{2, 1, 2}}
		if !rc.Quick() {
			ups = []up{{2, 1, 2}, {2, 2, 3}, {3, 1, 3}}
		}
		done := map[string]bool{}
		// the unbounded pass gets a third of the time; what it does not reach is reported as capped
		// and the preemption-bounded plans still run
		ubEnd := time.Now().Add(time.Until(rc.Deadline) / 3)
		ubStop := func() bool { return rc.Expired() || (!rc.Deadline.IsZero() && time.Now().After(ubEnd)) }
		for _, u := range ups {
			for _, cfg := range c09Configs(u.threads, c09Programs(ops, u.maxLen), u.maxOps) {
				if rc.Expired() || rc.Done() {
					return
				}
				key := cfgString(cfg) + "@unbounded"
				if done[key] {
					continue
				}
				done[key] = true
				if !rc.Take() {
					continue
				}
				if !rc.Deadline.IsZero() && time.Now().After(ubEnd) {
					rc.Cap("unbounded exploration of " + cfgString(cfg) + " not started: the pass used its share of the budget")
					rc.Count("unbounded_capped", 1)
					continue
				}
				fields := core.Fields{"config": cfgString(cfg), "bound": "unbounded", "threads": itoa(len(cfg))}
				input := "threads " + cfgString(cfg) + " all interleavings (visited-state pruning)"
				if rc.Describe(fields, input) {
					continue
				}
				maxExec := int64(15000)
				if !rc.Quick() {
					maxExec = 400000
				}
				res, states, execs, capped := c09Unbounded(cfg, maxExec, ubStop)
				rc.Count("states", states)
				rc.Count("schedules", execs)
				if capped {
					rc.Cap("unbounded exploration of " + cfgString(cfg) + " capped")
					rc.Count("unbounded_capped", 1)
				} else {
					rc.Count("unbounded_complete", 1)
				}
				outcome := "ok"
				if res != nil {
					outcome = sigClass(res.Violation)
				}
				rc.Eval(fmt.Sprintf("threads=%d unbounded %s", len(cfg), outcome), key)
				if res != nil {
					c09StateKeys = false
					_, v2 := explore.New(1<<30).Replay(res.Schedule, c09Body(cfg))
					if sigClass(v2) != sigClass(res.Violation) {
						rc.Note("nondeterministic_replay", key+": "+res.Violation+" / "+v2)
						continue
					}
					rc.Deviate(core.Deviation{Fields: fields, Input: input + "\nschedule " + fmt.Sprint(res.Schedule) + "\nevents:\n  " + strings.Join(res.Events, "\n  "),
						Expected: "no monitor violation on any schedule", Observed: res.Violation, Sig: sigClass(res.Violation)})
				}
			}
		}
	}
	rc.Part = "bounded"
	seen := map[string]bool{}
	for _, pl := range plans {
		cfgs := c09Configs(pl.threads, c09Programs(ops, pl.maxLen), pl.maxOps)
		for _, bound := range pl.bounds {
			for _, cfg := range cfgs {
				if rc.Expired() || rc.Done() {
					return
				}
				key := fmt.Sprintf("%s@%d", cfgString(cfg), bound)
				if seen[key] {
					continue
				}
				seen[key] = true
				if !rc.Take() {
					continue
				}
				fields := core.Fields{"config": cfgString(cfg), "bound": itoa(bound), "threads": itoa(len(cfg))}
				input := "threads " + cfgString(cfg) + " preemption bound " + itoa(bound)
				if rc.Describe(fields, input) {
					continue
				}
				e := explore.New(bound)
				e.Stop = rc.Expired
				res := e.Explore(c09Body(cfg))
				rc.Count("transitions", e.Points)
				rc.Count("schedules", e.Executions)
				rc.Count("max_schedule_points", int64(e.MaxPoints))
				outcome := "ok"
				if res != nil {
					outcome = sigClass(res.Violation)
				}
				rc.Eval(fmt.Sprintf("threads=%d bound=%d %s", len(cfg), bound, outcome), key)
				if e.Capped {
					rc.Cap("exploration of " + key + " stopped by the deadline")
				}
				if rc.WantSample() && rc.Index()%23 == 0 {
					rc.Sample(map[string]interface{}{"config": cfgString(cfg), "bound": bound, "schedules": e.Executions, "choice_points": e.Points})
				}
				if res != nil {
					// determinism: the same schedule must fail the same way twice
					_, v2 := explore.New(bound).Replay(res.Schedule, c09Body(cfg))
					_, v3 := explore.New(bound).Replay(res.Schedule, c09Body(cfg))
					if sigClass(v2) != sigClass(res.Violation) || sigClass(v3) != sigClass(res.Violation) {
						rc.Note("nondeterministic_replay", key+": "+res.Violation+" / "+v2+" / "+v3)
						continue
					}
					rc.Deviate(core.Deviation{Fields: fields,
						Input:    input + "\nschedule " + fmt.Sprint(res.Schedule) + "\nevents:\n  " + strings.Join(res.Events, "\n  "),
						Expected: "no monitor violation on any schedule", Observed: res.Violation, Sig: sigClass(res.Violation)})
				}
			}
		}
	}
}

// c09Unbounded explores ALL interleavings (no preemption bound) of the configuration with
// visited-state pruning; returns (result, states, executions, capped).
func c09Unbounded(cfg [][]byte, maxExec int64, stop func() bool) (*explore.Result, int64, int64, bool) {
	e := explore.New(1 << 30)
	e.MaxExec = maxExec
	e.Stop = stop
	c09StateKeys = true
	defer func() { c09StateKeys = false }()
	res := e.Explore(c09Body(cfg))
	return res, e.States, e.Executions, e.Capped
}

func sigClass(v string) string {
	if v == "" {
		return "ok"
	}
	if i := strings.Index(v, ": "); i > 0 {
		cls := v[:i]
		if strings.HasPrefix(cls, "panic in thread") {
			rest := v[i+2:]
			if j := strings.Index(rest, " @ "); j > 0 {
				return "panic:" + rest[:j] + "@" + rest[j+3:]
			}
			return "panic:" + rest
		}
		return cls
	}
	return v
}

func init() {
	core.Register(&core.Check{
		ID:       "C09",
		Level:    "model_checking",
		Mode:     "ov",
		RacePass: true,
		Rule: "every multiset of 2-4 goroutine programs (1-2 operations each from RunCode, RunCode ending in a recovered Go panic, ModuleInit with and without a Python body, ResolveAndCompile, Close, wait-for-Done; at least one Close) x every schedule within the preemption bound, " +
			"scheduling points at every statement of the lifecycle methods that touches lifecycle state and at every sync operation (instrumented from the current source by build overlay) and inside the running Python code. " +
			"A case is one (configuration, bound); all are non-trivial (they contain a Close racing with something).",
		Run: c09Run,
		Assumptions: []string{"sequential consistency: memory-model effects are outside the scheduler (covered only by the auxiliary free-running -race pass)",
			"Close called from inside an execution of the same context is outside the alphabet (self-deadlock by specification)",
			"vsync models sync.Mutex/WaitGroup/Once; a modelling error fails as a harness error, not as a finding"},
		Explanation: "stateless model checking of the real stdlib.context under a cooperative scheduler; iterative preemption bounding; monitor over the event trace; every failing schedule replayed twice before it is reported",
	})
}

package props

import (
	"fmt"
	"os"
	"path/filepath"
	"sort"
	"strings"

	"github.com/go-python/gpython/py"
	"verif/internal/core"
	"verif/internal/harness"
)

// C11: the compile pipeline is total: code object or SyntaxError, always.

var c11Alphabet = []string{
	// keywords
	"def", "class", "if", "elif", "else", "while", "for", "in", "try", "except", "finally", "with", "as",
	"return", "yield", "from", "import", "lambda", "global", "nonlocal", "del", "pass", "break", "continue",
	"raise", "assert", "not", "and", "or", "is", "None", "True",
	// names, literals (well formed and not)
	"x", "y", "f", "1", "0", "1.5", "1j", "0x", "0x1", "0b2", "1e", "1e5", "09", "'a'", "\"", "'", "'''", "\"\"\"a\"\"\"",
	"b'a'", "r'\\'", "'\\x'", "'\\N{x}'", "...",
	// operators and delimiters
	"(", ")", "[", "]", "{", "}", ",", ":", ".", ";", "=", "==", "+", "-", "*", "**", "/", "//", "%", "@", "<", ">>", "&", "|", "^", "~",
	"+=", "**=", "->", "!=", "<>", "!", "$", "?", "`",
	// layout and odd bytes
	"\n", "\n ", "\n  ", "\n\t", "\\\n", "\\", "#c", "\x00", "\r", "\x0c", "\xc3\xa9", "\xff", "\t",
}

// structural sub-alphabet for longer sequences
var c11Struct = []string{"def", "f", "(", ")", ":", "\n", "\n ", "\n  ", "x", "=", "*", ",", "lambda", "yield", "try", "finally", "break", "class", "1", "pass"}

var c11Modes = []py.CompileMode{py.ExecMode, py.EvalMode, py.SingleMode}

func c11One(rc *core.RunCtx, src string, mode py.CompileMode, kind string) {
	fields := core.Fields{"mode": string(mode), "kind": kind}
	if len(src) <= 200 {
		fields["src"] = src
	}
	input := func() string { return "mode=" + string(mode) + " src=" + strconvQuote(src) }
	if rc.Describe(fields, input()) {
		return
	}
	rc.Guard(fields, input, func() {
		code, err := py.Compile(src, "<c11>", mode, 0, true)
		outcome := "code"
		ok := true
		obs := ""
		if err != nil {
			typ, bases, msg, _ := harness.ExcInfo(err)
			outcome = typ
			isSyntax := false
			for _, b := range bases {
				if b == "SyntaxError" {
					isSyntax = true
				}
			}
			if !isSyntax {
				ok = false
				obs = "exception " + typ + ": " + msg
			} else {
				// must carry filename, lineno, offset
				var ex *py.Exception
				switch e := err.(type) {
				case *py.Exception:
					ex = e
				case py.ExceptionInfo:
					ex, _ = e.Value.(*py.Exception)
				case *py.ExceptionInfo:
					ex, _ = e.Value.(*py.Exception)
				}
				if ex == nil {
					ok = false
					obs = "SyntaxError not carried by *py.Exception"
				} else {
					fnm, ok1 := ex.Dict["filename"].(py.String)
					ln, ok2 := ex.Dict["lineno"].(py.Int)
					off, ok3 := ex.Dict["offset"].(py.Int)
					if !ok1 || !ok2 || !ok3 || string(fnm) != "<c11>" {
						ok = false
						obs = typ + " without filename/lineno/offset: " + msg
						outcome = typ + "-nolocation"
					} else if nl := strings.Count(src, "\n") + strings.Count(src, "\r") + 2; ln < 0 || int(ln) > nl || off < 0 {
						// the location must be inside the text (one line of slack for errors at end of input)
						ok = false
						obs = fmt.Sprintf("%s located outside the text: line %d offset %d (text has %d line ends)", typ, ln, off, nl-2)
						outcome = typ + "-badlocation"
					}
				}
			}
			if code != nil && ok {
				ok = false
				obs = "both code and error returned"
			}
		} else if code == nil {
			ok = false
			obs = "nil code and nil error"
			outcome = "nil-nil"
		}
		nt := ""
		if outcome != "code" || len(src) > 0 {
			nt = string(mode) + "\x00" + src
		}
		rc.Eval(string(mode)+":"+outcome, nt)
		if rc.WantSample() && rc.Index()%977 == 0 {
			rc.Sample(map[string]string{"mode": string(mode), "src": src, "outcome": outcome})
		}
		if !ok {
			rc.Deviate(core.Deviation{Fields: fields, Input: input(), Expected: "code object or SyntaxError-family exception with filename, lineno, offset",
				Observed: obs, Sig: outcome + sigTail(obs)})
		}
	})
}

func sigTail(obs string) string {
	// a coarse, input-independent class of the message: the text after the last
	// "Error: ", with quoted parts and digits removed
	m := obs
	if i := strings.LastIndex(m, "Error: "); i >= 0 {
		m = m[i+7:]
	}
	m = strings.Trim(m, "'\" \n")
	var b strings.Builder
	for _, r := range m {
		if r >= '0' && r <= '9' {
			continue
		}
		b.WriteRune(r)
	}
	m = b.String()
	if len(m) > 70 {
		m = m[:70]
	}
	return "|" + strings.TrimSpace(m)
}

func strconvQuote(s string) string {
	var b strings.Builder
	b.WriteByte('"')
	for i := 0; i < len(s); i++ {
		c := s[i]
		switch {
		case c == '\n':
			b.WriteString("\\n")
		case c == '\t':
			b.WriteString("\\t")
		case c == '"' || c == '\\':
			b.WriteByte('\\')
			b.WriteByte(c)
		case c < 0x20 || c >= 0x7f:
			b.WriteString("\\x" + hex2(c))
		default:
			b.WriteByte(c)
		}
	}
	b.WriteByte('"')
	return b.String()
}

func hex2(c byte) string {
	const h = "0123456789abcdef"
	return string([]byte{h[c>>4], h[c&15]})
}

// joinFrags joins fragments with a single space unless one side is layout.
func joinFrags(fr []string) string {
	var b strings.Builder
	for i, f := range fr {
		if i > 0 {
			prev := fr[i-1]
			if !(strings.HasPrefix(f, "\n") || strings.HasPrefix(prev, "\n") || prev == "\\\n") {
				b.WriteByte(' ')
			}
		}
		b.WriteString(f)
	}
	return b.String()
}

// RepoPyFiles lists every .py file of the repository (sorted).
func RepoPyFiles() []string {
	var out []string
	root := os.Getenv("VERIF_REPO")
	if root == "" {
		root = "/repo"
	}
	filepath.Walk(root, func(p string, info os.FileInfo, err error) error {
		if err != nil {
			return nil
		}
		if info.IsDir() && (info.Name() == ".git") {
			return filepath.SkipDir
		}
		if !info.IsDir() && strings.HasSuffix(p, ".py") {
			out = append(out, p)
		}
		return nil
	})
	sort.Strings(out)
	return out
}

func c11Run(rc *core.RunCtx) {
	maxLen := 3
	structLen := 4
	if !rc.Quick() {
		maxLen = 4
		structLen = 6
	}
	// (1) all fragment sequences up to maxLen over the full alphabet, space-joined
	rc.Part = "tokens"
	A := c11Alphabet
	var rec func(prefix []string, depth int)
	seqs := func(alpha []string, n int, kind string, tight bool) {
		idx := make([]int, n)
		fr := make([]string, n)
		for {
			if rc.Expired() || rc.Done() {
				return
			}
			for i := range idx {
				fr[i] = alpha[idx[i]]
			}
			var src string
			if tight {
				src = strings.Join(fr, "")
			} else {
				src = joinFrags(fr)
			}
			for _, m := range c11Modes {
				if rc.Take() {
					c11One(rc, src, m, kind)
				}
			}
			// with a trailing newline too (exec/single differ on it)
			for _, m := range c11Modes {
				if rc.Take() {
					c11One(rc, src+"\n", m, kind)
				}
			}
			k := n - 1
			for k >= 0 {
				idx[k]++
				if idx[k] < len(alpha) {
					break
				}
				idx[k] = 0
				k--
			}
			if k < 0 {
				return
			}
		}
	}
	_ = rec
	for n := 0; n <= maxLen; n++ {
		seqs(A, n, "tokens", false)
	}
	// (2) tight-joined operator soup
	rc.Part = "tight"
	tight := []string{"0", "x", "1", ".", "e", "j", "'", "\"", "\\", "(", ")", "*", "=", "!", "<", ">", "-", "\n", " ", ":", "b", "r", "#", "\x00", "\xc3"}
	tl := 4
	if !rc.Quick() {
		tl = 5
	}
	for n := 1; n <= tl; n++ {
		seqs(tight, n, "tight", true)
	}
	// (3) longer sequences over the structural sub-alphabet
	rc.Part = "struct"
	for n := maxLen + 1; n <= structLen; n++ {
		seqs(c11Struct, n, "struct", false)
	}
	// (4) mutations of every .py file in the repository
	rc.Part = "mutations"
	files := RepoPyFiles()
	for _, p := range files {
		if rc.Expired() || rc.Done() {
			return
		}
		b, err := os.ReadFile(p)
		if err != nil {
			continue
		}
		src := string(b)
		if rc.Take() {
			c11One(rc, src, py.ExecMode, "file:"+p)
		}
		// token-ish mutations: split on whitespace boundaries while keeping layout
		toks := splitKeep(src)
		step := 1
		if rc.Quick() {
			step = 1 + len(toks)/150
		} else {
			step = 1 + len(toks)/1500
		}
		for i := 0; i < len(toks); i += step {
			if rc.Expired() || rc.Done() {
				return
			}
			if strings.TrimSpace(toks[i]) == "" {
				continue
			}
			// deletion
			if rc.Take() {
				c11One(rc, strings.Join(toks[:i], "")+strings.Join(toks[i+1:], ""), py.ExecMode, "del:"+p)
			}
			// duplication
			if rc.Take() {
				c11One(rc, strings.Join(toks[:i+1], "")+" "+strings.Join(toks[i:], ""), py.ExecMode, "dup:"+p)
			}
			// swap with next non-space token
			j := i + 1
			for j < len(toks) && strings.TrimSpace(toks[j]) == "" {
				j++
			}
			if j < len(toks) {
				t2 := append([]string{}, toks...)
				t2[i], t2[j] = t2[j], t2[i]
				if rc.Take() {
					c11One(rc, strings.Join(t2, ""), py.ExecMode, "swap:"+p)
				}
			}
		}
		// single-byte deletions
		bstep := 1 + len(src)/200
		if !rc.Quick() {
			bstep = 1 + len(src)/2000
		}
		for i := 0; i < len(src); i += bstep {
			if rc.Expired() || rc.Done() {
				return
			}
			if rc.Take() {
				c11One(rc, src[:i]+src[i+1:], py.ExecMode, "bytedel:"+p)
			}
		}
		// truncations at every line end (quick: strided)
		lines := strings.SplitAfter(src, "\n")
		acc := ""
		for li, l := range lines {
			acc += l
			if rc.Quick() && li%7 != 0 {
				continue
			}
			if rc.Take() {
				c11One(rc, strings.TrimSuffix(acc, "\n"), py.ExecMode, "trunc:"+p)
			}
		}
	}
	// (5) every program of the scope-tree generator (C03): nestings of def/lambda/class/comprehension
	// with bind/use/global/nonlocal/del - the symbol-table and closure paths of the compiler
	rc.Part = "scopes"
	scopeProg := func(mod *sscope, _ int) {
		if rc.Expired() || rc.Done() {
			return
		}
		if !rc.Take() {
			return
		}
		r := &c03r{}
		r.body(0, cloneScope(mod, nil))
		c11One(rc, r.b.String(), py.ExecMode, "scope")
	}
	c03Skeletons(rc.Quick(), scopeProg)
	c03Siblings(rc.Quick(), scopeProg)
	c03ParamForms(scopeProg)
	c03ClassBinds(scopeProg)
	{
		budget, depth := 4, 3
		if !rc.Quick() {
			budget = 5
		}
		g := &c03gen{rc: rc, names: []string{"x"}, maxDepth: depth}
		g.items(scModule, 0, budget, func(items []*sitem, used int) {
			if used == 0 {
				return
			}
			scopeProg(&sscope{kind: scModule, items: items}, used)
		})
	}
	// (5b) assignment-target trees in every position a target can occur: what may and may not be
	// assigned to is decided by tree walks (setCtx and friends) that the token sequences above
	// are too short to reach
	rc.Part = "targets"
	c11Targets(rc)
	// (5c) string and bytes literals: every body of up to 3 (thorough 4) units over the pieces
	// escapes are made of and the characters that may cut one short (ASCII, Latin-1, beyond
	// U+00FF, astral, a byte that is not UTF-8, NUL, newline, the quote itself), in every
	// prefix x quote style x mode: the decoders index tables and slices with what they read
	rc.Part = "literals"
	{
		units := []string{"\\", "x", "u", "U", "N", "{", "}", "0", "4", "a", "g", "Ł", "é", "€", "\U0001f600", "\xff", "\x00", "\n", "'"}
		maxLen := 3
		if !rc.Quick() {
			maxLen = 4
		}
		var rec func(body string, n int)
		rec = func(body string, n int) {
			if rc.Expired() || rc.Done() {
				return
			}
			if n > 0 {
				for _, pf := range []string{"", "b", "r", "rb", "u"} {
					for _, q := range []string{"'", `"""`} {
						lit := pf + q + body + q
						for _, m := range c11Modes {
							if rc.Take() {
								c11One(rc, lit, m, "literal")
							}
						}
					}
				}
			}
			if n == maxLen {
				return
			}
			for _, u := range units {
				rec(body+u, n+1)
			}
		}
		rec("", 0)
		// bodies that begin with an escape introducer, two units longer: an escape needs up to 8
		// characters after its letter, and the character that cuts it short may come second or third
		lead := maxLen
		maxLen += 2
		for _, e := range []string{"\\x", "\\u", "\\U", "\\N", "\\0", "\\4"} {
			var rec2 func(body string, n int)
			rec2 = func(body string, n int) {
				if rc.Expired() || rc.Done() {
					return
				}
				if n > lead {
					for _, pf := range []string{"", "b", "u"} {
						lit := pf + "'" + body + "'"
						for _, m := range c11Modes {
							if rc.Take() {
								c11One(rc, lit, m, "literal")
							}
						}
					}
				}
				if n == maxLen {
					return
				}
				for _, u := range units {
					rec2(body+u, n+1)
				}
			}
			rec2(e, 2)
		}
	}
	// (6) size limits: many constants / names / long jumps / deep nesting
	rc.Part = "limits"
	for _, g := range c11Limits(rc.Quick()) {
		if rc.Expired() || rc.Done() {
			return
		}
		if rc.Take() {
			c11One(rc, g.src, g.mode, "limit:"+g.name)
		}
	}
}

// c11TargetTrees: all expression trees of the given depth over atoms {name, attribute,
// subscript, number, call, None, string, binary operation, lambda, comparison, conditional} and the constructors {*T, (T, U),
// [T, U], (T), (T,), [T], T.a, T[0]}.
func c11TargetTrees(depth int) []string {
	atoms := []string{"a", "a.b", "a[0]", "1", "f()", "None", "'s'", "a + 1", "a if b else c", "lambda: a", "a < b", "...", "a[0:1]", "yield", "-a", "()", "[]"}
	if depth == 0 {
		return atoms
	}
	sub := c11TargetTrees(depth - 1)
	out := append([]string{}, atoms...)
	for _, t := range sub {
		out = append(out, "*"+t, "("+t+")", "("+t+",)", "["+t+"]", "("+t+").a", "("+t+")[0]")
	}
	// pairs: the full square at depth 1, against a short list above that
	right := sub
	if depth > 1 {
		right = []string{"b", "1", "*b"}
	}
	for _, t := range sub {
		for _, u := range right {
			out = append(out, "("+t+", "+u+")", "["+t+", "+u+"]")
			if depth > 1 {
				out = append(out, "("+u+", "+t+")")
			}
		}
	}
	return out
}

func c11Targets(rc *core.RunCtx) {
	depth := 2
	ctxs := []string{"%s = c\n", "%s, b = c\n", "b, %s = c\n", "x = %s = c\n", "for %s in c: pass\n", "for %s, b in c: pass\n", "with c as %s: pass\n", "with c as (%s, b): pass\n",
		"del %s\n", "del %s, b\n", "del (%s, b)\n", "[0 for %s in c]\n", "[0 for %s, b in c]\n", "(0 for b, %s in c)\n", "{0: 1 for %s in c}\n", "%s += 1\n", "%s: pass\n",
		"def g(%s): pass\n", "lambda %s: 0\n", "import m as %s\n", "from m import n as %s\n", "try: pass\nexcept E as %s: pass\n", "global %s\n", "nonlocal %s\n", "f(%s=1)\n", "class K(%s=1): pass\n",
		"def g(a, *, %s): pass\n", "def g(a=%s): pass\n", "@%s\ndef g(): pass\n", "x = yield %s\n", "x = [%s for a in c]\n", "print(%s)\n", "f(*%s)\n", "f(**%s)\n", "raise %s from b\n", "assert %s, b\n", "return %s\n"}
	trees := c11TargetTrees(depth)
	rc.Note("target_trees", itoa(len(trees)))
	for _, cx := range ctxs {
		for _, t := range trees {
			if rc.Expired() || rc.Done() {
				return
			}
			src := fmt.Sprintf(cx, t)
			for _, m := range []py.CompileMode{py.ExecMode, py.SingleMode} {
				if rc.Take() {
					c11One(rc, src, m, "targets")
				}
			}
			if rc.Take() {
				c11One(rc, "def h():\n "+strings.ReplaceAll(strings.TrimSuffix(src, "\n"), "\n", "\n ")+"\n", py.ExecMode, "targets")
			}
		}
	}
}

type c11lim struct {
	name string
	src  string
	mode py.CompileMode
}

func c11Limits(quick bool) []c11lim {
	var out []c11lim
	rep := func(s string, n int) string { return strings.Repeat(s, n) }
	var b strings.Builder
	// > 2^16 constants
	nconst := 70000
	b.WriteString("x = [")
	for i := 0; i < nconst; i++ {
		b.WriteString(itoa(i + 1000))
		b.WriteString(",")
	}
	b.WriteString("]\n")
	out = append(out, c11lim{"consts>65536", b.String(), py.ExecMode})
	// > 2^16 names
	b.Reset()
	for i := 0; i < nconst; i++ {
		b.WriteString("n" + itoa(i) + "=0\n")
	}
	out = append(out, c11lim{"names>65536", b.String(), py.ExecMode})
	// star-unpacking targets: 255 / 256 / 257 names before and after the starred one
	for _, ba := range [][2]int{{0, 255}, {0, 256}, {0, 257}, {255, 0}, {256, 0}, {255, 255}, {255, 256}, {1, 300}, {254, 1}} {
		var names []string
		for i := 0; i < ba[0]; i++ {
			names = append(names, "p"+itoa(i))
		}
		names = append(names, "*s")
		for i := 0; i < ba[1]; i++ {
			names = append(names, "q"+itoa(i))
		}
		t := strings.Join(names, ", ")
		out = append(out, c11lim{"star-unpack-" + itoa(ba[0]) + "-" + itoa(ba[1]), t + " = t\n", py.ExecMode})
		out = append(out, c11lim{"star-unpack-for-" + itoa(ba[0]) + "-" + itoa(ba[1]), "for " + t + " in t: pass\n", py.ExecMode})
		out = append(out, c11lim{"star-unpack-list-" + itoa(ba[0]) + "-" + itoa(ba[1]), "def f():\n    [" + t + "] = t\n", py.ExecMode})
	}
	// number literals around the machine-word limits, in every radix and every mode: the lexer
	// converts them with different code for different lengths, and a conversion error is not a SyntaxError
	{
		ones := func(n int) string { return rep("1", n) }
		lits := []string{"0x7fffffffffffffff", "0x8000000000000000", "0xffffffffffffffff", "0XFFFFFFFFFFFFFFFF", "0x10000000000000000", "0x0ffffffffffffffff",
			"0xfffffffffffffff", "0x" + rep("f", 17), "0x" + rep("f", 32), "0x" + rep("f", 33),
			"0b" + ones(62), "0b" + ones(63), "0b" + ones(64), "0b" + ones(65), "0B" + ones(64), "0b0" + ones(64), "0b" + ones(128),
			"0o777777777777777777777", "0o1000000000000000000000", "0o1777777777777777777777", "0o2000000000000000000000", "0O1777777777777777777777", "0o" + rep("7", 43),
			"9223372036854775807", "9223372036854775808", "18446744073709551615", "18446744073709551616", "999999999999999999", "9999999999999999999", rep("9", 40),
			"9223372036854775807j", "9223372036854775808j", "1e308", "1e309", "1e-323", "1e-400", "1" + rep("0", 400) + ".0", "0." + rep("0", 400) + "1", "1e" + rep("9", 30), "1E-" + rep("9", 30)}
		for _, l := range lits {
			out = append(out, c11lim{"number-" + short(l, 24) + "-" + itoa(len(l)) + "-eval", l, py.EvalMode})
			out = append(out, c11lim{"number-" + short(l, 24) + "-" + itoa(len(l)) + "-neg", "-" + l, py.EvalMode})
			out = append(out, c11lim{"number-" + short(l, 24) + "-" + itoa(len(l)) + "-exec", "x = " + l + "\n", py.ExecMode})
			out = append(out, c11lim{"number-" + short(l, 24) + "-" + itoa(len(l)) + "-single", l + "\n", py.SingleMode})
		}
	}
	// jump over > 65535 bytes
	b.Reset()
	b.WriteString("if x:\n")
	for i := 0; i < 12000; i++ {
		b.WriteString(" y = y + 1\n")
	}
	b.WriteString("else:\n y = 2\n")
	out = append(out, c11lim{"jump>65535", b.String(), py.ExecMode})
	b.Reset()
	b.WriteString("while x:\n")
	for i := 0; i < 12000; i++ {
		b.WriteString(" y = y + 1\n")
	}
	out = append(out, c11lim{"loop>65535", b.String(), py.ExecMode})
	// deep nesting of blocks: CO_MAXBLOCKS is 20
	for _, d := range []int{19, 20, 21, 25} {
		b.Reset()
		for i := 0; i < d; i++ {
			b.WriteString(rep(" ", i) + "while x:\n")
		}
		b.WriteString(rep(" ", d) + "pass\n")
		out = append(out, c11lim{"nest-while-" + itoa(d), b.String(), py.ExecMode})
		b.Reset()
		for i := 0; i < d; i++ {
			b.WriteString(rep(" ", i) + "try:\n")
		}
		b.WriteString(rep(" ", d) + "pass\n")
		for i := d - 1; i >= 0; i-- {
			b.WriteString(rep(" ", i) + "finally:\n" + rep(" ", i+1) + "pass\n")
		}
		out = append(out, c11lim{"nest-try-" + itoa(d), b.String(), py.ExecMode})
	}
	// deep parentheses / unary chains / attribute chains
	for _, d := range []int{50, 99, 100, 101, 200} {
		out = append(out, c11lim{"paren-" + itoa(d), rep("(", d) + "1" + rep(")", d), py.EvalMode})
		out = append(out, c11lim{"unary-" + itoa(d), rep("-", d) + "1", py.EvalMode})
		out = append(out, c11lim{"list-" + itoa(d), rep("[", d) + rep("]", d), py.EvalMode})
		out = append(out, c11lim{"attr-" + itoa(d), "x" + rep(".a", d), py.EvalMode})
		out = append(out, c11lim{"call-" + itoa(d), "f" + rep("()", d), py.EvalMode})
		out = append(out, c11lim{"lambda-" + itoa(d), rep("lambda: ", d) + "1", py.EvalMode})
		out = append(out, c11lim{"indent-" + itoa(d), func() string {
			var s strings.Builder
			for i := 0; i < d; i++ {
				s.WriteString(rep(" ", i) + "if x:\n")
			}
			s.WriteString(rep(" ", d) + "pass\n")
			return s.String()
		}(), py.ExecMode})
	}
	// many arguments
	for _, n := range []int{254, 255, 256, 300} {
		var args []string
		for i := 0; i < n; i++ {
			args = append(args, "a"+itoa(i))
		}
		out = append(out, c11lim{"params-" + itoa(n), "def f(" + strings.Join(args, ",") + "): pass\n", py.ExecMode})
		out = append(out, c11lim{"args-" + itoa(n), "f(" + strings.Join(args, ",") + ")\n", py.ExecMode})
		var kw []string
		for i := 0; i < n; i++ {
			kw = append(kw, "a"+itoa(i)+"=1")
		}
		out = append(out, c11lim{"kwargs-" + itoa(n), "f(" + strings.Join(kw, ",") + ")\n", py.ExecMode})
	}
	_ = quick
	return out
}

func itoa(i int) string {
	if i == 0 {
		return "0"
	}
	neg := i < 0
	if neg {
		i = -i
	}
	var b [24]byte
	p := len(b)
	for i > 0 {
		p--
		b[p] = byte('0' + i%10)
		i /= 10
	}
	if neg {
		p--
		b[p] = '-'
	}
	return string(b[p:])
}

// splitKeep splits a source into identifier/number/operator chunks and whitespace chunks.
func splitKeep(s string) []string {
	var out []string
	i := 0
	class := func(c byte) int {
		switch {
		case c == ' ' || c == '\t' || c == '\n' || c == '\r':
			return 0
		case c == '_' || c >= '0' && c <= '9' || c >= 'a' && c <= 'z' || c >= 'A' && c <= 'Z' || c >= 0x80:
			return 1
		}
		return 2
	}
	for i < len(s) {
		c := class(s[i])
		j := i + 1
		if c != 2 {
			for j < len(s) && class(s[j]) == c {
				j++
			}
		}
		out = append(out, s[i:j])
		i = j
	}
	return out
}

func init() {
	core.Register(&core.Check{
		ID:    "C11",
		Level: "model_checking",
		Rule: "every fragment sequence up to the length bound over an 100-fragment alphabet (space-joined), a 25-byte tight alphabet, a 20-fragment structural alphabet, " +
			"x 3 compile modes x {with, without trailing newline}; token deletions/duplications/swaps, byte deletions and line truncations of every .py file in /repo; " +
			"every program of the C03 scope-tree generator (compile only); size-limit programs. A case is non-trivial unless it is the empty text; distinct by (mode, text).",
		Run:         c11Run,
		Assumptions: []string{"totality over all byte strings is approximated by closure over the stated alphabets and length bounds", "hangs are detected by a 150 s no-progress watchdog"},
		Explanation: "stateless exhaustive enumeration of inputs; oracle: result is a code object or a SyntaxError-family exception with filename, lineno, offset",
	})
}

package props

import (
	"fmt"
	"os"
	"sort"
	"strings"

	"github.com/go-python/gpython/py"
	"verif/internal/harness"
)

// DumpCode renders a code object structurally and recursively: bytecode, constants,
// names, variable tables, flags, stack size, line table, cell2arg.
func DumpCode(c *py.Code) string {
	var b strings.Builder
	dumpCode(&b, c, 0)
	return b.String()
}

func dumpCode(b *strings.Builder, c *py.Code, depth int) {
	ind := strings.Repeat("  ", depth)
	fmt.Fprintf(b, "%scode %q file=%q first=%d argc=%d kwonly=%d nlocals=%d stack=%d flags=%#x\n", ind, c.Name, c.Filename, c.Firstlineno, c.Argcount, c.Kwonlyargcount, c.Nlocals, c.Stacksize, c.Flags)
	fmt.Fprintf(b, "%s bytecode=%x\n", ind, c.Code)
	fmt.Fprintf(b, "%s lnotab=%x\n", ind, c.Lnotab)
	fmt.Fprintf(b, "%s names=%q varnames=%q freevars=%q cellvars=%q cell2arg=%v\n", ind, c.Names, c.Varnames, c.Freevars, c.Cellvars, c.Cell2arg)
	for i, k := range c.Consts {
		if cc, ok := k.(*py.Code); ok {
			fmt.Fprintf(b, "%s const[%d]=\n", ind, i)
			dumpCode(b, cc, depth+1)
		} else {
			fmt.Fprintf(b, "%s const[%d]=%s:%s\n", ind, i, k.Type().Name, harness.Canon(k))
		}
	}
}

// AllCodes returns c and every nested code object.
func AllCodes(c *py.Code) []*py.Code {
	out := []*py.Code{c}
	for _, k := range c.Consts {
		if cc, ok := k.(*py.Code); ok {
			out = append(out, AllCodes(cc)...)
		}
	}
	return out
}

// CompileDump compiles and returns the dump, or "error:<type>:<msg>".
func CompileDump(src, file string, mode py.CompileMode) string {
	code, err := py.Compile(src, file, mode, 0, true)
	if err != nil {
		t, _, msg, _ := harness.ExcInfo(err)
		return "error:" + t + ":" + msg
	}
	return DumpCode(code)
}

type Prog struct {
	Name string
	Src  string
}

var scopeCorpusCache []Prog

// ScopeCorpus: small programs exercising cells, free variables, class bodies,
// comprehensions, global/nonlocal declarations and keyword calls - the places where
// the compiler iterates over Go maps.
func ScopeCorpus() []Prog {
	if scopeCorpusCache != nil {
		return scopeCorpusCache
	}
	var out []Prog
	add := func(name, src string) { out = append(out, Prog{name, src}) }
	names := []string{"a", "b", "c", "d", "e"}
	for k := 2; k <= 5; k++ {
		ns := names[:k]
		// k cell variables captured by an inner function
		add(fmt.Sprintf("cells%d", k), "def f("+strings.Join(ns, ", ")+"):\n    def g():\n        return ("+strings.Join(ns, ", ")+")\n    return g\nr = f("+strings.Join(ns2(k), ", ")+")()\n")
		// reversed order of use
		rev := append([]string{}, ns...)
		sort.Sort(sort.Reverse(sort.StringSlice(rev)))
		add(fmt.Sprintf("cellsrev%d", k), "def f():\n"+assigns(rev, "    ")+"    def g():\n        return ("+strings.Join(rev, ", ")+")\n    return g\nr = f()()\n")
		// two levels of nesting: free variables passed through
		add(fmt.Sprintf("through%d", k), "def f():\n"+assigns(ns, "    ")+"    def g():\n        def h():\n            return ("+strings.Join(ns, ", ")+")\n        return h\n    return g\nr = f()()()\n")
		// class body using free variables and defining methods that use them
		add(fmt.Sprintf("class%d", k), "def f():\n"+assigns(ns, "    ")+"    class C:\n        x = ("+strings.Join(ns, ", ")+")\n        def m(self):\n            return ("+strings.Join(rev, ", ")+")\n    return C\nr = f()().m()\n")
		// class body that BINDS names which are also free in one of its methods and bound in the
		// enclosing function (DEF_FREE_CLASS: the class passes the enclosing cells through)
		add(fmt.Sprintf("classbind%d", k), "def f():\n"+assigns(ns, "    ")+"    class C:\n"+assigns(rev, "        ")+"        def m(self):\n            return ("+strings.Join(ns, ", ")+")\n    return C\nr = f()().m()\n")
		// comprehension capturing
		add(fmt.Sprintf("comp%d", k), "def f():\n"+assigns(ns, "    ")+"    return [("+strings.Join(ns, ", ")+", i) for i in range(2)]\nr = f()\n")
		add(fmt.Sprintf("genexp%d", k), "def f():\n"+assigns(ns, "    ")+"    return list(("+strings.Join(rev, ", ")+", i) for i in range(2) if "+ns[0]+")\nr = f()\n")
		// nonlocal writers
		add(fmt.Sprintf("nonlocal%d", k), "def f():\n"+assigns(ns, "    ")+"    def g():\n        nonlocal "+strings.Join(ns, ", ")+"\n"+assigns(rev, "        ")+"    g()\n    return ("+strings.Join(ns, ", ")+")\nr = f()\n")
		// globals
		add(fmt.Sprintf("global%d", k), assigns(ns, "")+"def f():\n    global "+strings.Join(rev, ", ")+"\n"+assigns(ns, "    ")+"f()\n")
		// lambda defaults and keyword arguments
		add(fmt.Sprintf("kw%d", k), "def f("+strings.Join(ns, "=0, ")+"=0, **kw):\n    return ("+strings.Join(ns, ", ")+", kw)\nr = f("+kwargs(rev)+", z=1, y=2)\n")
		add(fmt.Sprintf("kwonly%d", k), "def f(*, "+strings.Join(ns, "=1, ")+"=1):\n    return ("+strings.Join(ns, ", ")+")\nr = f("+kwargs(rev)+")\n")
		add(fmt.Sprintf("starkw%d", k), "def f(**kw):\n    return kw\nd = {"+dictItems(ns)+"}\nr = f(**d)\n")
		add(fmt.Sprintf("lambda%d", k), "def f():\n"+assigns(ns, "    ")+"    return lambda: lambda: ("+strings.Join(ns, ", ")+")\nr = f()()()\n")
	}
	add("mixed", "x = 1\ndef outer(p, q=2, *a, r, s=4, **k):\n    y = p\n    z = q\n    def mid(m):\n        nonlocal y\n        y = y + m\n        class K:\n            w = y + z\n            def get(self):\n                return (y, z, m, x)\n        return K\n    return mid\nr = outer(1, r=3)(5)().get()\n")
	add("importstar", "from math import *\nr = floor(2.5)\n")
	add("tryfinally", "def f():\n    try:\n        for i in range(3):\n            with open as g:\n                pass\n    except (A, B) as e:\n        raise\n    finally:\n        return 1\n")
	scopeCorpusCache = out
	return out
}

func ns2(k int) []string {
	var o []string
	for i := 0; i < k; i++ {
		o = append(o, fmt.Sprint(i+1))
	}
	return o
}

func assigns(ns []string, ind string) string {
	var b strings.Builder
	for i, n := range ns {
		fmt.Fprintf(&b, "%s%s = %d\n", ind, n, i+1)
	}
	return b.String()
}

func kwargs(ns []string) string {
	var o []string
	for i, n := range ns {
		o = append(o, fmt.Sprintf("%s=%d", n, i+10))
	}
	return strings.Join(o, ", ")
}

func dictItems(ns []string) string {
	var o []string
	for i, n := range ns {
		o = append(o, fmt.Sprintf("%q: %d", n, i))
	}
	return strings.Join(o, ", ")
}

var repoCorpusCache []Prog

// RepoCorpus: every .py file of the repository.
func RepoCorpus() []Prog {
	if repoCorpusCache != nil {
		return repoCorpusCache
	}
	for _, p := range RepoPyFiles() {
		b, err := os.ReadFile(p)
		if err == nil {
			repoCorpusCache = append(repoCorpusCache, Prog{p, string(b)})
		}
	}
	return repoCorpusCache
}

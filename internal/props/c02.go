package props

import (
	"fmt"
	"strings"

	"github.com/go-python/gpython/py"
	"verif/internal/core"
	"verif/internal/harness"
)

// C02: control flow and exceptions take exactly Python's paths; none lost.

type sk int

const (
	sLog sk = iota
	sRaise
	sReraise
	sReturn
	sBreak
	sContinue
	sIf
	sWhile
	sFor
	sTry
	sWith
	sCall
	sPad  // id comment-only lines: no effect, but the next statement is that much further down
	sWide // one line that compiles to about 3*id bytes of code: no effect, but the next instruction is that much further on
)

type handler struct {
	classes []string // empty = bare except
	as      bool
	body    []*stmt
}

type stmt struct {
	k       sk
	id      int    // log id / condition label / with id
	exc     string // sRaise
	cond    bool   // sIf
	body    []*stmt
	orelse  []*stmt // if-else, loop-else, try-else
	hs      []handler
	fin     []*stmt
	hasFin  bool
	hasElse bool
	mode    string // sWith: "false" "true" "raise" ... "enter" (__enter__ raises KeyError), "p:<m1>:<m2>" (two managers in one statement)
	inner   *stmt  // sWith with two managers: the second one, as the with statement it is equivalent to
	iter    string // sFor: "" = range(2); else what is iterated (c02IterModes)
	line    int    // line of the statement (header for compounds)
	callLn  int    // sCall: line of the call g()
}

var excParents = map[string]string{
	"KeyError": "LookupError", "IndexError": "LookupError", "LookupError": "Exception",
	"ZeroDivisionError": "ArithmeticError", "ArithmeticError": "Exception", "ValueError": "Exception",
	"RuntimeError": "Exception", "Exception": "BaseException", "BaseException": "", "StopIteration": "Exception",
}

// c02IterModes: iterables that give one item and then end or fail. kind-What: kind is the
// protocol (cls: __iter__/__next__ class, gen: generator, seq: __getitem__ only), What is
// raised on the second step. Only StopIteration (and IndexError from __getitem__) end the
// loop; everything else - in particular Exception, the base class of StopIteration, and
// LookupError, the base class of IndexError - propagates from the for statement.
// c02WhileModes: "" = a counted condition (two iterations); otherwise the condition is this constant
var c02WhileModes = []string{"", "0", "False", "None", "''", "1", "True"}

func c02WhileTrue(m string) bool { return m == "1" || m == "True" }

var c02IterModes = []string{"cls-StopIteration", "cls-Exception", "cls-KeyError", "gen-Exception", "gen-return", "seq-IndexError", "seq-LookupError"}

// c02IterRaises: the exception that escapes the loop header ("" = the loop just ends)
func c02IterRaises(mode string) string {
	w := mode[4:]
	if w == "StopIteration" || w == "return" || mode == "seq-IndexError" {
		return ""
	}
	return w
}

func isSub(t, of string) bool {
	for t != "" {
		if t == of {
			return true
		}
		t = excParents[t]
	}
	return false
}

// ---- rendering ----

type c02r struct {
	b    strings.Builder
	line int
	nid  int
	nfn  int
	nw   int
}

func (r *c02r) emit(ind int, s string) int {
	r.line++
	r.b.WriteString(strings.Repeat("    ", ind) + s + "\n")
	return r.line
}

func (r *c02r) block(ind int, ss []*stmt) {
	if len(ss) == 0 {
		r.emit(ind, "pass")
		return
	}
	for _, s := range ss {
		r.stmt(ind, s)
	}
}

func (r *c02r) stmt(ind int, s *stmt) {
	switch s.k {
	case sPad:
		for i := 0; i < s.id; i++ {
			r.emit(ind, "#")
		}
	case sWide:
		var el []string
		for i := 0; i < s.id; i++ {
			el = append(el, itoa(i%7))
		}
		r.emit(ind, "_w = ["+strings.Join(el, ", ")+"]")
	case sLog:
		r.nid++
		s.id = r.nid
		s.line = r.emit(ind, fmt.Sprintf("vh.log(%d)", s.id))
	case sRaise:
		s.line = r.emit(ind, "raise "+s.exc)
	case sReraise:
		s.line = r.emit(ind, "raise")
	case sReturn:
		r.nid++
		s.id = r.nid
		s.line = r.emit(ind, fmt.Sprintf("return %d", s.id))
	case sBreak:
		s.line = r.emit(ind, "break")
	case sContinue:
		s.line = r.emit(ind, "continue")
	case sIf:
		r.nid++
		s.id = r.nid
		c := "False"
		if s.cond {
			c = "True"
		}
		s.line = r.emit(ind, fmt.Sprintf("if vh.v(%d, %s):", s.id, c))
		r.block(ind+1, s.body)
		if s.hasElse {
			r.emit(ind, "else:")
			r.block(ind+1, s.orelse)
		}
	case sWhile:
		r.nw++
		v := fmt.Sprintf("w%d", r.nw)
		r.emit(ind, v+" = 0")
		switch {
		case s.iter == "":
			s.line = r.emit(ind, "while "+v+" < 2:")
			r.emit(ind+1, v+" += 1")
		case c02WhileTrue(s.iter):
			// a constant true condition: two iterations, then a break (which skips the else clause)
			s.line = r.emit(ind, "while "+s.iter+":")
			r.emit(ind+1, v+" += 1")
			r.emit(ind+1, "if "+v+" > 2:")
			r.emit(ind+2, "break")
		default:
			// a constant false condition: the body never runs, the else clause does
			s.line = r.emit(ind, "while "+s.iter+":")
		}
		r.block(ind+1, s.body)
		if s.hasElse {
			r.emit(ind, "else:")
			r.block(ind+1, s.orelse)
		}
	case sFor:
		r.nw++
		if s.iter != "" {
			s.line = r.emit(ind, fmt.Sprintf("for i%d in mkiter(%q):", r.nw, s.iter))
		} else {
			s.line = r.emit(ind, fmt.Sprintf("for i%d in range(2):", r.nw))
		}
		r.block(ind+1, s.body)
		if s.hasElse {
			r.emit(ind, "else:")
			r.block(ind+1, s.orelse)
		}
	case sTry:
		s.line = r.emit(ind, "try:")
		r.block(ind+1, s.body)
		for i := range s.hs {
			h := &s.hs[i]
			head := "except"
			if len(h.classes) == 1 {
				head += " " + h.classes[0]
			} else if len(h.classes) > 1 {
				head += " (" + strings.Join(h.classes, ", ") + ")"
			}
			if h.as {
				head += " as e"
			}
			r.emit(ind, head+":")
			r.block(ind+1, h.body)
		}
		if s.hasElse {
			r.emit(ind, "else:")
			r.block(ind+1, s.orelse)
		}
		if s.hasFin {
			r.emit(ind, "finally:")
			r.block(ind+1, s.fin)
		}
	case sWith:
		r.nid++
		s.id = r.nid
		if strings.HasPrefix(s.mode, "p:") {
			parts := strings.Split(s.mode, ":")
			r.nid++
			s.inner = &stmt{k: sWith, mode: parts[2], id: r.nid, body: s.body}
			s.line = r.emit(ind, fmt.Sprintf("with CM(%d, %q), CM(%d, %q):", s.id, parts[1], s.inner.id, parts[2]))
			s.inner.line = s.line
		} else {
			s.line = r.emit(ind, fmt.Sprintf("with CM(%d, %q):", s.id, s.mode))
		}
		r.block(ind+1, s.body)
	case sCall:
		r.nfn++
		name := fmt.Sprintf("g%d", r.nfn)
		s.exc = name
		s.line = r.emit(ind, "def "+name+"():")
		r.block(ind+1, s.body)
		s.callLn = r.emit(ind, name+"()")
	}
}

// ---- static legality (compile-time SyntaxErrors) ----

// ctx: inLoop, inFinally (continue in finally is rejected by 3.4)
func c02Legal(ss []*stmt, inLoop, inFinally bool) bool {
	for _, s := range ss {
		switch s.k {
		case sBreak:
			if !inLoop {
				return false
			}
		case sContinue:
			if !inLoop || inFinally {
				return false
			}
		case sIf:
			if !c02Legal(s.body, inLoop, inFinally) || !c02Legal(s.orelse, inLoop, inFinally) {
				return false
			}
		case sWhile, sFor:
			// a loop inside a finally clause resets the "continue in finally" restriction
			if !c02Legal(s.body, true, false) || !c02Legal(s.orelse, inLoop, inFinally) {
				return false
			}
		case sTry:
			if !c02Legal(s.body, inLoop, inFinally) || !c02Legal(s.orelse, inLoop, inFinally) {
				return false
			}
			for _, h := range s.hs {
				if !c02Legal(h.body, inLoop, inFinally) {
					return false
				}
			}
			if !c02Legal(s.fin, inLoop, true) {
				return false
			}
		case sWith:
			if !c02Legal(s.body, inLoop, inFinally) {
				return false
			}
		case sCall:
			if !c02Legal(s.body, false, false) {
				return false
			}
		}
	}
	return true
}

// ---- reference semantics (structural operational) ----

type tbEntry struct {
	fn   string
	line int
}

type excObj struct {
	typ string
	tb  []tbEntry // innermost last
	// lines of bare `raise` statements that re-raised it (3.4 adds an entry there, later versions do not)
	reraiseLines map[tbEntry]bool
}

type compl struct {
	kind string // "" normal, "break", "continue", "return", "raise"
	val  int
	exc  *excObj
}

type c02m struct {
	log     []string
	handled []*excObj // dynamic stack of exceptions being handled
	steps   int
	counts  map[string]int // finally:<line> and exit:<id> entry/exit accounting
}

func (m *c02m) block(ss []*stmt, fn string) compl {
	for _, s := range ss {
		c := m.exec(s, fn)
		if c.kind != "" {
			return c
		}
	}
	return compl{}
}

func (m *c02m) exec(s *stmt, fn string) compl {
	m.steps++
	switch s.k {
	case sPad, sWide:
		return compl{}
	case sLog:
		m.log = append(m.log, itoa(s.id))
		return compl{}
	case sRaise:
		return compl{kind: "raise", exc: &excObj{typ: s.exc, tb: []tbEntry{{fn, s.line}}, reraiseLines: map[tbEntry]bool{}}}
	case sReraise:
		if len(m.handled) == 0 {
			return compl{kind: "raise", exc: &excObj{typ: "RuntimeError", tb: []tbEntry{{fn, s.line}}, reraiseLines: map[tbEntry]bool{}}}
		}
		e := m.handled[len(m.handled)-1]
		e.reraiseLines[tbEntry{fn, s.line}] = true
		return compl{kind: "raise", exc: e}
	case sReturn:
		return compl{kind: "return", val: s.id}
	case sBreak:
		return compl{kind: "break"}
	case sContinue:
		return compl{kind: "continue"}
	case sIf:
		m.log = append(m.log, itoa(s.id))
		if s.cond {
			return m.block(s.body, fn)
		}
		return m.block(s.orelse, fn)
	case sWhile, sFor:
		n := 2
		if s.iter != "" {
			n = 1
		}
		if s.k == sWhile && s.iter != "" {
			n = 0
			if c02WhileTrue(s.iter) {
				n = 2
			}
		}
		for it := 0; it < n; it++ {
			c := m.block(s.body, fn)
			switch c.kind {
			case "break":
				return compl{} // skips the else clause
			case "continue", "":
				continue
			default:
				return c
			}
		}
		if s.k == sWhile && c02WhileTrue(s.iter) {
			return compl{} // left by the break after two iterations: no else clause
		}
		if s.k == sFor && s.iter != "" {
			if e := c02IterRaises(s.iter); e != "" {
				// raised inside the iterator while the for statement asks for the next item
				return compl{kind: "raise", exc: &excObj{typ: e, tb: []tbEntry{{fn, s.line}}, reraiseLines: map[tbEntry]bool{}}}
			}
		}
		return m.block(s.orelse, fn)
	case sTry:
		c := m.block(s.body, fn)
		if c.kind == "raise" {
			matched := false
			for _, h := range s.hs {
				ok := len(h.classes) == 0
				for _, cl := range h.classes {
					if isSub(c.exc.typ, cl) {
						ok = true
					}
				}
				if ok {
					matched = true
					m.handled = append(m.handled, c.exc)
					c = m.block(h.body, fn)
					m.handled = m.handled[:len(m.handled)-1]
					break
				}
			}
			_ = matched
		} else if c.kind == "" && s.hasElse {
			c = m.block(s.orelse, fn)
		}
		if s.hasFin {
			m.counts[fmt.Sprintf("finally@%d", s.line)]++
			// while a finally clause runs because of an exception, that exception is the one "being handled"
			if c.kind == "raise" {
				m.handled = append(m.handled, c.exc)
			}
			fc := m.block(s.fin, fn)
			if c.kind == "raise" {
				m.handled = m.handled[:len(m.handled)-1]
			}
			if fc.kind != "" {
				return fc // an abrupt finally overrides whatever was pending
			}
		}
		return c
	case sWith:
		m.log = append(m.log, fmt.Sprintf("('enter',%d)", s.id))
		mode, body := s.mode, s.body
		if s.inner != nil {
			// with A, B: body  is  with A: with B: body
			mode, body = strings.Split(s.mode, ":")[1], []*stmt{s.inner}
		}
		if mode == "enter" {
			// __enter__ raises: the manager was never entered, so its __exit__ is not called and
			// the body does not run; managers entered before it (to its left) are exited
			return compl{kind: "raise", exc: &excObj{typ: "KeyError", tb: []tbEntry{{fn, s.line}, {"__enter__", -1}}, reraiseLines: map[tbEntry]bool{}}}
		}
		c := m.block(body, fn)
		// __exit__ runs exactly once on every way out
		arg := "None"
		if c.kind == "raise" {
			arg = harness.CanonStr(c.exc.typ)
		}
		m.log = append(m.log, fmt.Sprintf("('exit',%d,%s)", s.id, arg))
		m.counts[fmt.Sprintf("exit@%d", s.id)]++
		switch mode {
		case "raise":
			// __exit__ raises ValueError: it replaces whatever was pending. Raised inside
			// __exit__ (function "__exit__"), propagating through the with statement's line.
			return compl{kind: "raise", exc: &excObj{typ: "ValueError", tb: []tbEntry{{fn, s.line}, {"__exit__", -1}}, reraiseLines: map[tbEntry]bool{}}}
		case "true", "one":
			// any true value returned by __exit__ silences the exception
			if c.kind == "raise" {
				return compl{} // swallowed
			}
		}
		return c
	case sCall:
		c := m.block(s.body, s.exc)
		switch c.kind {
		case "raise":
			// propagates out of the call: the caller's frame is entered at the call line
			e := c.exc
			e.tb = append([]tbEntry{{fn, s.callLn}}, e.tb...)
			return compl{kind: "raise", exc: e}
		case "return", "":
			return compl{}
		}
		return compl{} // break/continue cannot escape a function (rejected statically)
	}
	return compl{}
}

// ---- enumeration (continuation passing, nothing materialised) ----

type c02gen struct {
	rc        *core.RunCtx
	maxDepth  int
	excs      []string
	hspecs    [][]handlerSpec
	withCall  bool
	moreModes bool     // also __exit__ returning 1, 0 and None
	iterModes []string // what for loops iterate over (nil: range(2))
}

func (g *c02gen) withModes() []string {
	if g.moreModes {
		return []string{"false", "true", "raise", "enter", "one", "zero", "none", "p:true:enter", "p:false:enter", "p:true:raise", "p:enter:true", "p:false:true"}
	}
	return []string{"false", "true", "raise", "enter"}
}

type handlerSpec struct {
	classes []string
	as      bool
}

// stmts enumerates all single statements using at most budget nodes at the given depth.
func (g *c02gen) stmts(budget, depth int, k func(s *stmt, used int)) {
	if budget < 1 || g.rc.Expired() {
		return
	}
	k(&stmt{k: sLog}, 1)
	for _, e := range g.excs {
		k(&stmt{k: sRaise, exc: e}, 1)
	}
	k(&stmt{k: sReturn}, 1)
	k(&stmt{k: sBreak}, 1)
	k(&stmt{k: sContinue}, 1)
	k(&stmt{k: sReraise}, 1)
	if depth >= g.maxDepth || budget < 2 {
		return
	}
	// if / if-else
	for _, cond := range []bool{true, false} {
		g.blocks(budget-1, depth+1, func(b []*stmt, u int) {
			k(&stmt{k: sIf, cond: cond, body: b}, u+1)
			g.blocks(budget-1-u, depth+1, func(e []*stmt, u2 int) {
				k(&stmt{k: sIf, cond: cond, body: b, orelse: e, hasElse: true}, u+u2+1)
			})
		})
	}
	// loops with and without else
	for _, kind := range []sk{sFor, sWhile} {
		modes := []string{""}
		if kind == sFor && g.iterModes != nil {
			modes = g.iterModes
		}
		if kind == sWhile && g.moreModes {
			modes = c02WhileModes
		}
		for _, im := range modes {
			g.blocks(budget-1, depth+1, func(b []*stmt, u int) {
				k(&stmt{k: kind, body: b, iter: im}, u+1)
				g.blocks(budget-1-u, depth+1, func(e []*stmt, u2 int) {
					k(&stmt{k: kind, body: b, orelse: e, hasElse: true, iter: im}, u+u2+1)
				})
			})
		}
	}
	// with
	for _, mode := range g.withModes() {
		g.blocks(budget-1, depth+1, func(b []*stmt, u int) {
			k(&stmt{k: sWith, mode: mode, body: b}, u+1)
		})
	}
	// call frame
	if g.withCall {
		g.blocks(budget-1, depth+1, func(b []*stmt, u int) {
			k(&stmt{k: sCall, body: b}, u+1)
		})
	}
	// try
	g.blocks(budget-1, depth+1, func(body []*stmt, u int) {
		for _, hs := range g.hspecs {
			g.handlers(hs, 0, nil, budget-1-u, depth+1, func(hl []handler, uh int) {
				rest := budget - 1 - u - uh
				base := stmt{k: sTry, body: body, hs: hl}
				if len(hl) > 0 {
					s := base
					k(&s, 1+u+uh)
					// else
					g.blocks(rest, depth+1, func(e []*stmt, ue int) {
						s2 := base
						s2.orelse, s2.hasElse = e, true
						k(&s2, 1+u+uh+ue)
						g.blocks(rest-ue, depth+1, func(f []*stmt, uf int) {
							s3 := s2
							s3.fin, s3.hasFin = f, true
							k(&s3, 1+u+uh+ue+uf)
						})
					})
				}
				g.blocks(rest, depth+1, func(f []*stmt, uf int) {
					s4 := base
					s4.fin, s4.hasFin = f, true
					k(&s4, 1+u+uh+uf)
				})
			})
		}
	})
}

func (g *c02gen) handlers(specs []handlerSpec, i int, acc []handler, budget, depth int, k func(hl []handler, used int)) {
	if i == len(specs) {
		k(append([]handler{}, acc...), 0)
		return
	}
	g.blocks(budget, depth, func(b []*stmt, u int) {
		g.handlers(specs, i+1, append(acc, handler{classes: specs[i].classes, as: specs[i].as, body: b}), budget-u, depth, func(hl []handler, u2 int) {
			k(hl, u+u2)
		})
	})
}

// blocks enumerates statement lists of length 1..2
func (g *c02gen) blocks(budget, depth int, k func(b []*stmt, used int)) {
	if budget < 1 {
		return
	}
	g.stmts(budget, depth, func(s1 *stmt, u1 int) {
		k([]*stmt{s1}, u1)
		// a second statement only makes sense after one that can complete normally
		if s1.k == sRaise || s1.k == sReturn || s1.k == sBreak || s1.k == sContinue || s1.k == sReraise {
			return
		}
		g.stmts(budget-u1, depth, func(s2 *stmt, u2 int) {
			k([]*stmt{s1, s2}, u1+u2)
		})
	})
}

func cloneStmts(ss []*stmt) []*stmt {
	var out []*stmt
	for _, s := range ss {
		c := *s
		c.body = cloneStmts(s.body)
		c.orelse = cloneStmts(s.orelse)
		c.fin = cloneStmts(s.fin)
		c.hs = nil
		for _, h := range s.hs {
			c.hs = append(c.hs, handler{classes: h.classes, as: h.as, body: cloneStmts(h.body)})
		}
		out = append(out, &c)
	}
	return out
}

const c02Prelude = `
class CM:
    def __init__(self, n, mode):
        self.n = n
        self.mode = mode
    def __enter__(self):
        vh.log(('enter', self.n))
        if self.mode == "enter":
            raise KeyError
        return self
    def __exit__(self, t, v, tb):
        if t is None:
            vh.log(('exit', self.n, None))
        else:
            name = '?'
            for c, n in ((KeyError, 'KeyError'), (ZeroDivisionError, 'ZeroDivisionError'), (ValueError, 'ValueError'), (RuntimeError, 'RuntimeError'), (Exception, 'Exception'), (LookupError, 'LookupError')):
                if t is c:
                    name = n
            vh.log(('exit', self.n, name))
        if self.mode == "raise":
            raise ValueError
        if self.mode == "one":
            return 1
        if self.mode == "zero":
            return 0
        if self.mode == "none":
            return None
        return self.mode == "true"
class It:
    def __init__(self, what):
        self.what = what
        self.n = 0
    def __iter__(self):
        return self
    def __next__(self):
        self.n += 1
        if self.n == 1:
            return 1
        if self.what == "StopIteration":
            raise StopIteration
        if self.what == "Exception":
            raise Exception
        raise KeyError
def gen1(what):
    yield 1
    if what == "Exception":
        raise Exception
    return 5
class Seq:
    def __init__(self, what):
        self.what = what
    def __getitem__(self, i):
        if i == 0:
            return 1
        if self.what == "IndexError":
            raise IndexError
        raise LookupError
def mkiter(mode):
    if mode[:3] == "cls":
        return It(mode[4:])
    if mode[:3] == "gen":
        return gen1(mode[4:])
    return Seq(mode[4:])
`

func c02Run(rc *core.RunCtx) {
	c := &c01{rc: rc, ev: newEvaluator()}
	g0, err := c.ev.Exec(c02Prelude)
	if err != nil {
		panic("c02 prelude: " + err.Error())
	}
	c.base = g0
	type plan struct {
		budget, depth int
		excs          []string
		hspecs        [][]handlerSpec
		call          bool
		loopWrap      bool
		iters         bool
	}
	hsFull := [][]handlerSpec{
		{}, // try/finally only
		{{[]string{"KeyError"}, false}},
		{{[]string{"LookupError"}, true}},
		{{nil, false}},
		{{[]string{"ZeroDivisionError", "ValueError"}, false}},
		{{[]string{"KeyError"}, false}, {[]string{"Exception"}, false}},
		{{[]string{"Exception"}, false}, {[]string{"KeyError"}, false}},
		{{[]string{"ArithmeticError"}, false}, {nil, false}},
	}
	hsSmall := [][]handlerSpec{{}, {{[]string{"LookupError"}, true}}, {{[]string{"ZeroDivisionError"}, false}}, {{nil, false}}}
	hsIter := [][]handlerSpec{{}, {{[]string{"Exception"}, false}}, {{[]string{"KeyError"}, true}}, {{[]string{"LookupError"}, false}}, {{nil, false}}}
	var plans []plan
	if rc.Quick() {
		plans = []plan{
			{4, 2, []string{"KeyError", "ZeroDivisionError"}, hsFull, true, false, false},
			{5, 3, []string{"KeyError"}, hsSmall, true, false, false},
			{4, 2, []string{"KeyError", "ZeroDivisionError"}, hsFull, false, true, false},
			{4, 2, []string{"KeyError"}, hsIter, false, false, true},
		}
	} else {
		plans = []plan{
			{5, 2, []string{"KeyError", "ZeroDivisionError", "ValueError"}, hsFull, true, false, false},
			{6, 3, []string{"KeyError", "ZeroDivisionError"}, hsSmall, true, false, false},
			{5, 2, []string{"KeyError", "ZeroDivisionError"}, hsFull, false, true, false},
			{7, 3, []string{"KeyError"}, hsSmall[:3], false, false, false},
			{5, 3, []string{"KeyError"}, hsIter, false, false, true},
		}
	}
	// line gaps: the line table encodes line increments in bytes, so a statement 255, 256, 510,
	// 511, 765 ... lines below the previous one needs one, two, three ... extra entries; the
	// traceback must still name the right lines (of the raising statement and of every call)
	rc.Part = "linegaps"
	for _, P := range []int{1, 254, 255, 256, 257, 509, 510, 511, 512, 764, 765, 766, 1019, 1020, 1021, 2041} {
		pad := func() *stmt { return &stmt{k: sPad, id: P} }
		raise := func() *stmt { return &stmt{k: sRaise, exc: "KeyError"} }
		lg := func() *stmt { return &stmt{k: sLog} }
		shapes := [][]*stmt{
			{pad(), raise()},
			{lg(), pad(), raise()},
			{lg(), pad(), lg(), pad(), raise()},
			{{k: sCall, body: []*stmt{pad(), raise()}}},
			{pad(), {k: sCall, body: []*stmt{lg(), pad(), raise()}}},
			{{k: sTry, body: []*stmt{pad(), raise()}, hasFin: true, fin: []*stmt{pad(), lg()}}},
			{{k: sTry, body: []*stmt{raise()}, hs: []handler{{classes: []string{"KeyError"}, body: []*stmt{pad(), {k: sRaise, exc: "ZeroDivisionError"}}}}}},
			{{k: sWith, mode: "false", body: []*stmt{pad(), raise()}}},
			{{k: sFor, body: []*stmt{pad(), lg()}}, pad(), raise()},
		}
		for si, sh := range shapes {
			for _, gap := range []int{0, P} {
				if rc.Expired() || rc.Done() {
					return
				}
				if !rc.Take() {
					continue
				}
				c02OneGap(c, cloneStmts(sh), 100+si, 90, gap)
			}
		}
	}
	// the complete try statement - body, handler, else clause and finally clause at once - is
	// bigger than the node budget of the plans below: here it is, inside each kind of loop, inside
	// a loop in a with block, and in a called function inside a loop, with every leaf in every clause
	rc.Part = "fulltry"
	{
		leaves := []func() *stmt{
			func() *stmt { return &stmt{k: sLog} }, func() *stmt { return &stmt{k: sRaise, exc: "KeyError"} }, func() *stmt { return &stmt{k: sRaise, exc: "ValueError"} },
			func() *stmt { return &stmt{k: sReturn} }, func() *stmt { return &stmt{k: sBreak} }, func() *stmt { return &stmt{k: sContinue} },
		}
		wraps := []func(t *stmt) []*stmt{
			func(t *stmt) []*stmt { return []*stmt{{k: sFor, body: []*stmt{t, {k: sLog}}}, {k: sLog}} },
			func(t *stmt) []*stmt { return []*stmt{{k: sWhile, body: []*stmt{t, {k: sLog}}}, {k: sLog}} },
			func(t *stmt) []*stmt {
				return []*stmt{{k: sFor, body: []*stmt{t}, orelse: []*stmt{{k: sLog}}, hasElse: true}}
			},
			func(t *stmt) []*stmt {
				return []*stmt{{k: sFor, body: []*stmt{{k: sWith, mode: "false", body: []*stmt{t}}, {k: sLog}}}, {k: sLog}}
			},
			func(t *stmt) []*stmt {
				return []*stmt{{k: sFor, body: []*stmt{{k: sTry, body: []*stmt{t}, hasFin: true, fin: []*stmt{{k: sLog}}}}}, {k: sLog}}
			},
		}
		for wi, wrap := range wraps {
			for _, hcls := range [][]string{{"KeyError"}, {"LookupError"}, nil} {
				for a := range leaves {
					for b := range leaves {
						for e := range leaves {
							for f := range leaves {
								if rc.Expired() || rc.Done() {
									return
								}
								if !rc.Take() {
									continue
								}
								t := &stmt{k: sTry, body: []*stmt{leaves[a]()}, hs: []handler{{classes: hcls, body: []*stmt{leaves[b]()}}},
									orelse: []*stmt{leaves[e]()}, hasElse: true, fin: []*stmt{leaves[f]()}, hasFin: true}
								c02One(c, wrap(t), 9, 80+wi)
							}
						}
					}
				}
			}
		}
	}
	// lines whose code is longer than one byte-offset entry of the line table can express (255
	// bytes, and 2 x, 3 x that): statements after them must still be attributed to their own lines
	rc.Part = "widelines"
	for _, N := range []int{80, 84, 85, 86, 90, 169, 170, 171, 255, 256, 300} {
		wide := func() *stmt { return &stmt{k: sWide, id: N} }
		raise := func() *stmt { return &stmt{k: sRaise, exc: "KeyError"} }
		lg := func() *stmt { return &stmt{k: sLog} }
		shapes := [][]*stmt{
			{wide(), raise()},
			{lg(), wide(), lg(), raise()},
			{wide(), lg(), wide(), raise()},
			{wide(), {k: sCall, body: []*stmt{wide(), lg(), raise()}}},
			{{k: sCall, body: []*stmt{lg(), wide(), raise()}}, wide()},
			{{k: sTry, body: []*stmt{wide(), raise()}, hasFin: true, fin: []*stmt{wide(), lg()}}},
			{{k: sTry, body: []*stmt{raise()}, hs: []handler{{classes: []string{"KeyError"}, body: []*stmt{wide(), {k: sRaise, exc: "ZeroDivisionError"}}}}}},
			{{k: sFor, body: []*stmt{wide(), lg()}}, wide(), raise()},
		}
		for si, sh := range shapes {
			if rc.Expired() || rc.Done() {
				return
			}
			if !rc.Take() {
				continue
			}
			c02One(c, cloneStmts(sh), 120+si, 91)
		}
	}
	for pi, pl := range plans {
		rc.Part = fmt.Sprintf("plan%d", pi)
		g := &c02gen{rc: rc, maxDepth: pl.depth, excs: pl.excs, hspecs: pl.hspecs, withCall: pl.call, moreModes: pi == 0}
		if pl.iters {
			g.iterModes = c02IterModes
		}
		g.blocks(pl.budget, 0, func(b []*stmt, used int) {
			if rc.Expired() || rc.Done() {
				return
			}
			if !rc.Take() {
				return
			}
			body := cloneStmts(b)
			if pl.loopWrap {
				// the whole body inside a loop, so that break/continue at the top are legal
				body = []*stmt{{k: sFor, body: body}, {k: sLog}}
			}
			c02One(c, body, used, pi)
		})
	}
}

func c02One(c *c01, body []*stmt, used int, plan int) { c02OneGap(c, body, used, plan, 0) }

// c02OneGap: gap comment-only lines between the definition and the call
func c02OneGap(c *c01, body []*stmt, used int, plan int, gap int) {
	rc := c.rc
	r := &c02r{}
	r.emit(0, "def f():")
	r.block(1, body)
	for i := 0; i < gap; i++ {
		r.emit(0, "#")
	}
	callLine := r.emit(0, "r = f()")
	src := r.b.String()
	fields := core.Fields{"plan": itoa(plan), "size": itoa(used), "src": src}
	if c02ReraiseInCall(body, false) {
		fields["feature"] = "bare-raise-in-callee"
	}
	rc.Guard(fields, func() string { return src }, func() {
		// expectation
		var expLog []string
		expExc := ""
		var expTb []tbEntry
		var expReraise map[tbEntry]bool
		expRet := "None"
		compileErr := !c02Legal(body, false, false)
		m := &c02m{counts: map[string]int{}}
		if !compileErr {
			cm := m.block(body, "f")
			expLog = m.log
			switch cm.kind {
			case "raise":
				expExc = cm.exc.typ
				expTb = append([]tbEntry{{"<module>", callLine}}, cm.exc.tb...)
				expReraise = cm.exc.reraiseLines
			case "return":
				expRet = itoa(cm.val)
			}
		}
		_, g, log, err := c.run(src, py.ExecMode)
		gotExc, gotTb := "", []harness.TB(nil)
		isCompile := false
		if err != nil {
			var bases []string
			gotExc, bases, _, gotTb = harness.ExcInfo(err)
			for _, b := range bases {
				if b == "SyntaxError" {
					isCompile = true
				}
			}
		}
		outcome := "normal"
		if compileErr {
			outcome = "SyntaxError"
		} else if expExc != "" {
			outcome = "raises:" + expExc
		} else if expRet != "None" {
			outcome = "returns"
		}
		nt := ""
		if len(expLog) >= 1 || compileErr {
			nt = src
		}
		rc.Eval(outcome, nt)
		if rc.WantSample() && rc.Index()%9973 == 0 {
			rc.Sample(map[string]interface{}{"program": src, "expected_log": expLog, "expected_exception": expExc})
		}
		dev := func(cls, exp, obs string) {
			rc.Deviate(core.Deviation{Fields: fields, Input: src, Expected: exp, Observed: obs, Sig: cls})
		}
		if compileErr {
			if !isCompile {
				dev("accepted-illegal-break-continue", "SyntaxError at compile time", "exc="+orDash(gotExc)+" log=["+strings.Join(log, ",")+"]")
			}
			return
		}
		if isCompile {
			dev("rejected-legal-program", "compiles", "compile error "+gotExc)
			return
		}
		if strings.Join(log, ",") != strings.Join(expLog, ",") {
			cls := "wrong-path"
			if gotExc != expExc {
				cls = "wrong-path:" + orDash(gotExc) + "-for-" + orDash(expExc)
			}
			dev(cls, "log=["+strings.Join(expLog, ",")+"] exc="+orDash(expExc), "log=["+strings.Join(log, ",")+"] exc="+orDash(gotExc))
			return
		}
		if gotExc != expExc {
			dev("wrong-exception:"+orDash(gotExc)+"-for-"+orDash(expExc), "exc="+orDash(expExc), "exc="+orDash(gotExc))
			return
		}
		if expExc == "" {
			if got := canonOrMissing(g["r"]); got != expRet {
				dev("wrong-return-value", "r="+expRet, "r="+got)
			}
			return
		}
		// traceback: every expected entry in order; extra entries only at bare-raise lines (3.4 adds those)
		var exp []tbEntry
		for _, e := range expTb {
			if e.line < 0 {
				return // raised inside __exit__: the line attributed to the with statement is not specified here
			}
			exp = append(exp, e)
		}
		i := 0
		bad := ""
		for _, o := range gotTb {
			oe := tbEntry{o.Func, o.Line}
			if i < len(exp) && oe == exp[i] {
				i++
				continue
			}
			if o.Func == "__exit__" || o.Func == "__enter__" || o.Func == "__next__" || o.Func == "gen1" || o.Func == "__getitem__" {
				continue // frames of the context manager / iterator the statement called into
			}
			if expReraise[oe] {
				continue
			}
			bad = fmt.Sprintf("unexpected entry %s:%d", o.Func, o.Line)
			break
		}
		if bad == "" && i < len(exp) {
			bad = fmt.Sprintf("missing entry %s:%d", exp[i].fn, exp[i].line)
		}
		if bad != "" {
			dev("wrong-traceback", fmt.Sprint(exp), fmt.Sprint(gotTb)+" ("+bad+")")
		}
	})
}

// c02ReraiseInCall: some bare `raise` sits in a nested function body (so the exception it
// would re-raise is being handled in a calling frame).
func c02ReraiseInCall(ss []*stmt, inCall bool) bool {
	for _, s := range ss {
		if s.k == sReraise && inCall {
			return true
		}
		ic := inCall || s.k == sCall
		if c02ReraiseInCall(s.body, ic) || c02ReraiseInCall(s.orelse, ic) || c02ReraiseInCall(s.fin, ic) {
			return true
		}
		for _, h := range s.hs {
			if c02ReraiseInCall(h.body, ic) {
				return true
			}
		}
	}
	return false
}

func init() {
	core.Register(&core.Check{
		ID:    "C02",
		Level: "model_checking",
		Rule: "every statement tree within a node budget (quick 4-5, thorough 5-7) and nesting depth 2-3 over {log, raise E, bare raise, return, break, continue, if/else, for/while (2 iterations; first plan: also while with the constant conditions 0, False, None, '', 1, True) with else, try with 8 handler layouts (class, tuple of classes, bare, `as`, two ordered handlers) x else x finally, with (3 __exit__ behaviours, an __enter__ that raises, and in the first plan also __exit__ returning 1 / 0 / None and five two-manager statements), nested function call}, " +
			"blocks of 1-2 statements, every leaf at every position; one statement per line. Oracle: a structural operational semantics giving the path log (incl. __enter__/__exit__), the compile-time rejection (break/continue outside loop, continue in finally), the uncaught exception type, the returned value and the traceback (function, line) of the raising statement and of every active call. Part fulltry: the complete try statement (body, handler for KeyError / LookupError / bare, else, finally) in five loop wrappers (for, while, for-else, for+with, for+try/finally) with each of 6 leaves in each of the 4 clauses (19440 programs). Part widelines: 8 shapes with one-line list displays of 80..300 constants (240..900 bytes of code on one line) before the raising statement, in callers and callees: traceback lines judged. Part linegaps: 9 shapes (raise at the start of a function, after a log, after two gaps, in a nested call, in try/finally, in a handler, in a with block, after a loop) with runs of P comment-only lines before the statements and between the definition and the call, P in {1, 254..257, 509..512, 764..766, 1019..1021, 2041}: same oracle, in particular the traceback lines. Non-trivial: the expected log is non-empty or the program must be rejected.",
		Run:         c02Run,
		Assumptions: []string{"tracebacks: an extra entry at a bare `raise` line is accepted (3.4 adds it, later versions do not)", "user-defined exception classes are not in the alphabet"},
		Explanation: "exhaustive enumeration of bounded statement trees executed on the real pipeline and compared with a reference operational semantics (path trace, exception, traceback)",
	})
}

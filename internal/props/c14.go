package props

import (
	"encoding/json"
	"math"
	"math/big"
	"os"
	"runtime/debug"
	"strings"
	"unicode/utf8"

	"github.com/go-python/gpython/py"
	"verif/internal/core"
	"verif/internal/harness"
)

// C14: strings are sequences of code points; repr round-trips through eval.
//
// Layout: a "group" is one framework case (one rc.Take()): one subject string x one operation
// family x one access path ("api" = Go API calls, "src" = compiled Python source). A group holds
// many evaluations (every argument tuple of the family); each evaluation is compared with the
// []rune model on its own and reported on its own.

var c14Alphabet = []rune{'a', 'b', 0xe9, 0x20ac, 0x1f600, '\'', '"', '\\', '\n', 0, ' '}

// boundaries of the UTF-8 length classes, of the surrogate hole, of the BMP and of Unicode;
// U+FFFD is the value Go's decoder uses as its error sentinel.
var c14Boundaries = []rune{0, 0x7f, 0x80, 0x7ff, 0x800, 0xd7ff, 0xe000, 0xfffd, 0xffff, 0x10000, 0x10ffff}

var c14BytesAlphabet = []byte{'a', '\'', '"', '\\', '\n', 0, 0x7f, 0x80, 0xff}

type c14P struct {
	lenBasic    int // len, index, slices, iteration, in, strip, case, literal, repr round trip, *
	lenMid      int // find/count/startswith/endswith, replace (api); split, join, + (both paths)
	lenSrcHeavy int // find family and replace through source
	lenCmp      int // comparison of every pair (api)
	lenCmpSrc   int
	lenBytes    int
	idxRange    int // indices -idxRange..idxRange
}

func c14Params(quick bool) c14P {
	if quick {
		return c14P{lenBasic: 3, lenMid: 3, lenSrcHeavy: 1, lenCmp: 2, lenCmpSrc: 2, lenBytes: 3, idxRange: 4}
	}
	return c14P{lenBasic: 5, lenMid: 4, lenSrcHeavy: 3, lenCmp: 3, lenCmpSrc: 2, lenBytes: 4, idxRange: 6}
}

// c14Strings: all strings over alpha of length <= n, shortest first, alphabet order within a length.
func c14Strings(alpha []rune, n int) [][]rune {
	out := [][]rune{{}}
	prev := [][]rune{{}}
	for l := 1; l <= n; l++ {
		var cur [][]rune
		for _, p := range prev {
			for _, a := range alpha {
				s := make([]rune, len(p)+1)
				copy(s, p)
				s[len(p)] = a
				cur = append(cur, s)
			}
		}
		out = append(out, cur...)
		prev = cur
	}
	return out
}

// c14Extras: strings built from the boundary code points that are not in the alphabet.
func c14Extras() [][]rune {
	var out [][]rune
	for _, r := range c14Boundaries {
		if r == 0 {
			continue
		}
		out = append(out, []rune{r})
	}
	for _, r := range c14Boundaries {
		if r == 0 {
			continue
		}
		out = append(out, []rune{'a', r}, []rune{r, 'a'}, []rune{r, r}, []rune{0xe9, r, '\''})
	}
	return out
}

type c14item struct {
	args string // argument tuple, rendered (Fields["args"])
	exp  Res
	alt  string // second accepted value ("" = none)
	api  func() (py.Object, error)
	src  string // Python expression over the prelude's names
}

type c14 struct {
	rc    *core.RunCtx
	ev    *evaluator
	p     c14P
	dump  *os.File
	curOp string   // family of the group being run (C14_DUMP_OP filter)
	subs  [][]rune // strings of length <= 2 over the alphabet
	one   [][]rune // strings of length <= 1
}

// ---------- observation ----------

func c14canon(o py.Object) string {
	switch v := o.(type) {
	case py.String:
		if !utf8.ValidString(string(v)) {
			return fmtf("<invalid-utf8 % x>", string(v))
		}
		return harness.CanonStr(string(v))
	case *py.List:
		parts := make([]string, len(v.Items))
		for i, x := range v.Items {
			parts[i] = c14canon(x)
		}
		return "[" + strings.Join(parts, ",") + "]"
	case py.Tuple:
		parts := make([]string, len(v))
		for i, x := range v {
			parts[i] = c14canon(x)
		}
		return "(" + strings.Join(parts, ",") + ")"
	}
	return harness.Canon(o)
}

func c14obs(o py.Object, err error) Res {
	if err != nil {
		t, _, _, _ := harness.ExcInfo(err)
		return Res{Exc: t}
	}
	if o == nil {
		return Res{Val: "<nil>"}
	}
	return Res{Val: typeClass(o) + ":" + c14canon(o)}
}

// c14call runs one Go API call; a Go panic becomes the pseudo exception "panic@<site>".
func c14call(f func() (py.Object, error)) (res Res) {
	defer func() {
		if r := recover(); r != nil {
			res = Res{Exc: "panic@" + core.PanicSite(debug.Stack())}
		}
	}()
	return c14obs(f())
}

func c14str(s []rune) string  { return "str:" + harness.CanonStr(string(s)) }
func c14sres(s []rune) Res    { return valRes(c14str(s)) }
func c14ires(i int) Res       { return valRes("int:" + itoa(i)) }
func c14S(s []rune) py.String { return py.String(string(s)) }
func c14lres(parts [][]rune) Res {
	xs := make([]string, len(parts))
	for i, p := range parts {
		xs[i] = harness.CanonStr(string(p))
	}
	return valRes("list:[" + strings.Join(xs, ",") + "]")
}

func c14ascii(s []rune) string {
	for _, r := range s {
		if r >= 0x80 {
			return "0"
		}
	}
	return "1"
}

// exec runs src in fresh globals (plus extra) in the worker's long-lived context; Go panics
// inside the VM are reported as the pseudo exception "panic@<site>".
func (c *c14) exec(src string, extra py.StringDict) (g py.StringDict, res Res) {
	defer func() {
		if r := recover(); r != nil {
			g, res = nil, Res{Exc: "panic@" + core.PanicSite(debug.Stack())}
		}
	}()
	code, err := py.Compile(src, "<c14>", py.ExecMode, 0, true)
	if err != nil {
		t, _, _, _ := harness.ExcInfo(err)
		return nil, Res{Exc: "compile:" + t}
	}
	g = py.StringDict{"__builtins__": c.ev.ctx.Store().Builtins}
	for k, v := range extra {
		g[k] = v
	}
	_, err = c.ev.ctx.RunCode(code, g, g, nil)
	if err != nil {
		t, _, _, _ := harness.ExcInfo(err)
		return nil, Res{Exc: t}
	}
	return g, Res{}
}

// batch evaluates the expressions idx of items in ONE program `r = [e1, e2, ...]`; if the program
// fails as a whole it is bisected, so that every expression ends with its own observation.
func (c *c14) batch(pre string, items []c14item, idx []int, got []Res) {
	if len(idx) == 0 {
		return
	}
	var b strings.Builder
	b.WriteString(pre)
	b.WriteString("r = [")
	for k, i := range idx {
		if k > 0 {
			b.WriteString(", ")
		}
		b.WriteString(items[i].src)
	}
	b.WriteString("]\n")
	g, res := c.exec(b.String(), nil)
	if res.Exc == "" {
		if l, ok := g["r"].(*py.List); ok && len(l.Items) == len(idx) {
			for k, i := range idx {
				got[i] = c14obs(l.Items[k], nil)
			}
			return
		}
		res = Res{Exc: "batch-result-malformed"}
	}
	if len(idx) == 1 {
		got[idx[0]] = res
		return
	}
	h := len(idx) / 2
	c.batch(pre, items, idx[:h], got)
	c.batch(pre, items, idx[h:], got)
}

const c14Chunk = 160

func (c *c14) runSrc(pre string, items []c14item) []Res {
	got := make([]Res, len(items))
	var vals []int
	for i := range items {
		if items[i].exp.Exc != "" {
			c.batch(pre, items, []int{i}, got)
		} else {
			vals = append(vals, i)
		}
	}
	for len(vals) > 0 {
		n := len(vals)
		if n > c14Chunk {
			n = c14Chunk
		}
		c.batch(pre, items, vals[:n], got)
		vals = vals[n:]
	}
	return got
}

// group is one framework case. gen emits the items for the requested path.
func (c *c14) group(op string, s []rune, maxSrc int, pre string, gen func(src bool, emit func(c14item))) {
	rc := c.rc
	for _, via := range []string{"api", "src"} {
		if via == "src" && len(s) > maxSrc {
			continue
		}
		if !rc.Take() {
			continue
		}
		rc.Part = op
		c.curOp = op
		show := c14Show(s)
		gf := core.Fields{"op": op, "via": via, "s": show}
		gin := op + " on s=" + show + " via " + via
		rc.Guard(gf, func() string { return gin }, func() {
			var items []c14item
			gen(via == "src", func(it c14item) { items = append(items, it) })
			var got []Res
			switch {
			case c.dump != nil:
				if via == "src" {
					c.dumpGroup(pre, items)
				}
				return
			case via == "api":
				got = make([]Res, len(items))
				for i := range items {
					got[i] = c14call(items[i].api)
				}
			default:
				got = c.runSrc(pre, items)
			}
			asc := c14ascii(s)
			gkey := op + "|" + via + "|" + show + "|"
			for i := range items {
				it := &items[i]
				rc.Eval(op+":"+outcomeClass(it.exp), gkey+it.args)
				if i == 0 && rc.WantSample() && rc.Index()%997 == 0 {
					rc.Sample(map[string]string{"case": gin + " " + it.args, "expected": it.exp.String(), "observed": got[i].String()})
				}
				if got[i].matches(it.exp) || (it.alt != "" && got[i].Exc == "" && got[i].Val == it.alt) {
					continue
				}
				in := gin + ": " + it.args
				if via == "src" {
					in = pre + it.src
				}
				rc.Deviate(core.Deviation{
					Fields:   core.Fields{"op": op, "via": via, "s": show, "ascii": asc, "args": it.args},
					Input:    in,
					Expected: it.exp.String(), Observed: got[i].String(),
					Sig: op + ":" + devClass(it.exp, got[i])})
			}
		})
	}
}

func (c *c14) dumpGroup(pre string, items []c14item) {
	if f := os.Getenv("C14_DUMP_OP"); f != "" && f != c.curOp {
		return
	}
	type di struct {
		E string `json:"e"`
		X string `json:"x"`
		A string `json:"a,omitempty"`
	}
	out := struct {
		Pre   string `json:"pre"`
		Items []di   `json:"items"`
	}{Pre: pre}
	for _, it := range items {
		out.Items = append(out.Items, di{it.src, it.exp.String(), it.alt})
	}
	b, _ := json.Marshal(out)
	c.dump.Write(append(b, '\n'))
}

// ---------- helpers for arguments ----------

type c14arg struct {
	omit bool
	none bool
	v    int
}

func (a c14arg) ptr() *int {
	if a.omit || a.none {
		return nil
	}
	v := a.v
	return &v
}
func (a c14arg) String() string {
	switch {
	case a.omit:
		return "-"
	case a.none:
		return "None"
	}
	return itoa(a.v)
}
func (a c14arg) obj() py.Object {
	if a.none {
		return py.None
	}
	return py.Int(a.v)
}

// c14StartEnd: every (start, end) with values in {omitted, None, -2..4}; "omitted" only as a suffix.
func c14StartEnd() [][2]c14arg {
	var vals []c14arg
	vals = append(vals, c14arg{none: true})
	for v := -2; v <= 4; v++ {
		vals = append(vals, c14arg{v: v})
	}
	out := [][2]c14arg{{{omit: true}, {omit: true}}}
	for _, a := range vals {
		out = append(out, [2]c14arg{a, {omit: true}})
	}
	for _, a := range vals {
		for _, b := range vals {
			out = append(out, [2]c14arg{a, b})
		}
	}
	return out
}

func c14method(self py.Object, name string, args ...py.Object) (py.Object, error) {
	m, err := py.GetAttrString(self, name)
	if err != nil {
		return nil, err
	}
	return py.Call(m, py.Tuple(args), nil)
}

func c14pre(s []rune, raw bool) string {
	if raw {
		return "s = " + c14LitRaw(s) + "\n"
	}
	return "s = " + c14LitEsc(s) + "\n"
}

// ---------- the families ----------

func (c *c14) basics(s []rune) {
	n := len(s)
	S := c14S(s)
	R := c.p.idxRange
	// len, index, iteration, ord
	c.group("basic", s, c.p.lenBasic, c14pre(s, true), func(src bool, emit func(c14item)) {
		emit(c14item{args: "len", exp: c14ires(n), api: func() (py.Object, error) { return py.Len(S) }, src: "len(s)"})
		for i := -R; i <= R; i++ {
			i := i
			var exp Res
			switch {
			case i >= 0 && i < n:
				exp = c14sres(s[i : i+1])
			case i < 0 && i+n >= 0:
				exp = c14sres(s[i+n : i+n+1])
			default:
				exp = excRes("IndexError")
			}
			emit(c14item{args: "index " + itoa(i), exp: exp, api: func() (py.Object, error) { return py.GetItem(S, py.Int(i)) }, src: "s[" + itoa(i) + "]"})
		}
		chars := make([][]rune, n)
		for i := range s {
			chars[i] = s[i : i+1]
		}
		emit(c14item{args: "iter", exp: c14lres(chars), api: func() (py.Object, error) {
			it, err := py.Iter(S)
			if err != nil {
				return nil, err
			}
			l := py.NewList()
			for k := 0; k <= n+2; k++ {
				x, err := py.Next(it)
				if err != nil {
					if py.IsException(py.StopIteration, err) {
						return l, nil
					}
					return nil, err
				}
				l.Items = append(l.Items, x)
			}
			return nil, py.ExceptionNewf(py.RuntimeError, "iterator did not stop")
		}, src: "[ch for ch in s]"})
		emit(c14item{args: "list", exp: c14lres(chars), api: func() (py.Object, error) {
			l := py.NewList()
			err := py.Iterate(S, func(x py.Object) bool { l.Items = append(l.Items, x); return false })
			return l, err
		}, src: "list(s)"})
		// ord: defined for exactly one code point
		var exp Res
		if n == 1 {
			exp = c14ires(int(s[0]))
		} else {
			exp = excRes("TypeError")
		}
		emit(c14item{args: "ord", exp: exp, api: func() (py.Object, error) { return c14builtin(c, "ord", S) }, src: "ord(s)"})
		// repetition
		for k := -1; k <= 3; k++ {
			k := k
			var rep []rune
			for j := 0; j < k; j++ {
				rep = append(rep, s...)
			}
			emit(c14item{args: "mul " + itoa(k), exp: c14sres(rep), api: func() (py.Object, error) { return py.Mul(S, py.Int(k)) }, src: "s * " + lit(big.NewInt(int64(k)))})
			emit(c14item{args: "rmul " + itoa(k), exp: c14sres(rep), api: func() (py.Object, error) { return py.Mul(py.Int(k), S) }, src: lit(big.NewInt(int64(k))) + " * s"})
		}
		// case mapping
		emit(c14item{args: "upper", exp: c14sres(c14Case(s, c14UpperMap)), api: func() (py.Object, error) { return c14method(S, "upper") }, src: "s.upper()"})
		emit(c14item{args: "lower", exp: c14sres(c14Case(s, c14LowerMap)), api: func() (py.Object, error) { return c14method(S, "lower") }, src: "s.lower()"})
		// bool
		emit(c14item{args: "bool", exp: boolRes(n > 0), api: func() (py.Object, error) { return py.MakeBool(S) }, src: "bool(s)"})
	})

	// slices: one group per step
	bounds := []*int{nil}
	for v := -3; v <= 3; v++ {
		v := v
		bounds = append(bounds, &v)
	}
	sp := func(p *int) string {
		if p == nil {
			return ""
		}
		return itoa(*p)
	}
	so := func(p *int) py.Object {
		if p == nil {
			return py.None
		}
		return py.Int(*p)
	}
	for _, st := range append([]*int{nil}, c14ints(1, 2, 3, -1, -2, -3, 0)...) {
		st := st
		maxSrc := c.p.lenBasic
		if st != nil && *st == 0 && maxSrc > 3 {
			maxSrc = 3 // 64 programs per string that all raise ValueError whatever the string is
		}
		c.group("slice", s, maxSrc, c14pre(s, false), func(src bool, emit func(c14item)) {
			for _, a := range bounds {
				for _, b := range bounds {
					a, b := a, b
					var exp Res
					if r, ok := c14Slice(s, a, b, st); ok {
						exp = c14sres(r)
					} else {
						exp = excRes("ValueError")
					}
					text := sp(a) + ":" + sp(b)
					if st != nil {
						text += ":" + sp(st)
					}
					emit(c14item{args: "[" + text + "]", exp: exp, api: func() (py.Object, error) { return py.GetItem(S, py.NewSlice(so(a), so(b), so(st))) }, src: "s[" + text + "]"})
				}
			}
		})
	}

	// in
	c.group("in", s, c.p.lenBasic, c14pre(s, true), func(src bool, emit func(c14item)) {
		for _, u := range c.subs {
			u := u
			it := c14item{args: "u=" + c14Show(u), exp: boolRes(c14Contains(s, u))}
			if src {
				it.src = c14Show(u) + " in s"
			} else {
				it.api = func() (py.Object, error) {
					ok, err := py.SequenceContains(S, c14S(u))
					return py.NewBool(ok), err
				}
			}
			emit(it)
		}
	})

	// strip / lstrip / rstrip
	c.group("strip", s, c.p.lenBasic, c14pre(s, false), func(src bool, emit func(c14item)) {
		type m struct {
			name        string
			left, right bool
		}
		for _, m := range []m{{"strip", true, true}, {"lstrip", true, false}, {"rstrip", false, true}} {
			m := m
			emit(c14item{args: m.name + " -", exp: c14sres(c14Strip(s, nil, true, m.left, m.right)), api: func() (py.Object, error) { return c14method(S, m.name) }, src: "s." + m.name + "()"})
			emit(c14item{args: m.name + " None", exp: c14sres(c14Strip(s, nil, true, m.left, m.right)), api: func() (py.Object, error) { return c14method(S, m.name, py.None) }, src: "s." + m.name + "(None)"})
			for _, u := range c.subs {
				u := u
				it := c14item{args: m.name + " " + c14Show(u), exp: c14sres(c14Strip(s, u, false, m.left, m.right))}
				if src {
					it.src = "s." + m.name + "(" + c14Show(u) + ")"
				} else {
					it.api = func() (py.Object, error) { return c14method(S, m.name, c14S(u)) }
				}
				emit(it)
			}
		}
	})

	// literal spellings (source only; the api path checks chr-concatenation)
	c.group("literal", s, c.p.lenBasic, "", func(src bool, emit func(c14item)) {
		if src {
			emit(c14item{args: "escaped", exp: c14sres(s), src: c14LitEsc(s)})
			emit(c14item{args: "raw", exp: c14sres(s), src: c14LitRaw(s)})
			emit(c14item{args: "triple", exp: c14sres(s), src: c14LitTriple(s)})
			emit(c14item{args: "show", exp: c14sres(s), src: c14Show(s)})
			emit(c14item{args: "u-prefix", exp: c14sres(s), src: "u" + c14Show(s)})
			// adjacent literal concatenation keeps code points
			if n >= 2 {
				emit(c14item{args: "adjacent", exp: c14sres(s), src: "(" + c14LitRaw(s[:1]) + " " + c14Show(s[1:]) + ")"})
			}
			return
		}
		emit(c14item{args: "chr-concat", exp: c14sres(s), api: func() (py.Object, error) {
			var acc py.Object = py.String("")
			for _, r := range s {
				ch, err := c14builtin(c, "chr", py.Int(r))
				if err != nil {
					return nil, err
				}
				acc, err = py.Add(acc, ch)
				if err != nil {
					return nil, err
				}
			}
			return acc, nil
		}})
	})
}

func c14ints(vs ...int) []*int {
	var out []*int
	for _, v := range vs {
		v := v
		out = append(out, &v)
	}
	return out
}

func c14builtin(c *c14, name string, args ...py.Object) (py.Object, error) {
	f, ok := c.ev.ctx.Store().Builtins.Globals[name]
	if !ok {
		return nil, py.ExceptionNewf(py.NameError, "no builtin %s", name)
	}
	return py.Call(f, py.Tuple(args), nil)
}

func (c *c14) finds(s []rune) {
	S := c14S(s)
	se := c14StartEnd()
	type meth struct {
		name  string
		model func(u []rune, a, b *int) Res
	}
	meths := []meth{
		{"find", func(u []rune, a, b *int) Res { return c14ires(c14Find(s, u, a, b)) }},
		{"count", func(u []rune, a, b *int) Res { return c14ires(c14Count(s, u, a, b)) }},
		{"startswith", func(u []rune, a, b *int) Res { return boolRes(c14Tail(s, u, a, b, -1)) }},
		{"endswith", func(u []rune, a, b *int) Res { return boolRes(c14Tail(s, u, a, b, +1)) }},
	}
	for _, m := range meths {
		m := m
		// api: one group per (s, method); src: one group per (s, method, sub)
		if c.rc.Take() {
			c.rc.Part = m.name
			c.curOp = m.name
			show := c14Show(s)
			gf := core.Fields{"op": m.name, "via": "api", "s": show}
			gin := m.name + " on s=" + show + " via api"
			c.rc.Guard(gf, func() string { return gin }, func() {
				if c.dump != nil {
					return
				}
				asc := c14ascii(s)
				for _, u := range c.subs {
					U := c14S(u)
					ushow := c14Show(u)
					uasc := c14ascii(u)
					for _, p := range se {
						exp := m.model(u, p[0].ptr(), p[1].ptr())
						args := []py.Object{U}
						if !p[0].omit {
							args = append(args, p[0].obj())
							if !p[1].omit {
								args = append(args, p[1].obj())
							}
						}
						got := c14call(func() (py.Object, error) { return c14method(S, m.name, args...) })
						c.rc.Eval(m.name+":"+outcomeClass(exp), "")
						if got.matches(exp) {
							continue
						}
						a := "u=" + ushow + " start=" + p[0].String() + " end=" + p[1].String()
						c.rc.Deviate(core.Deviation{
							Fields:   core.Fields{"op": m.name, "via": "api", "s": show, "ascii": asc, "uascii": uasc, "u": ushow, "start": p[0].String(), "end": p[1].String()},
							Input:    gin + ": " + a,
							Expected: exp.String(), Observed: got.String(), Sig: m.name + ":" + devClass(exp, got)})
					}
				}
			})
		}
		if len(s) > c.p.lenSrcHeavy {
			continue
		}
		for _, u := range c.subs {
			u := u
			if !c.rc.Take() {
				continue
			}
			c.rc.Part = m.name
			c.curOp = m.name
			show, ushow := c14Show(s), c14Show(u)
			pre := "s = " + c14LitRaw(s) + "\nu = " + c14LitEsc(u) + "\n"
			gf := core.Fields{"op": m.name, "via": "src", "s": show, "u": ushow}
			gin := m.name + " on s=" + show + " u=" + ushow + " via src"
			c.rc.Guard(gf, func() string { return gin }, func() {
				var items []c14item
				for _, p := range se {
					e := "s." + m.name + "(u"
					if !p[0].omit {
						e += ", " + p[0].String()
						if !p[1].omit {
							e += ", " + p[1].String()
						}
					}
					e += ")"
					items = append(items, c14item{args: "start=" + p[0].String() + " end=" + p[1].String(), exp: m.model(u, p[0].ptr(), p[1].ptr()), src: e})
				}
				if c.dump != nil {
					c.dumpGroup(pre, items)
					return
				}
				got := c.runSrc(pre, items)
				asc, uasc := c14ascii(s), c14ascii(u)
				for i, p := range se {
					exp := items[i].exp
					c.rc.Eval(m.name+":"+outcomeClass(exp), "")
					if got[i].matches(exp) {
						continue
					}
					c.rc.Deviate(core.Deviation{
						Fields:   core.Fields{"op": m.name, "via": "src", "s": show, "ascii": asc, "uascii": uasc, "u": ushow, "start": p[0].String(), "end": p[1].String()},
						Input:    pre + items[i].src,
						Expected: exp.String(), Observed: got[i].String(), Sig: m.name + ":" + devClass(exp, got[i])})
				}
			})
		}
	}
}

func (c *c14) mids(s []rune) {
	S := c14S(s)
	// split
	c.group("split", s, c.p.lenMid, c14pre(s, true), func(src bool, emit func(c14item)) {
		ws := func(m int) Res { r, _ := c14Split(s, nil, true, m); return c14lres(r) }
		emit(c14item{args: "sep=- max=-", exp: ws(-1), api: func() (py.Object, error) { return c14method(S, "split") }, src: "s.split()"})
		emit(c14item{args: "sep=None max=-", exp: ws(-1), api: func() (py.Object, error) { return c14method(S, "split", py.None) }, src: "s.split(None)"})
		for _, m := range []int{-1, 0, 1, 2} {
			m := m
			emit(c14item{args: "sep=None max=" + itoa(m), exp: ws(m), api: func() (py.Object, error) { return c14method(S, "split", py.None, py.Int(m)) }, src: "s.split(None, " + itoa(m) + ")"})
		}
		for _, u := range c.subs {
			u := u
			for _, m := range []int{-9, -1, 0, 1, 2} { // -9 = omitted
				m := m
				var exp Res
				mm := m
				if m == -9 {
					mm = -1
				}
				if r, ok := c14Split(s, u, false, mm); ok {
					exp = c14lres(r)
				} else {
					exp = excRes("ValueError")
				}
				it := c14item{exp: exp}
				if m == -9 {
					it.args = "sep=" + c14Show(u) + " max=-"
				} else {
					it.args = "sep=" + c14Show(u) + " max=" + itoa(m)
				}
				if src {
					if m == -9 {
						it.src = "s.split(" + c14Show(u) + ")"
					} else {
						it.src = "s.split(" + c14Show(u) + ", " + itoa(m) + ")"
					}
				} else {
					it.api = func() (py.Object, error) {
						if m == -9 {
							return c14method(S, "split", c14S(u))
						}
						return c14method(S, "split", c14S(u), py.Int(m))
					}
				}
				emit(it)
			}
		}
	})

	// join: s is the separator
	c.group("join", s, c.p.lenMid, c14pre(s, false), func(src bool, emit func(c14item)) {
		mk := func(parts [][]rune, tuple bool) c14item {
			names := make([]string, len(parts))
			objs := make([]py.Object, len(parts))
			for i, p := range parts {
				names[i] = c14Show(p)
				objs[i] = c14S(p)
			}
			it := c14item{exp: c14sres(c14Join(s, parts))}
			if tuple {
				t := "(" + strings.Join(names, ", ")
				if len(parts) == 1 {
					t += ","
				}
				t += ")"
				it.args = t
				it.src = "s.join(" + t + ")"
				it.api = func() (py.Object, error) { return c14method(S, "join", py.Tuple(objs)) }
			} else {
				t := "[" + strings.Join(names, ", ") + "]"
				it.args = t
				it.src = "s.join(" + t + ")"
				it.api = func() (py.Object, error) { return c14method(S, "join", py.NewListFromItems(objs)) }
			}
			return it
		}
		emit(mk(nil, false))
		emit(mk(nil, true))
		for _, x := range c.one {
			emit(mk([][]rune{x}, false))
			emit(mk([][]rune{x}, true))
			for _, y := range c.one {
				emit(mk([][]rune{x, y}, false))
			}
		}
		// join over the code points of a string
		for _, t := range c.subs {
			t := t
			parts := make([][]rune, len(t))
			for i := range t {
				parts[i] = t[i : i+1]
			}
			emit(c14item{args: "iter " + c14Show(t), exp: c14sres(c14Join(s, parts)), src: "s.join(" + c14Show(t) + ")", api: func() (py.Object, error) { return c14method(S, "join", c14S(t)) }})
		}
	})

	// concatenation
	c.group("add", s, c.p.lenMid, c14pre(s, true), func(src bool, emit func(c14item)) {
		for _, t := range c.subs {
			t := t
			r1 := append(append([]rune{}, s...), t...)
			r2 := append(append([]rune{}, t...), s...)
			emit(c14item{args: "s+" + c14Show(t), exp: c14sres(r1), src: "s + " + c14Show(t), api: func() (py.Object, error) { return py.Add(S, c14S(t)) }})
			emit(c14item{args: c14Show(t) + "+s", exp: c14sres(r2), src: c14LitRaw(t) + " + s", api: func() (py.Object, error) { return py.Add(c14S(t), S) }})
			emit(c14item{args: "len(s+" + c14Show(t) + ")", exp: c14ires(len(r1)), src: "len(s + " + c14Show(t) + ")", api: func() (py.Object, error) {
				x, err := py.Add(S, c14S(t))
				if err != nil {
					return nil, err
				}
				return py.Len(x)
			}})
		}
	})

	// replace: api one group per s; src one group per (s, old)
	news := [][]rune{{}, {'b'}, {0x1f600}, {0xe9, '\''}, {'\\'}, {0}}
	counts := []int{-9, -1, 0, 1, 2}
	mkrep := func(old, nw []rune, cnt int, src bool) c14item {
		cc := cnt
		if cnt == -9 {
			cc = -1
		}
		it := c14item{exp: c14sres(c14Replace(s, old, nw, cc))}
		if len(s) == 0 && len(old) == 0 && cc > 0 {
			// ''.replace('', x, n>0): '' in Python 3.4 (n given and empty self: nothing to do), x since 3.9
			it.exp = c14sres(nil)
			it.alt = c14str(nw)
		}
		cs := itoa(cnt)
		if cnt == -9 {
			cs = "-"
		}
		it.args = "old=" + c14Show(old) + " new=" + c14Show(nw) + " count=" + cs
		if src {
			it.src = "s.replace(u, " + c14Show(nw)
			if cnt != -9 {
				it.src += ", " + itoa(cnt)
			}
			it.src += ")"
		} else {
			it.api = func() (py.Object, error) {
				if cnt == -9 {
					return c14method(S, "replace", c14S(old), c14S(nw))
				}
				return c14method(S, "replace", c14S(old), c14S(nw), py.Int(cnt))
			}
		}
		return it
	}
	c.groupVia("replace", s, "api", "", func(emit func(c14item)) {
		for _, old := range c.subs {
			for _, nw := range news {
				for _, cnt := range counts {
					emit(mkrep(old, nw, cnt, false))
				}
			}
		}
	})
	if len(s) <= c.p.lenSrcHeavy {
		for _, old := range c.subs {
			old := old
			c.groupVia("replace", s, "src", "s = "+c14LitEsc(s)+"\nu = "+c14LitRaw(old)+"\n", func(emit func(c14item)) {
				for _, nw := range news {
					for _, cnt := range counts {
						emit(mkrep(old, nw, cnt, true))
					}
				}
			})
		}
	}
}

// groupVia: a group on one access path only.
func (c *c14) groupVia(op string, s []rune, via string, pre string, gen func(emit func(c14item))) {
	rc := c.rc
	if !rc.Take() {
		return
	}
	rc.Part = op
	c.curOp = op
	show := c14Show(s)
	gf := core.Fields{"op": op, "via": via, "s": show}
	gin := op + " on s=" + show + " via " + via
	rc.Guard(gf, func() string { return gin }, func() {
		var items []c14item
		gen(func(it c14item) { items = append(items, it) })
		var got []Res
		switch {
		case c.dump != nil:
			if via == "src" {
				c.dumpGroup(pre, items)
			}
			return
		case via == "api":
			got = make([]Res, len(items))
			for i := range items {
				got[i] = c14call(items[i].api)
			}
		default:
			got = c.runSrc(pre, items)
		}
		asc := c14ascii(s)
		for i := range items {
			it := &items[i]
			rc.Eval(op+":"+outcomeClass(it.exp), "")
			if got[i].matches(it.exp) || (it.alt != "" && got[i].Exc == "" && got[i].Val == it.alt) {
				continue
			}
			in := gin + ": " + it.args
			if via == "src" {
				in = pre + it.src
			}
			rc.Deviate(core.Deviation{
				Fields:   core.Fields{"op": op, "via": via, "s": show, "ascii": asc, "args": it.args},
				Input:    in,
				Expected: it.exp.String(), Observed: got[i].String(),
				Sig: op + ":" + devClass(it.exp, got[i])})
		}
	})
}

func (c *c14) compares(s []rune, all [][]rune) {
	S := c14S(s)
	type op struct {
		name, sym string
		api       func(a, b py.Object) (py.Object, error)
		f         func(int) bool
	}
	ops := []op{
		{"lt", "<", py.Lt, func(x int) bool { return x < 0 }},
		{"le", "<=", py.Le, func(x int) bool { return x <= 0 }},
		{"eq", "==", py.Eq, func(x int) bool { return x == 0 }},
		{"ne", "!=", py.Ne, func(x int) bool { return x != 0 }},
		{"gt", ">", py.Gt, func(x int) bool { return x > 0 }},
		{"ge", ">=", py.Ge, func(x int) bool { return x >= 0 }},
	}
	gen := func(max int, src bool) func(emit func(c14item)) {
		return func(emit func(c14item)) {
			for _, t := range all {
				if len(t) > max {
					break
				}
				t := t
				cmp := c14Cmp(s, t)
				for _, o := range ops {
					o := o
					it := c14item{args: o.name + " " + c14Show(t), exp: boolRes(o.f(cmp))}
					if src {
						it.src = "s " + o.sym + " " + c14Show(t)
					} else {
						it.api = func() (py.Object, error) { return o.api(S, c14S(t)) }
					}
					emit(it)
				}
			}
		}
	}
	if len(s) <= c.p.lenCmp {
		c.groupVia("compare", s, "api", "", gen(c.p.lenCmp, false))
	}
	if len(s) <= c.p.lenCmpSrc {
		c.groupVia("compare", s, "src", c14pre(s, true), gen(c.p.lenCmpSrc, true))
	}
}

func (c *c14) chrOrd() {
	cps := map[rune]bool{}
	var list []rune
	for _, r := range append(append([]rune{}, c14Alphabet...), c14Boundaries...) {
		if !cps[r] {
			cps[r] = true
			list = append(list, r)
		}
	}
	c.group("chr", nil, 0, "", func(src bool, emit func(c14item)) {
		for _, r := range list {
			r := r
			emit(c14item{args: fmtf("chr(0x%x)", r), exp: c14sres([]rune{r}), src: fmtf("chr(0x%x)", r), api: func() (py.Object, error) { return c14builtin(c, "chr", py.Int(r)) }})
			emit(c14item{args: fmtf("ord(chr(0x%x))", r), exp: c14ires(int(r)), src: fmtf("ord(chr(0x%x))", r), api: func() (py.Object, error) {
				x, err := c14builtin(c, "chr", py.Int(r))
				if err != nil {
					return nil, err
				}
				return c14builtin(c, "ord", x)
			}})
			emit(c14item{args: fmtf("len(chr(0x%x))", r), exp: c14ires(1), src: fmtf("len(chr(0x%x))", r), api: func() (py.Object, error) {
				x, err := c14builtin(c, "chr", py.Int(r))
				if err != nil {
					return nil, err
				}
				return py.Len(x)
			}})
		}
		for _, v := range []int64{-1, 0x110000, 0x110001} {
			v := v
			emit(c14item{args: fmtf("chr(%d)", v), exp: excRes("ValueError"), src: "chr(" + lit(big.NewInt(v)) + ")", api: func() (py.Object, error) { return c14builtin(c, "chr", py.Int(v)) }})
		}
	})
}

// whitespace: the no-argument forms of split and strip over every white space code point.
func (c *c14) whitespace() {
	for _, ch := range c14WsCandidates() {
		for _, s := range [][]rune{{ch}, {'a', ch, 'b'}, {ch, 'a', ch, ch, 'b', ch}} {
			s := s
			S := c14S(s)
			c.group("whitespace", s, 1<<30, c14pre(s, false), func(src bool, emit func(c14item)) {
				ws := func(m int) Res { r, _ := c14Split(s, nil, true, m); return c14lres(r) }
				emit(c14item{args: "split()", exp: ws(-1), api: func() (py.Object, error) { return c14method(S, "split") }, src: "s.split()"})
				emit(c14item{args: "split(None,1)", exp: ws(1), api: func() (py.Object, error) { return c14method(S, "split", py.None, py.Int(1)) }, src: "s.split(None, 1)"})
				emit(c14item{args: "strip()", exp: c14sres(c14Strip(s, nil, true, true, true)), api: func() (py.Object, error) { return c14method(S, "strip") }, src: "s.strip()"})
				emit(c14item{args: "lstrip()", exp: c14sres(c14Strip(s, nil, true, true, false)), api: func() (py.Object, error) { return c14method(S, "lstrip") }, src: "s.lstrip()"})
				emit(c14item{args: "rstrip()", exp: c14sres(c14Strip(s, nil, true, false, true)), api: func() (py.Object, error) { return c14method(S, "rstrip") }, src: "s.rstrip()"})
			})
		}
	}
}

// ---------- repr round trip ----------

func (v *c14val) obj() py.Object {
	switch v.kind {
	case 's':
		return c14S(v.s)
	case 'y':
		return py.Bytes(append([]byte{}, v.y...))
	case 'i':
		return pyInt(v.i)
	case 'f':
		return py.Float(v.f)
	}
	items := make([]py.Object, len(v.items))
	for i, x := range v.items {
		items[i] = x.obj()
	}
	if v.kind == 't' {
		return py.Tuple(items)
	}
	return py.NewListFromItems(items)
}

// model repr text; certain=false where the text is not this property's business (floats) or
// depends on the Unicode version. floatText supplies gpython's own text for float leaves.
func (v *c14val) repr(floatText func(f float64) string) (string, bool) {
	switch v.kind {
	case 's':
		return c14StrRepr(v.s)
	case 'y':
		return c14BytesRepr(v.y), true
	case 'i':
		return v.i.String(), true
	case 'f':
		return floatText(v.f), true
	}
	certain := true
	var parts []string
	for _, x := range v.items {
		t, ok := x.repr(floatText)
		certain = certain && ok
		parts = append(parts, t)
	}
	if v.kind == 't' {
		if len(parts) == 1 {
			return "(" + parts[0] + ",)", certain
		}
		return "(" + strings.Join(parts, ", ") + ")", certain
	}
	return "[" + strings.Join(parts, ", ") + "]", certain
}

func (c *c14) floatText(f float64) string {
	r, err := py.Repr(py.Float(f))
	if err != nil {
		return "<float repr failed>"
	}
	s, _ := r.(py.String)
	return string(s)
}

// roundTrip: one framework case per value and access path.
func (c *c14) roundTrip(v *c14val) {
	rc := c.rc
	for _, via := range []string{"api", "src"} {
		if !rc.Take() {
			continue
		}
		rc.Part = "roundtrip"
		litText := v.lit()
		kind := v.kindName()
		fields := core.Fields{"op": "roundtrip", "via": via, "kind": kind, "depth": itoa(v.depth()), "x": short(litText, 60)}
		in := "eval(repr(" + litText + ")) via " + via
		rc.Guard(fields, func() string { return in }, func() {
			if c.dump != nil {
				return
			}
			dev := func(sig, exp, got string) {
				rc.Deviate(core.Deviation{Fields: fields, Input: in, Expected: exp, Observed: got, Sig: sig})
			}
			x := v.obj()
			want := typeClass(x) + ":" + c14canon(x)
			model, certain := v.repr(c.floatText)
			rc.Eval("roundtrip:"+kind, in)
			if rc.WantSample() && rc.Index()%997 == 0 {
				rc.Sample(map[string]string{"case": in, "model_repr": model})
			}
			var text string
			var y py.Object
			var eq Res
			if via == "api" {
				r := c14call(func() (py.Object, error) { return py.Repr(x) })
				if r.Exc != "" {
					dev("repr:unexpected-"+r.Exc, "a str", r.String())
					return
				}
				ro, _ := py.Repr(x)
				rs, ok := ro.(py.String)
				if !ok {
					dev("repr:not-a-str", "a str", r.String())
					return
				}
				text = string(rs)
				var evRes Res
				func() {
					defer func() {
						if p := recover(); p != nil {
							evRes = Res{Exc: "panic@" + core.PanicSite(debug.Stack())}
						}
					}()
					o, err := c.ev.Eval(text)
					if err != nil {
						evRes = c14obs(nil, err)
						return
					}
					y = o
				}()
				if evRes.Exc != "" {
					dev("roundtrip:eval-raises-"+evRes.Exc, want, "repr text "+strconvQuote(text)+" -> "+evRes.String())
					c.checkText(dev, kind, text, model, certain)
					return
				}
				eq = c14call(func() (py.Object, error) { return py.Eq(y, x) })
			} else {
				g, res := c.exec("r = repr(x)\ny = eval(r)\nok = (y == x)\n", py.StringDict{"x": x})
				if res.Exc != "" {
					// find the failing step
					g1, r1 := c.exec("r = repr(x)\n", py.StringDict{"x": x})
					if r1.Exc != "" {
						dev("repr:unexpected-"+r1.Exc, "a str", r1.String())
						return
					}
					rs, _ := g1["r"].(py.String)
					_, r2 := c.exec("y = eval(r)\n", py.StringDict{"r": rs})
					if r2.Exc != "" {
						dev("roundtrip:eval-raises-"+r2.Exc, want, "repr text "+strconvQuote(string(rs))+" -> "+r2.String())
						c.checkText(dev, kind, string(rs), model, certain)
						return
					}
					dev("roundtrip:eq-raises-"+res.Exc, "True", res.String())
					return
				}
				rs, ok := g["r"].(py.String)
				if !ok {
					dev("repr:not-a-str", "a str", c14obs(g["r"], nil).String())
					return
				}
				text = string(rs)
				y = g["y"]
				eq = c14obs(g["ok"], nil)
			}
			c.checkText(dev, kind, text, model, certain)
			got := typeClass(y) + ":" + c14canon(y)
			switch {
			case eq.Exc != "":
				dev("roundtrip:eq-raises-"+eq.Exc, "True", eq.String())
			case eq.Val != "bool:True":
				dev("roundtrip:not-equal", want+" (== is True)", "repr text "+strconvQuote(text)+" -> "+got+"; == gives "+eq.Val)
			case got != want:
				dev("roundtrip:equal-but-not-identical", want, "repr text "+strconvQuote(text)+" -> "+got)
			}
		})
	}
}

func (c *c14) checkText(dev func(sig, exp, got string), kind, text, model string, certain bool) {
	if certain && text != model {
		dev("repr:wrong-text", strconvQuote(model), strconvQuote(text))
	}
}

func c14Floats() []float64 {
	return []float64{0.0, math.Copysign(0, -1), 0.1, -0.1, 1.5, -1.5, 1.0, 1e16, 1e22, -1e22, 1e-7, 5e-324, math.MaxFloat64, -math.MaxFloat64,
		9007199254740991.0, 9007199254740992.0, 9007199254740994.0, 1e15, 123456789012345680.0, 0.30000000000000004, 1.0 / 3.0,
		1e-5, 0.0001, 1e100, 2.5e-8, 9223372036854775808.0, -9223372036854775808.0, 2.2250738585072014e-308}
}

func c14Bytes(n int) [][]byte {
	out := [][]byte{{}}
	prev := [][]byte{{}}
	for l := 1; l <= n; l++ {
		var cur [][]byte
		for _, p := range prev {
			for _, a := range c14BytesAlphabet {
				s := make([]byte, len(p)+1)
				copy(s, p)
				s[len(p)] = a
				cur = append(cur, s)
			}
		}
		out = append(out, cur...)
		prev = cur
	}
	return out
}

func c14Leaves(quick bool) []*c14val {
	i := func(s string) *c14val { x, _ := new(big.Int).SetString(s, 10); return &c14val{kind: 'i', i: x} }
	f := func(x float64) *c14val { return &c14val{kind: 'f', f: x} }
	s := func(r ...rune) *c14val { return &c14val{kind: 's', s: r} }
	y := func(b ...byte) *c14val { return &c14val{kind: 'y', y: b} }
	if quick {
		return []*c14val{i("0"), i("-1"), i("9223372036854775808"), f(1.5), s('a'), s('\''), s(0xe9, '\n'), y(0xff)}
	}
	return []*c14val{i("0"), i("-1"), i("9223372036854775808"), i("-9223372036854775808"), f(1.5), f(-0.1), f(1e22),
		s(), s('a'), s('\''), s('"', '\''), s(0xe9, '\n'), s(0x1f600, '\\'), y(0xff), y('\'', 0)}
}

// c14Containers: all tuples and lists of width <= 2 over elems.
func c14Containers(elems []*c14val) []*c14val {
	var out []*c14val
	for _, k := range []byte{'t', 'l'} {
		out = append(out, &c14val{kind: k})
		for _, a := range elems {
			out = append(out, &c14val{kind: k, items: []*c14val{a}})
		}
		for _, a := range elems {
			for _, b := range elems {
				out = append(out, &c14val{kind: k, items: []*c14val{a, b}})
			}
		}
	}
	return out
}

func c14Run(rc *core.RunCtx) {
	c := &c14{rc: rc, ev: newEvaluator(), p: c14Params(rc.Quick())}
	if path := os.Getenv("C14_DUMP"); path != "" {
		f, err := os.Create(path)
		if err != nil {
			panic(err)
		}
		defer f.Close()
		c.dump = f
	}
	c.subs = c14Strings(c14Alphabet, 2)
	c.one = c14Strings(c14Alphabet, 1)
	maxLen := c.p.lenBasic
	all := c14Strings(c14Alphabet, maxLen)
	nmain := len(all)
	extras := c14Extras()
	rc.Note("strings", itoa(nmain)+" over the alphabet (length <= "+itoa(maxLen)+") + "+itoa(len(extras))+" boundary strings")

	// (1) chr / ord
	c.chrOrd()

	// (2) per string, shortest first: every family the string's length is inside the bounds of
	subject := func(s []rune, main bool) bool {
		if rc.Expired() || rc.Done() {
			return false
		}
		c.basics(s)
		if len(s) <= c.p.lenMid {
			c.finds(s)
			c.mids(s)
		}
		if main {
			c.compares(s, all)
		}
		c.roundTrip(&c14val{kind: 's', s: s})
		return true
	}
	// boundary strings right after the strings of length <= 2
	i := 0
	for ; i < nmain && len(all[i]) <= 2; i++ {
		if !subject(all[i], true) {
			return
		}
	}
	for _, s := range extras {
		if !subject(s, false) {
			return
		}
	}

	c.whitespace()

	// (3) repr round trip of the other kinds (simple values first)
	var ints []*c14val
	for _, x := range c07Lattice(rc.Quick()) {
		ints = append(ints, &c14val{kind: 'i', i: x})
	}
	for _, v := range ints {
		if rc.Expired() || rc.Done() {
			return
		}
		c.roundTrip(v)
	}
	for _, f := range c14Floats() {
		c.roundTrip(&c14val{kind: 'f', f: f})
	}
	for _, b := range c14Bytes(c.p.lenBytes) {
		if rc.Expired() || rc.Done() {
			return
		}
		c.roundTrip(&c14val{kind: 'y', y: b})
	}
	leaves := c14Leaves(rc.Quick())
	d1 := c14Containers(leaves)
	for _, v := range d1 {
		if rc.Expired() || rc.Done() {
			return
		}
		c.roundTrip(v)
	}
	d2 := c14Containers(append(append([]*c14val{}, leaves...), d1...))
	n2 := 0
	for _, v := range d2 {
		if v.depth() < 2 {
			continue // already covered at depth 1
		}
		if rc.Expired() || rc.Done() {
			return
		}
		n2++
		c.roundTrip(v)
	}
	rc.Note("roundtrip_values", fmtf("ints=%d floats=%d bytes=%d containers(depth1)=%d containers(depth2)=%d", len(ints), len(c14Floats()), len(c14Bytes(c.p.lenBytes)), len(d1), n2))

	// (4) the longer strings
	for ; i < nmain; i++ {
		if !subject(all[i], true) {
			return
		}
	}
}

func init() {
	core.Register(&core.Check{
		ID:    "C14",
		Level: "model_checking",
		Rule: "every string of length <= 3 (quick) / <= 5 (thorough) over the 11-letter alphabet {a, b, U+E9, U+20AC, U+1F600, ', \", \\, newline, NUL, space} (1-, 2-, 3-, 4-byte UTF-8, both quotes, backslash, controls) " +
			"plus 50 strings built from the boundary code points {7f, 80, 7ff, 800, d7ff, e000, fffd, ffff, 10000, 10ffff}, shortest first, x every operation: len, bool, s[i] for i in -4..4 (thorough -6..6), " +
			"every slice s[a:b:c] with a,b in {None,-3..3}, c in {None,1,2,3,-1,-2,-3,0}, iteration (comprehension and list()), ord, s*k and k*s for k in -1..3, upper/lower, `u in s` for every u of length <= 2, " +
			"strip/lstrip/rstrip with no argument, None and every character set of length <= 2, literal spellings (numeric escapes, raw UTF-8 with short escapes, triple-quoted, u-prefix, adjacent literals, chr concatenation); " +
			"for length <= 3 (thorough <= 4): find/count/startswith/endswith with every u of length <= 2 and every (start,end) in {omitted, None, -2..4}^2, split with every separator of length <= 2 (empty -> ValueError) and maxsplit in {omitted,-1,0,1,2} and whitespace split, " +
			"join of every list/tuple of <= 2 strings of length <= 1 and of the code points of every string of length <= 2, s+t, t+s, replace(old,new,count) with every old of length <= 2, 6 replacement texts, count in {omitted,-1,0,1,2}; " +
			"split()/split(None,1)/strip()/lstrip()/rstrip() over 3 shapes of string around each of the 29 white space code points of Python and 7 look-alikes; comparison (6 operators) of every pair of strings of length <= 2 (thorough <= 3); chr/ord/len over the alphabet and boundary code points and chr(-1), chr(0x110000) -> ValueError. " +
			"repr round trip (eval(repr(x)) == x, same type and value by the harness' own canonical form, repr text equal to the model's for str/bytes/int/tuple/list punctuation): every such string, every bytes of length <= 3 (thorough <= 4) over {a,',\",\\,\\n,NUL,7f,80,ff}, the C07 integer lattice, 28 floats, " +
			"every tuple and list of width <= 2 and depth <= 2 over 8 (thorough 15) leaves. Each operation runs through the Go API (py.Call of the bound method, py.GetItem, py.Add ...) and as compiled Python source (source path: find family and replace for length <= 1 (thorough <= 3), comparison for length <= 2, step-0 slices for length <= 3). " +
			"A framework case is one (string, operation family, access path) group; each argument tuple inside it is one evaluation compared with a []rune reference model.",
		Run: c14Run,
		Assumptions: []string{
			"the reference model is a []rune implementation of the Python 3.4 algorithms (ADJUST_INDICES, tailmatch, split/replace/strip from stringlib); it was cross-checked case by case against CPython 3.11 for the whole quick space",
			"surrogates and invalid UTF-8 are outside (Go strings given to the API are valid UTF-8 by construction)",
			"''.replace('', x, n>0) accepts both '' (3.4) and x (3.9+)",
			"the text of float reprs is not judged here (C15); only that it evaluates back",
			"repr text of U+07FF and U+D7FF is not compared (printability depends on the Unicode version); their round trip is",
			"source batches: value-expected expressions of a group are evaluated as one list display and bisected on failure, so one raising expression cannot mask the others",
		},
		Explanation: "exhaustive enumeration of short strings over a mixed-width alphabet against a code-point ([]rune) reference model of every string operation, through the Go API and compiled source; repr round trip evaluated inside the interpreter",
	})
}

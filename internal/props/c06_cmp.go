package props

// C06: structural comparison of two ast trees (positions ignored, literal payloads
// compared as values) and an independent dumper in the format of CPython 3.4's ast.dump.

import (
	"fmt"
	"math"
	"math/big"
	"reflect"
	"strconv"
	"strings"

	"github.com/go-python/gpython/ast"
	"github.com/go-python/gpython/py"
)

// c6payload renders a literal payload / singleton by value, independent of gpython's
// own str/repr. ok=false if v is not a payload.
func c6payload(v interface{}) (string, bool) {
	switch x := v.(type) {
	case py.Int:
		return "int:" + strconv.FormatInt(int64(x), 10), true
	case *py.BigInt:
		if x == nil {
			return "int:<nil>", true
		}
		return "int:" + (*big.Int)(x).String(), true
	case py.Float:
		return "float:" + strconv.FormatUint(math.Float64bits(float64(x)), 16), true
	case py.Complex:
		return "complex:" + strconv.FormatUint(math.Float64bits(real(complex128(x))), 16) + "," + strconv.FormatUint(math.Float64bits(imag(complex128(x))), 16), true
	case py.NoneType:
		return "None", true
	case py.Bool:
		if x {
			return "True", true
		}
		return "False", true
	case py.String:
		return "str:" + strconv.Quote(string(x)), true
	case py.Bytes:
		return "bytes:" + strconv.Quote(string(x)), true
	}
	return "", false
}

func c6skipField(name string) bool {
	switch name {
	case "ModBase", "StmtBase", "ExprBase", "SliceBase", "Pos", "AST":
		return true
	}
	return false
}

// c6diff returns "" if the trees are equal, else a class "Node.Field:what" and a
// detail string naming the path.
func c6diff(exp, got interface{}) (class, detail string) {
	return c6diffV(reflect.ValueOf(exp), reflect.ValueOf(got), "", "root")
}

func c6typeName(v reflect.Value) string {
	if !v.IsValid() {
		return "nil"
	}
	t := v.Type()
	for t.Kind() == reflect.Ptr {
		t = t.Elem()
	}
	return t.Name()
}

func c6isNil(v reflect.Value) bool {
	if !v.IsValid() {
		return true
	}
	switch v.Kind() {
	case reflect.Ptr, reflect.Interface, reflect.Slice, reflect.Map:
		return v.IsNil()
	}
	return false
}

func c6diffV(e, g reflect.Value, where, path string) (string, string) {
	// unwrap interfaces
	for e.IsValid() && e.Kind() == reflect.Interface && !e.IsNil() {
		e = e.Elem()
	}
	for g.IsValid() && g.Kind() == reflect.Interface && !g.IsNil() {
		g = g.Elem()
	}
	en, gn := c6isNil(e) && (!e.IsValid() || e.Kind() != reflect.Slice), c6isNil(g) && (!g.IsValid() || g.Kind() != reflect.Slice)
	if en || gn {
		if en && gn {
			return "", ""
		}
		return where + ":nil-vs-" + c6typeName(pick(en, g, e)), path + ": expected " + c6short(e) + " got " + c6short(g)
	}
	// payloads
	if e.CanInterface() && g.CanInterface() {
		ep, eok := c6payload(e.Interface())
		gp, gok := c6payload(g.Interface())
		if eok || gok {
			if eok && gok && ep == gp {
				return "", ""
			}
			if eok && gok {
				ek, gk := ep[:strings.IndexAny(ep+":", ":")], gp[:strings.IndexAny(gp+":", ":")]
				if ek == gk {
					return where + ":" + ek + "-value", path + ": expected " + ep + " got " + gp
				}
				return where + ":payload-type-" + gk + "-for-" + ek, path + ": expected " + ep + " got " + gp
			}
			return where + ":payload-vs-node", path + ": expected " + c6short(e) + " got " + c6short(g)
		}
	}
	if e.Kind() == reflect.Ptr && g.Kind() == reflect.Ptr {
		e, g = e.Elem(), g.Elem()
	}
	if e.Type() != g.Type() {
		return where + ":type-" + c6typeName(g) + "-for-" + c6typeName(e), path + ": expected node " + c6typeName(e) + " got " + c6typeName(g)
	}
	switch e.Kind() {
	case reflect.Struct:
		tn := e.Type().Name()
		for i := 0; i < e.NumField(); i++ {
			f := e.Type().Field(i)
			if c6skipField(f.Name) {
				continue
			}
			if c, d := c6diffV(e.Field(i), g.Field(i), tn+"."+f.Name, path+"."+tn+"."+f.Name); c != "" {
				return c, d
			}
		}
		return "", ""
	case reflect.Slice:
		if e.Len() != g.Len() {
			return where + ":length", fmt.Sprintf("%s: expected %d items got %d", path, e.Len(), g.Len())
		}
		for i := 0; i < e.Len(); i++ {
			if c, d := c6diffV(e.Index(i), g.Index(i), where, fmt.Sprintf("%s[%d]", path, i)); c != "" {
				return c, d
			}
		}
		return "", ""
	case reflect.String:
		if e.String() != g.String() {
			return where + ":string", fmt.Sprintf("%s: expected %q got %q", path, e.String(), g.String())
		}
		return "", ""
	case reflect.Int, reflect.Int8, reflect.Int16, reflect.Int32, reflect.Int64:
		if e.Int() != g.Int() {
			return where + ":enum", fmt.Sprintf("%s: expected %v got %v", path, c6short(e), c6short(g))
		}
		return "", ""
	case reflect.Bool:
		if e.Bool() != g.Bool() {
			return where + ":bool", path
		}
		return "", ""
	}
	return where + ":uncomparable-" + e.Kind().String(), path
}

func pick(first bool, a, b reflect.Value) reflect.Value {
	if first {
		return a
	}
	return b
}

func c6short(v reflect.Value) string {
	if !v.IsValid() {
		return "nil"
	}
	if c6isNil(v) {
		return "nil"
	}
	if v.CanInterface() {
		if s, ok := c6payload(v.Interface()); ok {
			return s
		}
		if st, ok := v.Interface().(fmt.Stringer); ok {
			return st.String()
		}
	}
	return c6typeName(v)
}

// ---- independent dumper (CPython 3.4 ast.dump format, annotate_fields=True) ----

func c6pyFloatRepr(f float64) string {
	switch {
	case math.IsInf(f, 1):
		return "inf"
	case math.IsInf(f, -1):
		return "-inf"
	case math.IsNaN(f):
		return "nan"
	}
	if f == 0 {
		if math.Signbit(f) {
			return "-0.0"
		}
		return "0.0"
	}
	s := strconv.FormatFloat(f, 'e', -1, 64) // d.ddddde±XX
	neg := false
	if s[0] == '-' {
		neg, s = true, s[1:]
	}
	ei := strings.IndexByte(s, 'e')
	mant, exps := s[:ei], s[ei+1:]
	exp, _ := strconv.Atoi(exps)
	digits := strings.Replace(mant, ".", "", 1)
	var out string
	if exp < -4 || exp >= 16 {
		out = digits[:1]
		if len(digits) > 1 {
			out += "." + digits[1:]
		}
		sign := "+"
		if exp < 0 {
			sign, exp = "-", -exp
		}
		out += "e" + sign + fmt.Sprintf("%02d", exp)
	} else if exp < 0 {
		out = "0." + strings.Repeat("0", -exp-1) + digits
	} else if exp+1 >= len(digits) {
		out = digits + strings.Repeat("0", exp+1-len(digits)) + ".0"
	} else {
		out = digits[:exp+1] + "." + digits[exp+1:]
	}
	if neg {
		out = "-" + out
	}
	return out
}

// c6pyStrRepr is CPython's repr() of a str (3.4: printable non-ASCII stays; the generated
// alphabet stays within ASCII plus a few printable characters).
func c6pyStrRepr(s string) string {
	q := byte('\'')
	if strings.ContainsRune(s, '\'') && !strings.ContainsRune(s, '"') {
		q = '"'
	}
	var b strings.Builder
	b.WriteByte(q)
	for _, r := range s {
		switch {
		case r == rune(q) || r == '\\':
			b.WriteByte('\\')
			b.WriteRune(r)
		case r == '\n':
			b.WriteString("\\n")
		case r == '\r':
			b.WriteString("\\r")
		case r == '\t':
			b.WriteString("\\t")
		case r < 0x20 || r == 0x7f:
			fmt.Fprintf(&b, "\\x%02x", r)
		case r < 0x7f:
			b.WriteRune(r)
		case r < 0xa0 || r == 0xad:
			fmt.Fprintf(&b, "\\x%02x", r)
		default:
			// printable check is approximated: the literal alphabet only contains printable
			// non-ASCII characters plus U+FFFF / U+10FFFF (non-printable -> escaped)
			if r == 0xffff {
				b.WriteString("\\uffff")
			} else if r == 0x10ffff {
				b.WriteString("\\U0010ffff")
			} else {
				b.WriteRune(r)
			}
		}
	}
	b.WriteByte(q)
	return b.String()
}

func c6pyBytesRepr(s []byte) string {
	q := byte('\'')
	if strings.ContainsRune(string(s), '\'') && !strings.ContainsRune(string(s), '"') {
		q = '"'
	}
	var b strings.Builder
	b.WriteByte('b')
	b.WriteByte(q)
	for _, c := range s {
		switch {
		case c == q || c == '\\':
			b.WriteByte('\\')
			b.WriteByte(c)
		case c == '\n':
			b.WriteString("\\n")
		case c == '\r':
			b.WriteString("\\r")
		case c == '\t':
			b.WriteString("\\t")
		case c < 0x20 || c >= 0x7f:
			fmt.Fprintf(&b, "\\x%02x", c)
		default:
			b.WriteByte(c)
		}
	}
	b.WriteByte(q)
	return b.String()
}

func c6dumpNum(n ast.Object) string {
	switch v := n.(type) {
	case py.Int:
		return strconv.FormatInt(int64(v), 10)
	case *py.BigInt:
		return (*big.Int)(v).String()
	case py.Float:
		return c6pyFloatRepr(float64(v))
	case py.Complex:
		im := c6pyFloatRepr(imag(complex128(v)))
		im = strings.TrimSuffix(im, ".0")
		return im + "j"
	}
	return fmt.Sprintf("<%T>", n)
}

func c6ident(s ast.Identifier) string {
	if s == "" {
		return "None"
	}
	return "'" + string(s) + "'"
}

type c6dumper struct{ b strings.Builder }

func (d *c6dumper) list(n int, f func(i int)) {
	d.b.WriteByte('[')
	for i := 0; i < n; i++ {
		if i > 0 {
			d.b.WriteString(", ")
		}
		f(i)
	}
	d.b.WriteByte(']')
}
func (d *c6dumper) exprs(es []ast.Expr) { d.list(len(es), func(i int) { d.expr(es[i]) }) }
func (d *c6dumper) stmts(ss []ast.Stmt) { d.list(len(ss), func(i int) { d.stmt(ss[i]) }) }
func (d *c6dumper) w(s string)          { d.b.WriteString(s) }

func (d *c6dumper) arg(a *ast.Arg) {
	if a == nil {
		d.w("None")
		return
	}
	d.w("arg(arg=" + c6ident(a.Arg) + ", annotation=")
	d.expr(a.Annotation)
	d.w(")")
}

func (d *c6dumper) arguments(a *ast.Arguments) {
	d.w("arguments(args=")
	d.list(len(a.Args), func(i int) { d.arg(a.Args[i]) })
	d.w(", vararg=")
	d.arg(a.Vararg)
	d.w(", kwonlyargs=")
	d.list(len(a.Kwonlyargs), func(i int) { d.arg(a.Kwonlyargs[i]) })
	d.w(", kw_defaults=")
	d.exprs(a.KwDefaults)
	d.w(", kwarg=")
	d.arg(a.Kwarg)
	d.w(", defaults=")
	d.exprs(a.Defaults)
	d.w(")")
}

func (d *c6dumper) keywords(ks []*ast.Keyword) {
	d.list(len(ks), func(i int) {
		d.w("keyword(arg=" + c6ident(ks[i].Arg) + ", value=")
		d.expr(ks[i].Value)
		d.w(")")
	})
}

func (d *c6dumper) comps(gs []ast.Comprehension) {
	d.list(len(gs), func(i int) {
		d.w("comprehension(target=")
		d.expr(gs[i].Target)
		d.w(", iter=")
		d.expr(gs[i].Iter)
		d.w(", ifs=")
		d.exprs(gs[i].Ifs)
		d.w(")")
	})
}

func (d *c6dumper) aliases(as []*ast.Alias) {
	d.list(len(as), func(i int) {
		d.w("alias(name=" + c6ident(as[i].Name) + ", asname=" + c6ident(as[i].AsName) + ")")
	})
}

func (d *c6dumper) names(ns []ast.Identifier) {
	d.list(len(ns), func(i int) { d.w(c6ident(ns[i])) })
}

func (d *c6dumper) slice(s ast.Slicer) {
	switch x := s.(type) {
	case nil:
		d.w("None")
	case *ast.Slice:
		d.w("Slice(lower=")
		d.expr(x.Lower)
		d.w(", upper=")
		d.expr(x.Upper)
		d.w(", step=")
		d.expr(x.Step)
		d.w(")")
	case *ast.ExtSlice:
		d.w("ExtSlice(dims=")
		d.list(len(x.Dims), func(i int) { d.slice(x.Dims[i]) })
		d.w(")")
	case *ast.Index:
		d.w("Index(value=")
		d.expr(x.Value)
		d.w(")")
	}
}

func (d *c6dumper) expr(e ast.Expr) {
	if e == nil || reflect.ValueOf(e).IsNil() {
		d.w("None")
		return
	}
	switch x := e.(type) {
	case *ast.BoolOp:
		d.w("BoolOp(op=" + map[ast.BoolOpNumber]string{ast.And: "And()", ast.Or: "Or()"}[x.Op] + ", values=")
		d.exprs(x.Values)
		d.w(")")
	case *ast.BinOp:
		d.w("BinOp(left=")
		d.expr(x.Left)
		d.w(", op=" + c6BinName[x.Op] + "(), right=")
		d.expr(x.Right)
		d.w(")")
	case *ast.UnaryOp:
		d.w("UnaryOp(op=" + map[ast.UnaryOpNumber]string{ast.Invert: "Invert", ast.Not: "Not", ast.UAdd: "UAdd", ast.USub: "USub"}[x.Op] + "(), operand=")
		d.expr(x.Operand)
		d.w(")")
	case *ast.Lambda:
		d.w("Lambda(args=")
		d.arguments(x.Args)
		d.w(", body=")
		d.expr(x.Body)
		d.w(")")
	case *ast.IfExp:
		d.w("IfExp(test=")
		d.expr(x.Test)
		d.w(", body=")
		d.expr(x.Body)
		d.w(", orelse=")
		d.expr(x.Orelse)
		d.w(")")
	case *ast.Dict:
		d.w("Dict(keys=")
		d.exprs(x.Keys)
		d.w(", values=")
		d.exprs(x.Values)
		d.w(")")
	case *ast.Set:
		d.w("Set(elts=")
		d.exprs(x.Elts)
		d.w(")")
	case *ast.ListComp:
		d.w("ListComp(elt=")
		d.expr(x.Elt)
		d.w(", generators=")
		d.comps(x.Generators)
		d.w(")")
	case *ast.SetComp:
		d.w("SetComp(elt=")
		d.expr(x.Elt)
		d.w(", generators=")
		d.comps(x.Generators)
		d.w(")")
	case *ast.DictComp:
		d.w("DictComp(key=")
		d.expr(x.Key)
		d.w(", value=")
		d.expr(x.Value)
		d.w(", generators=")
		d.comps(x.Generators)
		d.w(")")
	case *ast.GeneratorExp:
		d.w("GeneratorExp(elt=")
		d.expr(x.Elt)
		d.w(", generators=")
		d.comps(x.Generators)
		d.w(")")
	case *ast.Yield:
		d.w("Yield(value=")
		d.expr(x.Value)
		d.w(")")
	case *ast.YieldFrom:
		d.w("YieldFrom(value=")
		d.expr(x.Value)
		d.w(")")
	case *ast.Compare:
		d.w("Compare(left=")
		d.expr(x.Left)
		d.w(", ops=")
		d.list(len(x.Ops), func(i int) { d.w(c6CmpName[x.Ops[i]] + "()") })
		d.w(", comparators=")
		d.exprs(x.Comparators)
		d.w(")")
	case *ast.Call:
		d.w("Call(func=")
		d.expr(x.Func)
		d.w(", args=")
		d.exprs(x.Args)
		d.w(", keywords=")
		d.keywords(x.Keywords)
		d.w(", starargs=")
		d.expr(x.Starargs)
		d.w(", kwargs=")
		d.expr(x.Kwargs)
		d.w(")")
	case *ast.Num:
		d.w("Num(n=" + c6dumpNum(x.N) + ")")
	case *ast.Str:
		d.w("Str(s=" + c6pyStrRepr(string(x.S)) + ")")
	case *ast.Bytes:
		d.w("Bytes(s=" + c6pyBytesRepr([]byte(x.S)) + ")")
	case *ast.NameConstant:
		s, _ := c6payload(x.Value)
		d.w("NameConstant(value=" + s + ")")
	case *ast.Ellipsis:
		d.w("Ellipsis()")
	case *ast.Attribute:
		d.w("Attribute(value=")
		d.expr(x.Value)
		d.w(", attr=" + c6ident(x.Attr) + ", ctx=" + c6CtxName[x.Ctx] + "())")
	case *ast.Subscript:
		d.w("Subscript(value=")
		d.expr(x.Value)
		d.w(", slice=")
		d.slice(x.Slice)
		d.w(", ctx=" + c6CtxName[x.Ctx] + "())")
	case *ast.Starred:
		d.w("Starred(value=")
		d.expr(x.Value)
		d.w(", ctx=" + c6CtxName[x.Ctx] + "())")
	case *ast.Name:
		d.w("Name(id=" + c6ident(x.Id) + ", ctx=" + c6CtxName[x.Ctx] + "())")
	case *ast.List:
		d.w("List(elts=")
		d.exprs(x.Elts)
		d.w(", ctx=" + c6CtxName[x.Ctx] + "())")
	case *ast.Tuple:
		d.w("Tuple(elts=")
		d.exprs(x.Elts)
		d.w(", ctx=" + c6CtxName[x.Ctx] + "())")
	default:
		d.w(fmt.Sprintf("<%T>", e))
	}
}

var c6BinName = map[ast.OperatorNumber]string{
	ast.Add: "Add", ast.Sub: "Sub", ast.Mult: "Mult", ast.Div: "Div", ast.Modulo: "Mod", ast.Pow: "Pow", ast.LShift: "LShift",
	ast.RShift: "RShift", ast.BitOr: "BitOr", ast.BitXor: "BitXor", ast.BitAnd: "BitAnd", ast.FloorDiv: "FloorDiv",
}
var c6CmpName = map[ast.CmpOp]string{
	ast.Eq: "Eq", ast.NotEq: "NotEq", ast.Lt: "Lt", ast.LtE: "LtE", ast.Gt: "Gt", ast.GtE: "GtE", ast.Is: "Is",
	ast.IsNot: "IsNot", ast.In: "In", ast.NotIn: "NotIn",
}
var c6CtxName = map[ast.ExprContext]string{
	ast.Load: "Load", ast.Store: "Store", ast.Del: "Del", ast.AugLoad: "AugLoad", ast.AugStore: "AugStore", ast.Param: "Param",
}

func (d *c6dumper) stmt(s ast.Stmt) {
	switch x := s.(type) {
	case *ast.FunctionDef:
		d.w("FunctionDef(name=" + c6ident(x.Name) + ", args=")
		d.arguments(x.Args)
		d.w(", body=")
		d.stmts(x.Body)
		d.w(", decorator_list=")
		d.exprs(x.DecoratorList)
		d.w(", returns=")
		d.expr(x.Returns)
		d.w(")")
	case *ast.ClassDef:
		d.w("ClassDef(name=" + c6ident(x.Name) + ", bases=")
		d.exprs(x.Bases)
		d.w(", keywords=")
		d.keywords(x.Keywords)
		d.w(", starargs=")
		d.expr(x.Starargs)
		d.w(", kwargs=")
		d.expr(x.Kwargs)
		d.w(", body=")
		d.stmts(x.Body)
		d.w(", decorator_list=")
		d.exprs(x.DecoratorList)
		d.w(")")
	case *ast.Return:
		d.w("Return(value=")
		d.expr(x.Value)
		d.w(")")
	case *ast.Delete:
		d.w("Delete(targets=")
		d.exprs(x.Targets)
		d.w(")")
	case *ast.Assign:
		d.w("Assign(targets=")
		d.exprs(x.Targets)
		d.w(", value=")
		d.expr(x.Value)
		d.w(")")
	case *ast.AugAssign:
		d.w("AugAssign(target=")
		d.expr(x.Target)
		d.w(", op=" + c6BinName[x.Op] + "(), value=")
		d.expr(x.Value)
		d.w(")")
	case *ast.For:
		d.w("For(target=")
		d.expr(x.Target)
		d.w(", iter=")
		d.expr(x.Iter)
		d.w(", body=")
		d.stmts(x.Body)
		d.w(", orelse=")
		d.stmts(x.Orelse)
		d.w(")")
	case *ast.While:
		d.w("While(test=")
		d.expr(x.Test)
		d.w(", body=")
		d.stmts(x.Body)
		d.w(", orelse=")
		d.stmts(x.Orelse)
		d.w(")")
	case *ast.If:
		d.w("If(test=")
		d.expr(x.Test)
		d.w(", body=")
		d.stmts(x.Body)
		d.w(", orelse=")
		d.stmts(x.Orelse)
		d.w(")")
	case *ast.With:
		d.w("With(items=")
		d.list(len(x.Items), func(i int) {
			d.w("withitem(context_expr=")
			d.expr(x.Items[i].ContextExpr)
			d.w(", optional_vars=")
			d.expr(x.Items[i].OptionalVars)
			d.w(")")
		})
		d.w(", body=")
		d.stmts(x.Body)
		d.w(")")
	case *ast.Raise:
		d.w("Raise(exc=")
		d.expr(x.Exc)
		d.w(", cause=")
		d.expr(x.Cause)
		d.w(")")
	case *ast.Try:
		d.w("Try(body=")
		d.stmts(x.Body)
		d.w(", handlers=")
		d.list(len(x.Handlers), func(i int) {
			h := x.Handlers[i]
			d.w("ExceptHandler(type=")
			d.expr(h.ExprType)
			d.w(", name=" + c6ident(h.Name) + ", body=")
			d.stmts(h.Body)
			d.w(")")
		})
		d.w(", orelse=")
		d.stmts(x.Orelse)
		d.w(", finalbody=")
		d.stmts(x.Finalbody)
		d.w(")")
	case *ast.Assert:
		d.w("Assert(test=")
		d.expr(x.Test)
		d.w(", msg=")
		d.expr(x.Msg)
		d.w(")")
	case *ast.Import:
		d.w("Import(names=")
		d.aliases(x.Names)
		d.w(")")
	case *ast.ImportFrom:
		d.w("ImportFrom(module=" + c6ident(x.Module) + ", names=")
		d.aliases(x.Names)
		d.w(", level=" + strconv.Itoa(x.Level) + ")")
	case *ast.Global:
		d.w("Global(names=")
		d.names(x.Names)
		d.w(")")
	case *ast.Nonlocal:
		d.w("Nonlocal(names=")
		d.names(x.Names)
		d.w(")")
	case *ast.ExprStmt:
		d.w("Expr(value=")
		d.expr(x.Value)
		d.w(")")
	case *ast.Pass:
		d.w("Pass()")
	case *ast.Break:
		d.w("Break()")
	case *ast.Continue:
		d.w("Continue()")
	default:
		d.w(fmt.Sprintf("<%T>", s))
	}
}

// c6dump is the expected ast.dump text of a generated tree.
func c6dump(tree ast.Ast) string {
	d := &c6dumper{}
	switch x := tree.(type) {
	case *ast.Module:
		d.w("Module(body=")
		d.stmts(x.Body)
		d.w(")")
	case *ast.Interactive:
		d.w("Interactive(body=")
		d.stmts(x.Body)
		d.w(")")
	case *ast.Expression:
		d.w("Expression(body=")
		d.expr(x.Body)
		d.w(")")
	default:
		d.w(fmt.Sprintf("<%T>", tree))
	}
	return d.b.String()
}

package props

// C06: precedence-aware printer from ast.* values to a token list, and the renderer from
// a token list to source text under a layout. The printer is written from the Python 3.4
// grammar (Grammar/Grammar), not from gpython's grammar.y.

import (
	"fmt"
	"math"
	"math/big"
	"strconv"
	"strings"

	"github.com/go-python/gpython/ast"
	"github.com/go-python/gpython/py"
)

const (
	c6Word = iota + 1 // identifier or keyword
	c6Num
	c6Str
	c6Op
	c6NL  // end of logical line
	c6Ind // block begins
	c6Ded // block ends
)

const (
	c6tNone      = iota
	c6tHdrColon  // ':' ending a compound statement header
	c6tBinop     // arithmetic/bitwise binary operator
	c6tCmpop     // first token of a comparison operator
	c6tUnop      // unary + - ~
	c6tBindName  // a name being bound (store/del target, parameter, def/class name, as-name, global)
	c6tOpen      // ( [ {
	c6tClose     // ) ] }
	c6tAttr      // attribute name after '.'
	c6tLoadName  // a name being read
	c6tForIn     // 'in' of a for statement / comprehension
	c6tLambdaCol // ':' of a lambda
	c6tBoolop    // and / or
	c6tNot       // not (prefix)
	c6tKwName    // keyword-argument name in a call
	c6tAssignEq  // '=' of an assignment statement
	c6tStmtKw    // first keyword of a statement (if, while, def, return ...)
	c6tDefName   // the name after def / class
)

type c6tok struct {
	s   string
	cls uint8
	sp  bool // canonical spelling: one space before this token
	tag uint8
}

// c6opts are the spelling choices made while printing (they change the token list).
type c6opts struct {
	paren   map[int]bool // expression sites wrapped in one redundant pair of parentheses
	comma   map[int]bool // optional trailing comma sites
	alt     map[int]bool // alternative spelling sites (inline suite, else+if for elif, ...)
	semi    bool         // join consecutive simple statements of a block with ';'
	semiEnd bool         // a trailing ';' after the last simple statement of each line
}

type c6printer struct {
	o        c6opts
	toks     []c6tok
	nParen   int
	nComma   int
	nAlt     int
	altKinds []string
}

const (
	c6BareTuple = 1 << iota // an unparenthesised tuple is legal here
	c6BareYield             // an unparenthesised yield is legal here
	c6BareGen               // a generator expression may omit its own parentheses here
)

func (p *c6printer) emit(s string, cls uint8, sp bool, tag uint8) {
	p.toks = append(p.toks, c6tok{s, cls, sp, tag})
}
func (p *c6printer) word(s string, sp bool)           { p.emit(s, c6Word, sp, c6tNone) }
func (p *c6printer) wordT(s string, sp bool, t uint8) { p.emit(s, c6Word, sp, t) }
func (p *c6printer) op(s string, sp bool)             { p.emit(s, c6Op, sp, c6tNone) }
func (p *c6printer) opT(s string, sp bool, t uint8)   { p.emit(s, c6Op, sp, t) }
func (p *c6printer) open(s string, sp bool)           { p.emit(s, c6Op, sp, c6tOpen) }
func (p *c6printer) close(s string)                   { p.emit(s, c6Op, false, c6tClose) }
func (p *c6printer) nl()                              { p.emit("", c6NL, false, c6tNone) }
func (p *c6printer) commaSite() bool                  { s := p.nComma; p.nComma++; return p.o.comma[s] }
func (p *c6printer) altSite(kind string) bool {
	s := p.nAlt
	p.nAlt++
	p.altKinds = append(p.altKinds, kind)
	return p.o.alt[s]
}

// ---- expression levels (Python 3.4 Grammar: test > or_test > and_test > not_test >
// comparison > expr > xor_expr > and_expr > shift_expr > arith_expr > term > factor >
// power > atom trailer*) ----

const (
	c6LLambda = iota
	c6LIfExp
	c6LOr
	c6LAnd
	c6LNot
	c6LCmp
	c6LBitOr
	c6LBitXor
	c6LBitAnd
	c6LShift
	c6LArith
	c6LTerm
	c6LFactor
	c6LPower
	c6LTrailer
	c6LAtom
)

var c6BinLevel = map[ast.OperatorNumber]int{
	ast.BitOr: c6LBitOr, ast.BitXor: c6LBitXor, ast.BitAnd: c6LBitAnd, ast.LShift: c6LShift, ast.RShift: c6LShift,
	ast.Add: c6LArith, ast.Sub: c6LArith, ast.Mult: c6LTerm, ast.Div: c6LTerm, ast.Modulo: c6LTerm, ast.FloorDiv: c6LTerm,
	ast.Pow: c6LPower,
}

var c6BinSym = map[ast.OperatorNumber]string{
	ast.Add: "+", ast.Sub: "-", ast.Mult: "*", ast.Div: "/", ast.Modulo: "%", ast.Pow: "**", ast.LShift: "<<",
	ast.RShift: ">>", ast.BitOr: "|", ast.BitXor: "^", ast.BitAnd: "&", ast.FloorDiv: "//",
}

var c6CmpSym = map[ast.CmpOp][]string{
	ast.Eq: {"=="}, ast.NotEq: {"!="}, ast.Lt: {"<"}, ast.LtE: {"<="}, ast.Gt: {">"}, ast.GtE: {">="},
	ast.Is: {"is"}, ast.IsNot: {"is", "not"}, ast.In: {"in"}, ast.NotIn: {"not", "in"},
}

var c6UnSym = map[ast.UnaryOpNumber]string{ast.Invert: "~", ast.Not: "not", ast.UAdd: "+", ast.USub: "-"}

func c6level(e ast.Expr) int {
	switch x := e.(type) {
	case *ast.Lambda:
		return c6LLambda
	case *ast.IfExp:
		return c6LIfExp
	case *ast.BoolOp:
		if x.Op == ast.Or {
			return c6LOr
		}
		return c6LAnd
	case *ast.UnaryOp:
		if x.Op == ast.Not {
			return c6LNot
		}
		return c6LFactor
	case *ast.Compare:
		return c6LCmp
	case *ast.BinOp:
		return c6BinLevel[x.Op]
	case *ast.Call, *ast.Attribute, *ast.Subscript:
		return c6LTrailer
	}
	return c6LAtom
}

// expr prints e at a position that requires at least level min; every call is one
// "redundant parentheses" site (except for a Starred, which may not be parenthesised).
func (p *c6printer) expr(e ast.Expr, sp bool, min int, fl int) {
	if _, ok := e.(*ast.Starred); ok {
		p.raw(e, sp, min, fl)
		return
	}
	site := p.nParen
	p.nParen++
	if p.o.paren[site] {
		p.open("(", sp)
		p.raw(e, false, min, fl)
		p.close(")")
		return
	}
	p.raw(e, sp, min, fl)
}

func (p *c6printer) raw(e ast.Expr, sp bool, min int, fl int) {
	need := false
	switch x := e.(type) {
	case *ast.Tuple:
		need = len(x.Elts) == 0 || fl&c6BareTuple == 0
		if len(x.Elts) == 0 {
			p.open("(", sp)
			p.close(")")
			return
		}
	case *ast.Yield, *ast.YieldFrom:
		need = fl&c6BareYield == 0
	case *ast.GeneratorExp:
		need = fl&c6BareGen == 0
	case *ast.Starred:
		need = false
	default:
		need = c6level(e) < min
	}
	if need {
		p.open("(", sp)
		p.body(e, false)
		p.close(")")
		return
	}
	p.body(e, sp)
}

func (p *c6printer) body(e ast.Expr, sp bool) {
	switch x := e.(type) {
	case *ast.BoolOp:
		lv, kw := c6LAnd, "and"
		if x.Op == ast.Or {
			lv, kw = c6LOr, "or"
		}
		for i, v := range x.Values {
			if i > 0 {
				p.wordT(kw, true, c6tBoolop)
			}
			p.expr(v, sp || i > 0, lv+1, 0)
		}
	case *ast.BinOp:
		lv := c6BinLevel[x.Op]
		if x.Op == ast.Pow {
			p.expr(x.Left, sp, c6LTrailer, 0)
			p.opT("**", true, c6tBinop)
			p.expr(x.Right, true, c6LFactor, 0)
		} else {
			p.expr(x.Left, sp, lv, 0)
			p.opT(c6BinSym[x.Op], true, c6tBinop)
			p.expr(x.Right, true, lv+1, 0)
		}
	case *ast.UnaryOp:
		if x.Op == ast.Not {
			p.wordT("not", sp, c6tNot)
			p.expr(x.Operand, true, c6LNot, 0)
		} else {
			p.opT(c6UnSym[x.Op], sp, c6tUnop)
			p.expr(x.Operand, false, c6LFactor, 0)
		}
	case *ast.Lambda:
		p.word("lambda", sp)
		p.arguments(x.Args, false, true)
		p.opT(":", false, c6tLambdaCol)
		p.expr(x.Body, true, c6LLambda, 0)
	case *ast.IfExp:
		p.expr(x.Body, sp, c6LOr, 0)
		p.word("if", true)
		p.expr(x.Test, true, c6LOr, 0)
		p.word("else", true)
		p.expr(x.Orelse, true, c6LLambda, 0)
	case *ast.Dict:
		p.open("{", sp)
		for i := range x.Keys {
			if i > 0 {
				p.op(",", false)
			}
			p.expr(x.Keys[i], i > 0, 0, 0)
			p.op(":", false)
			p.expr(x.Values[i], true, 0, 0)
		}
		if len(x.Keys) > 0 && p.commaSite() {
			p.op(",", false)
		}
		p.close("}")
	case *ast.Set:
		p.open("{", sp)
		p.exprList(x.Elts, 0)
		if p.commaSite() {
			p.op(",", false)
		}
		p.close("}")
	case *ast.ListComp:
		p.open("[", sp)
		p.expr(x.Elt, false, 0, 0)
		p.generators(x.Generators)
		p.close("]")
	case *ast.SetComp:
		p.open("{", sp)
		p.expr(x.Elt, false, 0, 0)
		p.generators(x.Generators)
		p.close("}")
	case *ast.DictComp:
		p.open("{", sp)
		p.expr(x.Key, false, 0, 0)
		p.op(":", false)
		p.expr(x.Value, true, 0, 0)
		p.generators(x.Generators)
		p.close("}")
	case *ast.GeneratorExp:
		p.expr(x.Elt, sp, 0, 0)
		p.generators(x.Generators)
	case *ast.Yield:
		p.word("yield", sp)
		if x.Value != nil {
			p.expr(x.Value, true, 0, c6BareTuple)
		}
	case *ast.YieldFrom:
		p.word("yield", sp)
		p.word("from", true)
		p.expr(x.Value, true, 0, 0)
	case *ast.Compare:
		p.expr(x.Left, sp, c6LBitOr, 0)
		for i, op := range x.Ops {
			for j, w := range c6CmpSym[op] {
				t := uint8(c6tNone)
				if j == 0 {
					t = c6tCmpop
				}
				if w[0] >= 'a' && w[0] <= 'z' {
					p.wordT(w, true, t)
				} else {
					p.opT(w, true, t)
				}
			}
			p.expr(x.Comparators[i], true, c6LBitOr, 0)
		}
	case *ast.Call:
		p.expr(x.Func, sp, c6LTrailer, 0)
		p.open("(", false)
		p.callArgs(x.Args, x.Keywords, x.Starargs, x.Kwargs, true)
		p.close(")")
	case *ast.Num:
		p.emit(c6NumText(x.N), c6Num, sp, c6tNone)
	case *ast.Str:
		p.emit(c6StrText(string(x.S)), c6Str, sp, c6tNone)
	case *ast.Bytes:
		p.emit("b"+c6StrText(string(x.S)), c6Str, sp, c6tNone)
	case *ast.NameConstant:
		switch v := x.Value.(type) {
		case py.NoneType:
			p.word("None", sp)
		case py.Bool:
			if v {
				p.word("True", sp)
			} else {
				p.word("False", sp)
			}
		default:
			panic("c06 printer: bad NameConstant")
		}
	case *ast.Ellipsis:
		p.op("...", sp)
	case *ast.Attribute:
		if _, isNum := x.Value.(*ast.Num); isNum {
			// 1.a would lex as the float "1." followed by a name
			p.expr(x.Value, sp, c6LAtom+1, 0)
		} else {
			p.expr(x.Value, sp, c6LTrailer, 0)
		}
		p.op(".", false)
		p.wordT(string(x.Attr), false, c6tAttr)
	case *ast.Subscript:
		p.expr(x.Value, sp, c6LTrailer, 0)
		p.open("[", false)
		p.slice(x.Slice, true)
		p.close("]")
	case *ast.Starred:
		p.op("*", sp)
		p.expr(x.Value, false, c6LBitOr, 0)
	case *ast.Name:
		t := uint8(c6tLoadName)
		if x.Ctx == ast.Store || x.Ctx == ast.Del {
			t = c6tBindName
		}
		p.wordT(string(x.Id), sp, t)
	case *ast.List:
		p.open("[", sp)
		if len(x.Elts) > 0 {
			p.exprList(x.Elts, 0)
			if p.commaSite() {
				p.op(",", false)
			}
		}
		p.close("]")
	case *ast.Tuple:
		// without own parentheses (raw adds them where needed)
		for i, el := range x.Elts {
			if i > 0 {
				p.op(",", false)
			}
			p.expr(el, sp || i > 0, 0, 0)
		}
		if len(x.Elts) == 1 {
			p.op(",", false)
		} else if p.commaSite() {
			p.op(",", false)
		}
	default:
		panic(fmt.Sprintf("c06 printer: unknown expression %T", e))
	}
}

func (p *c6printer) exprList(es []ast.Expr, min int) {
	for i, el := range es {
		if i > 0 {
			p.op(",", false)
		}
		p.expr(el, i > 0, min, 0)
	}
}

func (p *c6printer) generators(gs []ast.Comprehension) {
	for _, g := range gs {
		p.word("for", true)
		p.exprlistTarget(g.Target)
		p.wordT("in", true, c6tForIn)
		p.expr(g.Iter, true, c6LOr, 0)
		for _, c := range g.Ifs {
			p.word("if", true)
			p.expr(c, true, c6LOr, 0)
		}
	}
}

// exprlistTarget prints a for/comprehension target: exprlist, i.e. a bare tuple whose
// items are at the 'expr' level (or starred).
func (p *c6printer) exprlistTarget(t ast.Expr) {
	if tu, ok := t.(*ast.Tuple); ok && len(tu.Elts) > 0 {
		site := p.nParen
		p.nParen++
		if p.o.paren[site] {
			p.open("(", true)
		}
		for i, el := range tu.Elts {
			if i > 0 {
				p.op(",", false)
			}
			p.expr(el, !(p.o.paren[site] && i == 0), c6LBitOr, 0)
		}
		if len(tu.Elts) == 1 {
			p.op(",", false)
		} else if p.commaSite() {
			p.op(",", false)
		}
		if p.o.paren[site] {
			p.close(")")
		}
		return
	}
	p.expr(t, true, c6LBitOr, 0)
}

func (p *c6printer) callArgs(args []ast.Expr, kws []*ast.Keyword, star, kwargs ast.Expr, genOK bool) {
	n := 0
	sep := func() bool {
		if n > 0 {
			p.op(",", false)
		}
		n++
		return n > 1
	}
	bareGen := false
	if genOK && len(args) == 1 && len(kws) == 0 && star == nil && kwargs == nil {
		if _, ok := args[0].(*ast.GeneratorExp); ok {
			bareGen = true
		}
	}
	for _, a := range args {
		s := sep()
		if bareGen {
			p.expr(a, s, 0, c6BareGen)
		} else {
			p.expr(a, s, 0, 0)
		}
	}
	kwAfterStar := false
	if star != nil && len(kws) > 0 {
		kwAfterStar = p.altSite("kw-after-star")
	}
	printKws := func() {
		for _, k := range kws {
			s := sep()
			p.wordT(string(k.Arg), s, c6tKwName)
			p.op("=", false)
			p.expr(k.Value, false, 0, 0)
		}
	}
	if !kwAfterStar {
		printKws()
	}
	if star != nil {
		s := sep()
		p.op("*", s)
		p.expr(star, false, 0, 0)
	}
	if kwAfterStar {
		printKws()
	}
	if kwargs != nil {
		s := sep()
		p.op("**", s)
		p.expr(kwargs, false, 0, 0)
	}
	if n > 0 && star == nil && kwargs == nil && !bareGen {
		if p.commaSite() {
			p.op(",", false)
		}
	}
}

func (p *c6printer) slice(s ast.Slicer, top bool) {
	switch x := s.(type) {
	case *ast.Index:
		if top {
			p.expr(x.Value, false, 0, c6BareTuple)
		} else {
			p.expr(x.Value, false, 0, 0)
		}
	case *ast.Slice:
		if x.Lower != nil {
			p.expr(x.Lower, false, 0, 0)
		}
		p.op(":", false)
		if x.Upper != nil {
			p.expr(x.Upper, false, 0, 0)
		}
		if x.Step != nil {
			p.op(":", false)
			p.expr(x.Step, false, 0, 0)
		} else if p.altSite("slice-empty-step") {
			p.op(":", false)
		}
	case *ast.ExtSlice:
		for i, d := range x.Dims {
			if i > 0 {
				p.op(",", false)
			}
			if i > 0 {
				// one canonical space after the comma
				n := len(p.toks)
				p.slice(d, false)
				if n < len(p.toks) {
					p.toks[n].sp = true
				}
			} else {
				p.slice(d, false)
			}
		}
		if len(x.Dims) == 1 {
			p.op(",", false)
		} else if p.commaSite() {
			p.op(",", false)
		}
	default:
		panic("c06 printer: unknown slice")
	}
}

// arguments prints a parameter list (typedargslist with annotations for def,
// varargslist for lambda).
func (p *c6printer) arguments(a *ast.Arguments, ann bool, lambda bool) {
	n := 0
	one := func(arg *ast.Arg, def ast.Expr, hasDef bool, prefix string) {
		if n > 0 {
			p.op(",", false)
		}
		sp := n > 0 || lambda
		n++
		if prefix != "" {
			p.op(prefix, sp)
			sp = false
		}
		if arg != nil {
			p.wordT(string(arg.Arg), sp, c6tBindName)
			if arg.Annotation != nil {
				if !ann {
					panic("c06 printer: annotation in lambda")
				}
				p.op(":", false)
				p.expr(arg.Annotation, true, 0, 0)
			}
		}
		if hasDef {
			p.op("=", arg != nil && arg.Annotation != nil)
			p.expr(def, arg != nil && arg.Annotation != nil, 0, 0)
		}
	}
	nd := len(a.Defaults)
	for i, arg := range a.Args {
		j := i - (len(a.Args) - nd)
		if j >= 0 {
			one(arg, a.Defaults[j], true, "")
		} else {
			one(arg, nil, false, "")
		}
	}
	if a.Vararg != nil {
		one(a.Vararg, nil, false, "*")
	} else if len(a.Kwonlyargs) > 0 {
		one(nil, nil, false, "*")
	}
	for i, arg := range a.Kwonlyargs {
		if i < len(a.KwDefaults) && a.KwDefaults[i] != nil {
			one(arg, a.KwDefaults[i], true, "")
		} else {
			one(arg, nil, false, "")
		}
	}
	if a.Kwarg != nil {
		one(a.Kwarg, nil, false, "**")
	}
	if n > 0 && a.Vararg == nil && a.Kwarg == nil && len(a.Kwonlyargs) == 0 {
		if p.commaSite() {
			p.op(",", false)
		}
	}
}

// ---- statements ----

func c6isSimple(s ast.Stmt) bool {
	switch s.(type) {
	case *ast.FunctionDef, *ast.ClassDef, *ast.For, *ast.While, *ast.If, *ast.With, *ast.Try:
		return false
	}
	return true
}

// stmts prints the statements of one block (the caller has emitted INDENT if any).
func (p *c6printer) stmts(body []ast.Stmt) {
	for i := 0; i < len(body); i++ {
		s := body[i]
		if !c6isSimple(s) {
			p.compound(s)
			continue
		}
		p.simple(s, false)
		for p.o.semi && i+1 < len(body) && c6isSimple(body[i+1]) {
			p.op(";", false)
			i++
			p.simple(body[i], true)
		}
		if p.o.semiEnd {
			p.op(";", false)
		}
		p.nl()
	}
}

// suite prints ':' and the body of a compound statement clause.
func (p *c6printer) suite(body []ast.Stmt) {
	p.opT(":", false, c6tHdrColon)
	allSimple := true
	for _, s := range body {
		if !c6isSimple(s) {
			allSimple = false
		}
	}
	if allSimple && p.altSite("inline-suite") {
		for i, s := range body {
			if i > 0 {
				p.op(";", false)
			}
			p.simple(s, true)
		}
		if p.o.semiEnd {
			p.op(";", false)
		}
		p.nl()
		return
	}
	p.nl()
	p.emit("", c6Ind, false, c6tNone)
	p.stmts(body)
	p.emit("", c6Ded, false, c6tNone)
}

func (p *c6printer) dotted(name string, sp bool, tag uint8) {
	for i, part := range strings.Split(name, ".") {
		if i > 0 {
			p.op(".", false)
		}
		p.wordT(part, sp && i == 0, tag)
	}
}

func (p *c6printer) aliases(as []*ast.Alias) {
	for i, a := range as {
		if i > 0 {
			p.op(",", false)
		}
		if a.Name == "*" {
			p.op("*", true)
			continue
		}
		p.dotted(string(a.Name), true, c6tNone)
		if a.AsName != "" {
			p.word("as", true)
			p.wordT(string(a.AsName), true, c6tBindName)
		}
	}
}

func (p *c6printer) simple(s ast.Stmt, sp bool) {
	kw := func(w string) { p.wordT(w, sp, c6tStmtKw) }
	switch x := s.(type) {
	case *ast.Return:
		kw("return")
		if x.Value != nil {
			p.expr(x.Value, true, 0, c6BareTuple)
		}
	case *ast.Delete:
		kw("del")
		for i, t := range x.Targets {
			if i > 0 {
				p.op(",", false)
			}
			p.expr(t, true, c6LBitOr, 0)
		}
		if p.commaSite() {
			p.op(",", false)
		}
	case *ast.Assign:
		for i, t := range x.Targets {
			p.expr(t, sp || i > 0, 0, c6BareTuple)
			p.opT("=", true, c6tAssignEq)
		}
		p.expr(x.Value, true, 0, c6BareTuple|c6BareYield)
	case *ast.AugAssign:
		p.expr(x.Target, sp, 0, 0)
		p.opT(c6BinSym[x.Op]+"=", true, c6tAssignEq)
		p.expr(x.Value, true, 0, c6BareTuple|c6BareYield)
	case *ast.Raise:
		kw("raise")
		if x.Exc != nil {
			p.expr(x.Exc, true, 0, 0)
			if x.Cause != nil {
				p.word("from", true)
				p.expr(x.Cause, true, 0, 0)
			}
		}
	case *ast.Assert:
		kw("assert")
		p.expr(x.Test, true, 0, 0)
		if x.Msg != nil {
			p.op(",", false)
			p.expr(x.Msg, true, 0, 0)
		}
	case *ast.Import:
		kw("import")
		p.aliases(x.Names)
	case *ast.ImportFrom:
		kw("from")
		for i := 0; i < x.Level; i++ {
			p.op(".", i == 0)
		}
		if x.Module != "" {
			p.dotted(string(x.Module), x.Level == 0, c6tNone)
		}
		p.word("import", true)
		if len(x.Names) == 1 && x.Names[0].Name == "*" {
			p.aliases(x.Names)
		} else {
			par := p.altSite("import-parens")
			com := p.commaSite()
			if par || com {
				p.open("(", true)
				n := len(p.toks)
				p.aliases(x.Names)
				p.toks[n].sp = false
				if com {
					p.op(",", false)
				}
				p.close(")")
			} else {
				p.aliases(x.Names)
			}
		}
	case *ast.Global:
		kw("global")
		for i, n := range x.Names {
			if i > 0 {
				p.op(",", false)
			}
			p.wordT(string(n), true, c6tBindName)
		}
	case *ast.Nonlocal:
		kw("nonlocal")
		for i, n := range x.Names {
			if i > 0 {
				p.op(",", false)
			}
			p.wordT(string(n), true, c6tBindName)
		}
	case *ast.ExprStmt:
		p.expr(x.Value, sp, 0, c6BareTuple|c6BareYield)
	case *ast.Pass:
		kw("pass")
	case *ast.Break:
		kw("break")
	case *ast.Continue:
		kw("continue")
	default:
		panic(fmt.Sprintf("c06 printer: unknown simple statement %T", s))
	}
}

func (p *c6printer) decorators(ds []ast.Expr) {
	for _, d := range ds {
		p.op("@", false)
		var call *ast.Call
		f := d
		if c, ok := d.(*ast.Call); ok {
			call, f = c, c.Func
		}
		// dotted name
		var parts []string
		for {
			if a, ok := f.(*ast.Attribute); ok {
				parts = append([]string{string(a.Attr)}, parts...)
				f = a.Value
				continue
			}
			parts = append([]string{string(f.(*ast.Name).Id)}, parts...)
			break
		}
		p.dotted(strings.Join(parts, "."), false, c6tLoadName)
		if call != nil {
			p.open("(", false)
			p.callArgs(call.Args, call.Keywords, call.Starargs, call.Kwargs, true)
			p.close(")")
		}
		p.nl()
	}
}

func (p *c6printer) compound(s ast.Stmt) {
	kw := func(w string) { p.wordT(w, false, c6tStmtKw) }
	switch x := s.(type) {
	case *ast.FunctionDef:
		p.decorators(x.DecoratorList)
		kw("def")
		p.wordT(string(x.Name), true, c6tDefName)
		p.open("(", false)
		p.arguments(x.Args, true, false)
		p.close(")")
		if x.Returns != nil {
			p.op("->", true)
			p.expr(x.Returns, true, 0, 0)
		}
		p.suite(x.Body)
	case *ast.ClassDef:
		p.decorators(x.DecoratorList)
		kw("class")
		p.wordT(string(x.Name), true, c6tDefName)
		if len(x.Bases) > 0 || len(x.Keywords) > 0 || x.Starargs != nil || x.Kwargs != nil {
			p.open("(", false)
			p.callArgs(x.Bases, x.Keywords, x.Starargs, x.Kwargs, false)
			p.close(")")
		} else if p.altSite("class-empty-parens") {
			p.open("(", false)
			p.close(")")
		}
		p.suite(x.Body)
	case *ast.For:
		kw("for")
		p.exprlistTarget(x.Target)
		p.wordT("in", true, c6tForIn)
		p.expr(x.Iter, true, 0, c6BareTuple)
		p.suite(x.Body)
		if len(x.Orelse) > 0 {
			kw("else")
			p.suite(x.Orelse)
		}
	case *ast.While:
		kw("while")
		p.expr(x.Test, true, 0, 0)
		p.suite(x.Body)
		if len(x.Orelse) > 0 {
			kw("else")
			p.suite(x.Orelse)
		}
	case *ast.If:
		kw("if")
		p.ifRest(x)
	case *ast.With:
		kw("with")
		for i, it := range x.Items {
			if i > 0 {
				p.op(",", false)
			}
			p.expr(it.ContextExpr, true, 0, 0)
			if it.OptionalVars != nil {
				p.word("as", true)
				p.expr(it.OptionalVars, true, c6LBitOr, 0)
			}
		}
		p.suite(x.Body)
	case *ast.Try:
		kw("try")
		p.suite(x.Body)
		for _, h := range x.Handlers {
			kw("except")
			if h.ExprType != nil {
				p.expr(h.ExprType, true, 0, 0)
				if h.Name != "" {
					p.word("as", true)
					p.wordT(string(h.Name), true, c6tBindName)
				}
			}
			p.suite(h.Body)
		}
		if len(x.Orelse) > 0 {
			kw("else")
			p.suite(x.Orelse)
		}
		if len(x.Finalbody) > 0 {
			kw("finally")
			p.suite(x.Finalbody)
		}
	default:
		panic(fmt.Sprintf("c06 printer: unknown compound statement %T", s))
	}
}

func (p *c6printer) ifRest(x *ast.If) {
	p.expr(x.Test, true, 0, 0)
	p.suite(x.Body)
	if len(x.Orelse) == 0 {
		return
	}
	if inner, ok := x.Orelse[0].(*ast.If); ok && len(x.Orelse) == 1 {
		if !p.altSite("else-if-for-elif") {
			p.wordT("elif", false, c6tStmtKw)
			p.ifRest(inner)
			return
		}
	}
	p.wordT("else", false, c6tStmtKw)
	p.suite(x.Orelse)
}

// c6print prints a module / expression / interactive tree to tokens.
func c6print(tree ast.Ast, o c6opts) *c6printer {
	p := &c6printer{o: o}
	switch x := tree.(type) {
	case *ast.Module:
		p.stmts(x.Body)
	case *ast.Interactive:
		p.stmts(x.Body)
	case *ast.Expression:
		p.expr(x.Body, false, 0, c6BareTuple)
		p.nl()
	default:
		panic("c06 printer: bad root")
	}
	return p
}

// ---- literal spellings used by the canonical printer ----

func c6NumText(n ast.Object) string {
	switch v := n.(type) {
	case py.Int:
		return strconv.FormatInt(int64(v), 10)
	case *py.BigInt:
		return (*big.Int)(v).String()
	case py.Float:
		return c6FloatText(float64(v))
	case py.Complex:
		if real(complex128(v)) != 0 {
			panic("c06 printer: complex literal with a real part")
		}
		return c6FloatText(imag(complex128(v))) + "j"
	}
	panic(fmt.Sprintf("c06 printer: bad Num payload %T", n))
}

func c6FloatText(f float64) string {
	if math.IsInf(f, 0) || math.IsNaN(f) || f < 0 || (f == 0 && math.Signbit(f)) {
		panic("c06 printer: float literal out of range")
	}
	s := strconv.FormatFloat(f, 'g', -1, 64)
	if !strings.ContainsAny(s, ".e") {
		s += ".0"
	}
	return s
}

// c6StrText: canonical single-quoted spelling; the generated trees only hold printable
// ASCII without quotes and backslashes (everything else belongs to the literal part).
func c6StrText(s string) string {
	for _, r := range s {
		if r < 0x20 || r >= 0x7f || r == '\'' || r == '"' || r == '\\' {
			panic("c06 printer: string payload outside the canonical alphabet")
		}
	}
	return "'" + s + "'"
}

// ---- layout: tokens -> text ----

const (
	c6GapCanon    = iota
	c6GapNone     // no optional white space at all
	c6GapWide     // two spaces in every gap
	c6GapTab      // a tab in every gap
	c6GapFormFeed // space, form feed, space in every gap
)

const (
	c6gBackslash   = iota + 1 // " \" newline, continuation line starts in column 0
	c6gBackslashIn            // " \" newline, continuation line starts with three spaces
	c6gNewline                // newline inside brackets, next line column 0
	c6gNewlineIn              // newline inside brackets, next line starts with one space
	c6gNewlineTab             // newline inside brackets, next line starts with a tab
	c6gCommentNL              // comment then newline inside brackets
	c6gBlankNL                // newline, an empty line, inside brackets
	c6gSpaces                 // three extra spaces
	c6gTab                    // a tab
)

type c6layout struct {
	gapMode  int
	gaps     map[int]int // token index i (gap before token i) -> c6g*
	indent   []string    // indentation unit per nesting depth; missing = last / 4 spaces
	comment  map[int]int // logical line index -> 1: " # c", 2: "#c"
	before   map[int]int // logical line index -> extra physical line before it
	crlf     bool
	noEOL    bool           // no newline after the last line
	trailing int            // extra material after the last line: 1 blank line, 2 comment line, 3 spaces-only line w/o newline
	override map[int]string // logical line index -> indentation used instead of the block's own
}

func c6isWordByte(c byte) bool {
	return c == '_' || (c >= '0' && c <= '9') || (c >= 'a' && c <= 'z') || (c >= 'A' && c <= 'Z') || c >= 0x80
}

// c6needSpace: must two adjacent tokens be separated to keep their token boundaries?
func c6needSpace(a, b c6tok) bool {
	if a.s == "" || b.s == "" {
		return false
	}
	la, fb := a.s[len(a.s)-1], b.s[0]
	if (a.cls == c6Word || a.cls == c6Num) && (c6isWordByte(fb) || fb == '\'' || fb == '"') {
		return true
	}
	if a.cls == c6Num && fb == '.' {
		return true
	}
	if la == '.' && fb >= '0' && fb <= '9' {
		return true
	}
	if a.cls == c6Str && b.cls == c6Str {
		return false
	}
	return false
}

type c6gap struct {
	idx   int // token index after the gap
	depth int // bracket depth at the gap
}

// c6gapsOf lists the gaps between two real tokens of the same logical line.
func c6gapsOf(toks []c6tok) []c6gap {
	var out []c6gap
	depth := 0
	for i, t := range toks {
		real := t.cls != c6NL && t.cls != c6Ind && t.cls != c6Ded
		if real && i > 0 {
			pt := toks[i-1]
			if pt.cls != c6NL && pt.cls != c6Ind && pt.cls != c6Ded {
				out = append(out, c6gap{i, depth})
			}
		}
		if t.tag == c6tOpen {
			depth++
		} else if t.tag == c6tClose {
			depth--
		}
	}
	return out
}

// c6lines counts logical lines.
func c6lines(toks []c6tok) int {
	n := 0
	for _, t := range toks {
		if t.cls == c6NL {
			n++
		}
	}
	return n
}

func (l *c6layout) unit(depth int) string {
	if len(l.indent) == 0 {
		return "    "
	}
	if depth < len(l.indent) {
		return l.indent[depth]
	}
	return l.indent[len(l.indent)-1]
}

func c6render(toks []c6tok, l *c6layout) string {
	var b strings.Builder
	nl := "\n"
	if l.crlf {
		nl = "\r\n"
	}
	var ind []string
	cur := func() string { return strings.Join(ind, "") }
	line := 0
	atStart := true
	lastNL := -1
	for i, t := range toks {
		if t.cls == c6NL {
			lastNL = i
		}
	}
	for i, t := range toks {
		switch t.cls {
		case c6Ind:
			ind = append(ind, l.unit(len(ind)))
			continue
		case c6Ded:
			ind = ind[:len(ind)-1]
			continue
		case c6NL:
			switch l.comment[line] {
			case 1:
				b.WriteString(" # c")
			case 2:
				b.WriteString("#c")
			}
			if !(l.noEOL && i == lastNL) {
				b.WriteString(nl)
			}
			line++
			atStart = true
			continue
		}
		if atStart {
			switch l.before[line] {
			case 1:
				b.WriteString(nl)
			case 2:
				b.WriteString("   " + nl)
			case 3:
				b.WriteString("# c" + nl)
			case 4:
				b.WriteString(cur() + "         # c" + nl)
			case 5:
				b.WriteString("\t" + nl)
			}
			if o, ok := l.override[line]; ok {
				b.WriteString(o)
			} else {
				b.WriteString(cur())
			}
			atStart = false
		} else {
			g, special := l.gaps[i]
			if special {
				switch g {
				case c6gBackslash:
					b.WriteString(" \\" + nl)
				case c6gBackslashIn:
					b.WriteString("\\" + nl + "   ")
				case c6gNewline:
					b.WriteString(nl)
				case c6gNewlineIn:
					b.WriteString(nl + " ")
				case c6gNewlineTab:
					b.WriteString(nl + "\t")
				case c6gCommentNL:
					b.WriteString(" # c" + nl)
				case c6gBlankNL:
					b.WriteString(nl + nl)
				case c6gSpaces:
					b.WriteString("   ")
				case c6gTab:
					b.WriteString("\t")
				}
			} else {
				switch l.gapMode {
				case c6GapCanon:
					if t.sp || c6needSpace(toks[i-1], t) {
						b.WriteString(" ")
					}
				case c6GapNone:
					if c6needSpace(toks[i-1], t) {
						b.WriteString(" ")
					}
				case c6GapWide:
					b.WriteString("  ")
				case c6GapTab:
					b.WriteString("\t")
				case c6GapFormFeed:
					b.WriteString(" \f ")
				}
			}
		}
		b.WriteString(t.s)
	}
	switch l.trailing {
	case 1:
		b.WriteString(nl)
	case 2:
		b.WriteString("# c" + nl)
	case 3:
		b.WriteString("   ")
	case 4:
		b.WriteString("# c")
	}
	return b.String()
}

package props

import (
	"fmt"
	"sort"
	"strconv"
	"strings"

	"github.com/go-python/gpython/py"
	"verif/internal/core"
	"verif/internal/harness"
)

// C05 part (b): every consumer of iterables x every producer kind x failure position x what is raised.

// ---- producers ----

type prodCfg struct {
	kind   string // gen cls getitem list range ch-gen ch-cls ch-getitem mapf
	failAt int    // -1: none (for list/range: unused)
	raised string // Python expression raised at failAt
	n      int    // list/range: number of items
}

// Exception is the base class of StopIteration and LookupError the base class of IndexError:
// neither ends an iteration
var c05Raised = []string{"StopIteration", "StopIteration()", "StopIteration(9)", "ValueError", "KeyError", "IndexError", "Exception", "LookupError"}

// ends reports whether raising r inside producer kind k ends the iteration cleanly.
func c05Ends(kind, r string) bool {
	if strings.HasPrefix(r, "StopIteration") {
		return true
	}
	// the old sequence protocol: IndexError from __getitem__ is the end of the sequence
	return r == "IndexError" && (kind == "getitem" || kind == "ch-getitem")
}

func c05ExcName(r string) string {
	if i := strings.Index(r, "("); i >= 0 {
		return r[:i]
	}
	return r
}

var c05Items = map[string][]string{"int": {"1", "0", "2"}, "str": {"'b'", "'a'", "'c'"}}

// source: definitions + the expression creating a fresh producer
func (p prodCfg) source(itemKind string) (defs, expr string) {
	items := c05Items[itemKind]
	P := itoa(p.failAt)
	defs = "ITEMS = (" + strings.Join(items, ", ") + ")\n" +
		"def fst(t):\n    return t[0]\n"
	inner := p.kind
	chained := strings.HasPrefix(p.kind, "ch-")
	if chained {
		inner = p.kind[3:]
	}
	raise := "pass"
	if p.failAt >= 0 {
		raise = "raise " + p.raised
	}
	switch inner {
	case "gen":
		defs += "def gen():\n    for i in range(3):\n        vh.log('p', i)\n        if i == " + P + ":\n            " + raise + "\n        yield ITEMS[i]\n"
		expr = "gen()"
	case "cls":
		defs += "class It:\n    def __init__(self):\n        self.i = -1\n    def __iter__(self):\n        return self\n" +
			"    def __next__(self):\n        self.i += 1\n        vh.log('p', self.i)\n        if self.i == " + P + ":\n            " + raise + "\n" +
			"        if self.i >= 3:\n            raise StopIteration\n        return ITEMS[self.i]\n"
		expr = "It()"
	case "getitem":
		defs += "class Seq:\n    def __getitem__(self, i):\n        vh.log('p', i)\n        if i == " + P + ":\n            " + raise + "\n" +
			"        if i >= 3:\n            raise IndexError\n        return ITEMS[i]\n"
		expr = "Seq()"
	case "list":
		expr = "iter([" + strings.Join(items[:p.n], ", ") + "])"
	case "range":
		expr = "range(" + itoa(p.n) + ")"
	case "mapf":
		fv := "None"
		if p.failAt >= 0 {
			fv = items[p.failAt]
		}
		defs += "def fr(v):\n    vh.log('p', v)\n    if v == " + fv + ":\n        " + raise + "\n    return v\n"
		expr = "map(fr, [" + strings.Join(items, ", ") + "])"
	}
	if chained {
		expr = "map(fst, zip(" + expr + ", range(5)))"
	}
	return
}

// absIt is the model of a producer: what a single step does.
type absIt struct {
	items   []string // canonical values
	failAt  int
	failExc string // "" = clean end
	logs    bool
	logVal  bool // the step logs the item value instead of the index
	endLog  bool // the step that finds the natural end logs too
	pos     int
	done    bool
	log     []string
}

func (p prodCfg) model(itemKind string) *absIt {
	a := &absIt{failAt: -1}
	switch p.kind {
	case "list":
		a.items = c05Items[itemKind][:p.n]
		return a
	case "range":
		for i := 0; i < p.n; i++ {
			a.items = append(a.items, itoa(i))
		}
		return a
	}
	a.items = c05Items[itemKind]
	a.logs = true
	a.logVal = p.kind == "mapf"
	a.endLog = strings.HasSuffix(p.kind, "cls") || strings.HasSuffix(p.kind, "getitem")
	if p.failAt >= 0 {
		a.failAt = p.failAt
		if !c05Ends(p.kind, p.raised) {
			a.failExc = c05ExcName(p.raised)
		}
	}
	return a
}

func (a *absIt) tag(i int) string {
	if a.logVal {
		return "('p'," + a.items[i] + ")"
	}
	return "('p'," + itoa(i) + ")"
}

// next: one step. ok: a value; !ok and exc == "": StopIteration; else the exception raised.
func (a *absIt) next() (val string, exc string, ok bool) {
	if a.done {
		panic("c05 model: consumer model stepped a finished producer")
	}
	i := a.pos
	if i == a.failAt {
		a.log = append(a.log, a.tag(i))
		a.done = true
		return "", a.failExc, false
	}
	if i >= len(a.items) {
		if a.logs && a.endLog {
			a.log = append(a.log, "('p',"+itoa(i)+")")
		}
		a.done = true
		return "", "", false
	}
	if a.logs {
		a.log = append(a.log, a.tag(i))
	}
	a.pos++
	return a.items[i], "", true
}

func (a *absIt) all() ([]string, string) {
	var out []string
	for {
		v, exc, ok := a.next()
		if ok {
			out = append(out, v)
			continue
		}
		return out, exc
	}
}

// ---- consumers ----

type consumer struct {
	name  string
	code  string // IT = the producer expression; sets r
	items string // "int" or "str"
	made  bool   // logs 'made' between construction and the first step
	goAPI func(o py.Object) (py.Object, error)
	model func(a *absIt) (res string, exc string)
}

func cList(xs []string) string  { return "[" + strings.Join(xs, ",") + "]" }
func cTuple(xs []string) string { return "(" + strings.Join(xs, ",") + ")" }
func cSet(xs []string) string {
	seen := map[string]bool{}
	var u []string
	for _, x := range xs {
		if !seen[x] {
			seen[x] = true
			u = append(u, x)
		}
	}
	sort.Strings(u)
	return "set{" + strings.Join(u, ",") + "}"
}
func cInts(xs []string) []int {
	out := make([]int, len(xs))
	for i, x := range xs {
		n, err := strconv.Atoi(x)
		if err != nil {
			panic("c05 model: not an int: " + x)
		}
		out[i] = n
	}
	return out
}
func cBool(b bool) string {
	if b {
		return "True"
	}
	return "False"
}
func truthy(x string) bool { return x != "0" }

// whole: consumers that exhaust the producer and then compute f(items)
func whole(f func(xs []string) (string, string)) func(a *absIt) (string, string) {
	return func(a *absIt) (string, string) {
		xs, exc := a.all()
		if exc != "" {
			return "", exc
		}
		return f(xs)
	}
}

func wList(xs []string) (string, string)  { return cList(xs), "" }
func wTuple(xs []string) (string, string) { return cTuple(xs), "" }

var zipOther = []string{"7", "8", "9", "10"}

// zip model: the sources are stepped in order, the first one that ends stops zip
func zipModel(a *absIt, other []string, itFirst bool) (string, string) {
	var out []string
	for i := 0; ; i++ {
		if !itFirst && i >= len(other) {
			break
		}
		v, exc, ok := a.next()
		if !ok {
			if exc != "" {
				return "", exc
			}
			break
		}
		if itFirst && i >= len(other) {
			break
		}
		if itFirst {
			out = append(out, "("+v+","+other[i]+")")
		} else {
			out = append(out, "("+other[i]+","+v+")")
		}
	}
	return cList(out), ""
}

// one step of a lazy wrapper
func firstOf(f func(v string, i int) (string, bool)) func(a *absIt) (string, string) {
	return func(a *absIt) (string, string) {
		for i := 0; ; i++ {
			v, exc, ok := a.next()
			if !ok {
				if exc != "" {
					return "", exc
				}
				return "", "StopIteration"
			}
			if r, keep := f(v, i); keep {
				return r, ""
			}
		}
	}
}

func c05Consumers() []consumer {
	inc := func(xs []string) []string {
		var out []string
		for _, n := range cInts(xs) {
			out = append(out, itoa(n+10))
		}
		return out
	}
	unpack := func(n int) func(a *absIt) (string, string) {
		return func(a *absIt) (string, string) {
			var got []string
			for i := 0; i < n; i++ {
				v, exc, ok := a.next()
				if !ok {
					if exc != "" {
						return "", exc
					}
					return "", "ValueError" // need more values
				}
				got = append(got, v)
			}
			_, exc, ok := a.next()
			if ok {
				return "", "ValueError" // too many values
			}
			if exc != "" {
				return "", exc
			}
			return cTuple(got), ""
		}
	}
	cs := []consumer{
		{name: "for", code: "r = []\nfor v in IT:\n    r.append(v)\nelse:\n    r.append('else')\n", model: whole(func(xs []string) (string, string) {
			return cList(append(append([]string{}, xs...), "'else'")), ""
		})},
		{name: "listcomp", code: "r = [v for v in IT]\n", model: whole(wList)},
		{name: "setcomp", code: "r = {v for v in IT}\n", model: whole(func(xs []string) (string, string) { return cSet(xs), "" })},
		{name: "dictcomp", items: "str", code: "r = {v: 1 for v in IT}\n", model: whole(func(xs []string) (string, string) {
			s := append([]string{}, xs...)
			sort.Strings(s)
			for i := range s {
				s[i] += ":1"
			}
			return "{" + strings.Join(s, ",") + "}", ""
		})},
		{name: "genexp", code: "r = list(v for v in IT)\n", model: whole(wList)},
		{name: "unpack2", code: "a, b = IT\nr = (a, b)\n", model: unpack(2)},
		{name: "unpack3", code: "a, b, c = IT\nr = (a, b, c)\n", model: unpack(3)},
		{name: "star-last", code: "a, *b = IT\nr = (a, b)\n", model: func(a *absIt) (string, string) {
			v, exc, ok := a.next()
			if !ok {
				if exc != "" {
					return "", exc
				}
				return "", "ValueError"
			}
			xs, exc := a.all()
			if exc != "" {
				return "", exc
			}
			return "(" + v + "," + cList(xs) + ")", ""
		}},
		{name: "star-first", code: "*a, b = IT\nr = (a, b)\n", model: whole(func(xs []string) (string, string) {
			if len(xs) < 1 {
				return "", "ValueError"
			}
			return "(" + cList(xs[:len(xs)-1]) + "," + xs[len(xs)-1] + ")", ""
		})},
		{name: "call-star", code: "r = f(*IT)\n", model: whole(wTuple)},
		{name: "list", code: "r = list(IT)\n", model: whole(wList)},
		{name: "tuple", code: "r = tuple(IT)\n", model: whole(wTuple)},
		{name: "set", code: "r = set(IT)\n", model: whole(func(xs []string) (string, string) { return cSet(xs), "" })},
		{name: "sum", code: "r = sum(IT)\n", model: whole(func(xs []string) (string, string) {
			t := 0
			for _, n := range cInts(xs) {
				t += n
			}
			return itoa(t), ""
		})},
		{name: "min", code: "r = min(IT)\n", model: whole(func(xs []string) (string, string) {
			if len(xs) == 0 {
				return "", "ValueError"
			}
			ns := cInts(xs)
			sort.Ints(ns)
			return itoa(ns[0]), ""
		})},
		{name: "max", code: "r = max(IT)\n", model: whole(func(xs []string) (string, string) {
			if len(xs) == 0 {
				return "", "ValueError"
			}
			ns := cInts(xs)
			sort.Ints(ns)
			return itoa(ns[len(ns)-1]), ""
		})},
		// the same folds with their optional arguments: a default only stands in for an EMPTY
		// iterable, never for one that failed; key functions see every item once
		{name: "min-default", code: "r = min(IT, default=-99)\n", model: whole(func(xs []string) (string, string) {
			if len(xs) == 0 {
				return "-99", ""
			}
			ns := cInts(xs)
			sort.Ints(ns)
			return itoa(ns[0]), ""
		})},
		{name: "max-default", code: "r = max(IT, default=99)\n", model: whole(func(xs []string) (string, string) {
			if len(xs) == 0 {
				return "99", ""
			}
			ns := cInts(xs)
			sort.Ints(ns)
			return itoa(ns[len(ns)-1]), ""
		})},
		{name: "max-key-default", code: "r = max(IT, key=neg, default=-99)\n", model: whole(func(xs []string) (string, string) {
			if len(xs) == 0 {
				return "-99", ""
			}
			ns := cInts(xs)
			sort.Ints(ns)
			return itoa(ns[0]), ""
		})},
		{name: "min-key", code: "r = min(IT, key=neg)\n", model: whole(func(xs []string) (string, string) {
			if len(xs) == 0 {
				return "", "ValueError"
			}
			ns := cInts(xs)
			sort.Ints(ns)
			return itoa(ns[len(ns)-1]), ""
		})},
		{name: "sum-start", code: "r = sum(IT, 100)\n", model: whole(func(xs []string) (string, string) {
			t := 100
			for _, n := range cInts(xs) {
				t += n
			}
			return itoa(t), ""
		})},
		{name: "sorted-key-reverse", code: "r = sorted(IT, key=neg, reverse=True)\n", model: whole(func(xs []string) (string, string) {
			ns := cInts(xs)
			sort.Ints(ns)
			var out []string
			for _, n := range ns {
				out = append(out, itoa(n))
			}
			return cList(out), ""
		})},
		{name: "next-default", code: "r = next(iter(IT), 99)\n", model: func(a *absIt) (string, string) {
			v, exc, ok := a.next()
			if exc != "" {
				return "", exc
			}
			if !ok {
				return "99", ""
			}
			return v, ""
		}},
		{name: "sorted", code: "r = sorted(IT)\n", model: whole(func(xs []string) (string, string) {
			ns := cInts(xs)
			sort.Ints(ns)
			var out []string
			for _, n := range ns {
				out = append(out, itoa(n))
			}
			return cList(out), ""
		})},
		{name: "zip-it-first", code: "r = list(zip(IT, [7, 8, 9, 10]))\n", model: func(a *absIt) (string, string) { return zipModel(a, zipOther, true) }},
		{name: "zip-it-second", code: "r = list(zip([7, 8, 9, 10], IT))\n", model: func(a *absIt) (string, string) { return zipModel(a, zipOther, false) }},
		{name: "zip-it-first-short", code: "r = list(zip(IT, [7, 8]))\n", model: func(a *absIt) (string, string) { return zipModel(a, zipOther[:2], true) }},
		{name: "zip-it-second-short", code: "r = list(zip([7, 8], IT))\n", model: func(a *absIt) (string, string) { return zipModel(a, zipOther[:2], false) }},
		{name: "map", code: "r = list(map(inc, IT))\n", model: whole(func(xs []string) (string, string) { return cList(inc(xs)), "" })},
		{name: "map2", code: "r = list(map(add, IT, [7, 8, 9, 10]))\n", model: func(a *absIt) (string, string) {
			var out []string
			for i := 0; ; i++ {
				v, exc, ok := a.next()
				if !ok {
					if exc != "" {
						return "", exc
					}
					break
				}
				out = append(out, itoa(cInts([]string{v})[0]+cInts(zipOther[i : i+1])[0]))
			}
			return cList(out), ""
		}},
		{name: "filter-none", code: "r = list(filter(None, IT))\n", model: whole(func(xs []string) (string, string) {
			var out []string
			for _, x := range xs {
				if truthy(x) {
					out = append(out, x)
				}
			}
			return cList(out), ""
		})},
		{name: "filter-fn", code: "r = list(filter(pos, IT))\n", model: whole(func(xs []string) (string, string) {
			var out []string
			for _, n := range cInts(xs) {
				if n > 0 {
					out = append(out, itoa(n))
				}
			}
			return cList(out), ""
		})},
		{name: "enumerate", code: "r = list(enumerate(IT))\n", model: whole(func(xs []string) (string, string) {
			var out []string
			for i, x := range xs {
				out = append(out, "("+itoa(i)+","+x+")")
			}
			return cList(out), ""
		})},
		{name: "any", code: "r = any(IT)\n", model: func(a *absIt) (string, string) {
			for {
				v, exc, ok := a.next()
				if !ok {
					if exc != "" {
						return "", exc
					}
					return "False", ""
				}
				if truthy(v) {
					return "True", ""
				}
			}
		}},
		{name: "all", code: "r = all(IT)\n", model: func(a *absIt) (string, string) {
			for {
				v, exc, ok := a.next()
				if !ok {
					if exc != "" {
						return "", exc
					}
					return "True", ""
				}
				if !truthy(v) {
					return "False", ""
				}
			}
		}},
	}
	in := func(x string) func(a *absIt) (string, string) {
		return func(a *absIt) (string, string) {
			for {
				v, exc, ok := a.next()
				if !ok {
					if exc != "" {
						return "", exc
					}
					return "False", ""
				}
				if v == x {
					return "True", ""
				}
			}
		}
	}
	cs = append(cs,
		consumer{name: "in-found", code: "r = 0 in IT\n", model: in("0")},
		consumer{name: "in-absent", code: "r = 5 in IT\n", model: in("5")},
		consumer{name: "join", items: "str", code: "r = ','.join(IT)\n", model: whole(func(xs []string) (string, string) {
			var parts []string
			for _, x := range xs {
				if !strings.HasPrefix(x, "'") {
					return "", "TypeError" // the items are collected first, then checked
				}
				parts = append(parts, strings.Trim(x, "'"))
			}
			return "'" + strings.Join(parts, ",") + "'", ""
		})},
		consumer{name: "extend", code: "r = []\nr.extend(IT)\n", model: whole(wList)},
		consumer{name: "next-default", code: "r = next(iter(IT), 'd')\n", model: func(a *absIt) (string, string) {
			v, exc, ok := a.next()
			if !ok {
				if exc != "" {
					return "", exc
				}
				return "'d'", ""
			}
			return v, ""
		}},
		consumer{name: "lazy-map", made: true, code: "w = map(inc, IT)\nvh.log('made')\nr = next(w)\n",
			model: firstOf(func(v string, i int) (string, bool) { return itoa(cInts([]string{v})[0] + 10), true })},
		consumer{name: "lazy-zip", made: true, code: "w = zip(IT, [7, 8, 9, 10])\nvh.log('made')\nr = next(w)\n",
			model: firstOf(func(v string, i int) (string, bool) { return "(" + v + ",7)", true })},
		consumer{name: "lazy-filter", made: true, code: "w = filter(None, IT)\nvh.log('made')\nr = next(w)\n",
			model: firstOf(func(v string, i int) (string, bool) { return v, truthy(v) })},
		consumer{name: "lazy-enumerate", made: true, code: "w = enumerate(IT)\nvh.log('made')\nr = next(w)\n",
			model: firstOf(func(v string, i int) (string, bool) { return "(0," + v + ")", true })},
		consumer{name: "lazy-genexp", made: true, code: "w = (v for v in IT)\nvh.log('made')\nr = next(w)\n",
			model: firstOf(func(v string, i int) (string, bool) { return v, true })},
		consumer{name: "for-break", code: "r = 'none'\nfor v in IT:\n    r = v\n    break\n", model: func(a *absIt) (string, string) {
			v, exc, ok := a.next()
			if !ok {
				if exc != "" {
					return "", exc
				}
				return "'none'", ""
			}
			return v, ""
		}},
		consumer{name: "for-in-function", code: "def h(it):\n    out = []\n    for v in it:\n        out.append(v)\n    return out\nr = h(IT)\n", model: whole(wList)},
		consumer{name: "manual-next", code: "it = iter(IT)\nr = []\nwhile True:\n    try:\n        r.append(next(it))\n    except StopIteration:\n        break\n", model: whole(wList)},
		consumer{name: "nested-comp", code: "r = [(u, v) for u in [5] for v in IT]\n", model: whole(func(xs []string) (string, string) {
			var out []string
			for _, x := range xs {
				out = append(out, "(5,"+x+")")
			}
			return cList(out), ""
		})},
		consumer{name: "tuple-genexp", code: "r = tuple(v + 10 for v in IT)\n", model: whole(func(xs []string) (string, string) { return cTuple(inc(xs)), "" })},
		consumer{name: "iadd", code: "r = []\nr += IT\n", model: whole(wList)},
		consumer{name: "not-in", code: "r = 5 not in IT\n", model: whole(func(xs []string) (string, string) { return "True", "" })},
		consumer{name: "sum-start", code: "r = sum(IT, 100)\n", model: whole(func(xs []string) (string, string) {
			t := 100
			for _, n := range cInts(xs) {
				t += n
			}
			return itoa(t), ""
		})},
		consumer{name: "sorted-reverse", code: "r = sorted(IT, reverse=True)\n", model: whole(func(xs []string) (string, string) {
			ns := cInts(xs)
			sort.Sort(sort.Reverse(sort.IntSlice(ns)))
			var out []string
			for _, n := range ns {
				out = append(out, itoa(n))
			}
			return cList(out), ""
		})},
		consumer{name: "bytes", code: "r = bytes(IT)\n", model: whole(func(xs []string) (string, string) {
			b := []byte{}
			for _, n := range cInts(xs) {
				b = append(b, byte(n))
			}
			return fmt.Sprintf("b%q", string(b)), ""
		})},
		consumer{name: "go:SequenceTuple", code: "o = IT\n", model: whole(wTuple), goAPI: func(o py.Object) (py.Object, error) { return py.SequenceTuple(o) }},
		consumer{name: "go:SequenceList", code: "o = IT\n", model: whole(wList), goAPI: func(o py.Object) (py.Object, error) { return py.SequenceList(o) }},
		consumer{name: "go:SequenceSet", code: "o = IT\n", model: whole(func(xs []string) (string, string) { return cSet(xs), "" }),
			goAPI: func(o py.Object) (py.Object, error) { return py.SequenceSet(o) }},
		consumer{name: "go:Iterate", code: "o = IT\n", model: whole(wList), goAPI: func(o py.Object) (py.Object, error) {
			l := py.NewList()
			err := py.Iterate(o, func(x py.Object) bool { l.Append(x); return false })
			return l, err
		}},
	)
	for i := range cs {
		if cs[i].items == "" {
			cs[i].items = "int"
		}
	}
	return cs
}

const c05bPrelude = `
def f(*a):
    return a
def inc(v):
    return v + 10
def add(a, b):
    return a + b
def pos(v):
    return v > 0
def neg(v):
    return -v
`

func c05Producers() []prodCfg {
	var out []prodCfg
	for n := 0; n <= 3; n++ {
		out = append(out, prodCfg{kind: "list", failAt: -1, n: n})
	}
	for n := 0; n <= 3; n++ {
		out = append(out, prodCfg{kind: "range", failAt: -1, n: n})
	}
	for _, k := range []string{"gen", "cls", "getitem", "ch-gen", "ch-cls", "ch-getitem", "mapf"} {
		out = append(out, prodCfg{kind: k, failAt: -1})
		for p := 0; p <= 2; p++ {
			for _, r := range c05Raised {
				out = append(out, prodCfg{kind: k, failAt: p, raised: r})
			}
		}
	}
	return out
}

func c05PartB(rc *core.RunCtx) {
	rc.Part = "b"
	c := newC05(rc, c05bPrelude)
	cons := c05Consumers()
	type prep struct {
		g   py.StringDict
		err error
	}
	for _, p := range c05Producers() {
		cache := map[string]*prep{}
		for _, cn := range cons {
			if rc.Expired() || rc.Done() {
				return
			}
			if cn.name == "dictcomp" && p.kind == "range" {
				continue // gpython dicts take string keys only (not this property's subject)
			}
			if !rc.Take() {
				continue
			}
			defs, expr := p.source(cn.items)
			code := strings.ReplaceAll(cn.code, "IT", expr)
			pos := "none"
			if p.failAt >= 0 {
				pos = itoa(p.failAt)
			}
			if p.kind == "list" || p.kind == "range" {
				pos = "len" + itoa(p.n)
			}
			fields := core.Fields{"part": "b", "consumer": cn.name, "producer": p.kind, "at": pos, "raised": p.raised}
			input := defs + code
			rc.Guard(fields, func() string { return input }, func() {
				pr := cache[cn.items]
				if pr == nil {
					g, _, err := c.exec(c.base, defs)
					pr = &prep{g, err}
					cache[cn.items] = pr
				}
				if pr.err != nil {
					panic("c05 producer definitions: " + pr.err.Error())
				}
				// model
				a := p.model(cn.items)
				expRes, expExc := cn.model(a)
				expLog := a.log
				if cn.made {
					expLog = append([]string{"'made'"}, expLog...)
				}
				outcome := "value"
				if expExc != "" {
					outcome = "raises:" + expExc
				}
				nt := ""
				if p.failAt >= 0 || len(a.log) > 0 {
					nt = input
				}
				rc.Eval(outcome, nt)
				rc.Count("consumer_programs", 1)
				if rc.WantSample() && rc.Index()%401 == 0 {
					rc.Sample(map[string]interface{}{"program": input, "expected_result": expRes, "expected_exception": expExc, "expected_steps": expLog})
				}
				// real
				g, log, err := c.exec(pr.g, code)
				var robj py.Object
				if err == nil {
					robj = g["r"]
					if cn.goAPI != nil {
						robj, err = cn.goAPI(g["o"])
						log = c.lg.Entries
					}
				}
				gotExc := ""
				gotRes := ""
				if err != nil {
					gotExc, _, _, _ = harness.ExcInfo(err)
				} else {
					gotRes = canonOrMissing(robj)
				}
				exp := fmt.Sprintf("r=%s exc=%s steps=[%s]", c05dash(expRes), c05dash(expExc), strings.Join(expLog, " "))
				obs := fmt.Sprintf("r=%s exc=%s steps=[%s]", c05dash(gotRes), c05dash(gotExc), strings.Join(log, " "))
				sig := ""
				switch {
				case expExc != "" && gotExc == "":
					sig = "consume:swallowed-" + expExc
				case expExc != "" && gotExc != expExc:
					sig = "consume:converted-" + expExc + "-to-" + gotExc
				case expExc == "" && gotExc != "":
					sig = "consume:unexpected-" + gotExc
				case gotRes != expRes:
					sig = "consume:wrong-result"
				case strings.Join(log, " ") != strings.Join(expLog, " "):
					sig = "consume:wrong-steps"
				}
				if sig != "" {
					rc.Deviate(core.Deviation{Fields: fields, Input: input, Expected: exp, Observed: obs, Sig: sig})
				}
			})
		}
	}
}

func c05dash(s string) string {
	if s == "" {
		return "-"
	}
	return s
}

package props

import (
	"fmt"
	"os"
	"path/filepath"
	"strings"

	"verif/internal/core"
	"verif/internal/harness"
)

// C19 part "latepath": one context, a module name that several directories provide, a second
// module whose name merely starts with the first one's, and every short history of import
// attempts and search-path changes.
//
//   - a failed import (module not found, or its body raised) leaves nothing behind: as soon as
//     the module can be found the next import finds it and runs its body once;
//   - once loaded a module stays the loaded module whatever the path becomes;
//   - a directory on the path that merely contains a plain directory of the module's name (no
//     __init__.py) does not provide the module and does not hide a later directory that does;
//   - the failure of one module does not disturb another loaded module, however alike the
//     names are (c19late / c19late2).
func c19LatePath(rc *core.RunCtx) {
	rc.Part = "latepath"
	root, err := os.MkdirTemp("", "c19e-")
	if err != nil {
		panic(err)
	}
	defer os.RemoveAll(root)
	dirs := map[string]string{}
	for _, d := range []string{"A", "B", "F", "P", "empty", "main"} {
		dirs[d] = filepath.Join(root, d)
		os.MkdirAll(dirs[d], 0o755)
	}
	for _, d := range []string{"A", "B"} {
		os.WriteFile(filepath.Join(dirs[d], "c19late.py"), []byte("import vh\nvh.log('body-"+d+"')\nNAME = '"+d+"'\n"), 0o644)
	}
	// the longer-named module lives in A only
	os.WriteFile(filepath.Join(dirs["A"], "c19late2.py"), []byte("import vh\nvh.log('body-2')\ncount = 0\n"), 0o644)
	// F: the module is found but its body raises after a side effect
	os.WriteFile(filepath.Join(dirs["F"], "c19late.py"), []byte("import vh\nvh.log('body-F')\nNAME = 'F'\nraise ValueError('broken module')\n"), 0o644)
	// P: a plain directory (not a package) named like the module
	os.MkdirAll(filepath.Join(dirs["P"], "c19late"), 0o755)
	os.WriteFile(filepath.Join(dirs["P"], "c19late", "other.py"), []byte("x = 1\n"), 0o644)

	ops := []string{"import", "from", "import2", "appendA", "insertB", "insertF", "insertP", "pop"}
	maxLen := 5
	if !rc.Quick() {
		maxLen = 6
	}
	var seq []string
	var rec func()
	rec = func() {
		if rc.Expired() || rc.Done() {
			return
		}
		if n := len(seq); n > 0 && (seq[n-1] == "import" || seq[n-1] == "from" || seq[n-1] == "import2") && rc.Take() {
			c19LateOne(rc, dirs, append([]string{}, seq...))
		}
		if len(seq) == maxLen {
			return
		}
		for _, o := range ops {
			seq = append(seq, o)
			rec()
			seq = seq[:len(seq)-1]
		}
	}
	rec()
}

func c19LateOne(rc *core.RunCtx, dirs map[string]string, seq []string) {
	var b strings.Builder
	b.WriteString("import sys\nimport vh\n")
	path := []string{"empty"}
	loaded := ""
	loaded2 := false
	count2 := 0
	var exp []string
	for i, o := range seq {
		switch o {
		case "import", "from":
			stmt := "import c19late\n    vh.log(('ok', %d, c19late.NAME))"
			if o == "from" {
				stmt = "from c19late import NAME as n\n    vh.log(('ok', %d, n))"
			}
			fmt.Fprintf(&b, "try:\n    "+stmt+"\nexcept ImportError:\n    vh.log(('ImportError', %d))\nexcept ValueError:\n    vh.log(('ValueError', %d))\n", i, i, i)
			if loaded == "" {
				provider := ""
				plainOnly := false
				for _, d := range path {
					if d == "A" || d == "B" || d == "F" {
						provider = d
						break
					}
					if d == "P" {
						plainOnly = true
					}
				}
				if provider == "" && plainOnly {
					// only the plain directory is on the path: Python 3.3+ would make a namespace
					// package of it, gpython reports ImportError; not judged
					return
				}
				switch provider {
				case "":
					exp = append(exp, fmt.Sprintf("('ImportError',%d)", i))
					continue
				case "F":
					exp = append(exp, "'body-F'", fmt.Sprintf("('ValueError',%d)", i))
					continue // the half-initialised module is discarded
				}
				loaded = provider
				exp = append(exp, "'body-"+provider+"'")
			}
			exp = append(exp, fmt.Sprintf("('ok',%d,'%s')", i, loaded))
		case "import2":
			fmt.Fprintf(&b, "try:\n    import c19late2\n    c19late2.count = c19late2.count + 1\n    vh.log(('ok2', %d, c19late2.count))\nexcept ImportError:\n    vh.log(('ImportError2', %d))\n", i, i)
			if !loaded2 {
				onPath := false
				for _, d := range path {
					if d == "A" {
						onPath = true
					}
				}
				if !onPath {
					exp = append(exp, fmt.Sprintf("('ImportError2',%d)", i))
					continue
				}
				loaded2 = true
				exp = append(exp, "'body-2'")
			}
			count2++
			exp = append(exp, fmt.Sprintf("('ok2',%d,%d)", i, count2))
		case "appendA":
			fmt.Fprintf(&b, "sys.path.append(%q)\n", dirs["A"])
			path = append(path, "A")
		case "insertB", "insertF", "insertP":
			d := o[len(o)-1:]
			fmt.Fprintf(&b, "sys.path[0:0] = [%q]\n", dirs[d])
			path = append([]string{d}, path...)
		case "pop":
			b.WriteString("del sys.path[-1:]\n")
			if len(path) > 0 {
				path = path[:len(path)-1]
			}
		}
	}
	src := b.String()
	fields := core.Fields{"part": "latepath", "history": strings.Join(seq, ",")}
	rc.Guard(fields, func() string { return src }, func() {
		out := harness.RunOpts(src, harness.Opts{SysPaths: []string{dirs["empty"]}, Filename: filepath.Join(dirs["main"], "main.py")})
		got := strings.Join(out.Log, ";")
		if out.ExcType != "" {
			got += " !" + out.ExcType
		}
		nt := ""
		if strings.Contains(strings.Join(exp, ";"), "body-") {
			nt = "latepath:" + fields["history"]
		}
		rc.Eval("latepath", nt)
		if rc.WantSample() && rc.Index()%397 == 0 {
			rc.Sample(map[string]interface{}{"program": src, "expected_log": exp})
		}
		if got != strings.Join(exp, ";") {
			rc.Deviate(core.Deviation{Fields: fields, Input: src, Expected: strings.Join(exp, ";"), Observed: got, Sig: "latepath:wrong-log"})
		}
	})
}

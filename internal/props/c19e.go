package props

import (
	"fmt"
	"os"
	"path/filepath"
	"strings"

	"verif/internal/core"
	"verif/internal/harness"
)

// C19 part "latepath": one context, one module name, and every short history of import
// attempts and search-path changes. A failed import leaves nothing behind: as soon as the
// module can be found (a directory appended to or inserted into sys.path) the next import finds
// it and runs its body once; once loaded it stays the loaded module whatever the path becomes.
func c19LatePath(rc *core.RunCtx) {
	rc.Part = "latepath"
	root, err := os.MkdirTemp("", "c19e-")
	if err != nil {
		panic(err)
	}
	defer os.RemoveAll(root)
	dirs := map[string]string{}
	for _, d := range []string{"A", "B", "empty", "main"} {
		dirs[d] = filepath.Join(root, d)
		os.MkdirAll(dirs[d], 0o755)
	}
	for _, d := range []string{"A", "B"} {
		os.WriteFile(filepath.Join(dirs[d], "c19late.py"), []byte("import vh\nvh.log('body-"+d+"')\nNAME = '"+d+"'\n"), 0o644)
	}
	ops := []string{"import", "from", "appendA", "insertB", "pop"}
	maxLen := 4
	if !rc.Quick() {
		maxLen = 5
	}
	var seq []string
	var rec func()
	rec = func() {
		if rc.Expired() || rc.Done() {
			return
		}
		if n := len(seq); n > 0 && (seq[n-1] == "import" || seq[n-1] == "from") && rc.Take() {
			c19LateOne(rc, dirs, append([]string{}, seq...))
		}
		if len(seq) == maxLen {
			return
		}
		for _, o := range ops {
			seq = append(seq, o)
			rec()
			seq = seq[:len(seq)-1]
		}
	}
	rec()
}

func c19LateOne(rc *core.RunCtx, dirs map[string]string, seq []string) {
	var b strings.Builder
	b.WriteString("import sys\nimport vh\n")
	path := []string{"empty"}
	loaded := ""
	var exp []string
	for i, o := range seq {
		switch o {
		case "import", "from":
			if o == "import" {
				fmt.Fprintf(&b, "try:\n    import c19late\n    vh.log(('ok', %d, c19late.NAME))\nexcept ImportError:\n    vh.log(('ImportError', %d))\n", i, i)
			} else {
				fmt.Fprintf(&b, "try:\n    from c19late import NAME as n%d\n    vh.log(('ok', %d, n%d))\nexcept ImportError:\n    vh.log(('ImportError', %d))\n", i, i, i, i)
			}
			if loaded == "" {
				for _, d := range path {
					if d == "A" || d == "B" {
						loaded = d
						exp = append(exp, "'body-"+d+"'")
						break
					}
				}
			}
			if loaded == "" {
				exp = append(exp, fmt.Sprintf("('ImportError',%d)", i))
			} else {
				exp = append(exp, fmt.Sprintf("('ok',%d,'%s')", i, loaded))
			}
		case "appendA":
			fmt.Fprintf(&b, "sys.path.append(%q)\n", dirs["A"])
			path = append(path, "A")
		case "insertB":
			fmt.Fprintf(&b, "sys.path[0:0] = [%q]\n", dirs["B"])
			path = append([]string{"B"}, path...)
		case "pop":
			b.WriteString("del sys.path[-1:]\n")
			if len(path) > 0 {
				path = path[:len(path)-1]
			}
		}
	}
	src := b.String()
	fields := core.Fields{"part": "latepath", "history": strings.Join(seq, ",")}
	rc.Guard(fields, func() string { return src }, func() {
		out := harness.RunOpts(src, harness.Opts{SysPaths: []string{dirs["empty"]}, Filename: filepath.Join(dirs["main"], "main.py")})
		got := strings.Join(out.Log, ";")
		if out.ExcType != "" {
			got += " !" + out.ExcType
		}
		nt := ""
		if strings.Contains(strings.Join(exp, ";"), "body-") {
			nt = "latepath:" + fields["history"]
		}
		rc.Eval("latepath", nt)
		if rc.WantSample() && rc.Index()%97 == 0 {
			rc.Sample(map[string]interface{}{"program": src, "expected_log": exp})
		}
		if got != strings.Join(exp, ";") {
			rc.Deviate(core.Deviation{Fields: fields, Input: src, Expected: strings.Join(exp, ";"), Observed: got, Sig: "latepath:wrong-log"})
		}
	})
}

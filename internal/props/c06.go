package props

// C06: parsing yields exactly the tree the Python 3.4 grammar assigns.

import (
	"bufio"
	"bytes"
	goast "go/ast"
	goparser "go/parser"
	goprinter "go/printer"
	gotoken "go/token"
	"os"
	"os/exec"
	"path/filepath"
	"reflect"
	"runtime"
	"strconv"
	"strings"

	"github.com/go-python/gpython/ast"
	"github.com/go-python/gpython/parser"
	"github.com/go-python/gpython/py"
	"verif/internal/core"
)

type c06 struct {
	rc    *core.RunCtx
	quick bool
}

// C06_TRIAGE=<file> appends every deviation as a JSON line to <file> (development aid)
var c6triage = os.Getenv("C06_TRIAGE")

func c6sig(sig string, f core.Fields) string { return sig }

func c6log(d core.Deviation) core.Deviation {
	if c6triage != "" {
		if fh, err := os.OpenFile(c6triage, os.O_APPEND|os.O_CREATE|os.O_WRONLY, 0o644); err == nil {
			fh.WriteString(core.MustJSON(map[string]interface{}{"sig": d.Sig, "fields": d.Fields, "input": d.Input, "observed": short(d.Observed, 300), "expected": short(d.Expected, 300)}) + "\n")
			fh.Close()
		}
	}
	return d
}

// C06_EXPORT=<prefix> writes every checked text with its expectation to <prefix>.<pid>.jsonl
// (input of scripts/c06_crosscheck.py; development aid)
var c6exportW *bufio.Writer
var c6exportF *os.File
var c6exportN int

func c6export(kind string, mode py.CompileMode, text, dump string, f core.Fields, sem bool) {
	pfx := os.Getenv("C06_EXPORT")
	if pfx == "" {
		return
	}
	if n, _ := strconv.Atoi(os.Getenv("C06_EXPORT_EVERY")); n > 1 {
		c6exportN++
		if c6exportN%n != 0 {
			return
		}
	}
	if c6exportW == nil {
		fh, err := os.Create(pfx + "." + itoa(os.Getpid()) + ".jsonl")
		if err != nil {
			return
		}
		c6exportF, c6exportW = fh, bufio.NewWriterSize(fh, 1<<20)
	}
	c6exportW.WriteString(core.MustJSON(map[string]interface{}{"k": kind, "mode": string(mode), "text": text, "dump": dump, "sem": sem, "v34": f["v34"], "inj": f["inj"], "with": f["with"], "part": f["part"]}))
	c6exportW.WriteByte('\n')
}

func c6exportClose() {
	if c6exportW != nil {
		c6exportW.Flush()
		c6exportF.Close()
	}
}

func c6excName(err error) string {
	t, _, _, _ := excInfo(err)
	return t
}

func c6syntaxFamily(err error) bool {
	_, bases, _, _ := excInfo(err)
	for _, b := range bases {
		if b == "SyntaxError" {
			return true
		}
	}
	return false
}

func c6safeDump(t ast.Ast) (s string) {
	defer func() {
		if r := recover(); r != nil {
			s = "<ast.Dump panicked>"
		}
	}()
	return ast.Dump(t)
}

// c6dumpClass names the field at which two dumps first differ.
func c6dumpClass(exp, got string) string {
	i := 0
	for i < len(exp) && i < len(got) && exp[i] == got[i] {
		i++
	}
	j := strings.LastIndexByte(exp[:i], '=')
	if j < 0 {
		return "start"
	}
	k := j
	for k > 0 && (exp[k-1] == '_' || (exp[k-1] >= 'a' && exp[k-1] <= 'z')) {
		k--
	}
	// enclosing node name
	n := k
	for n > 0 && exp[n-1] != '(' {
		n--
	}
	m := n - 1
	for m > 0 && ((exp[m-1] >= 'a' && exp[m-1] <= 'z') || (exp[m-1] >= 'A' && exp[m-1] <= 'Z')) {
		m--
	}
	node := ""
	if n > 0 {
		node = exp[m : n-1]
	}
	return node + "." + exp[k:j]
}

// checkText parses one spelling and compares it with the generated tree.
func (c *c06) checkText(f core.Fields, tree ast.Ast, mode py.CompileMode, text, expDump string) {
	rc := c.rc
	c6export("accept", mode, text, expDump, f, false)
	rc.Guard(f, func() string { return text }, func() {
		got, err := parser.ParseString(text, mode)
		rc.Eval(f["part"]+":"+f["dev"], string(mode)+"\x00"+text)
		if rc.WantSample() && rc.Index()%1009 == 0 {
			rc.Sample(map[string]string{"text": text, "mode": string(mode), "expected_dump": expDump})
		}
		if err != nil {
			rc.Deviate(c6log(core.Deviation{Fields: f, Input: text, Expected: expDump, Observed: "raises " + c6excName(err),
				Sig: c6sig("parse:unexpected-"+c6excName(err), f)}))
			return
		}
		cls, detail := c6diff(tree, got)
		if cls != "" {
			rc.Deviate(c6log(core.Deviation{Fields: f, Input: text, Expected: expDump, Observed: c6safeDump(got) + "  [" + detail + "]",
				Sig: c6sig("tree:"+cls, f)}))
			return
		}
		d := ast.Dump(got)
		if d != expDump {
			rc.Deviate(c6log(core.Deviation{Fields: f, Input: text, Expected: expDump, Observed: d, Sig: c6sig("dump:"+c6dumpClass(expDump, d), f)}))
		}
	})
}

// checkReject: the text must be rejected with a SyntaxError-family error.
func (c *c06) checkReject(f core.Fields, mode py.CompileMode, text string, sem bool) {
	rc := c.rc
	c6export("reject", mode, text, "", f, sem)
	rc.Guard(f, func() string { return text }, func() {
		rc.Eval("reject:"+f["inj"], string(mode)+"\x00"+text)
		if rc.WantSample() && rc.Index()%499 == 0 {
			rc.Sample(map[string]string{"text": text, "mode": string(mode), "expected": "SyntaxError family", "injector": f["inj"]})
		}
		got, err := parser.ParseString(text, mode)
		stage := "parse"
		if err == nil && sem {
			_, err = py.Compile(text, "<c06>", mode, 0, true)
			stage = "compile"
		}
		if err == nil {
			rc.Deviate(c6log(core.Deviation{Fields: f, Input: text, Expected: "SyntaxError (text outside the 3.4 grammar: " + f["inj"] + ")",
				Observed: "accepted: " + c6safeDump(got), Sig: c6sig("reject:"+f["inj"]+":accepted", f)}))
			return
		}
		if !c6syntaxFamily(err) {
			rc.Deviate(c6log(core.Deviation{Fields: f, Input: text, Expected: "SyntaxError (text outside the 3.4 grammar: " + f["inj"] + ")",
				Observed: stage + " raises " + c6excName(err), Sig: c6sig("reject:"+f["inj"]+":wrong-error-"+c6excName(err), f)}))
		}
	})
}

func c6copyFields(f core.Fields, dev string) core.Fields {
	o := make(core.Fields, len(f)+1)
	for k, v := range f {
		o[k] = v
	}
	o["dev"] = dev
	return o
}

// ---- spelling deviations ----

type c6optDev struct {
	name string
	set  func(o *c6opts)
}

type c6layDev struct {
	name string
	key  string // conflict key: two layout deviations with the same key cannot be combined
	set  func(l *c6layout)
}

func c6cloneOpts(o c6opts) c6opts {
	n := c6opts{semi: o.semi, semiEnd: o.semiEnd, paren: map[int]bool{}, comma: map[int]bool{}, alt: map[int]bool{}}
	for k := range o.paren {
		n.paren[k] = true
	}
	for k := range o.comma {
		n.comma[k] = true
	}
	for k := range o.alt {
		n.alt[k] = true
	}
	return n
}

func c6optDevs(p0 *c6printer, stmts bool) []c6optDev {
	var out []c6optDev
	for i := 0; i < p0.nParen; i++ {
		i := i
		out = append(out, c6optDev{"paren", func(o *c6opts) { o.paren[i] = true }})
	}
	for i := 0; i < p0.nComma; i++ {
		i := i
		out = append(out, c6optDev{"comma", func(o *c6opts) { o.comma[i] = true }})
	}
	for i := 0; i < p0.nAlt; i++ {
		i := i
		out = append(out, c6optDev{"alt:" + p0.altKinds[i], func(o *c6opts) { o.alt[i] = true }})
	}
	if stmts {
		out = append(out, c6optDev{"semi-join", func(o *c6opts) { o.semi = true }})
		out = append(out, c6optDev{"semi-trailing", func(o *c6opts) { o.semiEnd = true }})
	}
	return out
}

func c6layDevs(toks []c6tok, mode py.CompileMode, full bool) []c6layDev {
	var out []c6layDev
	add := func(name, key string, set func(l *c6layout)) { out = append(out, c6layDev{name, key, set}) }
	add("no-spaces", "mode", func(l *c6layout) { l.gapMode = c6GapNone })
	if mode == py.SingleMode {
		// an interactive statement may be followed by a comment and by comment lines
		add("comment-eol", "c0", func(l *c6layout) { l.comment = map[int]int{0: 1} })
		simple := true
		for _, t := range toks {
			if t.cls == c6Ind {
				simple = false
			}
		}
		if simple {
			add("trailing-comment-line", "trail", func(l *c6layout) { l.trailing = 2 })
			add("trailing-blank-line", "trail", func(l *c6layout) { l.trailing = 1 })
		}
	}
	if !full {
		return out
	}
	add("wide-spaces", "mode", func(l *c6layout) { l.gapMode = c6GapWide })
	add("tab-spaces", "mode", func(l *c6layout) { l.gapMode = c6GapTab })
	add("formfeed-spaces", "mode", func(l *c6layout) { l.gapMode = c6GapFormFeed })
	setGap := func(idx, kind int) func(l *c6layout) {
		return func(l *c6layout) {
			if l.gaps == nil {
				l.gaps = map[int]int{}
			}
			l.gaps[idx] = kind
		}
	}
	for _, g := range c6gapsOf(toks) {
		k := "gap" + itoa(g.idx)
		add("gap-backslash", k, setGap(g.idx, c6gBackslash))
		add("gap-backslash-indented", k, setGap(g.idx, c6gBackslashIn))
		add("gap-3-spaces", k, setGap(g.idx, c6gSpaces))
		add("gap-tab", k, setGap(g.idx, c6gTab))
		if g.depth > 0 {
			add("bracket-newline", k, setGap(g.idx, c6gNewline))
			add("bracket-newline-1space", k, setGap(g.idx, c6gNewlineIn))
			add("bracket-newline-tab", k, setGap(g.idx, c6gNewlineTab))
			add("bracket-comment-newline", k, setGap(g.idx, c6gCommentNL))
			add("bracket-blank-line", k, setGap(g.idx, c6gBlankNL))
		}
	}
	nl := c6lines(toks)
	setM := func(m *map[int]int, k, v int) {
		if *m == nil {
			*m = map[int]int{}
		}
		(*m)[k] = v
	}
	for i := 0; i < nl; i++ {
		i := i
		add("comment-eol", "c"+itoa(i), func(l *c6layout) { setM(&l.comment, i, 1) })
		add("comment-eol-nospace", "c"+itoa(i), func(l *c6layout) { setM(&l.comment, i, 2) })
		if mode == py.ExecMode {
			for kind, nm := range map[int]string{1: "blank-line", 2: "spaces-only-line", 3: "comment-line-col0", 4: "comment-line-deep", 5: "tab-only-line"} {
				kind, nm := kind, nm
				_ = nm
				add("line-before:"+nm, "b"+itoa(i), func(l *c6layout) { setM(&l.before, i, kind) })
			}
		}
	}
	if mode != py.SingleMode {
		add("crlf", "crlf", func(l *c6layout) { l.crlf = true })
		add("no-final-newline", "eol", func(l *c6layout) { l.noEOL = true })
		add("trailing-blank-line", "trail", func(l *c6layout) { l.trailing = 1 })
	}
	if mode == py.ExecMode {
		add("trailing-comment-line", "trail", func(l *c6layout) { l.trailing = 2 })
		add("trailing-spaces-no-newline", "trail", func(l *c6layout) { l.trailing = 3 })
		add("trailing-comment-no-newline", "trail", func(l *c6layout) { l.trailing = 4 })
	}
	hasBlock := false
	for _, t := range toks {
		if t.cls == c6Ind {
			hasBlock = true
		}
	}
	if hasBlock {
		for _, u := range []struct {
			n string
			u []string
		}{{"1-space", []string{" "}}, {"2-spaces", []string{"  "}}, {"3-spaces", []string{"   "}}, {"8-spaces", []string{"        "}}, {"tab", []string{"\t"}},
			{"tab-then-2-spaces", []string{"\t", "  "}}, {"2-spaces-then-tab", []string{"  ", "\t"}}, {"4-then-2", []string{"    ", "  "}}, {"1-then-tab", []string{" ", "\t"}},
			{"8-then-1", []string{"        ", " "}}} {
			u := u
			add("indent:"+u.n, "indent", func(l *c6layout) { l.indent = u.u })
		}
	}
	return out
}

// spellings enumerates the spellings of tree for the given depth of variation:
// level 0: canonical, no-spaces and every opts-level single deviation;
// level 1: every single deviation; level 2: additionally every pair of deviations.
func (c *c06) spellings(tree ast.Ast, mode py.CompileMode, level int, emit func(dev, text string)) {
	_, stmts := tree.(*ast.Expression)
	stmts = !stmts
	p0 := c6print(tree, c6opts{})
	seen := map[string]bool{}
	out := func(dev, text string) {
		if mode == py.SingleMode {
			// a compound statement needs the terminating blank line in interactive mode
			for _, t := range p0.toks {
				if t.cls == c6Ind {
					text += "\n"
					break
				}
			}
		}
		if seen[text] {
			return
		}
		seen[text] = true
		emit(dev, text)
	}
	out("canonical", c6render(p0.toks, &c6layout{}))
	od := c6optDevs(p0, stmts)
	full := level >= 1
	ld0 := c6layDevs(p0.toks, mode, full)
	for _, d := range ld0 {
		l := &c6layout{}
		d.set(l)
		out(d.name, c6render(p0.toks, l))
	}
	for _, d := range od {
		o := c6cloneOpts(c6opts{})
		d.set(&o)
		p := c6print(tree, o)
		out(d.name, c6render(p.toks, &c6layout{}))
	}
	if level < 2 {
		return
	}
	// pairs: two layout deviations
	for i, d1 := range ld0 {
		for _, d2 := range ld0[i+1:] {
			if d1.key == d2.key {
				continue
			}
			l := &c6layout{}
			d1.set(l)
			d2.set(l)
			out(d1.name+"+"+d2.name, c6render(p0.toks, l))
		}
	}
	// pairs: one opts deviation with another opts deviation or a layout deviation
	for i, d1 := range od {
		o1 := c6cloneOpts(c6opts{})
		d1.set(&o1)
		p1 := c6print(tree, o1)
		for _, d2 := range c6layDevs(p1.toks, mode, true) {
			l := &c6layout{}
			d2.set(l)
			out(d1.name+"+"+d2.name, c6render(p1.toks, l))
		}
		for _, d2 := range od[i+1:] {
			o := c6cloneOpts(o1)
			d2.set(&o)
			p := c6print(tree, o)
			out(d1.name+"+"+d2.name, c6render(p.toks, &c6layout{}))
		}
	}
}

// tree checks one generated tree in all its spellings (one case = one tree).
func (c *c06) tree(part, kind string, tree ast.Ast, mode py.CompileMode, level int) {
	rc := c.rc
	if !rc.Take() {
		return
	}
	base := core.Fields{"part": part, "kind": kind, "mode": string(mode), "feat": c6features(tree)}
	expDump := c6dump(tree)
	c.spellings(tree, mode, level, func(dev, text string) {
		c.checkText(c6copyFields(base, dev), tree, mode, text, expDump)
	})
}

func c6mod(ss ...ast.Stmt) *ast.Module        { return &ast.Module{Body: ss} }
func c6expression(e ast.Expr) *ast.Expression { return &ast.Expression{Body: e} }

func c06Run(rc *core.RunCtx) {
	c := &c06{rc: rc, quick: rc.Quick()}
	defer c6exportClose()
	nrep := 0
	for _, f := range c6Frames() {
		if f.rep {
			nrep++
		}
	}
	rc.Note("alphabet", "atoms="+itoa(len(c6Atoms()))+" expr_frames="+itoa(len(c6Frames()))+" representative_frames="+itoa(nrep)+" stmt_shapes="+itoa(len(c6StmtShapes()))+
		" clauses="+itoa(len(c6Containers()))+" targets="+itoa(len(c6Targets()))+" def_param_shapes="+itoa(len(c6ArgShapes(true)))+
		" call_shapes="+itoa(len(c6CallShapes()))+" number_spellings="+itoa(len(c6NumSpellings(rc.Quick())))+" string_units="+itoa(len(c6strUnits(rc.Quick())))+
		" invalid_exprs="+itoa(len(c6BadExprs))+" invalid_stmts="+itoa(len(c6BadStmts))+" non_targets="+itoa(len(c6nonTargets)))
	c.runExpr()
	if rc.Expired() || rc.Done() {
		return
	}
	c.runStmt()
	if rc.Expired() || rc.Done() {
		return
	}
	c.runLit()
	if rc.Expired() || rc.Done() {
		return
	}
	c.runNames()
	if rc.Expired() || rc.Done() {
		return
	}
	c.runPrec()
	if rc.Expired() || rc.Done() {
		return
	}
	c.runReject()
	if rc.Expired() || rc.Done() {
		return
	}
	c.runDrift()
}

func (c *c06) stop() bool { return c.rc.Expired() || c.rc.Done() }

// ---- part: expressions ----

func (c *c06) runExpr() {
	rc := c.rc
	rc.Part = "expr"
	frames := c6Frames()
	atoms := c6Atoms()
	lvAll := 1
	if !c.quick {
		lvAll = 2
	}
	// depth 0
	for _, a := range atoms {
		if c.stop() {
			return
		}
		c.tree("expr", "atom:"+a.name, c6expression(a.mk()), py.EvalMode, lvAll)
		c.tree("expr", "atom:"+a.name, c6mod(c6es(a.mk())), py.ExecMode, 1)
		c.tree("expr", "atom:"+a.name, &ast.Interactive{Body: []ast.Stmt{c6es(a.mk())}}, py.SingleMode, 0)
	}
	// depth 1: every frame over distinct names; every atom kind in every slot
	n1 := 0
	for fi := range frames {
		f := &frames[fi]
		if c.stop() {
			return
		}
		e := f.fill(&c6supply{}, -1, nil)
		c.tree("expr", f.name, c6expression(e), py.EvalMode, lvAll)
		c.tree("expr", f.name, c6mod(c6es(f.fill(&c6supply{}, -1, nil))), py.ExecMode, 1)
		c.tree("expr", f.name, c6mod(&ast.Assign{Targets: []ast.Expr{c6s("t")}, Value: f.fill(&c6supply{}, -1, nil)}), py.ExecMode, 0)
		n1 += 3
		for s := 0; s < f.n; s++ {
			for _, a := range atoms[1:] {
				c.tree("expr", f.name+"/"+a.name, c6expression(f.fill(&c6supply{}, s, a.mk())), py.EvalMode, 1)
				n1++
			}
		}
	}
	rc.Note("expr_depth1_trees", itoa(n1))
	// depth 2: every frame x slot x every frame
	lv2 := 0
	if !c.quick {
		lv2 = 1
	}
	n2 := 0
	for fi := range frames {
		f := &frames[fi]
		for s := 0; s < f.n; s++ {
			for gi := range frames {
				g := &frames[gi]
				if c.stop() {
					return
				}
				if c.quick && !f.rep && !g.rep {
					continue
				}
				sup := &c6supply{}
				inner := g.fill(sup, -1, nil)
				c.tree("expr", f.name+"/"+g.name, c6expression(f.fill(sup, s, inner)), py.EvalMode, lv2)
				n2++
			}
		}
	}
	rc.Note("expr_depth2_trees", itoa(n2))
	if c.quick {
		return
	}
	// depth 2, two composite slots (representative frames)
	var reps []*c6frame
	for fi := range frames {
		if frames[fi].rep {
			reps = append(reps, &frames[fi])
		}
	}
	n3 := 0
	for _, f := range reps {
		if f.n < 2 {
			continue
		}
		for _, g1 := range reps {
			for _, g2 := range reps {
				if c.stop() {
					return
				}
				sup := &c6supply{}
				a := make([]ast.Expr, f.n)
				a[0] = g1.fill(sup, -1, nil)
				a[1] = g2.fill(sup, -1, nil)
				for i := 2; i < f.n; i++ {
					a[i] = sup.name()
				}
				c.tree("expr", f.name+"/"+g1.name+","+g2.name, c6expression(f.build(a)), py.EvalMode, 0)
				n3++
			}
		}
	}
	// depth 3 over the representative frames
	for fi := range frames {
		f := &frames[fi]
		for s := 0; s < f.n; s++ {
			for _, g := range reps {
				for s2 := 0; s2 < g.n; s2++ {
					for _, h := range reps {
						if c.stop() {
							return
						}
						sup := &c6supply{}
						in2 := h.fill(sup, -1, nil)
						in1 := g.fill(sup, s2, in2)
						c.tree("expr", f.name+"/"+g.name+"/"+h.name, c6expression(f.fill(sup, s, in1)), py.EvalMode, 0)
						n3++
					}
				}
			}
		}
	}
	rc.Note("expr_depth3_trees", itoa(n3))
}

// ---- part: statements ----

func (c *c06) runStmt() {
	rc := c.rc
	rc.Part = "stmt"
	shapes := c6StmtShapes()
	frames := c6Frames()
	conts := c6Containers()
	lvAll := 1
	if !c.quick {
		lvAll = 2
	}
	n := 0
	for si := range shapes {
		s := &shapes[si]
		if c.stop() {
			return
		}
		c.tree("stmt", s.name, c6mod(s.fill(&c6supply{}, -1, nil)), py.ExecMode, lvAll)
		c.tree("stmt", s.name, &ast.Interactive{Body: []ast.Stmt{s.fill(&c6supply{}, -1, nil)}}, py.SingleMode, 0)
		n += 2
	}
	// every expression kind in every expression slot of every statement shape
	lvE := 0
	if !c.quick {
		lvE = 1
	}
	for si := range shapes {
		s := &shapes[si]
		for at := 0; at < s.n; at++ {
			for fi := range frames {
				f := &frames[fi]
				if c.stop() {
					return
				}
				if c.quick && !f.rep {
					continue
				}
				sup := &c6supply{}
				in := f.fill(sup, -1, nil)
				c.tree("stmt", s.name+"/"+f.name, c6mod(s.fill(sup, at, in)), py.ExecMode, lvE)
				n++
			}
		}
	}
	// one-level nesting: every statement kind inside every compound clause
	for _, ct := range conts {
		for si := range shapes {
			s := &shapes[si]
			if c.stop() {
				return
			}
			if !s.min && c.quick {
				continue
			}
			c.tree("stmt", ct.name+"{"+s.name+"}", c6mod(ct.mk([]ast.Stmt{s.fill(&c6supply{}, -1, nil)})), py.ExecMode, 1)
			// two statements in the body and one after the block
			c.tree("stmt", ct.name+"{"+s.name+";x}y", c6mod(ct.mk([]ast.Stmt{s.fill(&c6supply{}, -1, nil), c6es(c6n("x"))}), c6es(c6n("y"))), py.ExecMode, lvAll)
			n += 2
		}
	}
	// two-level nesting: clause inside clause
	for _, c1 := range conts {
		for _, c2 := range conts {
			if c.stop() {
				return
			}
			c.tree("stmt", c1.name+"{"+c2.name+"{}}", c6mod(c1.mk([]ast.Stmt{c2.mk(c6pass())})), py.ExecMode, 1)
			c.tree("stmt", c1.name+"{"+c2.name+"{};x}y", c6mod(c1.mk([]ast.Stmt{c2.mk(c6pass()), c6es(c6n("x"))}), c6es(c6n("y"))), py.ExecMode, 1)
			c.tree("stmt", c1.name+"{x;"+c2.name+"{y;z}}", c6mod(c1.mk([]ast.Stmt{c6es(c6n("x")), c2.mk([]ast.Stmt{c6es(c6n("y")), c6es(c6n("z"))})})), py.ExecMode, 1)
			n += 3
			if c.quick {
				continue
			}
			for _, c3 := range conts {
				c.tree("stmt", c1.name+"{"+c2.name+"{"+c3.name+"{}}}", c6mod(c1.mk([]ast.Stmt{c2.mk([]ast.Stmt{c3.mk(c6pass())}), &ast.Break{}}), &ast.Continue{}), py.ExecMode, 1)
				n++
			}
		}
	}
	// sequences of two statements (minimal variants)
	for i := range shapes {
		for j := range shapes {
			if c.stop() {
				return
			}
			if !shapes[i].min || !shapes[j].min {
				continue
			}
			c.tree("stmt", shapes[i].name+";"+shapes[j].name, c6mod(shapes[i].fill(&c6supply{}, -1, nil), shapes[j].fill(&c6supply{next: 5}, -1, nil)), py.ExecMode, 1)
			n++
		}
	}
	rc.Note("stmt_trees", itoa(n))
}

// ---- part: literals ----

func (c *c06) runLit() {
	rc := c.rc
	rc.Part = "lit"
	// a literal spelling in a host context; the expected tree holds the decoded value
	type host struct {
		name string
		text func(l string) string
		mode py.CompileMode
		tree func(v func() ast.Expr) ast.Ast
	}
	hosts := []host{
		{"alone", func(l string) string { return l }, py.EvalMode, func(v func() ast.Expr) ast.Ast { return c6expression(v()) }},
		{"alone-nl", func(l string) string { return l + "\n" }, py.EvalMode, func(v func() ast.Expr) ast.Ast { return c6expression(v()) }},
		{"assign", func(l string) string { return "x = " + l + "\n" }, py.ExecMode, func(v func() ast.Expr) ast.Ast {
			return c6mod(&ast.Assign{Targets: []ast.Expr{c6s("x")}, Value: v()})
		}},
		{"call-tight", func(l string) string { return "f(" + l + "," + l + ")" }, py.EvalMode, func(v func() ast.Expr) ast.Ast {
			return c6expression(&ast.Call{Func: c6n("f"), Args: []ast.Expr{v(), v()}})
		}},
		{"binop-tight", func(l string) string { return l + "+" + l }, py.EvalMode, func(v func() ast.Expr) ast.Ast {
			return c6expression(&ast.BinOp{Left: v(), Op: ast.Add, Right: v()})
		}},
		{"neg", func(l string) string { return "-" + l }, py.EvalMode, func(v func() ast.Expr) ast.Ast {
			return c6expression(&ast.UnaryOp{Op: ast.USub, Operand: v()})
		}},
		{"subscript-slice", func(l string) string { return "a[" + l + ":" + l + "]" }, py.EvalMode, func(v func() ast.Expr) ast.Ast {
			return c6expression(c6sub(c6n("a"), &ast.Slice{Lower: v(), Upper: v()}, ast.Load))
		}},
		{"dict", func(l string) string { return "{" + l + ":" + l + "}" }, py.EvalMode, func(v func() ast.Expr) ast.Ast {
			return c6expression(&ast.Dict{Keys: []ast.Expr{v()}, Values: []ast.Expr{v()}})
		}},
		{"ifexp", func(l string) string { return l + " if " + l + " else " + l }, py.EvalMode, func(v func() ast.Expr) ast.Ast {
			return c6expression(&ast.IfExp{Body: v(), Test: v(), Orelse: v()})
		}},
		{"comment-after", func(l string) string { return "x = " + l + "#" + l + "\n" }, py.ExecMode, func(v func() ast.Expr) ast.Ast {
			return c6mod(&ast.Assign{Targets: []ast.Expr{c6s("x")}, Value: v()})
		}},
	}
	one := func(kind, cls, lit string, h host, mk func() ast.Expr) {
		if !rc.Take() {
			return
		}
		tree := h.tree(mk)
		f := core.Fields{"part": "lit", "kind": kind, "class": cls, "lit": short(lit, 60), "host": h.name, "mode": string(h.mode), "dev": "literal", "feat": c6features(tree)}
		c.checkText(f, tree, h.mode, h.text(lit), c6dump(tree))
	}
	// numbers
	for _, sp := range c6NumSpellings(c.quick) {
		if c.stop() {
			return
		}
		sp := sp
		cls := "int"
		low := strings.ToLower(sp)
		switch {
		case strings.HasSuffix(low, "j"):
			cls = "imag"
		case strings.HasPrefix(low, "0x"):
			cls = "hex"
		case strings.HasPrefix(low, "0o"):
			cls = "oct"
		case strings.HasPrefix(low, "0b"):
			cls = "bin"
		case strings.ContainsAny(low, ".e"):
			cls = "float"
		}
		for _, h := range hosts {
			if h.name == "comment-after" && strings.Contains(sp, "\n") {
				continue
			}
			one("num", cls, sp, h, func() ast.Expr { return &ast.Num{N: c6numLit(sp)} })
		}
	}
	// single string literals: prefix x quote x bodies of 1..2 units (thorough: 3 over a reduced alphabet)
	units := c6strUnits(c.quick)
	var bodies []string
	bodies = append(bodies, "")
	for _, u := range units {
		bodies = append(bodies, u)
	}
	for _, u := range units {
		for _, v := range units {
			bodies = append(bodies, u+v)
		}
	}
	if !c.quick {
		small := c6strUnits(true)
		for _, u := range small {
			for _, v := range small {
				for _, w := range small {
					bodies = append(bodies, u+v+w)
				}
			}
		}
	}
	nstr := 0
	for _, pf := range c6strPrefixes {
		for _, q := range c6strQuotes {
			for bi, body := range bodies {
				if c.stop() {
					return
				}
				if !c6strLegal(pf, q, body) {
					continue
				}
				lit := pf + q + body + q
				node := func() ast.Expr { e, _ := c6strNode([]string{lit}); return e }
				hs := hosts[:3]
				if bi%7 == 0 {
					hs = hosts
				}
				for _, h := range hs {
					if strings.Contains(body, "\n") && (h.name == "comment-after") {
						continue
					}
					one("str", c6litClass(lit), lit, h, node)
					nstr++
				}
			}
		}
	}
	rc.Note("string_literal_cases", itoa(nstr))
	// implicit concatenation of adjacent literals
	parts := []string{"'a'", "\"b\"", "'''c'''", "\"\"\"d\"\"\"", "r'\\n'", "R\"\\t\"", "u'e'", "U'f'", "'\\n'", "'\\x41'", "''", "'é'", "'\\u00e9'",
		"b'a'", "B\"b\"", "rb'\\n'", "bR'\\x'", "Rb'''c'''", "b''", "b'\\xff'", "b'\\377'", "'''x\ny'''", "'q\\\nr'"}
	if c.quick {
		parts = []string{"'a'", "\"b\"", "'''c'''", "r'\\n'", "u'e'", "'\\x41'", "''", "b'a'", "B\"b\"", "rb'\\n'", "b'\\xff'", "'''x\ny'''"}
	}
	seps := []struct{ name, s string }{{"space", " "}, {"none", ""}, {"tab", "\t"}, {"backslash-nl", " \\\n"}}
	concat := func(toks []string) {
		node, ok := c6strNode(toks)
		if !ok {
			return // str/bytes mixes belong to the rejection part
		}
		for _, sp := range seps {
			if !rc.Take() {
				continue
			}
			if sp.s == "" && c6mergesQuotes(toks) {
				continue // '' immediately followed by ' would lex as a triple quote
			}
			lit := strings.Join(toks, sp.s)
			tree := c6mod(&ast.Assign{Targets: []ast.Expr{c6s("x")}, Value: node})
			f := core.Fields{"part": "lit", "kind": "concat", "class": "sep-" + sp.name, "lit": short(lit, 60), "host": "assign", "mode": "exec", "dev": "literal"}
			c.checkText(f, tree, py.ExecMode, "x = "+lit+"\n", c6dump(tree))
		}
		if rc.Take() {
			lit := strings.Join(toks, "\n  ")
			tree := c6mod(&ast.Assign{Targets: []ast.Expr{c6s("x")}, Value: node})
			f := core.Fields{"part": "lit", "kind": "concat", "class": "sep-bracket-newline", "lit": short(lit, 60), "host": "assign-parens", "mode": "exec", "dev": "literal"}
			c.checkText(f, tree, py.ExecMode, "x = ("+lit+")\n", c6dump(tree))
		}
		if rc.Take() {
			lit := strings.Join(toks, " ")
			tree := c6expression(&ast.Call{Func: c6n("f"), Args: []ast.Expr{node, c6n("y")}})
			f := core.Fields{"part": "lit", "kind": "concat", "class": "call-arg", "lit": short(lit, 60), "host": "call", "mode": "eval", "dev": "literal"}
			c.checkText(f, tree, py.EvalMode, "f("+lit+", y)", c6dump(tree))
		}
	}
	for _, a := range parts {
		for _, b := range parts {
			if c.stop() {
				return
			}
			concat([]string{a, b})
			if c.quick {
				continue
			}
			for _, d := range parts[:8] {
				concat([]string{a, b, d})
			}
		}
	}
}

// ---- part: operator precedence on flat sequences ----

// c6mergesQuotes: would writing the literals without any separator change the token
// boundaries (an empty single-quoted literal followed by the same quote character)?
func c6mergesQuotes(toks []string) bool {
	for i := 0; i+1 < len(toks); i++ {
		a, b := toks[i], toks[i+1]
		body := strings.TrimLeft(a, "rRbBuU")
		if (body == "''" || body == `""`) && b[0] == body[0] {
			return true
		}
	}
	return false
}

func c6joinFlat(toks []string, tight bool) string {
	var b strings.Builder
	for i, t := range toks {
		if i > 0 {
			p := toks[i-1]
			pw, tw := c6isWordByte(p[len(p)-1]), c6isWordByte(t[0])
			if !tight || (pw && tw) || (!pw && !tw) {
				b.WriteByte(' ')
			}
		}
		b.WriteString(t)
	}
	return b.String()
}

func (c *c06) runPrec() {
	rc := c.rc
	rc.Part = "prec"
	n := 0
	c6PrecSequences(c.quick, func(kind string, toks []string) {
		if c.stop() {
			return
		}
		n++
		if !rc.Take() {
			return
		}
		exp := c6refParse(toks)
		ops := strings.Join(toks, " ")
		for _, tight := range []bool{false, true} {
			text := c6joinFlat(toks, tight)
			sp := "spaced"
			if tight {
				sp = "tight"
			}
			if exp == nil {
				f := core.Fields{"part": "prec", "kind": kind, "seq": short(ops, 70), "inj": "flat-sequence-outside-grammar", "dev": sp}
				c.checkReject(f, py.EvalMode, text, false)
				continue
			}
			tree := c6expression(exp)
			f := core.Fields{"part": "prec", "kind": kind, "seq": short(ops, 70), "mode": "eval", "dev": sp, "feat": ""}
			c.checkText(f, tree, py.EvalMode, text, c6dump(tree))
			if kind == "pair" || kind == "fixed" {
				// the same sequence as a statement and as an assigned value
				t2 := c6mod(&ast.Assign{Targets: []ast.Expr{c6s("x")}, Value: exp})
				f2 := core.Fields{"part": "prec", "kind": kind, "seq": short(ops, 70), "mode": "exec", "dev": sp + "-assign", "feat": ""}
				c.checkText(f2, t2, py.ExecMode, "x = "+text+"\n", c6dump(t2))
			}
		}
	})
	rc.Note("prec_sequences", itoa(n))
}

// ---- part: rejection ----

func (c *c06) rejectProgram(kind string, tree *ast.Module, withFrags bool) {
	rc := c.rc
	if !rc.Take() {
		return
	}
	p := c6print(tree, c6opts{})
	prog := short(c6render(p.toks, &c6layout{}), 50)
	c6TokenInjections(p.toks, func(in c6injection) {
		f := core.Fields{"part": "reject", "kind": kind, "inj": in.inj, "with": short(in.with, 60), "prog": prog, "mode": "exec", "v34": c6b(in.v34)}
		c.checkReject(f, py.ExecMode, in.text, in.sem)
	})
	var frags []c6frag
	if withFrags {
		frags = c6BadStmts
	}
	c6LineInjections(c6linesOf(p.toks), frags, func(in c6injection) {
		f := core.Fields{"part": "reject", "kind": kind, "inj": in.inj, "with": short(in.with, 60), "prog": prog, "mode": "exec", "v34": c6b(in.v34)}
		c.checkReject(f, py.ExecMode, in.text, in.sem)
	})
}

func c6b(b bool) string {
	if b {
		return "1"
	}
	return ""
}

func (c *c06) runReject() {
	rc := c.rc
	rc.Part = "reject"
	shapes := c6StmtShapes()
	frames := c6Frames()
	conts := c6Containers()
	// every fragment on its own, in every mode it is invalid in
	for _, f := range c6BadStmts {
		if c.stop() {
			return
		}
		if !rc.Take() {
			continue
		}
		fl := core.Fields{"part": "reject", "kind": "fragment", "inj": "bad-stmt-alone", "with": short(f.text, 60), "prog": "", "mode": "exec", "v34": c6b(f.only34)}
		c.checkReject(fl, py.ExecMode, f.text+"\n", f.sem)
		fl2 := core.Fields{"part": "reject", "kind": "fragment", "inj": "bad-stmt-alone-no-newline", "with": short(f.text, 60), "prog": "", "mode": "exec", "v34": c6b(f.only34)}
		c.checkReject(fl2, py.ExecMode, f.text, f.sem)
		fl3 := core.Fields{"part": "reject", "kind": "fragment", "inj": "bad-stmt-alone", "with": short(f.text, 60), "prog": "", "mode": "single", "v34": c6b(f.only34)}
		c.checkReject(fl3, py.SingleMode, f.text+"\n", f.sem)
	}
	for _, f := range c6BadExprs {
		if c.stop() {
			return
		}
		if !rc.Take() {
			continue
		}
		for _, m := range []py.CompileMode{py.EvalMode, py.ExecMode, py.SingleMode} {
			fl := core.Fields{"part": "reject", "kind": "fragment", "inj": "bad-expr-alone", "with": short(f.text, 60), "prog": "", "mode": string(m), "v34": c6b(f.only34)}
			c.checkReject(fl, m, f.text+"\n", f.sem)
		}
	}
	// statements are no expressions
	for si := range shapes {
		s := &shapes[si]
		if c.stop() {
			return
		}
		if strings.HasPrefix(s.name, "Expr") {
			continue
		}
		if !rc.Take() {
			continue
		}
		p := c6print(c6mod(s.fill(&c6supply{}, -1, nil)), c6opts{})
		text := c6render(p.toks, &c6layout{})
		fl := core.Fields{"part": "reject", "kind": s.name, "inj": "statement-in-eval-mode", "with": "", "prog": short(text, 50), "mode": "eval"}
		c.checkReject(fl, py.EvalMode, text, false)
	}
	// interactive mode takes exactly one statement: a second logical line is an error
	// ("multiple statements found while compiling a single statement")
	for i := range shapes {
		for j := range shapes {
			if c.stop() {
				return
			}
			if !shapes[i].min || !shapes[j].min {
				continue
			}
			if !rc.Take() {
				continue
			}
			p1 := c6print(c6mod(shapes[i].fill(&c6supply{}, -1, nil)), c6opts{})
			p2 := c6print(c6mod(shapes[j].fill(&c6supply{}, -1, nil)), c6opts{})
			t1 := c6render(p1.toks, &c6layout{})
			for _, t := range p1.toks {
				if t.cls == c6Ind {
					t1 += "\n" // the blank line that ends an interactive compound statement
					break
				}
			}
			text := t1 + c6render(p2.toks, &c6layout{})
			fl := core.Fields{"part": "reject", "kind": shapes[i].name + ";" + shapes[j].name, "inj": "second-statement-in-single-mode", "with": "", "prog": short(text, 50), "mode": "single"}
			c.checkReject(fl, py.SingleMode, text, false)
		}
	}
	// every injector at every position of every program of the corpus
	for si := range shapes {
		s := &shapes[si]
		if c.stop() {
			return
		}
		c.rejectProgram(s.name, c6mod(s.fill(&c6supply{}, -1, nil)), !c.quick && s.min)
	}
	for fi := range frames {
		f := &frames[fi]
		if c.stop() {
			return
		}
		if c.quick && !f.rep {
			continue
		}
		c.rejectProgram(f.name, c6mod(&ast.Assign{Targets: []ast.Expr{c6s("t")}, Value: f.fill(&c6supply{}, -1, nil)}), false)
	}
	for _, a := range c6Atoms() {
		c.rejectProgram("atom:"+a.name, c6mod(&ast.Assign{Targets: []ast.Expr{c6s("t")}, Value: a.mk()}), false)
	}
	for ci, c1 := range conts {
		for si := range shapes {
			s := &shapes[si]
			if c.stop() {
				return
			}
			if !s.min {
				continue
			}
			frag := ci == 0 || !c.quick
			c.rejectProgram(c1.name+"{"+s.name+";x}y", c6mod(c1.mk([]ast.Stmt{s.fill(&c6supply{}, -1, nil), c6es(c6n("x"))}), c6es(c6n("y"))), frag && si%4 == 0)
		}
		for _, c2 := range conts {
			if c.stop() {
				return
			}
			c.rejectProgram(c1.name+"{x;"+c2.name+"{y;z}}w", c6mod(c1.mk([]ast.Stmt{c6es(c6n("x")), c2.mk([]ast.Stmt{c6es(c6n("y")), c6es(c6n("z"))})}), c6es(c6n("w"))), !c.quick)
		}
	}
}

// ---- part: parser/y.go is what goyacc generates from parser/grammar.y ----

func c6normGo(path string) (string, error) {
	fset := gotoken.NewFileSet()
	f, err := goparser.ParseFile(fset, path, nil, 0)
	if err != nil {
		return "", err
	}
	unwrap := func(e goast.Expr) goast.Expr {
		for {
			if ce, ok := e.(*goast.CallExpr); ok && len(ce.Args) == 1 {
				if id, ok := ce.Fun.(*goast.Ident); ok && id.Name == "int" {
					e = ce.Args[0]
					continue
				}
			}
			return e
		}
	}
	goast.Inspect(f, func(n goast.Node) bool {
		switch x := n.(type) {
		case *goast.ArrayType:
			// newer goyacc versions pack the tables into int8/int16/int32 arrays
			if id, ok := x.Elt.(*goast.Ident); ok && (id.Name == "int8" || id.Name == "int16" || id.Name == "int32") {
				id.Name = "int"
			}
		case *goast.BinaryExpr:
			x.X, x.Y = unwrap(x.X), unwrap(x.Y)
		case *goast.IndexExpr:
			x.Index = unwrap(x.Index)
		case *goast.AssignStmt:
			for i := range x.Rhs {
				x.Rhs[i] = unwrap(x.Rhs[i])
			}
		case *goast.UnaryExpr:
			x.X = unwrap(x.X)
		}
		return true
	})
	var b bytes.Buffer
	if err := (&goprinter.Config{Mode: goprinter.RawFormat}).Fprint(&b, gotoken.NewFileSet(), f); err != nil {
		return "", err
	}
	return b.String(), nil
}

func (c *c06) runDrift() {
	rc := c.rc
	rc.Part = "drift"
	if !rc.Take() {
		return
	}
	f := core.Fields{"part": "drift", "kind": "y.go-vs-goyacc(grammar.y)", "dev": "regenerate"}
	rc.Guard(f, func() string { return "goyacc -v y.output grammar.y" }, func() {
		file, _ := runtime.FuncForPC(reflect.ValueOf(parser.ParseString).Pointer()).FileLine(reflect.ValueOf(parser.ParseString).Pointer())
		dir := filepath.Dir(file)
		if _, err := os.Stat(filepath.Join(dir, "grammar.y")); err != nil {
			rc.Note("drift", "skipped: parser source directory not found ("+dir+")")
			return
		}
		tmp, err := os.MkdirTemp("", "c06yacc")
		if err != nil {
			rc.Note("drift", "skipped: "+err.Error())
			return
		}
		defer os.RemoveAll(tmp)
		os.WriteFile(filepath.Join(tmp, "go.mod"), []byte("module c06scratch\n\ngo 1.18\n\nrequire golang.org/x/tools v0.29.0\n"), 0o644)
		env := append(os.Environ(), "GOFLAGS=-mod=mod", "GOPROXY=off", "GOSUMDB=off", "GOTOOLCHAIN=local")
		build := exec.Command("go", "build", "-o", filepath.Join(tmp, "goyacc"), "golang.org/x/tools/cmd/goyacc")
		build.Dir, build.Env = tmp, env
		if out, err := build.CombinedOutput(); err != nil {
			rc.Note("drift", "skipped: goyacc cannot be built offline: "+short(string(out), 200))
			return
		}
		work := filepath.Join(tmp, "w")
		os.Mkdir(work, 0o755)
		src, _ := os.ReadFile(filepath.Join(dir, "grammar.y"))
		os.WriteFile(filepath.Join(work, "grammar.y"), src, 0o644)
		gen := exec.Command(filepath.Join(tmp, "goyacc"), "-v", "y.output", "grammar.y")
		gen.Dir = work
		rc.Eval("drift:regenerate", "y.go")
		if out, err := gen.CombinedOutput(); err != nil {
			rc.Deviate(c6log(core.Deviation{Fields: f, Input: "goyacc grammar.y", Expected: "goyacc accepts grammar.y", Observed: short(string(out), 300), Sig: "drift:goyacc-fails"}))
			return
		}
		a, err1 := c6normGo(filepath.Join(work, "y.go"))
		b, err2 := c6normGo(filepath.Join(dir, "y.go"))
		if err1 != nil || err2 != nil {
			rc.Deviate(c6log(core.Deviation{Fields: f, Input: "y.go", Expected: "both files parse as Go", Observed: "parse error", Sig: "drift:unparsable"}))
			return
		}
		rc.Note("drift", "compared: goyacc(grammar.y) vs y.go, comments and table element types normalised")
		if a != b {
			la, lb := strings.Split(a, "\n"), strings.Split(b, "\n")
			i := 0
			for i < len(la) && i < len(lb) && la[i] == lb[i] {
				i++
			}
			ea, eb := "", ""
			if i < len(la) {
				ea = short(la[i], 200)
			}
			if i < len(lb) {
				eb = short(lb[i], 200)
			}
			rc.Deviate(c6log(core.Deviation{Fields: f, Input: "parser/y.go vs goyacc(parser/grammar.y)", Expected: "generated: " + ea, Observed: "committed y.go: " + eb, Sig: "drift:y.go-differs-from-generated"}))
		}
	})
}

func init() {
	core.Register(&core.Check{
		ID:    "C06",
		Level: "model_checking",
		Rule: "ASTs are built directly as ast.* values: 16 atoms and 123 expression frames (every expression kind of the 3.4 abstract grammar: all 12 binary, 4 unary and 10 comparison operators plus comparison chains, and/or with 2-3 values, lambda with 21 parameter-list shapes, conditional, dict/set/list/tuple displays, the 4 comprehension kinds with 1-2 generators, 0-2 conditions and 5 target shapes, yield / yield from, calls with 14 argument-list shapes plus bare generator arguments, attribute, subscripts with index / all 8 slice shapes / 6 extended slices) nested to depth 2 (quick: at least one side from the 38 representative frames) and to depth 3 over the representative frames (thorough), distinct operand names in every slot; 188 statement shapes covering all 21 statement kinds (27 def parameter-list shapes incl. annotations, decorators, 14 class headers, 16 target shapes for assign / for / with / del, all 12 augmented operators, if / elif / else chains, try with every clause combination, import forms with levels 0-5), every expression frame in every expression slot of every statement shape, every statement shape inside each of 14 compound clauses, clauses nested 2 (thorough 3) deep, all pairs of minimal statements; modes exec, eval and single. " +
			"Each tree is printed by an own precedence-aware printer in its canonical spelling and in every single spelling deviation (thorough: also every pair of deviations for depth<=1 expressions and all statement shapes): one redundant pair of parentheses at each expression site, each optional trailing comma, alternative spellings (inline suite, else + nested if for elif, class C(), parenthesised import list, keywords after *args, a[b:c:]), ';'-joined statements, trailing ';', no optional spaces, two spaces / tab / form feed in every gap, and at every single token gap: backslash continuation (continuation line at column 0 or indented), 3 spaces, tab, and inside brackets newline (next line at column 0, 1 space, tab), comment + newline, blank line; at every line: trailing comment, blank / spaces-only / tab-only / comment-only line before it; indentation units of 1, 2, 3, 4, 8 spaces, tab and 5 mixed per-depth units; CRLF; missing final newline; trailing blank / comment lines. " +
			"Literals: 223 (thorough 362) number spellings (dec / hex / oct / bin with both prefix cases, digit cases and leading zeros, ~70 float and 17 imaginary forms incl. rounding half-way cases, denormals and overflow) and string literals for 15 prefixes x 4 quote styles x all bodies of up to 2 units (thorough: 3 over the quick set) from a 36 (thorough 61) unit alphabet (every escape, octal escapes of 1-3 digits incl. > 0o377, \\x, \\u, \\U, unknown escapes, backslash-newline, raw newline, both quote characters, non-ASCII) in 3-10 host contexts, plus implicit concatenation of 2 (thorough 3) adjacent literals with 6 separators; expected values from own decoders (math/big, strconv, own escape decoder). " +
			"Precedence: all flat sequences a OP b OP c (thorough: 4 operands) over 24 binary / comparison / boolean operators with at most one prefix operator (not - + ~) at any operand, conditional expressions with an operator in each position, lambda mixes; expected tree (or rejection) from an own recursive-descent parser of the 3.4 expression grammar; spaced and tight spelling. " +
			"Oracle: structural equality of parser.ParseString(text, mode) with the generated tree (own reflection walker, positions ignored, literal payloads by value) and equality of ast.Dump with an own dumper in CPython 3.4 ast.dump format. " +
			"Rejection: 15 token-level injectors (bracket removed / inserted, stray character, backslash not at line end, header colon removed / doubled, for-in removed, binary-only operator or 'not' after an operator, 13 keywords for a bound / attribute / keyword-argument name, 36 non-target expressions for a bound name, unterminated strings, 22 malformed numbers, 149 invalid expressions for a read name) and 7 line-level injectors (dedent to an unknown column, unexpected indent, missing indent, tab/space mixes whose meaning depends on the tab size, orphan else/elif/except/finally, 305 invalid statements before every line and at the end of the program) at every applicable position of the statement corpus, every statement in eval mode, a second statement in single mode; the result must be a SyntaxError-family error of parser.ParseString (or of py.Compile for rules that CPython enforces after its grammar). " +
			"Also: parser/y.go equals goyacc(parser/grammar.y) up to comments and table element types. Every case is non-trivial; distinct by (mode, text).",
		Run: c06Run,
		Assumptions: []string{
			"the printer, the reference expression parser, the literal decoders and the validity of every injector were cross-checked against CPython 3.11 (scripts/c06_crosscheck.py) where 3.4 and 3.11 agree; fragments that only 3.4 rejects are listed separately and rest on the 3.4 grammar text",
			"no general recogniser for 'outside the grammar' exists: rejection is exhaustive over the injector alphabet only",
			"\\N{...} escapes, lone surrogates, non-UTF-8 source and source encodings other than UTF-8 are outside the alphabet; col_offset/lineno are not compared",
		},
		Explanation: "bounded-exhaustive enumeration of abstract syntax trees with an independent printer (tree -> every legal spelling) and independent decoders; parsing each spelling must give the generated tree back",
	})
}

package props

import (
	"fmt"
	"os"
	"path/filepath"
	"strings"

	"verif/internal/core"
	"verif/internal/harness"
)

// C19 part "dotted": a source module that lives in a directory and is imported under a dotted
// name (`from pkg.mod import ...`, the only dotted form gpython supports) by several importers
// in one context: its body runs once and every importer shares its objects.
func c19Dotted(rc *core.RunCtx) {
	rc.Part = "dotted"
	root := os.Getenv("VERIF_WORKDIR")
	if root == "" {
		root, _ = os.MkdirTemp("", "c19d-")
	}
	n := 0
	for importers := 1; importers <= 3; importers++ {
		for _, form := range []string{"names", "star", "mixed"} {
			for _, again := range []bool{false, true} { // main imports it a second time at the end
				for _, viaFirst := range []string{"main", "helper"} { // who imports it first
					if rc.Expired() || rc.Done() {
						return
					}
					if !rc.Take() {
						continue
					}
					n++
					dir := filepath.Join(root, fmt.Sprintf("c19d%d_%d", os.Getpid(), n))
					pkg := filepath.Join(dir, "c19pkg")
					os.MkdirAll(pkg, 0o755)
					os.WriteFile(filepath.Join(pkg, "state.py"), []byte("import vh\nvh.log('state-body')\ncounter = [0]\n_private = 5\ndef bump():\n    counter[0] = counter[0] + 1\n    return counter[0]\n"), 0o644)
					imp := func(who string, i int) string {
						f := form
						if f == "mixed" {
							f = []string{"names", "star"}[i%2]
						}
						s := "import vh\n"
						if f == "names" {
							s += "from c19pkg.state import counter, bump\n"
						} else {
							s += "from c19pkg.state import *\n"
						}
						s += fmt.Sprintf("vh.log(('%s', bump(), counter[0]))\n", who)
						if f == "star" {
							s += "try:\n    _private\n    vh.log(('" + who + "', 'private-leaked'))\nexcept NameError:\n    pass\n"
						}
						return s
					}
					var exp []string
					main := ""
					helpers := ""
					for i := 1; i < importers; i++ {
						os.WriteFile(filepath.Join(dir, fmt.Sprintf("c19h%d.py", i)), []byte(imp(fmt.Sprintf("h%d", i), i)), 0o644)
						helpers += fmt.Sprintf("import c19h%d\n", i)
					}
					if viaFirst == "main" {
						main = imp("main", 0) + helpers
					} else {
						main = helpers + imp("main", 0)
					}
					if again {
						main += "from c19pkg.state import counter as c2\nvh.log(('again', c2[0], c2 is counter))\n"
					}
					// model: the body runs once, at the first import; the counter is shared
					exp = append(exp, "'state-body'")
					cnt := 0
					order := []string{}
					if viaFirst == "main" {
						order = append(order, "main")
					}
					for i := 1; i < importers; i++ {
						order = append(order, fmt.Sprintf("h%d", i))
					}
					if viaFirst != "main" {
						order = append(order, "main")
					}
					if importers == 1 {
						order = []string{"main"}
					}
					for _, who := range order {
						cnt++
						exp = append(exp, fmt.Sprintf("('%s',%d,%d)", who, cnt, cnt))
					}
					if again {
						exp = append(exp, fmt.Sprintf("('again',%d,True)", cnt))
					}
					fields := core.Fields{"part": "dotted", "importers": itoa(importers), "form": form, "first": viaFirst, "again": fmt.Sprint(again)}
					src := main
					rc.Guard(fields, func() string { return src }, func() {
						out := harness.RunOpts(src, harness.Opts{SysPaths: []string{dir}, Filename: filepath.Join(dir, "main.py")})
						got := strings.Join(out.Log, ";")
						if out.ExcType != "" {
							got += " !" + out.ExcType
						}
						rc.Eval("dotted", "dotted:"+fields.String())
						if got != strings.Join(exp, ";") {
							rc.Deviate(core.Deviation{Fields: fields, Input: src, Expected: strings.Join(exp, ";"), Observed: got, Sig: "dotted:wrong-log"})
						}
					})
					os.RemoveAll(dir)
				}
			}
		}
	}
}

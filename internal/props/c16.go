package props

import (
	"fmt"
	"os"
	"path/filepath"
	"strconv"
	"strings"

	"github.com/go-python/gpython/py"
	"verif/internal/core"
	"verif/internal/harness"
)

// C16: attribute lookup follows instance, then C3 MRO; methods bind correctly.
//
// Every hierarchy is rendered as one Python program that performs a fixed tour of reads,
// writes and deletes and logs exactly one entry per operation; the reference model below
// interprets the same list of operations on its own state (C3 linearisation computed from
// the definition, one dict per class and per instance) and predicts every log entry.

const c16Object = -1 // the implicit root class `object`

// ---------------------------------------------------------------------------------
// enumeration

// c16BaseLists: every ordered list of <= 3 distinct classes out of 0..i-1, shortest
// first, then lexicographic.
func c16BaseLists(i int) [][]int {
	out := [][]int{{}}
	for a := 0; a < i; a++ {
		out = append(out, []int{a})
	}
	for a := 0; a < i; a++ {
		for b := 0; b < i; b++ {
			if b != a {
				out = append(out, []int{a, b})
			}
		}
	}
	for a := 0; a < i; a++ {
		for b := 0; b < i; b++ {
			for c := 0; c < i; c++ {
				if a != b && a != c && b != c {
					out = append(out, []int{a, b, c})
				}
			}
		}
	}
	return out
}

var c16ListCache = map[int][][]int{}

func c16Lists(i int) [][]int {
	if l, ok := c16ListCache[i]; ok {
		return l
	}
	l := c16BaseLists(i)
	c16ListCache[i] = l
	return l
}

// c16Hierarchies calls f for every hierarchy of exactly n classes whose first n-1 classes
// have a linearisation (the last one may or may not).
func c16Hierarchies(n int, f func(bases [][]int, mros [][]int, lastOK bool) bool) {
	bases := make([][]int, n)
	mros := make([][]int, n)
	var rec func(i int) bool
	rec = func(i int) bool {
		for _, bl := range c16Lists(i) {
			bases[i] = bl
			m, ok := c16LineariseOne(bl, mros)
			mros[i] = nil
			if ok {
				mros[i] = append([]int{i}, m...)
			}
			if i == n-1 {
				if !f(bases, mros, ok) {
					return false
				}
				continue
			}
			if !ok {
				continue // a smaller hierarchy already covers this rejection
			}
			if !rec(i + 1) {
				return false
			}
		}
		return true
	}
	rec(0)
}

func c16HierString(bases [][]int) string {
	var parts []string
	for _, bl := range bases {
		if len(bl) == 0 {
			parts = append(parts, "-")
			continue
		}
		var s []string
		for _, b := range bl {
			s = append(s, strconv.Itoa(b))
		}
		parts = append(parts, strings.Join(s, ","))
	}
	return strings.Join(parts, "|")
}

// ---------------------------------------------------------------------------------
// reference model

// c16Merge is the C3 merge, written from the definition: repeatedly take the head of the
// first sequence that does not occur in the tail of any sequence.
func c16Merge(in [][]int) ([]int, bool) {
	seqs := make([][]int, 0, len(in))
	for _, s := range in {
		seqs = append(seqs, append([]int{}, s...))
	}
	var out []int
	for {
		var live [][]int
		for _, s := range seqs {
			if len(s) > 0 {
				live = append(live, s)
			}
		}
		if len(live) == 0 {
			return out, true
		}
		found := false
		cand := 0
		for _, s := range live {
			cand = s[0]
			inTail := false
			for _, t := range live {
				for _, y := range t[1:] {
					if y == cand {
						inTail = true
					}
				}
			}
			if !inTail {
				found = true
				break
			}
		}
		if !found {
			return nil, false
		}
		out = append(out, cand)
		for i, s := range live {
			if s[0] == cand {
				live[i] = s[1:]
			}
		}
		seqs = live
	}
}

// c16LineariseOne: linearisation of a new class with the given bases, without the class
// itself: merge(L[B1], ..., L[Bk], [B1..Bk]); no bases means the single base object.
func c16LineariseOne(bl []int, mros [][]int) ([]int, bool) {
	if len(bl) == 0 {
		return []int{c16Object}, true
	}
	var seqs [][]int
	for _, b := range bl {
		seqs = append(seqs, mros[b])
	}
	seqs = append(seqs, bl)
	return c16Merge(seqs)
}

type c16Val struct {
	kind byte // 0 absent, 'd' data, 'f' function, 'c' classmethod, 's' staticmethod
	tag  string
}

// c16Op is one operation of the tour; it produces exactly one log entry.
type c16Op struct {
	code  byte   // 'n' create class, 'i' isinstance, 'c' read class, 'r' read instance, 'w'/'W' write inst/class, 'x'/'X' delete inst/class
	k, j  int    // object index; j: second class of isinstance (c16Object for object)
	val   c16Val // written value
	stmt  string // explicit statement (create only; the others are rendered on demand)
	exp   string // expected log entry
	form  string
	where string
	kind  string
	phase string
	// special part only: reproduction text
	obj string
}

func (op *c16Op) mut() bool {
	switch op.code {
	case 'n', 'w', 'W', 'x', 'X':
		return true
	}
	return false
}

type c16Prog struct {
	n     int
	live  int // number of classes that exist (n, or n-1 when the last one is rejected)
	bases [][]int
	mros  [][]int
	place []byte
	attr  string
	cls   []c16Val
	inst  []c16Val
	ops   []c16Op
	tour  []byte // the tour after class creation, 3 bytes per step, interpreted by run() of the prelude
	seq   int
	inh   bool // some read resolved to an inherited definition
}

func c16Tuple(tag string, args ...int) string {
	var a []string
	for _, x := range args {
		a = append(a, strconv.Itoa(x))
	}
	return "('" + tag + "',(" + strings.Join(a, ",") + "))"
}

const c16AE = "<exc AttributeError>"

// lookup along the MRO of class k: defining class or -2
func (p *c16Prog) find(k int) int {
	for _, c := range p.mros[k] {
		if c != c16Object && p.cls[c].kind != 0 {
			return c
		}
	}
	return -2
}

func c16WhereClass(k, c int) string {
	switch {
	case c == -2:
		return "absent"
	case c == k:
		return "own"
	}
	return "inherited"
}

// readClass: expected entry for `C_k.x` (called when callable).
func (p *c16Prog) readClass(k int) (exp string, callable bool, where string, kind string) {
	c := p.find(k)
	where = c16WhereClass(k, c)
	if c == -2 {
		return c16AE, false, where, "-"
	}
	if c != k {
		p.inh = true
	}
	v := p.cls[c]
	kind = string(v.kind)
	switch v.kind {
	case 'd':
		return "'" + v.tag + "'", false, where, kind
	case 'c':
		return c16Tuple(v.tag, p.n+k), true, where, kind // bound to the class the read was made on
	}
	return c16Tuple(v.tag), true, where, kind // plain function / staticmethod: nothing bound
}

// readInst: expected entry for `I_k.x`.
func (p *c16Prog) readInst(k int) (exp string, callable bool, where string, kind string) {
	if v := p.inst[k]; v.kind != 0 {
		// found in the instance dict: returned as is, never bound
		if v.kind == 'd' {
			return "'" + v.tag + "'", false, "instdict", "d"
		}
		return c16Tuple(v.tag), true, "instdict", string(v.kind)
	}
	c := p.find(k)
	where = c16WhereClass(k, c)
	if c == -2 {
		return c16AE, false, where, "-"
	}
	if c != k {
		p.inh = true
	}
	v := p.cls[c]
	kind = string(v.kind)
	switch v.kind {
	case 'd':
		return "'" + v.tag + "'", false, where, kind
	case 'f':
		return c16Tuple(v.tag, k), true, where, kind // bound to the instance
	case 'c':
		return c16Tuple(v.tag, p.n+k), true, where, kind // bound to the instance's class
	}
	return c16Tuple(v.tag), true, where, kind
}

func (p *c16Prog) isSub(i, j int) bool {
	for _, c := range p.mros[i] {
		if c == j {
			return true
		}
	}
	return false
}

// ---------------------------------------------------------------------------------
// program construction
//
// The prelude is compiled once per worker and executed in the fresh globals of every
// program. run(s) interprets the tour: 3 characters per step (code, object index, kind).
// O = instances then classes (index n+k); NL = number of classes that exist.

const c16Prelude = `def tg(a):
    r = []
    for z in a:
        t = -1
        k = 0
        for o in O:
            if z is o:
                t = k
            k += 1
        r.append(t)
    return tuple(r)
def mkf(t):
    def x(*a):
        return (t, tg(a))
    return x
def mkv(d, t):
    if d == 'd':
        return t
    f = mkf(t)
    if d == 'f':
        return f
    if d == 'c':
        return classmethod(f)
    return staticmethod(f)
def rd(o):
    try:
        v = o.x
    except Exception as e:
        vh.log(e)
        return
    if type(v) is str:
        vh.log(v)
        return
    try:
        r = v()
    except Exception as e:
        vh.log(('call', e))
        return
    vh.log(r)
def ii(a, b):
    try:
        vh.log(isinstance(a, b))
    except Exception as e:
        vh.log(e)
def wr(o, v):
    try:
        o.x = v
        vh.log('ok')
    except Exception as e:
        vh.log(e)
def dl(o):
    try:
        del o.x
        vh.log('ok')
    except Exception as e:
        vh.log(e)
def run(s):
    q = 0
    p = 0
    n = len(O) // 2
    while p < len(s):
        c = s[p]
        k = int(s[p + 1])
        d = s[p + 2]
        p += 3
        if c == 'R':
            for j in range(NL):
                rd(O[n + j])
            for j in range(NL):
                rd(O[j])
        elif c == 'r':
            rd(O[k])
        elif c == 'w':
            q += 1
            wr(O[k], mkv(d, 'W' + d + str(q)))
        elif c == 'W':
            q += 1
            wr(O[n + k], mkv(d, 'W' + d + str(q)))
        elif c == 'x':
            dl(O[k])
        elif c == 'X':
            dl(O[n + k])
        elif c == 'M':
            for i in range(NL):
                for j in range(NL):
                    ii(O[i], O[n + j])
                ii(O[i], object)
`

func c16ClassName(k int) string { return "C" + strconv.Itoa(k) }
func c16InstName(k int) string  { return "I" + strconv.Itoa(k) }

var c16KindTag = map[byte]string{'d': "D", 'f': "F", 'c': "K", 's': "S"}

func c16ClassDef(k int, bl []int, kind byte, attr string) string {
	var b strings.Builder
	b.WriteString("try:\n    class " + c16ClassName(k))
	if len(bl) > 0 {
		var s []string
		for _, x := range bl {
			s = append(s, c16ClassName(x))
		}
		b.WriteString("(" + strings.Join(s, ", ") + ")")
	}
	b.WriteString(":\n")
	tag := c16KindTag[kind] + strconv.Itoa(k)
	switch kind {
	case 0, '-':
		b.WriteString("        pass\n")
	case 'd':
		b.WriteString("        " + attr + " = '" + tag + "'\n")
	case 'f':
		b.WriteString("        def " + attr + "(*a):\n            return ('" + tag + "', tg(a))\n")
	case 'c':
		b.WriteString("        @classmethod\n        def " + attr + "(*a):\n            return ('" + tag + "', tg(a))\n")
	case 's':
		b.WriteString("        @staticmethod\n        def " + attr + "(*a):\n            return ('" + tag + "', tg(a))\n")
	}
	b.WriteString("    vh.log('ok')\nexcept Exception as e:\n    vh.log(e)\n")
	return b.String()
}

func c16ValueExpr(v c16Val) string {
	switch v.kind {
	case 'd':
		return "'" + v.tag + "'"
	case 'f':
		return "mkf('" + v.tag + "')"
	case 'c':
		return "classmethod(mkf('" + v.tag + "'))"
	case 's':
		return "staticmethod(mkf('" + v.tag + "'))"
	}
	return "None"
}

// render: the explicit statement equivalent to one step of the tour (for reports).
func (p *c16Prog) render(op *c16Op) string {
	switch op.code {
	case 'n':
		return op.stmt
	case 'i':
		if op.j == c16Object {
			return "ii(" + c16InstName(op.k) + ", object)\n"
		}
		return "ii(" + c16InstName(op.k) + ", " + c16ClassName(op.j) + ")\n"
	case 'c':
		return "rd(" + c16ClassName(op.k) + ")\n"
	case 'r':
		return "rd(" + c16InstName(op.k) + ")\n"
	case 'w':
		return "wr(" + c16InstName(op.k) + ", " + c16ValueExpr(op.val) + ")\n"
	case 'W':
		return "wr(" + c16ClassName(op.k) + ", " + c16ValueExpr(op.val) + ")\n"
	case 'x':
		return "dl(" + c16InstName(op.k) + ")\n"
	case 'X':
		return "dl(" + c16ClassName(op.k) + ")\n"
	}
	return "?\n"
}

func (p *c16Prog) add(op c16Op) { p.ops = append(p.ops, op) }

func (p *c16Prog) step(code byte, k int, kind byte) {
	p.tour = append(p.tour, code, byte('0'+k), kind)
}

func (p *c16Prog) opReadClass(k int, phase string) {
	exp, _, where, kind := p.readClass(k)
	p.add(c16Op{code: 'c', k: k, exp: exp, form: "read-class", where: where, kind: kind, phase: phase})
}

func (p *c16Prog) opReadInst(k int, phase string) {
	exp, _, where, kind := p.readInst(k)
	p.add(c16Op{code: 'r', k: k, exp: exp, form: "read-inst", where: where, kind: kind, phase: phase})
}

func (p *c16Prog) readsAll(phase string) {
	p.step('R', 0, '-')
	for k := 0; k < p.live; k++ {
		p.opReadClass(k, phase)
	}
	for k := 0; k < p.live; k++ {
		p.opReadInst(k, phase)
	}
}

func (p *c16Prog) newTag(kind byte) string {
	p.seq++
	return "W" + string(kind) + strconv.Itoa(p.seq)
}

func (p *c16Prog) opWriteInst(k int, kind byte, phase string) {
	v := c16Val{kind, p.newTag(kind)}
	p.inst[k] = v
	p.step('w', k, kind)
	p.add(c16Op{code: 'w', k: k, val: v, exp: "'ok'", form: "write-inst", where: "-", kind: string(kind), phase: phase})
}

func (p *c16Prog) opWriteClass(k int, kind byte, phase string) {
	v := c16Val{kind, p.newTag(kind)}
	p.cls[k] = v
	p.step('W', k, kind)
	p.add(c16Op{code: 'W', k: k, val: v, exp: "'ok'", form: "write-class", where: "-", kind: string(kind), phase: phase})
}

func (p *c16Prog) opDelInst(k int, phase string) {
	exp, where := "'ok'", "present"
	if p.inst[k].kind == 0 {
		exp, where = c16AE, "absent"
		if p.find(k) != -2 {
			where = "absent-but-on-class"
		}
	}
	p.inst[k] = c16Val{}
	p.step('x', k, '-')
	p.add(c16Op{code: 'x', k: k, exp: exp, form: "del-inst", where: where, kind: "-", phase: phase})
}

func (p *c16Prog) opDelClass(k int, phase string) {
	exp, where := "'ok'", "present"
	if p.cls[k].kind == 0 {
		exp, where = c16AE, "absent"
		if p.find(k) != -2 {
			where = "absent-but-inherited"
		}
	}
	p.cls[k] = c16Val{}
	p.step('X', k, '-')
	p.add(c16Op{code: 'X', k: k, exp: exp, form: "del-class", where: where, kind: "-", phase: phase})
}

func (p *c16Prog) restoreClass(k int, phase string) {
	orig := p.place[k]
	if orig == '-' {
		p.opDelClass(k, phase)
	} else {
		p.opWriteClass(k, orig, phase)
	}
}

// tour levels
const (
	c16TourBase  = 0 // creation, isinstance matrix, baseline reads
	c16TourFull  = 2 // + phases B, C (all four kinds written), D
	c16TourLight = 1 // + B with data only, C with the dominant kind only
)

// c16Build constructs the program and the expected log for one hierarchy and placement.
// lastOK false: the last class must be rejected with TypeError and does not exist.
func c16Build(bases, mros [][]int, place []byte, lastOK bool, level int) *c16Prog {
	n := len(bases)
	p := &c16Prog{n: n, live: n, bases: bases, mros: mros, place: place, attr: "x"}
	if !lastOK {
		p.live = n - 1
	}
	p.cls = make([]c16Val, n)
	p.inst = make([]c16Val, n)
	for k := 0; k < n; k++ {
		src := c16ClassDef(k, bases[k], place[k], p.attr)
		exp := "'ok'"
		if k == n-1 && !lastOK {
			exp = "<exc TypeError>"
		} else if place[k] != '-' {
			p.cls[k] = c16Val{place[k], c16KindTag[place[k]] + strconv.Itoa(k)}
		}
		w := "consistent"
		if exp != "'ok'" {
			w = "inconsistent"
		}
		p.add(c16Op{code: 'n', k: k, stmt: src, exp: exp, form: "create", where: w, kind: "-", phase: "0"})
	}

	// phase A: isinstance matrix and baseline reads
	p.step('M', 0, '-')
	for i := 0; i < p.live; i++ {
		for j := 0; j < p.live; j++ {
			w := "unrelated"
			if i == j {
				w = "same"
			} else if p.isSub(i, j) {
				w = "base"
			}
			exp := "False"
			if p.isSub(i, j) {
				exp = "True"
			}
			p.add(c16Op{code: 'i', k: i, j: j, exp: exp, form: "isinstance", where: w, kind: "-", phase: "A"})
		}
		p.add(c16Op{code: 'i', k: i, j: c16Object, exp: "True", form: "isinstance", where: "object", kind: "-", phase: "A"})
	}
	p.readsAll("A")
	if level == c16TourBase {
		return p
	}
	dom := byte('d')
	for _, c := range place {
		if c != '-' {
			dom = c
			break
		}
	}
	// phase B: writes and deletes on instances
	for k := 0; k < p.live; k++ {
		p.opWriteInst(k, 'd', "B")
		p.readsAll("B")
		p.opDelInst(k, "B")
		p.readsAll("B")
		if level == c16TourFull {
			p.opWriteInst(k, 'f', "B")
			p.readsAll("B")
			p.opDelInst(k, "B")
		}
		p.opDelInst(k, "B") // now missing
		p.step('r', k, '-')
		p.opReadInst(k, "B")
	}
	// phase C: deletes and writes on classes
	for k := 0; k < p.live; k++ {
		p.opDelClass(k, "C")
		p.readsAll("C")
		kinds := []byte{'d', 'f', 'c', 's'}
		if level != c16TourFull {
			kinds = []byte{dom}
		}
		for _, kind := range kinds {
			p.opWriteClass(k, kind, "C")
			p.readsAll("C")
		}
		p.restoreClass(k, "C")
		p.readsAll("C")
	}
	if level != c16TourFull {
		return p
	}
	// phase D: class write while the instance shadows the attribute
	for k := 0; k < p.live; k++ {
		p.opWriteInst(k, 'd', "D")
		p.opWriteClass(k, dom, "D")
		p.readsAll("D")
		p.opDelInst(k, "D")
		p.readsAll("D")
		p.restoreClass(k, "D")
	}
	return p
}

// head: instances and the object table, executed after the last class statement.
func (p *c16Prog) head() string {
	var b strings.Builder
	var names []string
	for k := 0; k < p.n; k++ {
		if k < p.live {
			b.WriteString(c16InstName(k) + " = " + c16ClassName(k) + "()\n")
			names = append(names, c16InstName(k))
		} else {
			names = append(names, "None")
		}
	}
	for k := 0; k < p.n; k++ {
		if k < p.live {
			names = append(names, c16ClassName(k))
		} else {
			names = append(names, "None")
		}
	}
	b.WriteString("O = [" + strings.Join(names, ", ") + "]\nNL = " + strconv.Itoa(p.live) + "\n")
	return b.String()
}

// source: the program that is run (without the prelude).
func (p *c16Prog) source() string {
	var b strings.Builder
	for i := 0; i < p.n; i++ {
		b.WriteString(p.ops[i].stmt)
	}
	b.WriteString(p.head())
	b.WriteString("run('" + string(p.tour) + "')\n")
	return b.String()
}

// repro: class definitions, the state changing statements before op i, and op i itself,
// as explicit statements (uses the helpers of the prelude).
func (p *c16Prog) repro(i int) string {
	var b strings.Builder
	for j := 0; j <= i && j < len(p.ops); j++ {
		op := &p.ops[j]
		if op.mut() || j == i {
			b.WriteString(p.render(op))
		}
		if j == p.n-1 {
			b.WriteString(p.head())
		}
	}
	return b.String()
}

// ---------------------------------------------------------------------------------
// running and comparing

type c16 struct {
	rc      *core.RunCtx
	ev      *evaluator
	prelude *py.Code
	dump    string
	mod     int64
	maxFull int // largest n that gets the full tour
}

// run executes prelude (precompiled, when pre is set) and src in fresh globals.
func (c *c16) run(src string, pre bool) (entries []string, g py.StringDict, err error) {
	lg := &harness.Log{}
	c.ev.vh.Globals["__vhlog__"] = lg
	g = py.StringDict{"vh": c.ev.vh, "__builtins__": c.ev.ctx.Store().Builtins}
	if pre {
		if c.prelude == nil {
			c.prelude, err = py.Compile(c16Prelude, "<prelude>", py.ExecMode, 0, true)
			if err != nil {
				panic(err)
			}
		}
		if _, err = c.ev.ctx.RunCode(c.prelude, g, g, nil); err != nil {
			return lg.Entries, g, err
		}
	}
	code, err := py.Compile(src, "<e>", py.ExecMode, 0, true)
	if err != nil {
		return lg.Entries, g, err
	}
	_, err = c.ev.ctx.RunCode(code, g, g, nil)
	return lg.Entries, g, err
}

func c16ExcName(entry string) string {
	if strings.HasPrefix(entry, "<exc ") && strings.HasSuffix(entry, ">") {
		return entry[5 : len(entry)-1]
	}
	return ""
}

// c16DevClass: input-independent class of a wrong log entry.
func c16DevClass(exp, got string) string {
	if e := c16ExcName(got); e != "" {
		if x := c16ExcName(exp); x != "" {
			return "wrong-exception:" + e + "-for-" + x
		}
		return "unexpected-" + e
	}
	if strings.HasPrefix(got, "('call',<exc ") {
		return "call-unexpected-" + strings.TrimSuffix(strings.TrimPrefix(got, "('call',<exc "), ">)")
	}
	if x := c16ExcName(exp); x != "" {
		return "no-exception-for-" + x
	}
	if strings.HasPrefix(exp, "('") && strings.HasPrefix(got, "('") {
		et, gt := strings.SplitN(exp, ",", 2), strings.SplitN(got, ",", 2)
		if len(et) == 2 && len(gt) == 2 {
			if et[0] != gt[0] {
				return "wrong-definition"
			}
			return "wrong-binding"
		}
	}
	if strings.HasPrefix(got, "<") {
		return "wrong-type"
	}
	return "wrong-value"
}

func (c *c16) fields(part string, p *c16Prog, op *c16Op) core.Fields {
	return core.Fields{"part": part, "n": itoa(p.n), "hier": c16HierString(p.bases), "place": string(p.place),
		"form": op.form, "where": op.where, "kind": op.kind}
}

// compare the observed log with the expected one; one deviation per distinct
// (signature, form, where, kind) of a program.
func (c *c16) compare(part string, p *c16Prog, entries []string, err error) {
	seen := map[string]bool{}
	dev := func(i int, op *c16Op, exp, got, sig string) {
		key := sig + "|" + op.form + "|" + op.where + "|" + op.kind
		if seen[key] {
			return
		}
		seen[key] = true
		in := fmt.Sprintf("hierarchy %s placement %s, phase %s, operation %d:\n%s", c16HierString(p.bases), string(p.place), op.phase, i, p.repro(i))
		c.rc.Deviate(core.Deviation{Fields: c.fields(part, p, op), Input: in, Expected: exp, Observed: got, Sig: sig})
	}
	for i := range p.ops {
		op := &p.ops[i]
		if i >= len(entries) {
			t := "none"
			if err != nil {
				t, _, _, _ = harness.ExcInfo(err)
			}
			dev(i, op, op.exp, "program stopped: "+t, op.form+":aborted-"+t)
			return
		}
		if entries[i] != op.exp {
			dev(i, op, op.exp, entries[i], op.form+":"+c16DevClass(op.exp, entries[i]))
		}
	}
	if len(entries) > len(p.ops) || err != nil {
		t := "none"
		if err != nil {
			t, _, _, _ = harness.ExcInfo(err)
		}
		op := &c16Op{form: "program", where: "-", kind: "-", phase: "end"}
		dev(len(p.ops)-1, op, fmt.Sprintf("%d log entries, no exception", len(p.ops)), fmt.Sprintf("%d log entries, exception %s", len(entries), t), "program:extra-output-or-"+t)
	}
}

// goReads: re-read the final state through the Go API (py.GetAttrString, py.Call).
func (c *c16) goReads(part string, p *c16Prog, g py.StringDict) {
	seen := map[string]bool{}
	for pass := 0; pass < 2; pass++ {
		for k := 0; k < p.live; k++ {
			var exp, where, kind, name, form string
			if pass == 0 {
				exp, _, where, kind = p.readClass(k)
				name, form = c16ClassName(k), "goapi-read-class"
			} else {
				exp, _, where, kind = p.readInst(k)
				name, form = c16InstName(k), "goapi-read-inst"
			}
			obj, ok := g[name]
			if !ok {
				continue // creation failure was already reported
			}
			got := ""
			v, err := py.GetAttrString(obj, p.attr)
			_, isStr := v.(py.String)
			switch {
			case err != nil:
				t, _, _, _ := harness.ExcInfo(err)
				got = "<exc " + t + ">"
			case !isStr:
				r, err := py.Call(v, nil, nil)
				if err != nil {
					t, _, _, _ := harness.ExcInfo(err)
					got = "('call',<exc " + t + ">)"
				} else {
					got = harness.Canon(r)
				}
			default:
				got = harness.Canon(v)
			}
			if got != exp {
				op := &c16Op{form: form, where: where, kind: kind, phase: "end"}
				sig := form + ":" + c16DevClass(exp, got)
				key := sig + "|" + where + "|" + kind
				if seen[key] {
					continue
				}
				seen[key] = true
				in := fmt.Sprintf("hierarchy %s placement %s, after the whole tour: py.GetAttrString(%s, %q)\n%s", c16HierString(p.bases), string(p.place), name, p.attr, p.repro(len(p.ops)-1))
				c.rc.Deviate(core.Deviation{Fields: c.fields(part, p, op), Input: in, Expected: exp, Observed: got, Sig: sig})
			}
		}
	}
}

func (c *c16) maybeDump(ops []c16Op, src string) {
	// development aid only: see scripts/c16_crosscheck.py
	if c.dump == "" || c.rc.Index()%c.mod != 0 {
		return
	}
	base := filepath.Join(c.dump, fmt.Sprintf("%07d", c.rc.Index()))
	os.WriteFile(base+".py", []byte(src), 0o644)
	var exp []string
	for _, op := range ops {
		exp = append(exp, op.exp)
	}
	os.WriteFile(base+".exp", []byte(strings.Join(exp, "\n")+"\n"), 0o644)
}

// placements: every assignment of {absent, data, function, classmethod, staticmethod} to
// the classes (mixed) or, for larger n, every subset of definers with one kind per run.
func c16Placements(n int, mixed bool) [][]byte {
	var out [][]byte
	if mixed {
		kinds := []byte{'-', 'd', 'f', 'c', 's'}
		total := 1
		for i := 0; i < n; i++ {
			total *= 5
		}
		for x := 0; x < total; x++ {
			pl := make([]byte, n)
			y := x
			for i := 0; i < n; i++ {
				pl[i] = kinds[y%5]
				y /= 5
			}
			out = append(out, pl)
		}
		return out
	}
	none := make([]byte, n)
	for i := range none {
		none[i] = '-'
	}
	out = append(out, none)
	for _, kind := range []byte{'d', 'f', 'c', 's'} {
		for mask := 1; mask < 1<<uint(n); mask++ {
			pl := make([]byte, n)
			for i := 0; i < n; i++ {
				pl[i] = '-'
				if mask&(1<<uint(i)) != 0 {
					pl[i] = kind
				}
			}
			out = append(out, pl)
		}
	}
	return out
}

func c16Run(rc *core.RunCtx) {
	c := &c16{rc: rc, ev: newEvaluator(), dump: os.Getenv("C16_DUMP"), mod: 1}
	if m, err := strconv.ParseInt(os.Getenv("C16_DUMP_MOD"), 10, 64); err == nil && m > 0 {
		c.mod = m
	}
	maxAttr, maxMixed, maxMro, maxSpecial := 4, 3, 5, 4
	c.maxFull = 4
	if !rc.Quick() {
		maxAttr, maxMixed, maxMro, maxSpecial = 5, 4, 6, 4
	}
	if !c.partAttr(maxAttr, maxMixed) {
		return
	}
	if !c.partMro(maxMro) {
		return
	}
	if !c.partDup() {
		return
	}
	c.partSpecial(maxSpecial)
}

// part "attr": Python programs.
func (c *c16) partAttr(maxN, maxMixed int) bool {
	rc := c.rc
	rc.Part = "attr"
	cont := true
	for n := 1; n <= maxN && cont; n++ {
		places := c16Placements(n, n <= maxMixed)
		allD := make([]byte, n)
		for i := range allD {
			allD[i] = 'd'
		}
		c16Hierarchies(n, func(bases, mros [][]int, lastOK bool) bool {
			pls := places
			if !lastOK {
				pls = [][]byte{allD}
			}
			for _, pl := range pls {
				if rc.Expired() || rc.Done() {
					cont = false
					return false
				}
				if !rc.Take() {
					continue
				}
				c.attrCase(bases, mros, pl, lastOK)
			}
			return true
		})
	}
	return cont
}

func (c *c16) attrCase(bases, mros [][]int, pl []byte, lastOK bool) {
	rc := c.rc
	level := c16TourFull
	if !lastOK {
		level = c16TourBase
	} else if p := len(bases); p > c.maxFull {
		level = c16TourLight
	}
	p := c16Build(bases, mros, pl, lastOK, level)
	first := &p.ops[0]
	fields := core.Fields{"part": "attr", "n": itoa(p.n), "hier": c16HierString(bases), "place": string(pl), "form": first.form, "where": first.where, "kind": first.kind}
	var src string
	input := func() string {
		if src == "" {
			src = p.source()
		}
		return fmt.Sprintf("hierarchy %s placement %s\n%s%s", c16HierString(bases), string(pl), c16Prelude, src)
	}
	rc.Guard(fields, input, func() {
		src = p.source()
		c.maybeDump(p.ops, c16Prelude+src)
		entries, g, err := c.run(src, true)
		outcome := "attr n=" + itoa(p.n) + " accepted"
		if !lastOK {
			outcome = "attr n=" + itoa(p.n) + " rejected"
		}
		nt := ""
		if p.inh || !lastOK {
			nt = "attr|" + c16HierString(bases) + "|" + string(pl)
		}
		rc.Eval(outcome, nt)
		rc.Count("operations_checked", int64(len(p.ops)))
		if rc.WantSample() && rc.Index()%499 == 0 {
			rc.Sample(map[string]string{"hierarchy": c16HierString(bases), "placement": string(pl), "operations": itoa(len(p.ops)), "last_expected": p.ops[len(p.ops)-1].exp})
		}
		c.compare("attr", p, entries, err)
		if err == nil && len(entries) == len(p.ops) {
			c.goReads("attr", p, g)
		}
	})
}

// part "mro": classes are created through the Go API (calling py.TypeType) and the stored
// MRO and IsSubtype are compared with the model.
func (c *c16) partMro(maxN int) bool {
	rc := c.rc
	rc.Part = "mro"
	cont := true
	for n := 1; n <= maxN && cont; n++ {
		c16Hierarchies(n, func(bases, mros [][]int, lastOK bool) bool {
			if rc.Expired() || rc.Done() {
				cont = false
				return false
			}
			if !rc.Take() {
				return true
			}
			c.mroCase(bases, mros, lastOK)
			return true
		})
	}
	return cont
}

func c16MroNames(m []int) string {
	var s []string
	for _, x := range m {
		if x == c16Object {
			s = append(s, "object")
		} else {
			s = append(s, c16ClassName(x))
		}
	}
	return strings.Join(s, ",")
}

func (c *c16) mroCase(bases, mros [][]int, lastOK bool) {
	rc := c.rc
	n := len(bases)
	hs := c16HierString(bases)
	mk := func(form, where string) core.Fields {
		return core.Fields{"part": "mro", "n": itoa(n), "hier": hs, "place": "-", "form": form, "where": where, "kind": "-"}
	}
	input := "type(name, bases, dict) through the Go API for hierarchy " + hs
	rc.Guard(mk("create", "-"), func() string { return input }, func() {
		types := make([]*py.Type, n)
		outcome := "mro n=" + itoa(n) + " accepted"
		if !lastOK {
			outcome = "mro n=" + itoa(n) + " rejected"
		}
		multi := false
		for _, bl := range bases {
			if len(bl) > 1 {
				multi = true
			}
		}
		nt := ""
		if multi {
			nt = "mro|" + hs
		}
		rc.Eval(outcome, nt)
		for k := 0; k < n; k++ {
			bt := py.Tuple{}
			for _, b := range bases[k] {
				bt = append(bt, types[b])
			}
			o, err := py.Call(py.TypeType, py.Tuple{py.String(c16ClassName(k)), bt, py.StringDict{"__module__": py.String("m")}}, nil)
			wantErr := k == n-1 && !lastOK
			if err != nil {
				t, _, _, _ := harness.ExcInfo(err)
				if wantErr && t == "TypeError" {
					return
				}
				w := "consistent"
				exp := "class with MRO " + c16MroNames(mros[k])
				if wantErr {
					w, exp = "inconsistent", "TypeError"
				}
				rc.Deviate(core.Deviation{Fields: mk("create", w), Input: input + ", class " + c16ClassName(k), Expected: exp, Observed: "raises " + t, Sig: "create:unexpected-" + t})
				return
			}
			if wantErr {
				rc.Deviate(core.Deviation{Fields: mk("create", "inconsistent"), Input: input + ", class " + c16ClassName(k), Expected: "TypeError", Observed: "class created", Sig: "create:no-exception-for-TypeError"})
				return
			}
			t, ok := o.(*py.Type)
			if !ok {
				rc.Deviate(core.Deviation{Fields: mk("create", "consistent"), Input: input, Expected: "a type", Observed: harness.Canon(o), Sig: "create:wrong-type"})
				return
			}
			types[k] = t
			var got []string
			for _, m := range t.Mro {
				if mt, ok := m.(*py.Type); ok {
					got = append(got, mt.Name)
				} else {
					got = append(got, "?")
				}
			}
			if g, e := strings.Join(got, ","), c16MroNames(mros[k]); g != e {
				rc.Deviate(core.Deviation{Fields: mk("mro", "-"), Input: input + ", MRO of " + c16ClassName(k), Expected: e, Observed: g, Sig: "mro:wrong-order"})
			}
		}
		p := &c16Prog{mros: mros}
		for i := 0; i < n; i++ {
			for j := 0; j < n; j++ {
				if got, exp := types[i].IsSubtype(types[j]), p.isSub(i, j); got != exp {
					rc.Deviate(core.Deviation{Fields: mk("issubtype", "-"), Input: fmt.Sprintf("%s: C%d.IsSubtype(C%d)", input, i, j), Expected: fmt.Sprint(exp), Observed: fmt.Sprint(got), Sig: "issubtype:wrong-value"})
				}
			}
			if !types[i].IsSubtype(py.ObjectType) {
				rc.Deviate(core.Deviation{Fields: mk("issubtype", "object"), Input: fmt.Sprintf("%s: C%d.IsSubtype(object)", input, i), Expected: "true", Observed: "false", Sig: "issubtype:wrong-value"})
			}
		}
	})
}

// part "dup": a base list that repeats a class is rejected with TypeError.
func (c *c16) partDup() bool {
	rc := c.rc
	rc.Part = "dup"
	var lists [][]int
	for a := 0; a < 2; a++ {
		lists = append(lists, []int{a, a})
	}
	for a := 0; a < 2; a++ {
		for b := 0; b < 2; b++ {
			for d := 0; d < 2; d++ {
				if a == b || a == d || b == d {
					lists = append(lists, []int{a, b, d})
				}
			}
		}
	}
	for _, second := range [][]int{{}, {0}} {
		for _, bl := range lists {
			if rc.Expired() || rc.Done() {
				return false
			}
			if !rc.Take() {
				continue
			}
			bl, second := bl, second
			bases := [][]int{{}, second, bl}
			mros := [][]int{{0, c16Object}, nil, nil}
			m, _ := c16LineariseOne(second, mros)
			mros[1] = append([]int{1}, m...)
			pl := []byte{'d', '-', 'd'}
			p := c16Build(bases, mros, pl, false, c16TourBase)
			fields := core.Fields{"part": "dup", "n": "3", "hier": c16HierString(bases), "place": string(pl), "form": "create", "where": "duplicate", "kind": "-"}
			src := p.source()
			rc.Guard(fields, func() string { return c16Prelude + src }, func() {
				p.ops[2].where = "duplicate"
				c.maybeDump(p.ops, c16Prelude+src)
				entries, _, err := c.run(src, true)
				rc.Eval("dup rejected", "dup|"+c16HierString(bases))
				c.compare("dup", p, entries, err)
			})
		}
	}
	return true
}

// part "special": a special method placed over the classes is found for an instance along the
// MRO of its class, both implicitly (len(i), i[0], i.missing, iteration, construction) and
// explicitly (i.__len__()).
type c16SpName struct {
	name     string
	sig      string                // parameter list of the method
	body     func(v string) string // method body delivering the value v
	implicit func(o string) string // expression that makes the interpreter look the method up
	explicit func(o string) string // the same call spelled out ("" = not compared)
	absent   string                // expected log entry of the implicit form when no class defines it
}

var c16SpNames = []c16SpName{
	{"__len__", "self", func(v string) string { return "return " + v }, func(o string) string { return "len(" + o + ")" },
		func(o string) string { return o + ".__len__()" }, "<exc TypeError>"},
	{"__getitem__", "self, i", func(v string) string { return "return " + v }, func(o string) string { return o + "[0]" },
		func(o string) string { return o + ".__getitem__(0)" }, "<exc TypeError>"},
	{"__getattr__", "self, name", func(v string) string { return "return " + v }, func(o string) string { return o + ".zz" },
		func(o string) string { return o + ".__getattr__('zz')" }, c16AE},
	{"__iter__", "self", func(v string) string { return "return iter([" + v + "])" }, func(o string) string { return "list(" + o + ")[0]" },
		func(o string) string { return "list(" + o + ".__iter__())[0]" }, "<exc TypeError>"},
	{"__init__", "self", func(v string) string { return "self.iv = " + v }, func(o string) string { return "type(" + o + ")().iv" },
		nil, c16AE},
}

func c16SpPrelude(sp c16SpName) string {
	exp := "None"
	if sp.explicit != nil {
		exp = sp.explicit("o")
	}
	return "def mkl(v):\n    def f(" + sp.sig + "):\n        " + sp.body("v") + "\n    return f\n" +
		"def ln(o):\n    try:\n        vh.log(" + sp.implicit("o") + ")\n    except Exception as e:\n        vh.log(e)\n" +
		"def le(o):\n    try:\n        vh.log(" + exp + ")\n    except Exception as e:\n        vh.log(e)\n"
}

type c16Sp struct {
	sp    c16SpName
	n     int
	bases [][]int
	mros  [][]int
	place []byte
	val   []int // per class: value returned by its __len__, 0 = not defined
	src   strings.Builder
	muts  strings.Builder
	ops   []c16Op
	seq   int
	inh   bool
}

func (s *c16Sp) lenOf(k int) (string, string) {
	for _, c := range s.mros[k] {
		if c != c16Object && s.val[c] != 0 {
			if c != k {
				s.inh = true
				return itoa(s.val[c]), "inherited"
			}
			return itoa(s.val[c]), "own"
		}
	}
	return "", "absent"
}

func (s *c16Sp) emit(op c16Op) {
	s.src.WriteString(op.stmt)
	if op.mut() {
		s.muts.WriteString(op.stmt)
	}
	op.obj = s.muts.String()
	if !op.mut() {
		op.obj += op.stmt
	}
	s.ops = append(s.ops, op)
}

func (s *c16Sp) lensAll(phase string) {
	for k := 0; k < s.n; k++ {
		v, w := s.lenOf(k)
		exp, exp2 := v, v
		if w == "absent" {
			exp, exp2 = "<exc TypeError>", c16AE
		}
		if w == "absent" {
			exp = s.sp.absent
		}
		s.emit(c16Op{stmt: "ln(" + c16InstName(k) + ")\n", exp: exp, form: "len-inst", where: w, kind: "f", phase: phase})
		if s.sp.explicit != nil {
			s.emit(c16Op{stmt: "le(" + c16InstName(k) + ")\n", exp: exp2, form: "call-special-inst", where: w, kind: "f", phase: phase})
		}
	}
}

func c16BuildSpecial(sp c16SpName, bases, mros [][]int, place []byte) *c16Sp {
	n := len(bases)
	s := &c16Sp{sp: sp, n: n, bases: bases, mros: mros, place: place, val: make([]int, n)}
	s.src.WriteString(c16SpPrelude(sp))
	for k := 0; k < n; k++ {
		var b strings.Builder
		b.WriteString("class " + c16ClassName(k))
		if len(bases[k]) > 0 {
			var x []string
			for _, y := range bases[k] {
				x = append(x, c16ClassName(y))
			}
			b.WriteString("(" + strings.Join(x, ", ") + ")")
		}
		b.WriteString(":\n")
		if place[k] == 'f' {
			s.val[k] = 10 + k
			b.WriteString("    def " + sp.name + "(" + sp.sig + "):\n        " + sp.body(itoa(10+k)) + "\n")
		} else {
			b.WriteString("    pass\n")
		}
		b.WriteString(c16InstName(k) + " = " + c16ClassName(k) + "()\n")
		s.src.WriteString(b.String())
		s.muts.WriteString(b.String())
	}
	s.lensAll("A")
	for k := 0; k < n; k++ {
		orig := s.val[k]
		exp, w := "'ok'", "present"
		if orig == 0 {
			exp, w = c16AE, "absent"
		}
		s.val[k] = 0
		s.emit(c16Op{stmt: c16Try("del " + c16ClassName(k) + "." + sp.name), code: 'X', exp: exp, form: "del-class", where: w, kind: "f", phase: "C"})
		s.lensAll("C")
		s.seq++
		s.val[k] = 20 + s.seq
		s.emit(c16Op{stmt: c16Try(c16ClassName(k) + "." + sp.name + " = mkl(" + itoa(20+s.seq) + ")"), code: 'W', exp: "'ok'", form: "write-class", where: "-", kind: "f", phase: "C"})
		s.lensAll("C")
		if orig == 0 {
			s.val[k] = 0
			s.emit(c16Op{stmt: c16Try("del " + c16ClassName(k) + "." + sp.name), code: 'X', exp: "'ok'", form: "del-class", where: "present", kind: "f", phase: "C"})
		}
	}
	return s
}

func (c *c16) partSpecial(maxN int) bool {
	rc := c.rc
	rc.Part = "special"
	cont := true
	for si, sp := range c16SpNames {
		sp := sp
		top := maxN
		if si > 0 && top > 3 && rc.Quick() {
			top = 3 // quick: the other names on the hierarchies of <= 3 classes, plus the diamonds below
		}
		for n := 1; n <= top && cont; n++ {
			cont = c.partSpecialN(sp, n, nil)
		}
		if si > 0 && rc.Quick() && cont {
			// the 4-class hierarchies whose last class has two bases with a common ancestor
			cont = c.partSpecialN(sp, 4, func(bases [][]int) bool {
				return len(bases[3]) >= 2 && len(bases[1]) > 0 && len(bases[2]) > 0
			})
		}
	}
	return cont
}

func (c *c16) partSpecialN(sp c16SpName, n int, want func(bases [][]int) bool) bool {
	rc := c.rc
	cont := true
	{
		c16Hierarchies(n, func(bases, mros [][]int, lastOK bool) bool {
			if want != nil && !want(bases) {
				return true
			}
			if !lastOK {
				return true
			}
			for mask := 0; mask < 1<<uint(n); mask++ {
				if rc.Expired() || rc.Done() {
					cont = false
					return false
				}
				if !rc.Take() {
					continue
				}
				pl := make([]byte, n)
				for i := range pl {
					pl[i] = '-'
					if mask&(1<<uint(i)) != 0 {
						pl[i] = 'f'
					}
				}
				c.specialCase(sp, bases, mros, pl)
			}
			return true
		})
	}
	return cont
}

func (c *c16) specialCase(sp c16SpName, bases, mros [][]int, pl []byte) {
	rc := c.rc
	s := c16BuildSpecial(sp, bases, mros, pl)
	hs := c16HierString(bases)
	mk := func(op *c16Op) core.Fields {
		return core.Fields{"part": "special", "name": sp.name, "n": itoa(s.n), "hier": hs, "place": string(pl), "form": op.form, "where": op.where, "kind": op.kind}
	}
	src := s.src.String()
	rc.Guard(mk(&s.ops[0]), func() string { return "hierarchy " + hs + " " + sp.name + " placement " + string(pl) + "\n" + src }, func() {
		c.maybeDump(s.ops, src)
		entries, _, err := c.run(src, false)
		nt := ""
		if s.inh {
			nt = "special|" + sp.name + "|" + hs + "|" + string(pl)
		}
		rc.Eval("special n="+itoa(s.n), nt)
		rc.Count("operations_checked", int64(len(s.ops)))
		seen := map[string]bool{}
		dev := func(i int, op *c16Op, exp, got, sig string) {
			key := sig + "|" + op.form + "|" + op.where
			if seen[key] {
				return
			}
			seen[key] = true
			rc.Deviate(core.Deviation{Fields: mk(op), Input: fmt.Sprintf("hierarchy %s %s placement %s, operation %d:\n%s%s", hs, sp.name, string(pl), i, c16SpPrelude(sp), op.obj), Expected: exp, Observed: got, Sig: sig})
		}
		for i := range s.ops {
			op := &s.ops[i]
			if i >= len(entries) {
				t := "none"
				if err != nil {
					t, _, _, _ = harness.ExcInfo(err)
				}
				dev(i, op, op.exp, "program stopped: "+t, op.form+":aborted-"+t)
				return
			}
			if entries[i] != op.exp {
				dev(i, op, op.exp, entries[i], op.form+":"+c16DevClass(op.exp, entries[i]))
			}
		}
		if err != nil || len(entries) > len(s.ops) {
			t := "none"
			if err != nil {
				t, _, _, _ = harness.ExcInfo(err)
			}
			op := &c16Op{form: "program", where: "-", kind: "-"}
			dev(len(s.ops), op, "no exception", fmt.Sprintf("%d log entries, exception %s", len(entries), t), "program:extra-output-or-"+t)
		}
	})
}

func init() {
	core.Register(&core.Check{
		ID:    "C16",
		Level: "model_checking",
		Rule: "part attr: every hierarchy of n<=4 (quick) / n<=5 (thorough) classes where class i has an ordered list of <=3 distinct earlier classes as bases (1+2+10+160(+6560) hierarchies, including every one whose last class has no C3 linearisation; a rejected class is only enumerated as the last class) " +
			"x placements of the attribute x: each class independently one of {absent, data, function, classmethod, staticmethod} for n<=3 (quick) / n<=4 (thorough), for larger n every non-empty subset of definers with one kind per run (all 4 kinds) plus the empty placement. " +
			"Each program runs a fixed tour, one log entry per operation: class creation (ok/TypeError), isinstance(I_i, C_j) for all i,j and isinstance(I_i, object), reads of x on every class and on one instance of every class (callables are called and return their arguments, so the bound object is observed); " +
			"for every k: write data / write function / delete / delete-missing on I_k, delete, write of each of the 4 kinds, restore on C_k, class write while I_k shadows (n=5: data write only on I_k, only the placement's kind written on C_k, no shadowed class write); after every state change x is re-read on every class and every instance; finally the state is re-read with py.GetAttrString/py.Call from Go. " +
			"part mro: n<=5 / n<=6 classes created with type(name, bases, dict) through the Go API, stored Mro and IsSubtype compared for every class / pair, TypeError for an inconsistent last class. part dup: repeated base -> TypeError. " +
			"part special: __len__ as plain function on every subset of the classes of every hierarchy with n<=4, and __getitem__, __getattr__, __iter__, __init__ on every hierarchy with n<=3 plus every 4-class hierarchy whose last class has two bases that have bases themselves (thorough: all n<=4): the implicit use (len(I_k), I_k[0], I_k.zz, list(I_k), type(I_k)()) and the explicit call for all k, with delete/write on each class and re-reads. " +
			"Non-trivial: a program in which at least one read resolves to an inherited definition, or a rejected hierarchy; mro cases with multiple inheritance.",
		Run: c16Run,
		Assumptions: []string{
			"the observation code relies on try/except, `is`, `type(v) is str`, closures, while/for loops, string indexing, int(), str(), list.append, tuple() and calls with *args working in gpython",
			"metaclasses, super(), property, __slots__, __getattr__/__getattribute__ hooks, __mro__/__bases__ introspection and issubclass (not provided by gpython) are outside the alphabet",
			"only one attribute name and one instance per class are used; written instance values are data or plain functions",
			"the type of a looked-up callable (function vs bound method object) is not compared, only what a call receives",
		},
		Explanation: "bounded exhaustive enumeration of class DAGs; reference model = C3 merge written from the definition plus one dict per class and instance, interpreting the same operation list as the generated program",
	})
}

func c16Try(stmt string) string {
	return "try:\n    " + stmt + "\n    vh.log('ok')\nexcept Exception as e:\n    vh.log(e)\n"
}

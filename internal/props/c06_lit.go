package props

// C06: literal spellings and their independent decoders (ints via math/big, floats via
// strconv, strings/bytes via an escape decoder written from the 3.4 lexical definition).

import (
	"fmt"
	"math/big"
	"strconv"
	"strings"
	"unicode/utf8"

	"github.com/go-python/gpython/ast"
	"github.com/go-python/gpython/py"
)

// c6numLit decodes a (valid) numeric literal spelling into the payload it denotes.
func c6numLit(text string) ast.Object {
	low := strings.ToLower(text)
	if strings.HasSuffix(low, "j") {
		f, err := strconv.ParseFloat(low[:len(low)-1], 64)
		if err != nil && !strings.Contains(err.Error(), "range") {
			panic("c06: bad imaginary spelling " + text)
		}
		return py.Complex(complex(0, f))
	}
	base := 10
	digits := low
	switch {
	case strings.HasPrefix(low, "0x"):
		base, digits = 16, low[2:]
	case strings.HasPrefix(low, "0o"):
		base, digits = 8, low[2:]
	case strings.HasPrefix(low, "0b"):
		base, digits = 2, low[2:]
	}
	if base != 10 || !strings.ContainsAny(low, ".e") {
		x, ok := new(big.Int).SetString(digits, base)
		if !ok {
			panic("c06: bad int spelling " + text)
		}
		if x.IsInt64() {
			return py.Int(x.Int64())
		}
		return (*py.BigInt)(x)
	}
	f, err := strconv.ParseFloat(low, 64)
	if err != nil && !strings.Contains(err.Error(), "range") {
		panic("c06: bad float spelling " + text)
	}
	return py.Float(f) // out of range: ±Inf, as CPython gives
}

// c6NumSpellings: every numeric literal spelling of the alphabet.
func c6NumSpellings(quick bool) []string {
	var out []string
	seen := map[string]bool{}
	add := func(s string) {
		if !seen[s] {
			seen[s] = true
			out = append(out, s)
		}
	}
	vals := []string{"0", "1", "7", "8", "9", "10", "15", "16", "255", "256", "1000", "2147483647", "2147483648", "4294967296",
		"9223372036854775807", "9223372036854775808", "18446744073709551615", "18446744073709551616", "100000000000000000000",
		"340282366920938463463374607431768211456"}
	if quick {
		vals = []string{"0", "1", "8", "9", "10", "255", "2147483648", "9223372036854775807", "9223372036854775808", "18446744073709551616"}
	}
	for _, v := range vals {
		x, _ := new(big.Int).SetString(v, 10)
		add(x.Text(10))
		for _, p := range []string{"0x", "0X"} {
			add(p + x.Text(16))
			add(p + strings.ToUpper(x.Text(16)))
			add(p + "00" + x.Text(16))
		}
		for _, p := range []string{"0o", "0O"} {
			add(p + x.Text(8))
			add(p + "0" + x.Text(8))
		}
		for _, p := range []string{"0b", "0B"} {
			add(p + x.Text(2))
			add(p + "000" + x.Text(2))
		}
	}
	for _, s := range []string{"00", "000", "0000000000", "0xaBcDeF", "0XfF", "0x0", "0o0", "0b0", "0o777", "0b1111", "0o17777777777777777777777"} {
		add(s)
	}
	floats := []string{"1.0", "1.", ".5", "0.5", "1e3", "1E3", "1e-3", "1E-3", "1e+3", "1.5e+3", "1.5E+3", "1.5e-3", "0.0", "0.", ".0", "00.5",
		"09.5", "0e0", "1e0", "1e10", "1e16", "1e22", "1e23", "1e100", "1e308", "1e309", "1e-323", "1e-324", "1e-400", "5e-324",
		"2.2250738585072014e-308", "1.7976931348623157e308", "1.7976931348623159e308", "123456789.123456789", "0.1", "0.2", "0.30000000000000004",
		"9007199254740993.0", "9007199254740992.0", "1.00000000000000011102230246251565404236316680908203125",
		"1.00000000000000011102230246251565404236316680908203124", "1.00000000000000011102230246251565404236316680908203126",
		".5e1", "1.e1", "0001e1", "00.0", "0000.", "3.14", "10.", "1.25", "12345678901234567890.0", "1e01", "1E+01", "1e-01", "0.000001", "0.0000001",
		"100000000000000000000.0", "4.35", "2.675", "1e15", "123456789012345678", "99999999999999990000.0"}
	for _, s := range floats {
		add(s)
	}
	for _, s := range []string{"1j", "1J", "1.5j", "1.5J", ".5j", "1e3j", "0j", "0J", "09j", "1.j", "1e-3J", "00j", "123j", "1E3J", "0.0j", "1e400j", "007j"} {
		add(s)
	}
	return out
}

// ---- strings ----

type c6strLit struct {
	bytes bool
	val   []byte // UTF-8 of the str value, or the bytes value
}

// c6decodeStrLit decodes one string literal token (prefix, quotes, body). ok=false means
// the spelling is outside the 3.4 lexical grammar for this decoder (never generated).
func c6decodeStrLit(tok string) (c6strLit, bool) {
	i := 0
	raw, byt, uni := false, false, false
	for i < len(tok) && tok[i] != '\'' && tok[i] != '"' {
		switch tok[i] {
		case 'r', 'R':
			raw = true
		case 'b', 'B':
			byt = true
		case 'u', 'U':
			uni = true
		default:
			return c6strLit{}, false
		}
		i++
	}
	if i > 2 || (uni && i != 1) {
		return c6strLit{}, false
	}
	if i == 2 && !(raw && byt) {
		return c6strLit{}, false
	}
	rest := tok[i:]
	q := ""
	switch {
	case strings.HasPrefix(rest, `"""`), strings.HasPrefix(rest, `'''`):
		q = rest[:3]
	case len(rest) > 0:
		q = rest[:1]
	}
	if len(rest) < 2*len(q) || !strings.HasSuffix(rest, q) {
		return c6strLit{}, false
	}
	body := rest[len(q) : len(rest)-len(q)]
	var out []byte
	emit := func(cp rune) {
		if byt {
			out = append(out, byte(cp))
			return
		}
		var b [4]byte
		n := utf8.EncodeRune(b[:], cp)
		out = append(out, b[:n]...)
	}
	if raw {
		return c6strLit{byt, []byte(body)}, true
	}
	hexv := func(s string) (rune, bool) {
		v := rune(0)
		for _, c := range []byte(s) {
			switch {
			case c >= '0' && c <= '9':
				v = v*16 + rune(c-'0')
			case c >= 'a' && c <= 'f':
				v = v*16 + rune(c-'a'+10)
			case c >= 'A' && c <= 'F':
				v = v*16 + rune(c-'A'+10)
			default:
				return 0, false
			}
		}
		return v, true
	}
	for k := 0; k < len(body); {
		c := body[k]
		if c != '\\' {
			if byt && c >= 0x80 {
				return c6strLit{}, false
			}
			out = append(out, c)
			k++
			continue
		}
		if k+1 >= len(body) {
			return c6strLit{}, false
		}
		e := body[k+1]
		k += 2
		switch e {
		case '\n':
		case '\\':
			emit('\\')
		case '\'':
			emit('\'')
		case '"':
			emit('"')
		case 'a':
			emit(7)
		case 'b':
			emit(8)
		case 'f':
			emit(12)
		case 'n':
			emit(10)
		case 'r':
			emit(13)
		case 't':
			emit(9)
		case 'v':
			emit(11)
		case '0', '1', '2', '3', '4', '5', '6', '7':
			v := rune(e - '0')
			for n := 0; n < 2 && k < len(body) && body[k] >= '0' && body[k] <= '7'; n++ {
				v = v*8 + rune(body[k]-'0')
				k++
			}
			if byt {
				v &= 0xff
			}
			emit(v)
		case 'x':
			if k+2 > len(body) {
				return c6strLit{}, false
			}
			v, ok := hexv(body[k : k+2])
			if !ok {
				return c6strLit{}, false
			}
			k += 2
			emit(v)
		case 'u', 'U':
			if byt {
				out = append(out, '\\', e)
				continue
			}
			n := 4
			if e == 'U' {
				n = 8
			}
			if k+n > len(body) {
				return c6strLit{}, false
			}
			v, ok := hexv(body[k : k+n])
			if !ok || v > 0x10ffff || (v >= 0xd800 && v <= 0xdfff) {
				return c6strLit{}, false // surrogates are outside the alphabet (no Go representation)
			}
			k += n
			emit(v)
		case 'N':
			if !byt {
				return c6strLit{}, false // \N{...} is not in the alphabet
			}
			out = append(out, '\\', e)
		default:
			if e >= 0x80 {
				// backslash followed by a non-ASCII character: both stay (str only)
				if byt {
					return c6strLit{}, false
				}
			}
			out = append(out, '\\', e)
		}
	}
	return c6strLit{byt, out}, true
}

// c6strUnits: body fragments of the string alphabet. A unit is legal in a literal of a
// given quote style unless it contains that style's terminator.
func c6strUnits(quick bool) []string {
	u := []string{
		"a", "Z", "0", "7", " ", "#", "'", "\"", "é", "€", "😀", "{", "%",
		`\n`, `\t`, `\\`, `\'`, `\"`, `\a`, `\b`, `\f`, `\v`, `\r`,
		`\0`, `\7`, `\07`, `\007`, `\12`, `\101`, `\377`, `\400`, `\777`, `\08`, `\1a`, `\0007`,
		`\x00`, `\x41`, `\xff`, `\xFF`, `\xaB`, `\x7f`, `\x0a`,
		`\u0041`, `\u00e9`, `\u20ac`, `\uFFFF`, `\u00E9`, `\U00000041`, `\U0001F600`, `\U0001f600`, `\U0010FFFF`,
		`\q`, `\z`, `\8`, `\9`, `\ `, `\%`, `\(`, `\#`, "\\\n", "\n",
	}
	if quick {
		u = []string{
			"a", "7", " ", "#", "'", "\"", "é", "😀",
			`\n`, `\t`, `\\`, `\'`, `\"`, `\a`, `\b`, `\f`, `\v`, `\r`,
			`\0`, `\07`, `\101`, `\377`, `\400`, `\08`,
			`\x41`, `\xfF`, `\x0a`,
			`\u00e9`, `\u20ac`, `\U0001F600`, `\U0010FFFF`,
			`\q`, `\8`, `\ `, "\\\n", "\n",
		}
	}
	return u
}

var c6strPrefixes = []string{"", "u", "U", "r", "R", "b", "B", "br", "bR", "Br", "BR", "rb", "rB", "Rb", "RB"}
var c6strQuotes = []string{"'", "\"", "'''", "\"\"\""}

// c6strLegal: is prefix+quote+body+quote one well-formed literal whose body is exactly
// `body`? Decided by scanning the body as the 3.4 tokenizer does.
func c6strLegal(prefix, q, body string) bool {
	byt := strings.ContainsAny(prefix, "bB")
	raw := strings.ContainsAny(prefix, "rR")
	triple := len(q) == 3
	for k := 0; k < len(body); {
		c := body[k]
		if byt && c >= 0x80 {
			return false
		}
		if c == '\\' {
			if k+1 >= len(body) {
				return false // the backslash would escape the closing quote
			}
			if byt && body[k+1] >= 0x80 {
				return false
			}
			if body[k+1] == '\n' && !triple && raw {
				// raw single-quoted: backslash-newline is still a continuation for the
				// tokenizer and both characters stay in the value
			}
			_, sz := utf8.DecodeRuneInString(body[k+1:])
			k += 1 + sz
			continue
		}
		if c == '\n' && !triple {
			return false
		}
		if strings.HasPrefix(body[k:], q) {
			return false
		}
		_, sz := utf8.DecodeRuneInString(body[k:])
		k += sz
	}
	// a triple-quoted body must not end with the quote character (it would merge)
	if triple && strings.HasSuffix(body, q[:1]) {
		// an escaped quote at the end is fine (handled by the scan above consuming it)
		n := 0
		for j := len(body) - 2; j >= 0 && body[j] == '\\'; j-- {
			n++
		}
		if n%2 == 0 {
			return false
		}
	}
	if _, ok := c6decodeStrLit(prefix + q + body + q); !ok {
		return false
	}
	return true
}

// c6strNode is the expected node of a sequence of adjacent literals (implicit
// concatenation); ok=false if they mix str and bytes.
func c6strNode(toks []string) (ast.Expr, bool) {
	var val []byte
	byt := false
	for i, t := range toks {
		l, ok := c6decodeStrLit(t)
		if !ok {
			panic("c06: undecodable literal " + strconv.Quote(t))
		}
		if i > 0 && l.bytes != byt {
			return nil, false
		}
		byt = l.bytes
		val = append(val, l.val...)
	}
	if byt {
		return &ast.Bytes{S: py.Bytes(val)}, true
	}
	return &ast.Str{S: py.String(string(val))}, true
}

func c6litClass(tok string) string {
	i := strings.IndexAny(tok, "'\"")
	q := "1"
	if strings.HasPrefix(tok[i:], `"""`) || strings.HasPrefix(tok[i:], `'''`) {
		q = "3"
	}
	return fmt.Sprintf("%s%s%c", strings.ToLower(tok[:i]), q, tok[i])
}

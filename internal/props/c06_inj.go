package props

// C06: invalidating injectors. Every result is outside the Python 3.4 grammar by
// construction (see the comment on each injector); "sem" marks rules that CPython enforces
// after the pgen grammar (ast.c / compile.c / symtable.c): for those a SyntaxError from
// py.Compile is accepted as well as one from parser.ParseString.

import (
	"strings"
)

type c6injection struct {
	inj  string // injector name
	with string // what was injected (short)
	sem  bool
	text string
	v34  bool // invalid in 3.4 only (CPython 3.11 accepts it)
}

// c6line is one logical line of a canonically laid out program.
type c6line struct {
	level int
	text  string
	opens bool // ends with a header colon and a block follows
}

func c6linesOf(toks []c6tok) []c6line {
	var out []c6line
	level := 0
	start := 0
	for i, t := range toks {
		switch t.cls {
		case c6Ind:
			level++
			start = i + 1
		case c6Ded:
			level--
			start = i + 1
		case c6NL:
			seg := toks[start : i+1]
			txt := strings.TrimSuffix(c6render(seg, &c6layout{}), "\n")
			opens := i+1 < len(toks) && toks[i+1].cls == c6Ind
			out = append(out, c6line{level, txt, opens})
			start = i + 1
		}
	}
	return out
}

func c6joinLines(ls []c6line) string {
	var b strings.Builder
	for _, l := range ls {
		b.WriteString(strings.Repeat("    ", l.level))
		b.WriteString(l.text)
		b.WriteByte('\n')
	}
	return b.String()
}

func c6indentFrag(frag string, level int) []c6line {
	var out []c6line
	for _, ln := range strings.Split(frag, "\n") {
		extra := 0
		for strings.HasPrefix(ln, "    ") {
			ln = ln[4:]
			extra++
		}
		out = append(out, c6line{level + extra, ln, false})
	}
	return out
}

var c6binaryOnly = []string{"/", "%", "|", "&", "^", "//", "<<", ">>", "==", "!=", "<", ">=", "and", "or", "in", "is", "*", "**"}
var c6keywordsAsNames = []string{"None", "True", "False", "if", "class", "lambda", "in", "not", "pass", "import", "yield", "else", "is"}
var c6nonTargets = []string{"1", "1.5", "'s'", "b's'", "None", "True", "...", "f()", "a + b", "-a", "not a", "a and b", "a < b",
	"a if b else c", "lambda: a", "{}", "{a}", "{a: b}", "[a for a in b]", "{a for a in b}", "{a: b for a in c}", "(a for a in b)",
	"(yield)", "(yield a)", "a.b()", "a[0]()", "(a + b)", "(1)", "[a, 1]", "(a, f())", "2j", "a ** b", "~a", "a or b", "a is b", "a.b.c()"}

// c6TokenInjections applies every token-level injector at every applicable position.
func c6TokenInjections(toks []c6tok, emit func(c6injection)) {
	render := func(t []c6tok) string { return c6render(t, &c6layout{}) }
	without := func(i int) []c6tok {
		o := append([]c6tok{}, toks[:i]...)
		return append(o, toks[i+1:]...)
	}
	withAt := func(i int, t c6tok) []c6tok {
		o := append([]c6tok{}, toks[:i]...)
		o = append(o, t)
		o = append(o, toks[i:]...)
		if i < len(toks) {
			o[i+1].sp = true // never let the injected token merge with its successor
		}
		return o
	}
	replaced := func(i int, t c6tok) []c6tok {
		o := append([]c6tok{}, toks...)
		o[i] = t
		return o
	}
	quotes := 0
	for _, t := range toks {
		if t.cls == c6Str {
			quotes++
		}
	}
	for i, t := range toks {
		real := t.cls != c6NL && t.cls != c6Ind && t.cls != c6Ded
		// unbalanced bracket: one bracket token removed (the bracket count of the text no
		// longer balances; brackets never occur inside the canonical string tokens)
		if t.tag == c6tOpen || t.tag == c6tClose {
			emit(c6injection{"del-bracket", t.s, false, render(without(i)), false})
		}
		// unbalanced bracket: one bracket token inserted before any token / at a line end
		if real || t.cls == c6NL {
			for _, br := range []string{"(", ")", "[", "]", "{", "}"} {
				tag := uint8(c6tOpen)
				if br == ")" || br == "]" || br == "}" {
					tag = c6tClose
				}
				emit(c6injection{"ins-bracket", br, false, render(withAt(i, c6tok{br, c6Op, true, tag})), false})
			}
			// a character that is no token of the language
			for _, ch := range []string{"$", "?", "!", "`"} {
				emit(c6injection{"stray-char", ch, false, render(withAt(i, c6tok{ch, c6Op, true, c6tNone})), false})
			}
		}
		// a backslash followed by something other than a newline
		if real && i > 0 && toks[i-1].cls != c6NL && toks[i-1].cls != c6Ind && toks[i-1].cls != c6Ded {
			emit(c6injection{"backslash-not-eol", "\\", false, render(withAt(i, c6tok{"\\", c6Op, true, c6tNone})), false})
		}
		// missing colon after a compound statement header
		if t.tag == c6tHdrColon {
			emit(c6injection{"del-header-colon", ":", false, render(without(i)), false})
			// and a doubled one
			emit(c6injection{"double-header-colon", "::", false, render(withAt(i, c6tok{":", c6Op, false, c6tNone})), false})
		}
		// the 'in' of a for statement / comprehension removed
		if t.tag == c6tForIn {
			emit(c6injection{"del-for-in", "in", false, render(without(i)), false})
		}
		// an operator that cannot start an operand right after an operator
		if t.tag == c6tBinop || t.tag == c6tCmpop || t.tag == c6tUnop || t.tag == c6tBoolop || t.tag == c6tNot {
			for _, op := range c6binaryOnly {
				cls := uint8(c6Op)
				if op[0] >= 'a' && op[0] <= 'z' {
					cls = c6Word
				}
				emit(c6injection{"operator-after-operator", op, false, render(withAt(i+1, c6tok{op, cls, true, c6tNone})), false})
			}
		}
		// 'not' where only an arithmetic operand may follow
		if t.tag == c6tBinop || t.tag == c6tUnop || (t.tag == c6tCmpop && t.s != "is" && t.s != "not") {
			emit(c6injection{"not-after-arith-operator", "not", false, render(withAt(i+1, c6tok{"not", c6Word, true, c6tNone})), false})
		}
		// a keyword where a name must be bound / an attribute or keyword name must stand
		if t.tag == c6tBindName || t.tag == c6tAttr || t.tag == c6tKwName || t.tag == c6tDefName {
			for _, kw := range c6keywordsAsNames {
				emit(c6injection{"keyword-as-name", kw, true, render(replaced(i, c6tok{kw, c6Word, t.sp, c6tNone})), false})
			}
		}
		// an expression that is no assignment target where a name is bound
		if t.tag == c6tBindName {
			for _, nt := range c6nonTargets {
				emit(c6injection{"non-target", nt, true, render(replaced(i, c6tok{nt, c6Word, t.sp, c6tNone})), false})
			}
		}
		// unterminated string: the closing quote removed (the canonical programs contain
		// no other quote characters, backslashes or comments, so the line keeps an odd
		// number of quote characters)
		if t.cls == c6Str && quotes == 1 {
			emit(c6injection{"unterminated-string", "'", false, render(replaced(i, c6tok{t.s[:len(t.s)-1], c6Str, t.sp, c6tNone})), false})
			emit(c6injection{"unterminated-triple-string", "'''", false, render(replaced(i, c6tok{"''" + t.s[:len(t.s)-1], c6Str, t.sp, c6tNone})), false})
		}
		// malformed number in place of a number
		if t.cls == c6Num {
			for _, bad := range []string{"012", "0777", "09", "00012", "0x", "0xg", "0b2", "0o8", "0b", "0o", "1__0", "1e", "1e+", "1.2.3", "1..2", "1a", "0x1g", "1.5j5", "1jj", "10L", "1e5e5", "0_7"} {
				emit(c6injection{"bad-number", bad, false, render(replaced(i, c6tok{bad, c6Num, t.sp, c6tNone})), false})
			}
		}
		// an invalid expression in place of a name that is read
		if t.tag == c6tLoadName {
			for _, f := range c6BadExprs {
				emit(c6injection{"bad-expr", f.text, f.sem, render(replaced(i, c6tok{f.text, c6Word, t.sp, c6tNone})), f.only34})
			}
		}
	}
}

// c6LineInjections applies the line-level injectors (indentation, orphan clauses,
// invalid statements) at every applicable line.
func c6LineInjections(lines []c6line, frags []c6frag, emit func(c6injection)) {
	text := func(ls []c6line, over map[int]string) string {
		var b strings.Builder
		for i, l := range ls {
			if o, ok := over[i]; ok {
				b.WriteString(o)
			} else {
				b.WriteString(strings.Repeat("    ", l.level))
			}
			b.WriteString(l.text)
			b.WriteByte('\n')
		}
		return b.String()
	}
	ind := func(n int) string { return strings.Repeat(" ", n) }
	for i, l := range lines {
		col := 4 * l.level
		first := i == 0 || lines[i-1].opens
		if !first {
			// dedent to a column that is no enclosing block's column
			if l.level >= 1 {
				emit(c6injection{"dedent-unknown-column", "-2", false, text(lines, map[int]string{i: ind(col - 2)}), false})
				emit(c6injection{"dedent-unknown-column", "-1", false, text(lines, map[int]string{i: ind(col - 1)}), false})
			}
			// indentation grows although no block was opened
			emit(c6injection{"unexpected-indent", "+2", false, text(lines, map[int]string{i: ind(col + 2)}), false})
			emit(c6injection{"unexpected-indent", "+1", false, text(lines, map[int]string{i: ind(col + 1)}), false})
			emit(c6injection{"tab-space-mix", "spaces-then-tab", false, text(lines, map[int]string{i: ind(col) + "\t"}), false})
		} else if i == 0 {
			emit(c6injection{"unexpected-indent", "first-line", false, text(lines, map[int]string{i: "  "}), false})
			emit(c6injection{"unexpected-indent", "first-line-tab", false, text(lines, map[int]string{i: "\t"}), false})
		} else {
			// the first line of a block is not indented more than its header
			emit(c6injection{"missing-indent", "=", false, text(lines, map[int]string{i: ind(col - 4)}), false})
			if l.level >= 2 {
				emit(c6injection{"missing-indent", "<", false, text(lines, map[int]string{i: ind(col - 6)}), false})
			}
		}
		// tabs and spaces mixed so that the block structure depends on the tab size
		// (TabError): a later line of a block spelled with a tab where the previous line
		// of the same block used spaces
		if !first && l.level >= 1 && lines[i-1].level > l.level {
			// a dedent to an enclosing level spelled with tabs where that level used spaces
			o := map[int]string{}
			for j := range lines {
				o[j] = strings.Repeat("        ", lines[j].level)
			}
			o[i] = strings.Repeat("\t", l.level)
			emit(c6injection{"tab-space-mix", "8sp-then-tab-dedent", false, text(lines, o), false})
		}
		if !first && l.level >= 1 && lines[i-1].level == l.level {
			// previous line: 8*level spaces, this line: level tabs -> same column only for tab size 8
			o := map[int]string{}
			for j := range lines {
				o[j] = strings.Repeat("        ", lines[j].level)
			}
			o[i] = strings.Repeat("\t", l.level)
			emit(c6injection{"tab-space-mix", "8sp-then-tab", false, text(lines, o), false})
			// previous line: 4*level spaces, this line: level tabs -> indent or dedent depending on tab size
			emit(c6injection{"tab-space-mix", "4sp-then-tab", false, text(lines, map[int]string{i: strings.Repeat("\t", l.level)}), false})
		}
		// an orphan clause as the first statement of a block
		if first {
			for _, cl := range []string{"else:\n    pass", "elif a:\n    pass", "except:\n    pass", "finally:\n    pass", "except a as b:\n    pass", "else: pass"} {
				ls := append([]c6line{}, lines[:i]...)
				ls = append(ls, c6indentFrag(cl, l.level)...)
				ls = append(ls, lines[i:]...)
				emit(c6injection{"orphan-clause", strings.SplitN(cl, "\n", 2)[0], false, text(ls, nil), false})
			}
		}
		// an invalid statement before this line
		for _, f := range frags {
			if f.ctx != "" {
				continue
			}
			ls := append([]c6line{}, lines[:i]...)
			ls = append(ls, c6indentFrag(f.text, l.level)...)
			ls = append(ls, lines[i:]...)
			emit(c6injection{"bad-stmt", f.text, f.sem, text(ls, nil), f.only34})
		}
	}
	// at the end of the program
	for _, f := range frags {
		ls := append([]c6line{}, lines...)
		ls = append(ls, c6indentFrag(f.text, 0)...)
		emit(c6injection{"bad-stmt-at-end", f.text, f.sem, text(ls, nil), f.only34})
	}
}

type c6frag struct {
	text   string
	sem    bool   // enforced after the grammar in CPython
	only34 bool   // CPython 3.11 accepts it; invalid in 3.4 (not cross-checkable with python3)
	ctx    string // "end": only invalid when nothing that continues it follows
}

func c6f(sem bool, texts ...string) []c6frag {
	var out []c6frag
	for _, t := range texts {
		out = append(out, c6frag{text: t, sem: sem})
	}
	return out
}
func c6f34(sem bool, texts ...string) []c6frag {
	var out []c6frag
	for _, t := range texts {
		out = append(out, c6frag{text: t, sem: sem, only34: true})
	}
	return out
}

// c6BadExprs: expressions that are invalid wherever an expression may stand.
var c6BadExprs = func() []c6frag {
	var o []c6frag
	o = append(o, c6f(false,
		"f(**k, z)", "f(**k, *z)", "f(,)", "f(a,,b)", "f(a b)", "f(=1)", "f(k=)", "f(*)", "f(**)",
		"(a +)", "(+)", "(a + * b)", "(a b)", "(a < > b)", "(a <> b)", "(a ! b)", "(a = b)", "(a if b)", "(a else b)", "(if a else b)",
		"(a if else b)", "(lambda)", "(lambda: )", "(lambda **k, a: 0)", "(lambda (a): 0)", "(lambda a=: 0)", "(lambda *a, *b: 0)",
		"[a for]", "[for a in b]", "[a for a in]", "[a for a b]", "[a for a in b if]", "[a for a in b, c]", "{a: b, c}", "{a, b: c}", "{a: }", "{: b}",
		"{a: b for}", "x[]", "x[1:2:3:4]", "x[1 2]", "(x.)", "(x.1)", "x..y", "x.(y)", "x.'y'",
		"(a not b)", "(a is is b)", "(not)", "(a not)", "(a in)", "(in a)", "(and a)", "(yield from)", "(yield from a, b)",
		"(,)", "[,]", "{,}", "(a,,)", "[a,,b]", "(a for a in b for)", "(. .)", "(a ** ** b)", "(a == == b)", "(a or or b)",
		"(a if b else)", "(a lambda: b)", "(a + lambda: b)", "(not lambda: a)", "(a if lambda: b else c)", "(a if b if c else d else e)",
	)...)
	// enforced by ast.c / compile.c in CPython 3.4
	o = append(o, c6f(true,
		"f(k=1, z)", "f(x for x in y, 1)", "f(1, x for x in y)", "f(k=1, k=2)", "f(1=2)", "f(a.b=1)", "f(a+b=1)", "f(None=1)", "(lambda a, b=1, c: 0)", "(lambda a=1, b: 0)",
		"(lambda *: 0)", "(lambda *, **k: 0)", "(lambda a, a: 0)", "[*a for a in b]", "(*a)", "f(lambda: 1=2)",
	)...)
	// literals
	o = append(o, c6f(false, "012", "0777", "00012", "0x", "0b2", "0o8", "1__0", "1e", "1e+", "1.2.3", "1a", "10L", "0_7",
		"'a' b'b'", "b'a' 'b'", "rb'a' r'b'", "'a' 'b' b'c'", "ur'a'", "bu'a'", "ub'a'", "rr'a'", "bb'a'", "rbr'a'",
		"'\\x4'", "'\\xg1'", "'\\x+1'", "'\\x 1'", "'\\x'", "'\\u12'", "'\\u123g'", "'\\u+123'", "'\\U0000123'", "'\\U00110000'", "'\\Uffffffff'", "'\\U-0000041'",
		"b'\\x4'", "b'\\xzz'", "b'\\x'", "b'é'", "b'''€'''", "br'é'",
	)...)
	o = append(o, c6f34(false, "f(*a, z)", "f(**k, l=1)", "f(*a, *b)", "f(*a,)", "f(**k,)", "(a := b)", "(a @ b)", "(lambda **k,: 0)", "(lambda *a,: 0)",
		"{**a}", "1_000", "f'a'", "f(**a, **b)", "{1: 2, **a}", "0b1_0", "0x_f")...)
	o = append(o, c6f34(true, "[*a]", "{*a}", "(*a,)", "(1, *a)", "[*a, *b]")...)
	return o
}()

// c6BadStmts: logical lines / compound statements that are invalid wherever a statement
// may stand. Lines of one fragment are separated by \n; four spaces = one block level.
var c6BadStmts = func() []c6frag {
	var o []c6frag
	o = append(o, c6f(false,
		"x = = 1", "= 1", "x =", "x +", "x + = 1", "a b", "print a", "exec a", "a = 1 b = 2", "pass pass", "pass 1", "break 1", "continue a",
		"return return", "del", "del a,, b", "assert", "assert a, b, c", "assert a,", "raise a from", "raise from b", "raise a, b", "raise a from b from c",
		"import", "import a as", "import a as b.c", "import a.", "import .a", "import a,", "import a b", "import *", "import (a)",
		"from a import", "from a import b.c", "from a import (*)", "from a import (b", "from a import ()", "from a import b as", "from import a",
		"from a.b. import c", "from a import *, b", "from a import * as b", "from a import b c", "from . import", "from .a", "from a",
		"global", "global a.b", "global a,", "global 1", "global (a)", "nonlocal", "nonlocal a.b", "nonlocal a,",
		";", "pass;;", "x = 1;; y = 2", "; x", "x = 1 if 2", "x = 1 else 2", "a += b += c", "a = b += c", "a += b = c", "a += ", "+= a",
		"x = yield from", "x = *", "x = **a", "x = a,, b", "x = (", "x = )", "x = [", "x = {", "x = a[", "x = f(", "x = (a]", "x = [a)", "x = {a)", "x = (a}",
		"x = 'abc", "x = \"abc", "x = '''abc", "x = \"\"\"abc", "x = 'abc\"", "x = a $ b", "x = a ? b", "x = `a`", "x = a\\ b", "x = a €",
		"if:\n    pass", "if a\n    pass", "if a: if b: pass", "if a: pass else: pass", "while:\n    pass", "while a\n    pass", "for x in:\n    pass", "for in y:\n    pass",
		"for x y:\n    pass", "for x in y\n    pass", "for x in y: pass else: pass", "for:\n    pass", "for x:\n    pass",
		"def f:\n    pass", "def f(:\n    pass", "def f()\n    pass", "def (): pass", "def f(**k, a): pass", "def f(*a, *b): pass", "def f(a,, b): pass",
		"def f(1): pass", "def f(a.b): pass", "def f((a)): pass", "def f((a, b)): pass", "def f(a=): pass", "def f(=1): pass", "def f(a b): pass",
		"def f(a: ): pass", "def f() -> : pass", "def f() - > x: pass", "def f(None): pass", "def f(a, *, b, *c): pass", "def f(*, a, *, b): pass", "def f(): pass pass",
		"def f(a, **k, b): pass", "def 1(): pass", "def f.g(): pass", "def f()(): pass",
		"class:\n    pass", "class C(:\n    pass", "class C() pass", "class 1: pass", "class C.D: pass", "class C(**k, z): pass", "class C(a b): pass",
		"with:\n    pass", "with a as: pass", "with a, : pass", "with a as b, : pass", "with a b: pass", "with a as b c: pass", "with a\n    pass",
		"try:\n    pass\nexcept a as 1:\n    pass", "try:\n    pass\nexcept as e:\n    pass", "try:\n    pass\nexcept a as b.c:\n    pass",
		"try:\n    pass\nexcept a, b:\n    pass", "try:\n    pass\nfinally:\n    pass\nexcept:\n    pass", "try:\n    pass\nelse:\n    pass\nfinally:\n    pass",
		"try:\n    pass\nexcept:\n    pass\nelse:\n    pass\nelse:\n    pass", "try:\n    pass\nfinally:\n    pass\nfinally:\n    pass",
		"try:\n    pass\nexcept:\n    pass\nfinally:\n    pass\nelse:\n    pass", "try\n    pass\nexcept:\n    pass", "try: pass except: pass",
		"try:\n    pass\nexcept a as:\n    pass", "try:\n    pass\nexcept a b:\n    pass",
		"if a:\n    pass\nelse:\n    pass\nelse:\n    pass", "if a:\n    pass\nelse:\n    pass\nelif b:\n    pass", "while a:\n    pass\nelse:\n    pass\nelse:\n    pass",
		"for x in y:\n    pass\nelse:\n    pass\nelse:\n    pass", "while a:\n    pass\nelif b:\n    pass", "for x in y:\n    pass\nelif b:\n    pass",
		"if a:\n    pass\nelif:\n    pass", "if a:\n    pass\nelse b:\n    pass", "if a:\n    pass\nexcept:\n    pass", "while a:\n    pass\nfinally:\n    pass",
		"@\ndef f(): pass", "@a b\ndef f(): pass", "@a.\ndef f(): pass", "@a\n@\ndef f(): pass", "@a\npass", "@a\nx = 1", "@a def f(): pass", "@a\nif b: pass",
		"@a\nimport b", "@a(\ndef f(): pass",
		"if a:\n    pass\n  b", "if a:\npass", "if a:\n    b\n        c", "if a:\n        b\n    c",
	)...)
	o = append(o, c6f(true,
		"1 = x", "'s' = x", "f() = x", "a + b = x", "-a = x", "None = x", "True = x", "... = x", "(a, 1) = x", "[a, f()] = x", "x = 1 = 2", "lambda: x = 1",
		"a, b += 1", "[a] += 1", "(a, b) += 1", "f() += 1", "1 += 1", "None += 1", "a + b += 1", "yield = 1", "(yield) = 1", "x = yield = 1", "a if b else c = 1", "a < b = 1",
		"a and b = 1", "not a = 1", "{} = 1", "{a} = 1", "[x for x in y] = 1", "(x for x in y) = 1", "*a, *b = c", "*a = c", "a, *b, *c = d", "[*a, *b] = c",
		"del 1", "del f()", "del a + b", "del (a, 1)", "del None", "del a.b()", "del [a, 1]", "del (yield)", "del lambda: a", "del -a", "del {}",
		"for 1 in y: pass", "for f() in y: pass", "for a + b in y: pass", "for None in y: pass", "for (a, 1) in y: pass", "for a.b() in y: pass",
		"with a as 1: pass", "with a as f(): pass", "with a as None: pass", "with a as (b, 1): pass", "with a as b + c: pass",
		"x = [a for 1 in b]", "x = [a for f() in b]", "x = {a for None in b}", "x = (a for b.c() in d)",
		"from a import b,", "from a import b, c,", "from .a import b as c,",
		"def f(a, b=1, c): pass", "def f(a=1, b): pass", "def f(a=1, b, *c): pass", "def f(*): pass", "def f(*, **k): pass", "def f(a, *): pass", "def f(a, a): pass",
		"def f(a, *a): pass", "def f(a, **a): pass", "def f(*, a, a): pass", "def f(a=1, b=2, c, d=3): pass",
		"class C(k=1, z): pass", "class C(k=1, k=2): pass", "class C(x for x in y, z): pass",
		"try:\n    pass\nexcept:\n    pass\nexcept a:\n    pass", "try:\n    pass\nexcept:\n    pass\nexcept:\n    pass",
	)...)
	o = append(o, c6f34(false, "x: int = 1", "x: int", "def f(*a,): pass", "def f(**k,): pass", "def f(a, /): pass", "def f(a, *, b,): pass",
		"@a()()\ndef f(): pass", "@1\ndef f(): pass", "@'a'\ndef f(): pass", "@a[0]\ndef f(): pass", "@(a)\ndef f(): pass", "@a + b\ndef f(): pass", "x = a @ b", "x @= a", "class C(*a, b): pass",
		"class C(**k, l=1): pass", "with (a as b): pass", "with (a as b, c as d): pass", "x = (y := 1)",
		"x = 1_0", "try:\n    pass\nexcept* a:\n    pass", "match a:\n    case b:\n        pass", "def f[T](): pass", "type X = int")...)
	o = append(o, c6f34(true, "() = x", "x = *a, b", "x = *a,", "for x in *a, b: pass", "return *a, b", "del ()", "for () in y: pass", "x = [*a, b]", "x = a, *b")...)
	// only invalid when nothing follows that completes them
	o = append(o, c6frag{text: "try:\n    pass", ctx: "end"}, c6frag{text: "try:\n    pass\nelse:\n    pass", ctx: "end"},
		c6frag{text: "if a:", ctx: "end"}, c6frag{text: "def f():", ctx: "end"}, c6frag{text: "class C:", ctx: "end"}, c6frag{text: "while a:", ctx: "end"},
		c6frag{text: "for x in y:", ctx: "end"}, c6frag{text: "with a:", ctx: "end"}, c6frag{text: "try:", ctx: "end"}, c6frag{text: "@a", ctx: "end"},
		c6frag{text: "try:\n    pass\nexcept:", ctx: "end"}, c6frag{text: "if a:\n    pass\nelse:", ctx: "end"}, c6frag{text: "x = (a,", ctx: "end"},
		c6frag{text: "x = '''abc", ctx: "end"}, c6frag{text: "x = a + \\", ctx: "end"})
	return o
}()

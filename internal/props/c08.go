//go:build verifov

package props

import (
	"fmt"
	"os"
	"path/filepath"
	"strings"

	"github.com/go-python/gpython/py"
	"verif/explore"
	"verif/internal/core"
	"verif/internal/harness"
	"verif/verifrt"
)

// C08: interpreter contexts are isolated and safe to run concurrently.

type c08prog struct {
	name string
	src  string
}

// Every program first READS a piece of state that another context might have touched
// (logging what it sees), then WRITES it, then reads it back.
var c08Programs = []c08prog{
	{"global", "try:\n    vh.log(('pre', x))\nexcept NameError:\n    vh.log(('pre', 'unset'))\nx = TAG\nx = x + 1\nvh.log(('post', x))\n"},
	{"syspath", "import sys\nvh.log(('pre', list(sys.path)))\nsys.path.append('p' + str(TAG))\nvh.log(('post', list(sys.path)))\n"},
	{"sysargv", "import sys\nvh.log(('pre', list(sys.argv)))\nsys.argv.append(str(TAG))\nsys.argv[0] = 'prog' + str(TAG)\nvh.log(('post', list(sys.argv)))\n"},
	{"builtin", "import builtins\nvh.log(('pre', len([1, 2])))\ndef mylen(x):\n    return TAG\nbuiltins.len = mylen\nvh.log(('post', len([1, 2])))\n"},
	{"gomodattr", "import math\nvh.log(('pre', math.pi > 3.1, math.pi < 3.2))\nmath.pi = TAG\nvh.log(('post', math.pi))\n"},
	{"gomodnew", "import math\ntry:\n    vh.log(('pre', math.leak))\nexcept AttributeError:\n    vh.log(('pre', 'unset'))\nmath.leak = TAG\nvh.log(('post', math.leak))\n"},
	{"srcmodule", "import c08mod\nvh.log(('pre', c08mod.counter, list(c08mod.items)))\nc08mod.counter = c08mod.counter + TAG\nc08mod.items.append(TAG)\nc08mod.bump()\nvh.log(('post', c08mod.counter, list(c08mod.items)))\n"},
	{"classattr", "class A:\n    v = 1\n    def get(self):\n        return self.v\nvh.log(('pre', A.v))\nA.v = TAG\nvh.log(('post', A().get()))\n"},
	{"funcdefault", "def f(a, acc=[]):\n    acc.append(a)\n    return list(acc)\nvh.log(('pre', f(0)))\nvh.log(('post', f(TAG)))\n"},
	{"vhlogown", "vh.log(('pre', TAG))\nimport vh as vh2\nvh2.log(('post', TAG))\n"},
	{"closuregen", "def mk(n):\n    def g():\n        i = 0\n        while i < 2:\n            yield n + i\n            i = i + 1\n    return g\nvh.log(('pre', list(mk(TAG)())))\nvh.log(('post', sum(mk(TAG + 10)())))\n"},
	{"typedict", "try:\n    vh.log(('pre', int.c08leak))\nexcept AttributeError:\n    vh.log(('pre', 'unset'))\ntry:\n    int.c08leak = TAG\n    vh.log(('post', 'set'))\nexcept (TypeError, AttributeError):\n    vh.log(('post', 'refused'))\n"},
	{"filemodule", "import c08file\nvh.log(('pre', c08file.NAME, c08file.count))\nc08file.count = c08file.count + TAG\nimport c08file as again\nvh.log(('post', again.NAME, again.count))\n"},
	{"excattr", "for mk in (lambda: 1 / 0, lambda: 1.5 // 0.0, lambda: 1 << -1, lambda: 2 % 0, lambda: int('x')):\n    try:\n        mk()\n    except Exception as e:\n        vh.log(('pre', isinstance(getattr(e, 'c08tag', 'unset'), int)))\n        try:\n            e.c08tag = TAG\n        except (AttributeError, TypeError):\n            pass\n"},
	{"syntaxerr", "vh.log(('pre', TAG))\ncompile('if 1:\\n\\tx = 1\\n        y = 2\\n', 'file' + str(TAG) + '.py', 'exec')\n"},
	{"indenterr", "vh.log(('pre', TAG))\ncompile('\\n' * TAG + '  x = 1\\n', 'ind' + str(TAG) + '.py', 'exec')\n"},
	{"environ", "import os\nvh.log(('pre', os.environ.get('C08_VAR', 'unset')))\nos.environ['C08_VAR'] = str(TAG)\nvh.log(('post', os.environ.get('C08_VAR')))\n"},
	// how deep a context may recurse is the context's own business: the depth reached before and
	// after the limit is changed (where the interpreter lets a program change it)
	{"reclimit", "import sys\ndef d(n):\n    try:\n        return d(n + 1)\n    except RuntimeError:\n        return n\nvh.log(('pre', d(0) > 500))\ntry:\n    sys.setrecursionlimit(100 + TAG)\n    vh.log(('post', sys.getrecursionlimit(), d(0) < 200))\nexcept NotImplementedError:\n    vh.log(('post', 'unsupported'))\n"},
	// the namespace of a built-in type, reached as a mapping instead of through setattr
	{"typedictview", "for T in (int, str, list):\n    d = getattr(T, '__dict__', None)\n    if d is None:\n        vh.log(('pre', 'noview'))\n        continue\n    vh.log(('pre', 'c08view' in d))\n    try:\n        d['c08view'] = TAG\n        vh.log(('post', 'set'))\n    except TypeError:\n        vh.log(('post', 'refused'))\n"},
	{"reclimitlite", "import sys\ntry:\n    vh.log(('pre', sys.getrecursionlimit() >= 500))\n    sys.setrecursionlimit(100 + TAG)\n    vh.log(('post', sys.getrecursionlimit()))\nexcept NotImplementedError:\n    vh.log(('post', 'unsupported'))\n"},
}

// c08SeqOnly: programs left out of the instruction-level interleaving part (a recursion to the
// limit is ~10^4 scheduling points per run; its interleavings do not fit the budget)
var c08SeqOnly = map[string]bool{"reclimit": true}

func init() {
	py.RegisterModule(&py.ModuleImpl{
		Info:    py.ModuleInfo{Name: "c08mod", FileDesc: "<c08mod>"},
		CodeSrc: "counter = 0\nitems = []\ndef bump():\n    global counter\n    counter = counter + 1000\n",
	})
}

type c08run struct {
	err  error // what RunCode returned (kept: the embedder may look at it after other contexts ran)
	ctx  py.Context
	vh   *py.Module
	mod  *py.Module
	code *py.Code
	log  *harness.Log
}

var c08codes = map[string]*py.Code{}

// one code object per program, shared by every context that runs it
func c08code(p c08prog) *py.Code {
	if c, ok := c08codes[p.name]; ok {
		return c
	}
	c, err := py.Compile(p.src, "<"+p.name+">", py.ExecMode, 0, true)
	if err != nil {
		panic("c08: " + p.name + ": " + err.Error())
	}
	c08codes[p.name] = c
	return c
}

// c08Scrub removes what earlier cases may have left in process-wide objects, so that
// every case starts from the same process state and a leak is attributed to the case
// that causes it (and reproduces when that case is replayed alone).
func c08Scrub() {
	delete(py.IntType.Dict, "c08leak")
	if impl := py.GetModuleImpl("os"); impl != nil {
		if env, ok := impl.Globals["environ"].(py.StringDict); ok {
			delete(env, "C08_VAR")
		}
	}
}

// c08Opts: the context options under test. "set": one search path and argv[0]; "empty": the zero
// ContextOpts (contexts created without search paths or arguments must be isolated too).
var c08Opts = "set"

// c08Dirs: one directory per tag, each holding its own c08file.py (same module name,
// different contents): the search path of the context with that tag.
var c08Root string

func c08Dir(tag int) string {
	if c08Root == "" {
		d, err := os.MkdirTemp("", "verif-c08-")
		if err != nil {
			panic(err)
		}
		c08Root = d
		for t := 1; t <= 3; t++ {
			sub := filepath.Join(d, "t"+itoa(t))
			if err := os.MkdirAll(sub, 0o755); err != nil {
				panic(err)
			}
			if err := os.WriteFile(filepath.Join(sub, "c08file.py"), []byte("NAME = "+itoa(t*111)+"\ncount = "+itoa(t)+"\n"), 0o644); err != nil {
				panic(err)
			}
		}
	}
	return filepath.Join(c08Root, "t"+itoa(tag))
}

func c08prepare(p c08prog, tag int) *c08run {
	opts := py.ContextOpts{SysArgs: []string{"prog"}, SysPaths: []string{c08Dir(tag)}}
	if c08Opts == "empty" {
		opts = py.ContextOpts{}
	}
	ctx := py.NewContext(opts)
	vhm, err := ctx.ModuleInit(py.GetModuleImpl("vh"))
	if err != nil {
		panic(err)
	}
	lg := &harness.Log{}
	vhm.Globals["__vhlog__"] = lg
	impl := &py.ModuleImpl{Info: py.ModuleInfo{Name: "__main__", FileDesc: "<" + p.name + ">"}, Globals: py.StringDict{"vh": vhm, "TAG": py.Int(tag)}}
	mod, err := ctx.Store().NewModule(ctx, impl)
	if err != nil {
		panic(err)
	}
	return &c08run{ctx: ctx, vh: vhm, mod: mod, code: c08code(p), log: lg}
}

func (r *c08run) exec() string {
	_, err := r.ctx.RunCode(r.code, r.mod.Globals, r.mod.Globals, nil)
	r.err = err
	s := strings.Join(r.log.Entries, ";")
	if err != nil {
		t, _, _, _ := harness.ExcInfo(err)
		s += " !" + t
	}
	return s
}

// where: for an escaping syntax error, the file and line the error object names - read when
// the embedder gets round to it, possibly after other contexts have run
func (r *c08run) where() string {
	if r.err == nil {
		return ""
	}
	var ex *py.Exception
	switch e := r.err.(type) {
	case py.ExceptionInfo:
		ex, _ = e.Value.(*py.Exception)
	case *py.ExceptionInfo:
		ex, _ = e.Value.(*py.Exception)
	case *py.Exception:
		ex = e
	}
	if ex == nil || ex.Dict == nil {
		return ""
	}
	fn, ok1 := ex.Dict["filename"]
	ln, ok2 := ex.Dict["lineno"]
	if !ok1 && !ok2 {
		return ""
	}
	return " @" + harness.Canon(fn) + ":" + harness.Canon(ln)
}

func c08Run(rc *core.RunCtx) {
	defer func() {
		if c08Root != "" {
			os.RemoveAll(c08Root)
			c08Root = ""
		}
	}()
	P := c08Programs
	// Expected log of program p with tag in a context nobody else can influence.
	expect := func(p c08prog, tag int) string {
		switch p.name {
		default:
			return c08ExpectedLog(p, tag)
		}
	}
	// (a) sequential leak: all ordered pairs (thorough: triples) in distinct contexts
	rc.Part = "sequential"
	for _, optv := range []string{"set", "empty"} {
		for _, a := range P {
			for _, b := range P {
				if rc.Expired() || rc.Done() {
					return
				}
				if !rc.Take() {
					continue
				}
				a, b := a, b
				optv := optv
				fields := core.Fields{"part": "sequential", "first": a.name, "second": b.name, "opts": optv}
				input := "context 1 runs " + a.name + " (TAG=1), then context 2 runs " + b.name + " (TAG=2); ContextOpts " + optv
				rc.Guard(fields, func() string { return input }, func() {
					c08Opts = optv
					defer func() { c08Opts = "set" }()
					c08Scrub()
					r1 := c08prepare(a, 1)
					l1 := r1.exec()
					r2 := c08prepare(b, 2)
					l2 := r2.exec()
					l1, l2 = l1+r1.where(), l2+r2.where()
					r1.ctx.Close()
					r2.ctx.Close()
					rc.Eval("sequential", "seq:"+optv+":"+a.name+">"+b.name)
					if rc.WantSample() && rc.Index()%29 == 0 {
						rc.Sample(map[string]string{"part": "sequential", "first": a.name, "second": b.name, "second_log": l2})
					}
					if !c08Match(l1, expect(a, 1)) {
						rc.Deviate(core.Deviation{Fields: core.Fields{"part": "sequential", "first": "-", "second": a.name}, Input: a.name + " alone", Expected: expect(a, 1), Observed: l1, Sig: "leak-into:" + a.name})
					}
					if !c08Match(l2, expect(b, 2)) {
						rc.Deviate(core.Deviation{Fields: fields, Input: input + "\n" + b.src, Expected: expect(b, 2), Observed: l2, Sig: "leak-into:" + b.name})
					}
				})
			}
		}
	}
	if !rc.Quick() {
		for _, a := range P {
			for _, b := range P {
				for _, c := range P {
					if rc.Expired() || rc.Done() {
						return
					}
					if !rc.Take() {
						continue
					}
					a, b, c := a, b, c
					fields := core.Fields{"part": "sequential3", "first": a.name + "," + b.name, "second": c.name}
					input := "contexts run " + a.name + ", " + b.name + ", then " + c.name + " (TAG=3)"
					rc.Guard(fields, func() string { return input }, func() {
						c08Scrub()
						r1 := c08prepare(a, 1)
						r1.exec()
						r2 := c08prepare(b, 2)
						r2.exec()
						r3 := c08prepare(c, 3)
						l3 := r3.exec()
						l3 += r3.where()
						r1.ctx.Close()
						r2.ctx.Close()
						r3.ctx.Close()
						rc.Eval("sequential3", "seq3:"+a.name+">"+b.name+">"+c.name)
						if !c08Match(l3, expect(c, 3)) {
							rc.Deviate(core.Deviation{Fields: fields, Input: input, Expected: expect(c, 3), Observed: l3, Sig: "leak-into:" + c.name})
						}
					})
				}
			}
		}
	}
	// (b) every interleaving of two contexts at VM-instruction granularity
	rc.Part = "interleaved"
	bounds := []int{1}
	if !rc.Quick() {
		bounds = []int{1, 2}
	}
	for _, bound := range bounds {
		for _, a := range P {
			for _, b := range P {
				if rc.Expired() || rc.Done() {
					return
				}
				if !rc.Take() {
					continue
				}
				if c08SeqOnly[a.name] || c08SeqOnly[b.name] {
					continue
				}
				a, b := a, b
				fields := core.Fields{"part": "interleaved", "first": a.name, "second": b.name, "bound": itoa(bound)}
				input := fmt.Sprintf("goroutine 1: context 1 runs %s (TAG=1) || goroutine 2: context 2 runs %s (TAG=2); all interleavings at VM instructions, preemption bound %d", a.name, b.name, bound)
				if rc.Describe(fields, input) {
					continue
				}
				e := explore.New(bound)
				e.Stop = rc.Expired
				e.MaxSteps = 100000
				e.MaxExec = 60000
				verifrt.Concurrent = true
				verifrt.EnterFilter = func(site string) bool { return strings.HasPrefix(site, "vm.do_") }
				var lastLogs [2]string
				res := e.Explore(func(x *explore.Exec) string {
					c08Scrub()
					r1 := c08prepare(a, 1)
					r2 := c08prepare(b, 2)
					var l1, l2 string
					x.Go("ctx1", func() { l1 = r1.exec() })
					x.Go("ctx2", func() { l2 = r2.exec() })
					x.Run()
					l1, l2 = l1+r1.where(), l2+r2.where()
					r1.ctx.Close()
					r2.ctx.Close()
					if x.Diverged || x.Pruned {
						return ""
					}
					if x.Violation != "" {
						return x.Violation
					}
					if x.Deadlock || x.Horizon {
						return "harness: deadlock/horizon"
					}
					lastLogs = [2]string{l1, l2}
					if !c08Match(l1, expect(a, 1)) {
						return "interleaving-visible: " + a.name + " observed " + l1 + " instead of " + expect(a, 1)
					}
					if !c08Match(l2, expect(b, 2)) {
						return "interleaving-visible: " + b.name + " observed " + l2 + " instead of " + expect(b, 2)
					}
					return ""
				})
				verifrt.Concurrent = false
				verifrt.EnterFilter = nil
				rc.Count("transitions", e.Points)
				rc.Count("schedules", e.Executions)
				if e.Capped {
					rc.Cap(fmt.Sprintf("interleavings of %s||%s at bound %d capped at %d schedules", a.name, b.name, bound, e.Executions))
				}
				rc.Eval(fmt.Sprintf("interleaved bound=%d", bound), fmt.Sprintf("il:%s|%s:%d", a.name, b.name, bound))
				if rc.WantSample() && rc.Index()%31 == 0 {
					rc.Sample(map[string]interface{}{"part": "interleaved", "a": a.name, "b": b.name, "bound": bound, "schedules": e.Executions, "choice_points": e.Points})
				}
				if res != nil {
					cls := "interleaving-visible:" + b.name
					if strings.Contains(res.Violation, a.name+" observed") {
						cls = "interleaving-visible:" + a.name
					}
					if !strings.HasPrefix(res.Violation, "interleaving-visible") {
						cls = sigClass(res.Violation)
					}
					rc.Deviate(core.Deviation{Fields: fields, Input: input + "\nschedule " + short(fmt.Sprint(res.Schedule), 1500), Expected: "each context's log equals its solo log",
						Observed: res.Violation, Sig: cls})
				}
				_ = lastLogs
			}
		}
	}
}

func c08Match(got, exp string) bool {
	for _, e := range strings.Split(exp, "|") {
		if got == e {
			return true
		}
		// a trailing ";*" leaves the last log entry open (its text is not this property's subject)
		if strings.HasSuffix(e, ";*") && strings.HasPrefix(got, strings.TrimSuffix(e, "*")) {
			return true
		}
	}
	return false
}

// c08ExpectedLog: what the program logs in a context that nothing else influences
// (derived from the program text and the tag; independent of any run).
func c08ExpectedLog(p c08prog, tag int) string {
	t := itoa(tag)
	switch p.name {
	case "global":
		return "('pre','unset');('post'," + itoa(tag+1) + ")"
	case "syspath":
		if c08Opts == "empty" {
			return "('pre',[]);('post',['p" + t + "'])"
		}
		d := harness.CanonStr(c08Dir(tag))
		return "('pre',[" + d + "]);('post',[" + d + ",'p" + t + "'])"
	case "sysargv":
		if c08Opts == "empty" {
			// append makes the list ['<tag>'], then argv[0] is overwritten
			return "('pre',[]);('post',['prog" + t + "'])"
		}
		return "('pre',['prog']);('post',['prog" + t + "','" + t + "'])"
	case "builtin":
		return "('pre',2);('post'," + t + ")"
	case "gomodattr":
		return "('pre',True,True);('post'," + t + ")"
	case "gomodnew":
		return "('pre','unset');('post'," + t + ")"
	case "srcmodule":
		return "('pre',0,[]);('post'," + itoa(tag+1000) + ",[" + t + "])"
	case "classattr":
		return "('pre',1);('post'," + t + ")"
	case "funcdefault":
		return "('pre',[0]);('post',[0," + t + "])"
	case "vhlogown":
		return "('pre'," + t + ");('post'," + t + ")"
	case "closuregen":
		return "('pre',[" + t + "," + itoa(tag+1) + "]);('post'," + itoa(2*(tag+10)+1) + ")"
	case "typedict":
		// a context must not see another context's write; whether the write itself is allowed is not the point
		return "('pre','unset');('post','set')|('pre','unset');('post','refused')"
	case "environ":
		return "('pre','unset');('post','" + t + "')"
	case "typedictview":
		// per type: no mapping view at all, or a view in which another context's key is never seen
		one := []string{"('pre','noview')", "('pre',False);('post','set')", "('pre',False);('post','refused')"}
		var alts []string
		for _, a := range one {
			for _, b := range one {
				for _, c := range one {
					alts = append(alts, a+";"+b+";"+c)
				}
			}
		}
		return strings.Join(alts, "|")
	case "reclimit":
		return "('pre',True);('post','unsupported')|('pre',True);('post'," + itoa(100+tag) + ",True)"
	case "reclimitlite":
		return "('post','unsupported')|('pre',True);('post'," + itoa(100+tag) + ")"
	case "excattr":
		// the attribute a context sets on an exception it caught is never there for another
		// context (whether setting it is allowed at all is not the point)
		return strings.Repeat("('pre',False);", 4) + "('pre',False)"
	case "syntaxerr":
		return "('pre'," + t + ") !TabError @'file" + t + ".py':3|('pre'," + t + ") !IndentationError @'file" + t + ".py':3"
	case "indenterr":
		w := " @'ind" + t + ".py':" + itoa(tag+1)
		return "('pre'," + t + ") !IndentationError" + w + "|('pre'," + t + ") !SyntaxError" + w
	case "filemodule":
		if c08Opts == "empty" {
			return " !ImportError" // no search path: the module cannot be found (and must not come from another context)
		}
		return "('pre'," + itoa(tag*111) + "," + t + ");('post'," + itoa(tag*111) + "," + itoa(2*tag) + ")"
	}
	return "?"
}

func init() {
	core.Register(&core.Check{
		ID:       "C08",
		Level:    "model_checking",
		Mode:     "ov",
		RacePass: true,
		Rule: "20 programs, each reading, mutating and re-reading one piece of state reachable from Python (module global, sys.path, sys.argv, a rebound builtin, attributes of a Go module, state of a source module registered once, class attribute, mutable default, the harness log, closures/generators, a built-in type's dict, os.environ, a source file module that every context finds under the same name on its own search path, attributes of the exception objects the runtime raises for common errors, the file and line of a syntax error read back after the other context ran), every context running a code object shared by all contexts. " +
			"(a) all ordered pairs (thorough: triples) run back to back in distinct contexts of one process; (b) all pairs on two goroutines under the cooperative scheduler with a scheduling point at every VM instruction, every schedule within the preemption bound. Oracle: each context's log equals the log the program produces in a context nothing else can influence. Every case is non-trivial.",
		Run: c08Run,
		Assumptions: []string{"the scheduler cannot preempt inside a Go builtin; transient shared state used within one builtin call is reachable only by the auxiliary -race pass",
			"two REPLs (package-level vm.PrintExpr) are outside the statement"},
		Explanation: "stateless model checking of two real interpreter contexts under a controlled scheduler (VM-instruction granularity) plus exhaustive sequential leak pairs; differential oracle against the context-local expectation",
	})
}

package props

// C06: operator precedence and associativity on flat (unparenthesised) token sequences.
// c6refParser is a recursive-descent parser written from the Python 3.4 grammar
// (test / or_test / and_test / not_test / comparison / expr ... factor / power); it
// produces the expected ast tree, or rejects the text.

import (
	"strings"

	"github.com/go-python/gpython/ast"
)

type c6refParser struct {
	toks []string
	pos  int
	bad  bool
}

func (p *c6refParser) peek() string {
	if p.pos < len(p.toks) {
		return p.toks[p.pos]
	}
	return ""
}
func (p *c6refParser) next() string { t := p.peek(); p.pos++; return t }
func (p *c6refParser) accept(t string) bool {
	if p.peek() == t {
		p.pos++
		return true
	}
	return false
}

func (p *c6refParser) test() ast.Expr {
	if p.peek() == "lambda" {
		p.next()
		if !p.accept(":") {
			p.bad = true
			return nil
		}
		body := p.test()
		return &ast.Lambda{Args: &ast.Arguments{}, Body: body}
	}
	e := p.orTest()
	if p.bad {
		return nil
	}
	if p.accept("if") {
		c := p.orTest()
		if p.bad || !p.accept("else") {
			p.bad = true
			return nil
		}
		o := p.test()
		return &ast.IfExp{Test: c, Body: e, Orelse: o}
	}
	return e
}

func (p *c6refParser) orTest() ast.Expr {
	e := p.andTest()
	if p.bad || p.peek() != "or" {
		return e
	}
	vals := []ast.Expr{e}
	for p.accept("or") {
		vals = append(vals, p.andTest())
		if p.bad {
			return nil
		}
	}
	return &ast.BoolOp{Op: ast.Or, Values: vals}
}

func (p *c6refParser) andTest() ast.Expr {
	e := p.notTest()
	if p.bad || p.peek() != "and" {
		return e
	}
	vals := []ast.Expr{e}
	for p.accept("and") {
		vals = append(vals, p.notTest())
		if p.bad {
			return nil
		}
	}
	return &ast.BoolOp{Op: ast.And, Values: vals}
}

func (p *c6refParser) notTest() ast.Expr {
	if p.accept("not") {
		o := p.notTest()
		if p.bad {
			return nil
		}
		return &ast.UnaryOp{Op: ast.Not, Operand: o}
	}
	return p.comparison()
}

func (p *c6refParser) compOp() (ast.CmpOp, bool) {
	switch p.peek() {
	case "<":
		p.next()
		return ast.Lt, true
	case ">":
		p.next()
		return ast.Gt, true
	case "==":
		p.next()
		return ast.Eq, true
	case ">=":
		p.next()
		return ast.GtE, true
	case "<=":
		p.next()
		return ast.LtE, true
	case "!=":
		p.next()
		return ast.NotEq, true
	case "in":
		p.next()
		return ast.In, true
	case "not":
		if p.pos+1 < len(p.toks) && p.toks[p.pos+1] == "in" {
			p.pos += 2
			return ast.NotIn, true
		}
		return 0, false
	case "is":
		p.next()
		if p.accept("not") {
			return ast.IsNot, true
		}
		return ast.Is, true
	}
	return 0, false
}

func (p *c6refParser) comparison() ast.Expr {
	e := p.binLevel(0)
	if p.bad {
		return nil
	}
	var ops []ast.CmpOp
	var cs []ast.Expr
	for {
		op, ok := p.compOp()
		if !ok {
			break
		}
		r := p.binLevel(0)
		if p.bad {
			return nil
		}
		ops = append(ops, op)
		cs = append(cs, r)
	}
	if len(ops) == 0 {
		return e
	}
	return &ast.Compare{Left: e, Ops: ops, Comparators: cs}
}

var c6refLevels = []map[string]ast.OperatorNumber{
	{"|": ast.BitOr},
	{"^": ast.BitXor},
	{"&": ast.BitAnd},
	{"<<": ast.LShift, ">>": ast.RShift},
	{"+": ast.Add, "-": ast.Sub},
	{"*": ast.Mult, "/": ast.Div, "%": ast.Modulo, "//": ast.FloorDiv},
}

func (p *c6refParser) binLevel(l int) ast.Expr {
	if l == len(c6refLevels) {
		return p.factor()
	}
	e := p.binLevel(l + 1)
	for !p.bad {
		op, ok := c6refLevels[l][p.peek()]
		if !ok {
			break
		}
		p.next()
		r := p.binLevel(l + 1)
		if p.bad {
			return nil
		}
		e = &ast.BinOp{Left: e, Op: op, Right: r}
	}
	return e
}

func (p *c6refParser) factor() ast.Expr {
	switch p.peek() {
	case "+", "-", "~":
		op := map[string]ast.UnaryOpNumber{"+": ast.UAdd, "-": ast.USub, "~": ast.Invert}[p.next()]
		o := p.factor()
		if p.bad {
			return nil
		}
		return &ast.UnaryOp{Op: op, Operand: o}
	}
	return p.power()
}

func (p *c6refParser) power() ast.Expr {
	t := p.peek()
	if t == "" || !(t[0] >= 'a' && t[0] <= 'z') || c6refKeyword[t] {
		p.bad = true
		return nil
	}
	p.next()
	var e ast.Expr = c6n(t)
	if p.accept("**") {
		r := p.factor()
		if p.bad {
			return nil
		}
		return &ast.BinOp{Left: e, Op: ast.Pow, Right: r}
	}
	return e
}

var c6refKeyword = map[string]bool{"if": true, "else": true, "lambda": true, "not": true, "and": true, "or": true, "in": true, "is": true}

// c6refParse: the expected tree of a flat token sequence in eval mode, or nil if the
// sequence is outside the grammar.
func c6refParse(toks []string) ast.Expr {
	p := &c6refParser{toks: toks}
	e := p.test()
	if p.bad || p.pos != len(toks) || e == nil {
		return nil
	}
	return e
}

var c6precBinary = []string{"|", "^", "&", "<<", ">>", "+", "-", "*", "/", "%", "//", "**",
	"<", ">", "==", ">=", "<=", "!=", "in", "not in", "is", "is not", "and", "or"}
var c6precPrefix = []string{"not", "-", "+", "~"}

// c6PrecSequences enumerates the flat sequences: each is a list of tokens.
func c6PrecSequences(quick bool, emit func(kind string, toks []string)) {
	names := []string{"a", "b", "c", "d", "e", "f"}
	split := func(op string) []string { return strings.Split(op, " ") }
	// pairs with at most one prefix
	for _, o1 := range c6precBinary {
		for _, o2 := range c6precBinary {
			for pp := -1; pp < 3; pp++ {
				prefs := []string{""}
				if pp >= 0 {
					prefs = c6precPrefix
				}
				for _, pf := range prefs {
					var t []string
					for i := 0; i < 3; i++ {
						if i == 1 {
							t = append(t, split(o1)...)
						} else if i == 2 {
							t = append(t, split(o2)...)
						}
						if i == pp {
							t = append(t, pf)
						}
						t = append(t, names[i])
					}
					emit("pair", t)
				}
			}
		}
	}
	// double prefixes on one operand
	for _, p1 := range c6precPrefix {
		for _, p2 := range c6precPrefix {
			for _, o := range c6precBinary {
				emit("prefix2", append([]string{p1, p2, "a"}, append(split(o), "b")...))
				emit("prefix2", append(append([]string{"a"}, split(o)...), p1, p2, "b"))
			}
		}
	}
	// conditional expressions and lambda mixed with one operator at each position
	X := func(n1, n2, op string) []string {
		if op == "" {
			return []string{n1}
		}
		return append(append([]string{n1}, split(op)...), n2)
	}
	opsE := append([]string{""}, c6precBinary...)
	for _, o1 := range opsE {
		for _, o2 := range opsE {
			for _, o3 := range opsE {
				n := 0
				for _, o := range []string{o1, o2, o3} {
					if o != "" {
						n++
					}
				}
				if n > 2 || (quick && n > 1) {
					continue
				}
				var t []string
				t = append(t, X("a", "b", o1)...)
				t = append(t, "if")
				t = append(t, X("c", "d", o2)...)
				t = append(t, "else")
				t = append(t, X("e", "f", o3)...)
				emit("ifexp", t)
			}
		}
	}
	fixed := []string{
		"a if b else c if d else e", "a if b if c else d else e", "a if b else c else d", "a if b",
		"lambda : a", "lambda : a if b else c", "a if b else lambda : c", "a if lambda : b else c", "lambda : a if b else lambda : c",
		"lambda : lambda : a", "not lambda : a", "lambda : not a", "- lambda : a", "a or lambda : b", "lambda : a or b",
		"a + lambda : b", "lambda : a + b", "a < lambda : b", "a and lambda : b",
		"not a if b else c", "a if not b else c", "a if b else not c", "- a if b else c", "a if b else - c",
		"not not a", "not - a", "- not a", "~ not a", "a ** - b ** c", "- a ** - b", "a ** not b", "a not b", "a is not not b", "a not not in b",
		"a in not b", "not a in b", "not a not in b", "a is not b is c", "a not in b not in c", "a < b < c < d", "a < b == c in d is e",
		"a or b or c or d", "a and b and c and d", "a or b and c or d", "a and b or c and d", "a ** b ** c ** d", "a - b - c - d",
		"a / b * c // d % e", "a << b >> c << d", "a | b ^ c & d", "a & b ^ c | d", "~ a ** b", "+ - ~ a", "a + - + - b", "a if",
		"if a else b", "a else b", "a b", "a +", "+ ", "a + + + b", "a ** ** b", "a * * b", "a < > b", "a = b", "a == == b", "a and", "or a", "a or or b",
		"a and not", "not", "lambda", "lambda :", "lambda a", "a lambda : b", "a if b else", "a if else b",
	}
	for _, f := range fixed {
		emit("fixed", strings.Fields(f))
	}
	for _, o := range c6precBinary {
		emit("lambda", append([]string{"lambda", ":"}, X("a", "b", o)...))
		emit("lambda", append(append([]string{"a"}, split(o)...), "lambda", ":", "b"))
		emit("lambda", append(append([]string{"lambda", ":", "a", "if", "b", "else", "c"}, split(o)...), "d"))
	}
	if quick {
		return
	}
	// triples with at most one prefix
	for _, o1 := range c6precBinary {
		for _, o2 := range c6precBinary {
			for _, o3 := range c6precBinary {
				for pp := -1; pp < 4; pp++ {
					prefs := []string{""}
					if pp >= 0 {
						prefs = c6precPrefix
					}
					for _, pf := range prefs {
						var t []string
						for i := 0; i < 4; i++ {
							switch i {
							case 1:
								t = append(t, split(o1)...)
							case 2:
								t = append(t, split(o2)...)
							case 3:
								t = append(t, split(o3)...)
							}
							if i == pp {
								t = append(t, pf)
							}
							t = append(t, names[i])
						}
						emit("triple", t)
					}
				}
			}
		}
	}
}

package props

import (
	"fmt"
	"strings"

	"verif/internal/core"
	"verif/internal/harness"
)

// C05 part (d): lazy consumers stepped several times, also after the producer failed. A
// wrapper (zip, map, filter, enumerate, a generator expression, iter) holds no opinion of its
// own about the end of the iteration: each next() asks the producers again, an exception that
// is not StopIteration comes out unchanged and leaves the wrapper usable, and a producer that
// can carry on after raising (a class with __next__, map over a raising function) does carry on.

// stepIt is the model of a producer that is stepped again after it failed or ended.
type stepIt struct {
	kind    string // gen cls mapf list range
	items   []string
	failAt  int    // -1 none
	failExc string // class name raised at failAt (StopIteration included)
	i       int
	dead    bool // a generator that raised or returned
	log     []string
}

// next: a value (exc == "") or the name of the exception class that comes out.
func (s *stepIt) next() (val, exc string) {
	switch s.kind {
	case "list", "range":
		if s.i >= len(s.items) {
			return "", "StopIteration"
		}
		s.i++
		return s.items[s.i-1], ""
	case "cls":
		// self.i += 1; log; raise at failAt; StopIteration from 3 on; the object lives on
		i := s.i
		s.i++
		s.log = append(s.log, "('p',"+itoa(i)+")")
		if i == s.failAt {
			return "", s.failExc
		}
		if i >= len(s.items) {
			return "", "StopIteration"
		}
		return s.items[i], ""
	case "gen":
		if s.dead {
			return "", "StopIteration"
		}
		if s.i >= len(s.items) {
			s.dead = true
			return "", "StopIteration"
		}
		i := s.i
		s.log = append(s.log, "('p',"+itoa(i)+")")
		if i == s.failAt {
			s.dead = true
			return "", s.failExc
		}
		s.i++
		return s.items[i], ""
	case "mapf":
		// map(fr, [items]): the list iterator has moved on when fr raises
		if s.i >= len(s.items) {
			return "", "StopIteration"
		}
		i := s.i
		s.i++
		s.log = append(s.log, "('p',"+s.items[i]+")")
		if i == s.failAt {
			return "", s.failExc
		}
		return s.items[i], ""
	}
	panic("stepIt: kind " + s.kind)
}

type stepWrap struct {
	name string
	code string // IT = producer expression; defines w
	// step: one next(w) in the model; st is the wrapper's own state
	step func(p *stepIt, st *stepState) (val, exc string)
}

type stepState struct {
	n      int  // enumerate counter / position in the partner list
	done   bool // generator expression finished
	others []string
}

func c05StepWrappers() []stepWrap {
	partner := func(st *stepState) (string, bool) {
		if st.n >= len(st.others) {
			return "", false
		}
		st.n++
		return st.others[st.n-1], true
	}
	return []stepWrap{
		{"iter", "w = iter(IT)\n", func(p *stepIt, st *stepState) (string, string) { return p.next() }},
		{"map", "w = map(inc, IT)\n", func(p *stepIt, st *stepState) (string, string) {
			v, exc := p.next()
			if exc != "" {
				return "", exc
			}
			return itoa(cInts([]string{v})[0] + 10), ""
		}},
		{"filter", "w = filter(None, IT)\n", func(p *stepIt, st *stepState) (string, string) {
			for {
				v, exc := p.next()
				if exc != "" {
					return "", exc
				}
				if truthy(v) {
					return v, ""
				}
			}
		}},
		{"enumerate", "w = enumerate(IT)\n", func(p *stepIt, st *stepState) (string, string) {
			v, exc := p.next()
			if exc != "" {
				return "", exc
			}
			st.n++
			return "(" + itoa(st.n-1) + "," + v + ")", ""
		}},
		{"zip-first", "w = zip(IT, [7, 8])\n", func(p *stepIt, st *stepState) (string, string) {
			v, exc := p.next()
			if exc != "" {
				return "", exc
			}
			o, ok := partner(st)
			if !ok {
				return "", "StopIteration" // the item taken from the producer is lost
			}
			return "(" + v + "," + o + ")", ""
		}},
		{"zip-second", "w = zip([7, 8, 9, 10, 11, 12], IT)\n", func(p *stepIt, st *stepState) (string, string) {
			o, ok := partner(st)
			if !ok {
				return "", "StopIteration"
			}
			v, exc := p.next()
			if exc != "" {
				return "", exc // the partner's item is lost
			}
			return "(" + o + "," + v + ")", ""
		}},
		{"genexp", "w = (v for v in IT)\n", func(p *stepIt, st *stepState) (string, string) {
			if st.done {
				return "", "StopIteration"
			}
			v, exc := p.next()
			if exc != "" {
				st.done = true // ended, or an exception went through the generator's frame
				return "", exc
			}
			return v, ""
		}},
		{"map-zip", "w = map(fst, zip(IT, range(9)))\n", func(p *stepIt, st *stepState) (string, string) { return p.next() }},
		{"enumerate-zip", "w = enumerate(zip(IT, [7, 8, 9, 10, 11, 12]))\n", func(p *stepIt, st *stepState) (string, string) {
			v, exc := p.next()
			if exc != "" {
				return "", exc
			}
			o, _ := partner(st)
			return "(" + itoa(st.n-1) + ",(" + v + "," + o + "))", ""
		}},
	}
}

const c05dSteps = 6

func c05PartD(rc *core.RunCtx) {
	rc.Part = "d"
	c := newC05(rc, c05bPrelude)
	var prods []prodCfg
	for n := 0; n <= 3; n++ {
		prods = append(prods, prodCfg{kind: "list", failAt: -1, n: n}, prodCfg{kind: "range", failAt: -1, n: n})
	}
	for _, k := range []string{"gen", "cls", "mapf"} {
		prods = append(prods, prodCfg{kind: k, failAt: -1})
		for p := 0; p <= 2; p++ {
			for _, r := range c05Raised {
				prods = append(prods, prodCfg{kind: k, failAt: p, raised: r})
			}
		}
	}
	var loop strings.Builder
	loop.WriteString("r = []\nfor _k in range(" + itoa(c05dSteps) + "):\n    try:\n        r.append(next(w))\n")
	for _, e := range []string{"StopIteration", "IndexError", "KeyError", "ValueError", "LookupError", "Exception"} {
		fmt.Fprintf(&loop, "    except %s:\n        r.append('%s')\n", e, e)
	}
	for _, p := range prods {
		for _, w := range c05StepWrappers() {
			if rc.Expired() || rc.Done() {
				return
			}
			if !rc.Take() {
				continue
			}
			p, w := p, w
			defs, expr := p.source("int")
			code := strings.ReplaceAll(w.code, "IT", expr) + loop.String()
			pos := "none"
			if p.failAt >= 0 {
				pos = itoa(p.failAt)
			}
			if p.kind == "list" || p.kind == "range" {
				pos = "len" + itoa(p.n)
			}
			fields := core.Fields{"part": "d", "consumer": "steps:" + w.name, "producer": p.kind, "at": pos, "raised": p.raised}
			input := defs + code
			rc.Guard(fields, func() string { return input }, func() {
				m := &stepIt{kind: p.kind, failAt: p.failAt, failExc: c05ExcName(p.raised)}
				switch p.kind {
				case "list":
					m.items = c05Items["int"][:p.n]
				case "range":
					for i := 0; i < p.n; i++ {
						m.items = append(m.items, itoa(i))
					}
				default:
					m.items = c05Items["int"]
				}
				st := &stepState{}
				switch w.name {
				case "zip-first":
					st.others = []string{"7", "8"}
				case "zip-second", "enumerate-zip":
					st.others = []string{"7", "8", "9", "10", "11", "12"}
				}
				var exp []string
				for k := 0; k < c05dSteps; k++ {
					v, exc := w.step(m, st)
					if exc != "" {
						v = "'" + exc + "'"
					}
					exp = append(exp, v)
				}
				expRes := "[" + strings.Join(exp, ",") + "]"
				rc.Eval("steps", input)
				rc.Count("consumer_programs", 1)
				if rc.WantSample() && rc.Index()%211 == 0 {
					rc.Sample(map[string]interface{}{"program": input, "expected_result": expRes, "expected_steps": m.log})
				}
				g, _, err := c.exec(c.base, defs)
				if err != nil {
					panic("c05 producer definitions: " + err.Error())
				}
				g, log, err := c.exec(g, code)
				gotRes, gotExc := "", ""
				if err != nil {
					gotExc, _, _, _ = harness.ExcInfo(err)
				} else {
					gotRes = canonOrMissing(g["r"])
				}
				expS := fmt.Sprintf("r=%s exc=- steps=[%s]", expRes, strings.Join(m.log, " "))
				obs := fmt.Sprintf("r=%s exc=%s steps=[%s]", c05dash(gotRes), c05dash(gotExc), strings.Join(log, " "))
				sig := ""
				switch {
				case gotExc != "":
					sig = "steps:unexpected-" + gotExc
				case gotRes != expRes:
					sig = "steps:wrong-result"
				case strings.Join(log, " ") != strings.Join(m.log, " "):
					sig = "steps:wrong-steps"
				}
				if sig != "" {
					rc.Deviate(core.Deviation{Fields: fields, Input: input, Expected: expS, Observed: obs, Sig: sig})
				}
			})
		}
	}
}

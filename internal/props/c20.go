package props

import (
	"fmt"
	"io"
	"os"
	"reflect"
	"sort"
	"strings"

	"github.com/go-python/gpython/py"
	"github.com/go-python/gpython/repl"
	"github.com/go-python/gpython/vm"
	"verif/internal/core"
	"verif/internal/harness"
)

// C20: feeding a program to the interactive interpreter one physical line at a time
// (blank line after every compound or continued statement) is equivalent to executing
// the same statements one by one.
//
// Subject: a real repl.REPL driven through REPL.Run(line) with a recording UI.
// Reference 1 (differential): every statement compiled as a whole in single mode and run
//   once, in order, in one namespace of a fresh context (py.Compile + py.RunCode, i.e. what
//   py.RunSrc does), with the same PRINT_EXPR capture.
// Reference 2 (differential, "running the file"): the whole program compiled in exec mode.
// Model (no implementation code involved): a line-level recogniser (brackets, triple-quoted
//   strings, backslash, compound headers, indented blocks) says after which lines more input
//   is needed and at which line(s) the statement may fire; a `_`/echo model says what a
//   bare expression statement must echo and bind.

// ---------------------------------------------------------------------------------------
// statement alphabet

type c20Shape struct {
	name  string
	lines []string // physical lines, without the terminating blank line
	noop  bool     // comment-only / empty line: not a statement at all
	core  bool     // member of the sub-alphabet used for the longest programs
	// lenient: the prompt after this no-op line is not judged (whether a whitespace-only
	// line at the primary prompt shows the continuation prompt differs between CPython
	// versions); what is judged is that the statements after it still run
	lenient bool
	usesU   bool   // reads or writes `_` explicitly (excluded from the exec-mode reference)
	expr    string // bare-expression shapes: the expression (pure apart from vh.v logging)

	// derived by c20Analyse
	compound bool
	blank    bool // a blank line is fed after the statement
	minFire  int  // first fed-line index at which the statement may fire
	maxFire  int  // last fed-line index by which it must have fired
	text     string
}

func c20Alphabet() []*c20Shape {
	S := []*c20Shape{
		// --- simple statements on one line
		{name: "assign", core: true, lines: []string{"a = vh.v(0, 1)"}},
		{name: "assign-dep", core: true, lines: []string{"b = a + vh.v(1, 2)"}},
		{name: "augassign", lines: []string{"a += vh.v(2, 10)"}},
		{name: "expr-int", core: true, lines: []string{"vh.v(3, 7)"}, expr: "vh.v(3, 7)"},
		{name: "expr-none", core: true, lines: []string{"vh.v(4, None)"}, expr: "vh.v(4, None)"},
		{name: "expr-str", lines: []string{"vh.v(5, 'q\\'#') * 2  # '"}, expr: "vh.v(5, 'q\\'#') * 2"},
		{name: "expr-literal-int", core: true, lines: []string{"17"}, expr: "17"},
		{name: "expr-literal-str", lines: []string{"'abc'  # a literal on its own"}, expr: "'abc'"},
		{name: "expr-literal-paren", lines: []string{"(7.5)"}, expr: "(7.5)"},
		{name: "expr-literal-triple", lines: []string{"\"\"\"p", "q\"\"\""}, expr: "\"\"\"p\nq\"\"\""},
		{name: "for-literal", lines: []string{"for i in range(vh.v(51, 2)):", "    'lit'"}},
		{name: "expr-underscore", core: true, lines: []string{"_ + vh.v(6, 1)"}, expr: "_ + vh.v(6, 1)", usesU: true},
		{name: "assign-from-underscore", lines: []string{"u = vh.v(7, 0); u = _"}, usesU: true},
		{name: "semicolons", lines: []string{"a = vh.v(8, 2); b = a * 3; b"}},
		{name: "semicolons-raise", core: true, lines: []string{"c = vh.v(9, 'pre'); c / 0; c = 'post'"}},
		{name: "import", lines: []string{"import math; vh.log(10)"}},
		{name: "expr-math", lines: []string{"math.floor(vh.v(11, 2.5))"}, expr: "math.floor(vh.v(11, 2.5))"},
		{name: "call-f", core: true, lines: []string{"r = f(vh.v(12, 1))"}},
		{name: "expr-call-g", core: true, lines: []string{"vh.v(13, g)()"}, expr: "vh.v(13, g)()"},
		{name: "expr-method", lines: []string{"vh.v(14, C)().m()"}, expr: "vh.v(14, C)().m()"},
		{name: "del", lines: []string{"del a; vh.log(15)"}},
		// --- erroneous statements on one line
		{name: "raise-zerodiv", lines: []string{"vh.v(16, 1) / 0"}, expr: "vh.v(16, 1) / 0"},
		{name: "raise-name", core: true, lines: []string{"vh.v(17, undefined_name)"}, expr: "vh.v(17, undefined_name)"},
		{name: "syntax-eqeq", core: true, lines: []string{"x = = vh.v(18, 1)"}},
		{name: "syntax-paren", lines: []string{"y = vh.v(19, 1))"}},
		{name: "syntax-eof-text", core: true, lines: []string{"q = = 'unexpected EOF while parsing'"}},
		{name: "syntax-eol-string", lines: []string{"q = vh.v(42, 1) + 'abc"}},
		{name: "unexpected-indent", core: true, lines: []string{"    x = vh.v(43, 1)"}},
		{name: "else-alone", lines: []string{"else: d = vh.v(44, 'F')"}},
		// --- no statement at all
		{name: "comment", core: true, lines: []string{"# just a comment: ("}, noop: true},
		{name: "empty-line", core: true, lines: []string{""}, noop: true},
		{name: "whitespace-line", core: true, lines: []string{"   "}, noop: true, lenient: true},
		// --- simple statements continued over several physical lines
		{name: "list-3-lines", core: true, lines: []string{"l = [vh.v(20, 1),", "     2,  # comment inside brackets", "     3]"}},
		{name: "call-3-lines", lines: []string{"k = sorted([3, 1, 2],", "# comment-only line inside brackets", "reverse=vh.v(21, True))"}},
		{name: "list-blank-inside", core: true, lines: []string{"l = [vh.v(22, 5),", "", "     6]"}},
		{name: "backslash", core: true, lines: []string{"a = vh.v(23, 5) + \\", "    1"}},
		// a backslash after text that would be a complete statement on its own
		{name: "backslash-complete-prefix", core: true, lines: []string{"t = vh.v(52, 10) \\", "    + 20"}},
		{name: "backslash-expr", lines: []string{"vh.v(53, 1) \\", "  + 1"}, expr: "vh.v(53, 1) + 1"},
		{name: "backslash-3-lines", lines: []string{"u = vh.v(54, 1) \\", " + 2 \\", " + 3"}},
		{name: "backslash-strings", lines: []string{"n = 'a' \\", "  'b' + vh.v(56, 'c')"}},
		{name: "if-backslash-body", lines: []string{"if vh.v(55, True):", "    w = 1 \\", "        + 2", "    w += 1"}},
		{name: "triple-assign", core: true, lines: []string{"s = \"\"\"ab", "  cd:(", "\"\"\" + vh.v(24, '!')"}},
		{name: "triple-blank-inside", core: true, lines: []string{"s = '''x", "", "# y''' + vh.v(25, '?')"}},
		{name: "triple-expr", lines: []string{"vh.v(26, '''p", "q''')"}, expr: "vh.v(26, '''p\nq''')"},
		// --- compound statements
		{name: "if-elif-else", core: true, lines: []string{"if vh.v(27, a) > 5:  # trailing comment:", "    c = 'big'", "elif a > 1:", "    c = 'medium'", "else:", "    c = 'small'"}},
		{name: "for-echo", core: true, lines: []string{"for i in range(vh.v(28, 2)):", "    i"}},
		{name: "while", lines: []string{"while vh.v(29, len(l)) < 5:", "    l.append(9)"}},
		{name: "def", core: true, lines: []string{"def f(x, y=vh.v(30, 10)):", "    # comment line inside the block", "    return x + y"}},
		{name: "def-ws-comment", core: true, lines: []string{"def g(z=vh.v(31, 'g')):", "    z  # an expression statement in a function body is not echoed", "# comment in column 0", "    ", "    return z"}},
		{name: "def-docstring-blank", lines: []string{"def f(x, y=vh.v(45, 20)):", "    \"\"\"doc", "", "    more\"\"\"", "    return [x,", "", "y]"}},
		{name: "decorator", core: true, lines: []string{"@vh.v(32, lambda fn: fn)", "def g():", "    return 'deco'"}},
		{name: "class", lines: []string{"class C:", "    k = vh.v(33, 3)", "    def m(self):", "        return self.k + 1"}},
		{name: "nested", core: true, lines: []string{"for i in range(vh.v(34, 3)):", "    if i % 2:", "        a = a + i", "    else:", "        l.append(i)", "    b = i"}},
		{name: "tab-block", lines: []string{"if vh.v(46, True):", "\tc = 'tab'"}},
		{name: "try-finally", core: true, lines: []string{"try:", "    t = vh.v(35, 1) / 0", "finally:", "    w = 'fin'"}},
		{name: "try-except", lines: []string{"try:", "    w = undefined_name", "except NameError:", "    w = vh.v(36, 'caught')"}},
		{name: "block-multiline-list", core: true, lines: []string{"if vh.v(37, True):", "    l = [1,", "2]", "    c = '''", "x'''"}},
		{name: "oneline-for", core: true, lines: []string{"for j in range(vh.v(38, 2)): e = j"}},
		{name: "oneline-if-else", core: true, lines: []string{"if vh.v(39, a) > 1: d = 'T'", "else: d = 'F'"}},
		{name: "oneline-try-except", lines: []string{"try: w = undefined_name", "except NameError: w = vh.v(47, 'c1')"}},
		{name: "syntax-in-block", core: true, lines: []string{"if vh.v(40, True):", "    z = = 1"}},
		{name: "indent-error", lines: []string{"if vh.v(48, True):", "        z = 1", "    z = 2"}},
		{name: "header-only", core: true, lines: []string{"if vh.v(41, True):"}},
		{name: "try-without-handler", lines: []string{"try:", "    w = vh.v(49, 'try')"}},
		{name: "decorator-only", lines: []string{"@vh.v(50, lambda fn: fn)"}},
	}
	for _, s := range S {
		c20Analyse(s)
	}
	return S
}

// ---------------------------------------------------------------------------------------
// the line-level recogniser (the model of "more input is needed")

type c20Scan struct {
	depth  int    // open brackets
	triple string // "" or the delimiter of the open triple-quoted string
	bs     bool   // the previous line ended with a backslash
}

func (s *c20Scan) open() bool { return s.depth > 0 || s.triple != "" || s.bs }

// feed consumes one physical line; it reports whether the line (outside strings and
// comments) ends with ':' and whether it contained any token.
func (s *c20Scan) feed(line string) (endsColon, hasToken bool) {
	s.bs = false
	last := byte(0)
	i := 0
	for i < len(line) {
		if s.triple != "" {
			if line[i] == '\\' {
				i += 2
				continue
			}
			if strings.HasPrefix(line[i:], s.triple) {
				s.triple = ""
				i += 3
				last = 's'
				hasToken = true
				continue
			}
			i++
			continue
		}
		c := line[i]
		switch {
		case c == '#':
			i = len(line)
		case c == '"' || c == '\'':
			hasToken = true
			last = 's'
			q := string(c)
			if strings.HasPrefix(line[i:], q+q+q) {
				s.triple = q + q + q
				i += 3
				continue
			}
			i++
			for i < len(line) && line[i] != c {
				if line[i] == '\\' {
					i++
				}
				i++
			}
			i++
		case c == '(' || c == '[' || c == '{':
			s.depth++
			hasToken, last = true, c
			i++
		case c == ')' || c == ']' || c == '}':
			if s.depth > 0 {
				s.depth--
			}
			hasToken, last = true, c
			i++
		case c == '\\' && i == len(line)-1:
			s.bs = true
			i++
		case c == ' ' || c == '\t':
			i++
		default:
			hasToken, last = true, c
			i++
		}
	}
	return last == ':', hasToken
}

func c20FirstWord(line string) string {
	t := strings.TrimLeft(line, " \t")
	if strings.HasPrefix(t, "@") {
		return "@"
	}
	j := 0
	for j < len(t) && (t[j] == '_' || t[j] >= 'a' && t[j] <= 'z' || t[j] >= 'A' && t[j] <= 'Z') {
		j++
	}
	return t[:j]
}

var c20CompoundKw = map[string]bool{"if": true, "for": true, "while": true, "try": true, "with": true, "def": true, "class": true, "@": true}

// c20Analyse derives, from the text alone, whether a blank line follows the statement and
// the window [minFire, maxFire] of fed-line indices in which the statement must fire:
//   - a one-line simple statement fires on its line;
//   - a simple statement continued over several lines (brackets, triple-quoted string,
//     backslash) is incomplete until its last line and fires there or on the blank line;
//   - a compound statement with an indented block (or ending in a header or decorator)
//     is terminated only by the blank line;
//   - a compound statement made of column-0 clauses with inline suites may fire at its
//     last line or on the blank line, but not before its last line.
func c20Analyse(s *c20Shape) {
	s.text = strings.Join(s.lines, "\n")
	if s.noop {
		s.minFire, s.maxFire = 0, 0
		return
	}
	n := len(s.lines)
	s.compound = c20CompoundKw[c20FirstWord(s.lines[0])]
	s.blank = s.compound || n > 1
	var sc c20Scan
	indented, lastColon, lastDeco := false, false, false
	for k, ln := range s.lines {
		wasOpen := sc.open()
		colon, tok := sc.feed(ln)
		if !wasOpen && tok {
			if ln[0] == ' ' || ln[0] == '\t' {
				indented = true
			}
			lastDeco = c20FirstWord(ln) == "@"
		}
		if tok || wasOpen {
			lastColon = colon && !sc.open()
		}
		if !s.compound {
			// self-check of the alphabet: a simple statement is open on every line but the last
			if k < n-1 && !sc.open() || k == n-1 && sc.open() {
				panic("c20 alphabet: simple statement " + s.name + " is not one logical line")
			}
		}
	}
	if s.compound && sc.open() {
		panic("c20 alphabet: compound statement " + s.name + " ends inside brackets/string")
	}
	s.minFire = n - 1
	if s.compound && (indented || lastColon || lastDeco) {
		s.minFire = n
	}
	s.maxFire = n - 1
	if s.blank {
		s.maxFire = n
	}
}

// ---------------------------------------------------------------------------------------
// recording UI and session plumbing

type c20UI struct {
	prompt string
	out    []string
}

func (u *c20UI) SetPrompt(p string) { u.prompt = p }
func (u *c20UI) Print(s string)     { u.out = append(u.out, s) }

type c20Env struct {
	rc     *core.RunCtx
	S      []*c20Shape
	errf   *os.File // receives os.Stderr while the REPL runs
	erroff int64
	seen   map[string]struct{}

	judgedStmt            int // statement at which judge stopped
	nsRef, nsRepl, nsFile c20NS
	single                map[*c20Shape]c20Code // whole-statement single-mode compile, per shape
	evalc                 map[*c20Shape]c20Code
	execc                 map[*c20Shape]c20Code
}

type c20Code struct {
	code *py.Code
	err  error
}

func (e *c20Env) compiled(cache map[*c20Shape]c20Code, s *c20Shape, src string, mode py.CompileMode) (*py.Code, error) {
	if c, ok := cache[s]; ok {
		return c.code, c.err
	}
	code, err := py.Compile(src, "<stdin>", mode, 0, true)
	cache[s] = c20Code{code, err}
	return code, err
}

func (e *c20Env) stderrDelta() string {
	end, _ := e.errf.Seek(0, io.SeekCurrent)
	if end <= e.erroff {
		return ""
	}
	buf := make([]byte, end-e.erroff)
	e.errf.ReadAt(buf, e.erroff)
	e.erroff = end
	return string(buf)
}

type c20NS struct {
	ctx  py.Context
	vhm  *py.Module
	mod  *py.Module
	log  *harness.Log
	uses int
}

// fresh returns a fresh "<stdin>" module (with a fresh vh log) in a context that is
// reused for up to 256 sessions (creating a context costs more than a whole session;
// nothing in the alphabet mutates per-context state other than the import cache).
func (ns *c20NS) fresh(mk func(ctx py.Context) *py.Module) {
	if ns.ctx == nil || ns.uses >= 256 {
		if ns.ctx != nil {
			ns.ctx.Close()
		}
		ns.ctx = py.NewContext(py.ContextOpts{SysArgs: []string{"t"}, SysPaths: []string{}})
		vhm, err := ns.ctx.ModuleInit(py.GetModuleImpl("vh"))
		if err != nil {
			panic(err)
		}
		ns.vhm = vhm
		ns.uses = 0
	}
	ns.uses++
	ns.log = &harness.Log{}
	ns.vhm.Globals["__vhlog__"] = ns.log
	ns.mod = mk(ns.ctx)
	ns.mod.Globals["vh"] = ns.vhm
}

func c20StdinModule(ctx py.Context) *py.Module {
	m, err := ctx.ModuleInit(&py.ModuleImpl{Info: py.ModuleInfo{FileDesc: "<stdin>"}})
	if err != nil {
		panic(err)
	}
	return m
}

// c20Digest renders the user-visible names of a namespace (no dunder names, not vh).
func c20Digest(g py.StringDict, withU bool) string {
	ks := make([]string, 0, len(g))
	for k := range g {
		if strings.HasPrefix(k, "__") || k == "vh" || (k == "_" && !withU) {
			continue
		}
		ks = append(ks, k)
	}
	sort.Strings(ks)
	var b strings.Builder
	for _, k := range ks {
		b.WriteString(k)
		b.WriteByte('=')
		b.WriteString(c20Canon(g[k]))
		b.WriteByte(' ')
	}
	return b.String()
}

func c20Canon(o py.Object) string {
	switch v := o.(type) {
	case *py.Function:
		return "<function " + v.Name + ">"
	case *py.Module:
		return "<module " + v.ModuleImpl.Info.Name + ">"
	}
	return harness.Canon(o)
}

// effects of one statement (or of one fed line)
type c20Eff struct {
	prints []string
	log    []string
	stderr string
}

func (e *c20Eff) any() bool { return len(e.prints) > 0 || len(e.log) > 0 || e.stderr != "" }
func (e *c20Eff) add(o c20Eff) {
	e.prints = append(e.prints, o.prints...)
	e.log = append(e.log, o.log...)
	e.stderr += o.stderr
}
func (e c20Eff) String() string {
	s := "echo=" + fmt.Sprintf("%q", e.prints) + " log=[" + strings.Join(e.log, ",") + "]"
	if e.stderr != "" {
		s += " stderr=" + fmt.Sprintf("%q", short(e.stderr, 120))
	}
	return s
}

// reference result of one statement
type c20Ref struct {
	syn    string // exception type of the compile step ("" = compiled)
	exc    string // exception type raised at run time
	echo   []string
	log    []string
	digest string
	uNote  string // violation of the `_`/echo model, "" if none
	uSig   string
}

func (r *c20Ref) String() string {
	s := "echo=" + fmt.Sprintf("%q", r.echo) + " log=[" + strings.Join(r.log, ",") + "]"
	if r.syn != "" {
		s += " compile-error=" + r.syn
	}
	if r.exc != "" {
		s += " raises=" + r.exc
	}
	return s
}

func c20Same(a, b []string) bool {
	if len(a) != len(b) {
		return false
	}
	for i := range a {
		if a[i] != b[i] {
			return false
		}
	}
	return true
}

// c20Reference runs the statements one by one, each compiled as a whole in single mode.
func (e *c20Env) reference(prog []*c20Shape) []*c20Ref {
	ns := &e.nsRef
	ns.fresh(c20StdinModule)
	var echo []string
	old := vm.PrintExpr
	vm.PrintExpr = func(s string) { echo = append(echo, s) }
	defer func() { vm.PrintExpr = old }()
	out := make([]*c20Ref, len(prog))
	g := ns.mod.Globals
	for i, s := range prog {
		r := &c20Ref{}
		out[i] = r
		if s.noop {
			r.digest = c20Digest(g, true)
			continue
		}
		// the `_`/echo model: value of the bare expression evaluated in eval mode first
		var want Res
		var wantObj py.Object
		modelled := false
		if s.expr != "" {
			code, err := e.compiled(e.evalc, s, s.expr, py.EvalMode)
			if err == nil {
				mark := len(ns.log.Entries)
				v, err := ns.ctx.RunCode(code, g, g, nil)
				ns.log.Entries = ns.log.Entries[:mark]
				want, wantObj, modelled = observe(v, err), v, true
			}
		}
		u0, had0 := g["_"]
		mark := len(ns.log.Entries)
		echo = nil
		code, err := e.compiled(e.single, s, s.text+"\n", py.SingleMode)
		if err != nil {
			r.syn, _, _, _ = harness.ExcInfo(err)
		} else {
			_, err = py.RunCode(ns.ctx, code, "<stdin>", ns.mod)
			if err != nil {
				r.exc, _, _, _ = harness.ExcInfo(err)
			}
		}
		r.echo = echo
		r.log = append([]string(nil), ns.log.Entries[mark:]...)
		r.digest = c20Digest(g, true)
		u1, had1 := g["_"]
		switch {
		case len(r.echo) == 0 && !s.usesU && (had0 != had1 || had1 && !harness.Same(u0, u1)):
			r.uSig, r.uNote = "underscore:rebound-without-echo", "`_` before: "+c20U(u0, had0)+", after: "+c20U(u1, had1)+" although nothing was echoed"
		case len(r.echo) > 0 && !had1:
			r.uSig, r.uNote = "underscore:not-bound-after-echo", "echo "+r.echo[len(r.echo)-1]+" but `_` is unbound"
		case len(r.echo) > 0 && !s.usesU:
			rep, err := py.ReprAsString(u1)
			if err != nil || rep != r.echo[len(r.echo)-1] {
				r.uSig, r.uNote = "underscore:not-the-echoed-value", "last echo "+r.echo[len(r.echo)-1]+" but repr(_) = "+rep
			}
		}
		if modelled && r.uSig == "" && r.syn == "" {
			switch {
			case want.Exc != "":
				if r.exc != want.Exc || len(r.echo) != 0 {
					r.uSig, r.uNote = "echo:expression-raises-differently", "eval mode raises "+want.Exc+", single mode: "+r.String()
				}
			case wantObj == py.None:
				if len(r.echo) != 0 || r.exc != "" {
					r.uSig, r.uNote = "echo:None-echoed", "value None must not be echoed: "+r.String()
				}
			default:
				rep, err := py.ReprAsString(wantObj)
				if err != nil || r.exc != "" || !c20Same(r.echo, []string{rep}) {
					r.uSig, r.uNote = "echo:not-the-repr", "value "+want.Val+" must be echoed as "+rep+": "+r.String()
				} else if !had1 || c20Canon(u1) != c20Canon(wantObj) {
					r.uSig, r.uNote = "underscore:not-the-value", "value "+want.Val+" but `_` is "+c20U(u1, had1)
				}
			}
		}
	}
	return out
}

func c20U(o py.Object, had bool) string {
	if !had {
		return "<unbound>"
	}
	return c20Canon(o)
}

// ---------------------------------------------------------------------------------------
// the REPL session

type c20Line struct {
	stmt   int
	j      int // index of the fed line inside its statement (len(lines) = the blank line)
	text   string
	eff    c20Eff
	prompt string
	cont   bool
	prev   string
}

type c20Session struct {
	lines   []c20Line
	digests []string // after each statement
	final   string
}

// c20Internals reads REPL.continuation and REPL.previous; should the fields be renamed
// the prompt stands in for them (the state key gets coarser, no check depends on them
// beyond "idle after the terminating line").
func c20Internals(r *repl.REPL, prompt string) (bool, string) {
	v := reflect.ValueOf(r).Elem()
	c, p := v.FieldByName("continuation"), v.FieldByName("previous")
	if !c.IsValid() || c.Kind() != reflect.Bool || !p.IsValid() || p.Kind() != reflect.String {
		return prompt == repl.ContinuationPrompt, ""
	}
	return c.Bool(), p.String()
}

func (e *c20Env) runREPL(prog []*c20Shape) *c20Session {
	var r *repl.REPL
	ui := &c20UI{}
	e.nsRepl.fresh(func(ctx py.Context) *py.Module {
		r = repl.New(ctx)
		r.SetUI(ui)
		return r.Module
	})
	lg := e.nsRepl.log

	e.errf.Truncate(0)
	e.errf.Seek(0, io.SeekStart)
	e.erroff = 0
	oldErr := os.Stderr
	os.Stderr = e.errf
	defer func() { os.Stderr = oldErr }()

	ses := &c20Session{}
	feed := func(si, j int, text string) {
		mark := len(lg.Entries)
		ui.out = nil
		r.Run(text)
		ln := c20Line{stmt: si, j: j, text: text, prompt: ui.prompt}
		ln.eff.prints = ui.out
		ln.eff.log = append([]string(nil), lg.Entries[mark:]...)
		ln.eff.stderr = e.stderrDelta()
		ln.cont, ln.prev = c20Internals(r, ui.prompt)
		ses.lines = append(ses.lines, ln)
		e.rc.Count("transitions", 1)
	}
	for si, s := range prog {
		for j, t := range s.lines {
			feed(si, j, t)
		}
		if s.blank {
			feed(si, len(s.lines), "")
		}
		ses.digests = append(ses.digests, c20Digest(r.Module.Globals, true))
	}
	cont, prev := c20Internals(r, ui.prompt)
	ses.final = fmt.Sprintf("cont=%v prev=%q %s", cont, prev, ses.digests[len(ses.digests)-1])
	return ses
}

// ---------------------------------------------------------------------------------------
// running the file (exec mode)

func (e *c20Env) execFile(prog []*c20Shape) (log []string, exc string, digest string, syn string) {
	var src strings.Builder
	for _, s := range prog {
		src.WriteString(s.text)
		src.WriteString("\n")
	}
	code, err := py.Compile(src.String(), "<file>", py.ExecMode, 0, true)
	if err != nil {
		syn, _, _, _ = harness.ExcInfo(err)
		return
	}
	ns := &e.nsFile
	ns.fresh(c20StdinModule)
	_, err = ns.ctx.RunCode(code, ns.mod.Globals, ns.mod.Globals, nil)
	if err != nil {
		exc, _, _, _ = harness.ExcInfo(err)
	}
	return ns.log.Entries, exc, c20Digest(ns.mod.Globals, false), ""
}

// ---------------------------------------------------------------------------------------
// one case

type c20Dev struct {
	sig, at, exp, obs string
}

func (e *c20Env) judge(prog []*c20Shape, ref []*c20Ref, ses *c20Session) *c20Dev {
	li := 0
	for si, s := range prog {
		e.judgedStmt = si
		r := ref[si]
		var total c20Eff
		fired := -1
		nfed := len(s.lines)
		if s.blank {
			nfed++
		}
		// a syntax error may be reported as soon as the offending line (the last one in every
		// broken shape) is entered, or when the statement is terminated
		minFire := s.minFire
		if r.syn != "" && len(s.lines) > 1 && minFire > len(s.lines)-1 {
			minFire = len(s.lines) - 1
		}
		for j := 0; j < nfed; j++ {
			ln := &ses.lines[li]
			li++
			where := fmt.Sprintf("statement %d (%s), after line %d %q", si+1, s.name, j+1, ln.text)
			if s.noop {
				if ln.eff.any() {
					return &c20Dev{"noop:has-effects", s.name, where + ": nothing happens", ln.eff.String()}
				}
				if s.lenient {
					continue
				}
				if ln.prompt != repl.NormalPrompt || ln.cont {
					return &c20Dev{"prompt:continuation-after-noop-line", s.name, where + ": prompt " + repl.NormalPrompt, fmt.Sprintf("prompt %q continuation=%v", ln.prompt, ln.cont)}
				}
				continue
			}
			if ln.eff.any() {
				if fired >= 0 {
					total.add(ln.eff)
					return &c20Dev{"exec:effects-on-two-lines", s.name, where + ": the statement runs once: " + r.String(), fmt.Sprintf("effects after line %d and again after line %d: %s", fired+1, j+1, total.String())}
				}
				fired = j
				total.add(ln.eff)
				if j < minFire {
					what := "the statement is not complete, nothing runs"
					return &c20Dev{c20Kind(r) + ":before-statement-complete", s.name, where + ": " + what, ln.eff.String()}
				}
			}
			has := fired >= 0
			switch {
			case j < minFire:
				if ln.prompt != repl.ContinuationPrompt {
					return &c20Dev{"prompt:continuation-missing", s.name, where + ": more input needed, prompt " + repl.ContinuationPrompt, fmt.Sprintf("prompt %q", ln.prompt)}
				}
			case j < s.maxFire:
				if has && ln.prompt != repl.NormalPrompt {
					return &c20Dev{"prompt:continuation-after-execution", s.name, where + ": already executed, prompt " + repl.NormalPrompt, fmt.Sprintf("prompt %q", ln.prompt)}
				}
				if !has && ln.prompt != repl.ContinuationPrompt {
					return &c20Dev{"prompt:normal-while-input-pending", s.name, where + ": not executed yet, prompt " + repl.ContinuationPrompt, fmt.Sprintf("prompt %q", ln.prompt)}
				}
			default:
				if !has {
					return &c20Dev{c20Kind(r) + ":not-by-terminating-line", s.name, where + ": " + r.String(), fmt.Sprintf("nothing happened; prompt %q buffer %q", ln.prompt, ln.prev)}
				}
				if ln.prompt != repl.NormalPrompt {
					return &c20Dev{"prompt:continuation-stuck", s.name, where + ": everything entered has been executed, prompt " + repl.NormalPrompt, fmt.Sprintf("prompt %q", ln.prompt)}
				}
				if ln.cont || ln.prev != "" {
					return &c20Dev{"state:buffer-not-cleared", s.name, where + ": idle", fmt.Sprintf("continuation=%v previous=%q", ln.cont, ln.prev)}
				}
			}
		}
		if s.noop {
			continue
		}
		where := fmt.Sprintf("statement %d (%s)", si+1, s.name)
		// what happened must be what the statement does when executed once as a whole
		if !c20Same(total.log, r.log) {
			sig := "exec:side-effects-differ"
			if len(r.log) > 0 && c20Same(total.log, append(append([]string(nil), r.log...), r.log...)) {
				sig = "exec:twice"
			}
			return &c20Dev{sig, s.name, where + ": " + r.String(), total.String()}
		}
		// errors are reported (through the UI or on stderr) by naming the exception type;
		// apart from that the UI shows exactly the echoes
		switch {
		case r.syn != "":
			if !strings.Contains(strings.Join(total.prints, "\n")+total.stderr, r.syn) {
				return &c20Dev{"syntax-error:not-reported", s.name, where + ": a report naming " + r.syn, total.String()}
			}
		case r.exc != "":
			if len(total.prints) < len(r.echo) || !c20Same(total.prints[:len(r.echo)], r.echo) {
				return &c20Dev{"echo:differs", s.name, where + ": " + r.String(), total.String()}
			}
			if !strings.Contains(strings.Join(total.prints[len(r.echo):], "\n")+total.stderr, r.exc) {
				return &c20Dev{"runtime-error:not-reported", s.name, where + ": a report naming " + r.exc, total.String()}
			}
		default:
			if !c20Same(total.prints, r.echo) {
				return &c20Dev{"echo:differs", s.name, where + ": " + r.String(), total.String()}
			}
			if total.stderr != "" {
				return &c20Dev{"error:spurious-report", s.name, where + ": " + r.String(), total.String()}
			}
		}
		if ses.digests[si] != r.digest {
			sig := "globals:differ"
			if r.syn != "" || r.exc != "" {
				sig = "error:state-not-intact"
			}
			return &c20Dev{sig, s.name, where + ": " + r.digest, ses.digests[si]}
		}
	}
	return nil
}

func c20Kind(r *c20Ref) string {
	if r.syn != "" {
		return "syntax-error"
	}
	return "exec"
}

func c20Input(prog []*c20Shape) string {
	var b strings.Builder
	for _, s := range prog {
		for _, l := range s.lines {
			b.WriteString(l + "\n")
		}
		if s.blank {
			b.WriteString("\n")
		}
	}
	return b.String()
}

func (e *c20Env) one(prog []*c20Shape) {
	rc := e.rc
	names := make([]string, len(prog))
	for i, s := range prog {
		names[i] = s.name
	}
	fields := core.Fields{"prog": strings.Join(names, " "), "len": itoa(len(prog))}
	rc.Guard(fields, func() string { return c20Input(prog) }, func() {
		ref := e.reference(prog)
		ses := e.runREPL(prog)
		// explored structure: input histories (owned by the shortest program containing
		// them) and canonical states
		last := prog[len(prog)-1]
		own := len(last.lines)
		if last.blank {
			own++
		}
		rc.Count("states", int64(own))
		for i := range ses.lines {
			ln := &ses.lines[i]
			d := ""
			if ln.stmt > 0 {
				d = ses.digests[ln.stmt-1]
			}
			if ln.j == c20Fed(prog[ln.stmt])-1 {
				d = ses.digests[ln.stmt]
			}
			k := fmt.Sprintf("%v|%s|%s", ln.cont, ln.prev, d)
			if _, ok := e.seen[k]; !ok {
				e.seen[k] = struct{}{}
				rc.Count("canonical_states_seen_per_worker_sum", 1)
			}
		}
		outcome := ""
		for i, s := range prog {
			r := ref[i]
			c := "ok"
			switch {
			case s.noop:
				c = "noop"
			case r.syn != "":
				c = "syn:" + r.syn
			case r.exc != "":
				c = r.exc
			case len(r.echo) > 0:
				c = "echo"
			}
			if i > 0 {
				outcome += ","
			}
			outcome += c
		}
		rc.Eval(outcome, ses.final)
		if rc.WantSample() && rc.Index()%4999 == 7 {
			rc.Sample(map[string]string{"program": c20Input(prog), "reference": fmt.Sprint(ref[len(ref)-1]), "final": ses.final})
		}
		dev := func(d *c20Dev, via string) {
			f := core.Fields{"prog": fields["prog"], "len": fields["len"], "at": d.at, "via": via}
			rc.Deviate(core.Deviation{Fields: f, Input: c20Input(prog), Expected: d.exp, Observed: d.obs, Sig: d.sig})
		}
		// (1) the `_`/echo model against the reference run itself
		for i, r := range ref {
			if r.uSig != "" {
				dev(&c20Dev{r.uSig, prog[i].name, fmt.Sprintf("statement %d (%s): bare expression value is echoed as its repr and bound to _ unless it is None", i+1, prog[i].name), r.uNote}, "single-mode")
				break
			}
		}
		// (2) the REPL against the reference and the line model
		if d := e.judge(prog, ref, ses); d != nil {
			// a deviation in the statement right after a whitespace-only line that left the
			// REPL waiting for more input is attributed to that line
			if si := e.judgedStmt; si > 0 && prog[si-1].lenient {
				li := 0
				for _, s := range prog[:si] {
					li += c20Fed(s)
				}
				if ses.lines[li-1].cont {
					d.at, d.sig = prog[si-1].name, "after-whitespace-line:"+d.sig
				}
			}
			dev(d, "repl")
		}
		// (3) running the file
		e.fileCheck(prog, ref, dev)
	})
}

func c20Fed(s *c20Shape) int {
	if s.blank {
		return len(s.lines) + 1
	}
	return len(s.lines)
}

func (e *c20Env) fileCheck(prog []*c20Shape, ref []*c20Ref, dev func(*c20Dev, string)) {
	// a statement which single mode rejects must also be rejected as a one-statement file
	// (the two modes share the statement grammar; every shape is a single statement)
	for i, s := range prog {
		if !s.noop && ref[i].syn != "" {
			if _, err := e.compiled(e.execc, s, s.text+"\n", py.ExecMode); err == nil {
				dev(&c20Dev{sig: "single-mode:rejects-what-exec-mode-accepts", at: s.name, exp: "compiles in single mode as it does in exec mode", obs: "single mode: " + ref[i].syn}, "file")
				return
			}
		}
	}
	var wantLog []string
	wantExc, wantDigest, at := "", "", ""
	stop := len(prog)
	for i, s := range prog {
		if s.noop {
			continue
		}
		if s.usesU || ref[i].syn != "" {
			return // `_` exists only interactively; a file with a syntax error does not run at all
		}
		wantLog = append(wantLog, ref[i].log...)
		at = s.name
		if ref[i].exc != "" {
			wantExc = ref[i].exc
			stop = i + 1
			break
		}
	}
	if at == "" {
		return
	}
	// digest of the reference namespace after statement stop-1, without `_`
	wantDigest = c20StripU(ref[stop-1].digest)
	log, exc, digest, syn := e.execFile(prog[:stop])
	if syn != "" {
		dev(&c20Dev{"file:does-not-compile", at, "the statements compile one by one in single mode", "exec mode: " + syn}, "file")
		return
	}
	if exc != wantExc || !c20Same(log, wantLog) {
		dev(&c20Dev{"file:runs-differently", at, fmt.Sprintf("log=%v exc=%q", wantLog, wantExc), fmt.Sprintf("log=%v exc=%q", log, exc)}, "file")
		return
	}
	if digest != wantDigest {
		dev(&c20Dev{"file:globals-differ", at, wantDigest, digest}, "file")
	}
}

// c20StripU removes the "_=..." entry from a digest (values never contain " _=" at the
// start of an entry because entries are "name=canon " and names are sorted).
func c20StripU(d string) string {
	parts := strings.Split(d, " ")
	out := parts[:0]
	skip := false
	for _, p := range parts {
		if strings.HasPrefix(p, "_=") {
			skip = true
			continue
		}
		_ = skip
		out = append(out, p)
	}
	return strings.Join(out, " ")
}

func c20NewEnv(rc *core.RunCtx, S []*c20Shape, f *os.File) *c20Env {
	return &c20Env{rc: rc, S: S, errf: f, seen: map[string]struct{}{}, single: map[*c20Shape]c20Code{}, evalc: map[*c20Shape]c20Code{}, execc: map[*c20Shape]c20Code{}}
}

func c20Run(rc *core.RunCtx) {
	S := c20Alphabet()
	f, err := os.CreateTemp("", "c20-stderr-*")
	if err != nil {
		panic(err)
	}
	defer os.Remove(f.Name())
	defer f.Close()
	e := c20NewEnv(rc, S, f)
	maxLen := 4
	if rc.Quick() {
		maxLen = 3
	}
	var core4 []*c20Shape
	for _, s := range S {
		if s.core {
			core4 = append(core4, s)
		}
	}
	rc.Note("alphabet", fmt.Sprintf("%d statement shapes, %d of them core; quick: all programs of 1..2 statements over all shapes + all programs of 3 statements over the core shapes; thorough: all programs of 1..3 statements over all shapes + all programs of 4 statements over the core shapes", len(S), len(core4)))
	for n := 1; n <= maxLen; n++ {
		rc.Part = fmt.Sprintf("len%d", n)
		A := S
		if n == 4 || n == 3 && rc.Quick() {
			A = core4
		}
		idx := make([]int, n)
		prog := make([]*c20Shape, n)
		for {
			if rc.Expired() || rc.Done() {
				return
			}
			if rc.Take() {
				for i, k := range idx {
					prog[i] = A[k]
				}
				e.one(append([]*c20Shape(nil), prog...))
			}
			// next tuple, last position fastest
			p := n - 1
			for p >= 0 {
				idx[p]++
				if idx[p] < len(A) {
					break
				}
				idx[p] = 0
				p--
			}
			if p < 0 {
				break
			}
		}
	}
}

func init() {
	core.Register(&core.Check{
		ID:    "C20",
		Level: "model_checking",
		Rule: "statement alphabet S of 65 shapes (one-line simple statements incl. bare expressions with None/non-None values and bare number/string literals (one line, parenthesised, triple-quoted over two lines, inside a for block), `_` uses, `;` lists, import, del; run-time and syntax errors incl. unexpected indent and an unterminated string; comment-only, empty and whitespace-only lines; " +
			"bracket/backslash/triple-quoted continuations over 2-3 physical lines incl. comment-only and blank lines inside brackets and strings; if/elif/else, for, while, def, decorator, class, 2-level nesting, tab indentation, try/finally, try/except, " +
			"comment and whitespace-only lines and multi-line brackets/strings inside blocks, one-line compound statements, `else`/`except` clauses after a one-line `if`/`try`, a syntax error and an inconsistent dedent inside a block, a header without body, a try without handler, a decorator without definition); 34 of the shapes form the core sub-alphabet. " +
			"quick: ALL programs of 1..2 statements over S and ALL programs of 3 statements over the core; thorough: ALL programs of 1..3 statements over S and ALL programs of 4 statements over the core. " +
			"Each program is fed to a real repl.REPL one physical line at a time with a blank line after every compound or continued statement; after every line the prompt, the UI output, stderr, the vh log and REPL.continuation/previous are recorded. " +
			"Oracles: the same statements each compiled whole in single mode and run once in a fresh namespace (effects, echo, globals incl. `_` after every statement), the whole program run as a file in exec mode (error-free prefix, `_` excluded), " +
			"a text-only line recogniser for the prompt and for the window of lines in which a statement may fire, and an eval-mode model of echo/`_`. " +
			"states = distinct input histories (line prefixes) explored, transitions = lines fed; a case is non-trivial by its canonical end state (continuation flag, buffer, globals digest), so distinct_nontrivial = distinct canonical statement-boundary states.",
		Run: c20Run,
		Assumptions: []string{
			"execution of a bracket/backslash/string continuation is accepted on its completing line or on the blank line; a column-0 compound statement with inline suites likewise; a compound statement with an indented block only on the blank line; a syntax error may be reported on the offending (last) line or on the blank line",
			"an error report is any UI output or os.Stderr text (py.TracebackDump) naming the exception type of the reference run; messages are not compared",
			"the prompt shown after a whitespace-only line at the primary prompt is not judged (CPython versions differ); that the following statements still run on their own lines is",
			"the single-mode reference shares the compiler with the REPL: what it adds is whole-statement vs line-at-a-time; single mode itself is tied to exec mode (same statements as a file, same accept/reject) and to eval mode (echo/_ model)",
			"SystemExit, input()/stdin interaction, the completer and statements longer than 7 physical lines are outside the alphabet",
		},
		Explanation: "exhaustive enumeration of all statement sequences over a fixed alphabet, each driven through the real REPL state machine line by line and compared with whole-statement execution, whole-file execution and a text-level model of statement completeness",
	})
}

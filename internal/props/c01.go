package props

import (
	"math"
	"sort"
	"strings"

	"github.com/go-python/gpython/py"
	"verif/internal/core"
	"verif/internal/harness"
)

// C01: expressions evaluate once, left to right, with Python's grouping.

type enode struct {
	kind  string // leaf bin un cmp bool ifexp sub attr call tuple list set dict lambda
	op    string
	ops   []string
	kids  []*enode
	val   V
	label int
	// call: kids[0] = function, then npos positional, then keyword values (kw names), then star, dstar
	npos  int
	kw    []string
	star  bool
	dstar bool
	// starFirst: the *seq operand is written BEFORE the keyword arguments: f(a, *s, k=v).
	// CPython 3.4 evaluates it after the keyword values, later versions in textual order;
	// the keyword values themselves are always evaluated left to right.
	starFirst bool
}

func leaf(v V) *enode { return &enode{kind: "leaf", val: v} }

// number the leaves in textual order and render (every sub-expression parenthesised:
// this part is about evaluation order, not about precedence)
func (n *enode) render(next *int) string {
	p := func(k *enode) string {
		s := k.render(next)
		if k.kind == "leaf" || k.kind == "const" {
			return s
		}
		return "(" + s + ")"
	}
	switch n.kind {
	case "const":
		return n.val.Lit() // a bare literal: a constant of the code object
	case "leaf":
		n.label = *next
		*next++
		return "vh.v(" + itoa(n.label) + ", " + n.val.Lit() + ")"
	case "bin":
		l := p(n.kids[0])
		return l + " " + n.op + " " + p(n.kids[1])
	case "un":
		if n.op == "not" {
			return "not " + p(n.kids[0])
		}
		return n.op + p(n.kids[0])
	case "cmp":
		s := p(n.kids[0])
		for i, op := range n.ops {
			s += " " + op + " " + p(n.kids[i+1])
		}
		return s
	case "bool":
		var parts []string
		for _, k := range n.kids {
			parts = append(parts, p(k))
		}
		return strings.Join(parts, " "+n.op+" ")
	case "ifexp":
		// textual order: body, test, orelse
		a := p(n.kids[0])
		c := p(n.kids[1])
		b := p(n.kids[2])
		return a + " if " + c + " else " + b
	case "sub":
		x := p(n.kids[0])
		return x + "[" + n.kids[1].render(next) + "]"
	case "slice":
		x := p(n.kids[0])
		i := n.kids[1].render(next)
		return x + "[" + i + ":" + n.kids[2].render(next) + "]"
	case "attr":
		return p(n.kids[0]) + "." + n.op
	case "call":
		s := p(n.kids[0]) + "("
		var args []string
		idx := 1
		for i := 0; i < n.npos; i++ {
			args = append(args, n.kids[idx].render(next))
			idx++
		}
		if n.star && n.starFirst {
			// kids order stays: function, positionals, keyword values, star; only the text differs
			args = append(args, "*"+p(n.kids[1+n.npos+len(n.kw)]))
		}
		for _, k := range n.kw {
			args = append(args, k+"="+n.kids[idx].render(next))
			idx++
		}
		if n.star && !n.starFirst {
			args = append(args, "*"+p(n.kids[idx]))
			idx++
		} else if n.star {
			idx++
		}
		if n.dstar {
			args = append(args, "**"+p(n.kids[idx]))
			idx++
		}
		return s + strings.Join(args, ", ") + ")"
	case "tuple", "list", "set":
		var parts []string
		for _, k := range n.kids {
			parts = append(parts, k.render(next))
		}
		body := strings.Join(parts, ", ")
		switch n.kind {
		case "tuple":
			if len(parts) == 1 {
				body += ","
			}
			return "(" + body + ")"
		case "list":
			return "[" + body + "]"
		}
		return "{" + body + "}"
	case "dict":
		var parts []string
		for i := 0; i+1 < len(n.kids); i += 2 {
			k := n.kids[i].render(next)
			parts = append(parts, k+": "+n.kids[i+1].render(next))
		}
		return "{" + strings.Join(parts, ", ") + "}"
	case "lambda":
		// (lambda p, q=<D>: (p, q))(<A>)
		d := n.kids[0].render(next)
		return "(lambda p, q=" + d + ": (p, q))(" + n.kids[1].render(next) + ")"
	}
	return "?"
}

type evalCtx struct {
	log            []string
	dictValueFirst bool
	setCollapse    bool // a set display merged an int with an equal bool
	starTextual    bool // f(a, *s, k=v): evaluate s where it is written (3.5+) instead of after the keywords (3.4)
}

// eval is the reference evaluator: it appends the labels of the leaves it evaluates.
func (n *enode) eval(c *evalCtx) (V, error) {
	switch n.kind {
	case "const":
		return n.val, nil
	case "leaf":
		c.log = append(c.log, itoa(n.label))
		return n.val, nil
	case "bin":
		a, err := n.kids[0].eval(c)
		if err != nil {
			return V{}, err
		}
		b, err := n.kids[1].eval(c)
		if err != nil {
			return V{}, err
		}
		return mBinary(n.op, a, b)
	case "un":
		a, err := n.kids[0].eval(c)
		if err != nil {
			return V{}, err
		}
		return mUnary(n.op, a)
	case "cmp":
		left, err := n.kids[0].eval(c)
		if err != nil {
			return V{}, err
		}
		var res V
		for i, op := range n.ops {
			right, err := n.kids[i+1].eval(c)
			if err != nil {
				return V{}, err
			}
			res, err = mCompare(op, left, right)
			if err != nil {
				return V{}, err
			}
			if !res.truth() {
				return res, nil // short circuit: later operands are not evaluated
			}
			left = right
		}
		return res, nil
	case "bool":
		var v V
		var err error
		for i, k := range n.kids {
			v, err = k.eval(c)
			if err != nil {
				return V{}, err
			}
			if i == len(n.kids)-1 {
				return v, nil
			}
			if n.op == "and" && !v.truth() || n.op == "or" && v.truth() {
				return v, nil
			}
		}
		return v, nil
	case "ifexp":
		t, err := n.kids[1].eval(c)
		if err != nil {
			return V{}, err
		}
		if t.truth() {
			return n.kids[0].eval(c)
		}
		return n.kids[2].eval(c)
	case "sub":
		x, err := n.kids[0].eval(c)
		if err != nil {
			return V{}, err
		}
		i, err := n.kids[1].eval(c)
		if err != nil {
			return V{}, err
		}
		return mSubscript(x, i)
	case "attr":
		x, err := n.kids[0].eval(c)
		if err != nil {
			return V{}, err
		}
		if x.k == kObj {
			if n.op == "a" {
				return vInt(7), nil
			}
			return V{}, raise("AttributeError")
		}
		if x.k == kInt || x.k == kNone || x.k == kStr || x.k == kTuple || x.k == kBool {
			return V{}, raise("AttributeError") // none of these has an attribute named a/zz
		}
		return V{}, errUnknown
	case "call":
		f, err := n.kids[0].eval(c)
		if err != nil {
			return V{}, err
		}
		idx := 1
		var pos []V
		for i := 0; i < n.npos; i++ {
			v, err := n.kids[idx].eval(c)
			if err != nil {
				return V{}, err
			}
			pos = append(pos, v)
			idx++
		}
		kws := map[string]V{}
		var starV V
		starDone := false
		if n.star && n.starFirst && c.starTextual {
			v, err := n.kids[1+n.npos+len(n.kw)].eval(c)
			if err != nil {
				return V{}, err
			}
			starV, starDone = v, true
		}
		for _, k := range n.kw {
			v, err := n.kids[idx].eval(c)
			if err != nil {
				return V{}, err
			}
			kws[k] = v
			idx++
		}
		if n.star {
			v := starV
			if !starDone {
				var err error
				v, err = n.kids[idx].eval(c)
				if err != nil {
					return V{}, err
				}
			}
			idx++
			if v.k != kTuple && v.k != kList {
				if f.k != kFunc {
					return V{}, errUnknown // which TypeError comes first is not the point
				}
				if v.k == kStr {
					return V{}, errUnknown
				}
				return V{}, raise("TypeError")
			}
			pos = append(pos, v.items...)
		}
		if n.dstar {
			v, err := n.kids[idx].eval(c)
			if err != nil {
				return V{}, err
			}
			idx++
			_ = v
			return V{}, errUnknown // handled by the dedicated call generator below via dict leaves
		}
		if f.k != kFunc {
			if f.k == kObj {
				return V{}, errUnknown
			}
			return V{}, raise("TypeError")
		}
		// F(*a, **k) returns (a, k.get('x'), k.get('y'))
		get := func(k string) V {
			if v, ok := kws[k]; ok {
				return v
			}
			return vNone
		}
		return vTuple(vTuple(pos...), get("x"), get("y")), nil
	case "tuple", "list":
		var items []V
		for _, k := range n.kids {
			v, err := k.eval(c)
			if err != nil {
				return V{}, err
			}
			items = append(items, v)
		}
		if n.kind == "tuple" {
			return vTuple(items...), nil
		}
		return vList(items...), nil
	case "set":
		var items []V
		for _, k := range n.kids {
			v, err := k.eval(c)
			if err != nil {
				return V{}, err
			}
			if !(v.isNum() || v.k == kStr || v.k == kNone) {
				return V{}, errUnknown
			}
			for _, o := range items {
				if o.isNum() && v.isNum() && o.k != v.k && o.i.Cmp(v.i) == 0 {
					c.setCollapse = true
				}
			}
			items = append(items, v)
		}
		return V{k: kTuple, s: "set", items: items}, nil
	case "dict":
		keys := []string{}
		vals := map[string]V{}
		for i := 0; i+1 < len(n.kids); i += 2 {
			var k, v V
			var err error
			if c.dictValueFirst {
				v, err = n.kids[i+1].eval(c)
				if err != nil {
					return V{}, err
				}
				k, err = n.kids[i].eval(c)
				if err != nil {
					return V{}, err
				}
			} else {
				k, err = n.kids[i].eval(c)
				if err != nil {
					return V{}, err
				}
				v, err = n.kids[i+1].eval(c)
				if err != nil {
					return V{}, err
				}
			}
			if k.k != kStr {
				return V{}, errUnknown
			}
			if _, ok := vals[k.s]; !ok {
				keys = append(keys, k.s)
			}
			vals[k.s] = v
		}
		sort.Strings(keys)
		var parts []string
		for _, k := range keys {
			parts = append(parts, harness.CanonStr(k)+":"+vals[k].Canon())
		}
		return V{k: kStr, s: "\x00dict{" + strings.Join(parts, ",") + "}"}, nil
	case "lambda":
		d, err := n.kids[0].eval(c)
		if err != nil {
			return V{}, err
		}
		a, err := n.kids[1].eval(c)
		if err != nil {
			return V{}, err
		}
		return vTuple(a, d), nil
	}
	return V{}, errUnknown
}

func canonModel(v V) string {
	if v.k == kStr && strings.HasPrefix(v.s, "\x00dict") {
		return v.s[5:]
	}
	if v.k == kTuple && v.s == "set" {
		seen := map[string]bool{}
		var parts []string
		for _, x := range v.items {
			c := x.Canon()
			// 1 == True == 1.0 collapse in a set; keep the model simple: ints and bools by value
			if x.isNum() {
				c = x.i.String()
			}
			if !seen[c] {
				seen[c] = true
				parts = append(parts, x.Canon())
			}
		}
		sort.Strings(parts)
		return "set{" + strings.Join(parts, ",") + "}"
	}
	return v.Canon()
}

// ---- enumeration ----

var c01Ints = []V{vInt(0), vInt(1), vInt(2)}
var c01Any = []V{vInt(0), vInt(1), vInt(2), vInt(-1), vBool(true), vNone, vStr("ab"), vFloat(2.0), vFloat(2.5)}

var c01BinAll = []string{"+", "-", "*", "/", "//", "%", "**", "<<", ">>", "&", "|", "^"}
var c01CmpAll = []string{"<", "<=", "==", "!=", ">", ">=", "is", "is not", "in", "not in"}

// depth-1 composites over the given leaf values (the complete operator alphabet)
func c01Depth1(vals []V, full bool) []*enode {
	var out []*enode
	bins := c01BinAll
	cmps := c01CmpAll
	if !full {
		bins = []string{"-", "//", "<<"}
		cmps = []string{"<", "=="}
	}
	for _, op := range bins {
		for _, a := range vals {
			for _, b := range vals {
				out = append(out, &enode{kind: "bin", op: op, kids: []*enode{leaf(a), leaf(b)}})
			}
		}
	}
	for _, op := range []string{"-", "+", "~", "not"} {
		if !full && (op == "+" || op == "~") {
			continue
		}
		for _, a := range vals {
			out = append(out, &enode{kind: "un", op: op, kids: []*enode{leaf(a)}})
		}
	}
	for _, op := range cmps {
		for _, a := range vals {
			for _, b := range vals {
				out = append(out, &enode{kind: "cmp", ops: []string{op}, kids: []*enode{leaf(a), leaf(b)}})
			}
		}
	}
	chainOps := [][]string{{"<", "<"}, {"==", "<"}, {"<", "=="}, {">", "!="}}
	if full {
		chainOps = nil
		for _, o1 := range []string{"<", "==", ">=", "!=", "is not", "in"} {
			for _, o2 := range []string{"<", "==", ">", "is", "not in"} {
				chainOps = append(chainOps, []string{o1, o2})
			}
		}
	}
	for _, ops := range chainOps {
		for _, a := range c01Ints {
			for _, b := range c01Ints {
				for _, c := range c01Ints {
					out = append(out, &enode{kind: "cmp", ops: ops, kids: []*enode{leaf(a), leaf(b), leaf(c)}})
				}
			}
		}
	}
	for _, op := range []string{"and", "or"} {
		for _, a := range vals {
			for _, b := range vals {
				out = append(out, &enode{kind: "bool", op: op, kids: []*enode{leaf(a), leaf(b)}})
				for _, c := range c01Ints {
					out = append(out, &enode{kind: "bool", op: op, kids: []*enode{leaf(a), leaf(b), leaf(c)}})
				}
			}
		}
	}
	for _, a := range c01Ints {
		for _, c := range vals {
			for _, b := range c01Ints {
				out = append(out, &enode{kind: "ifexp", kids: []*enode{leaf(a), leaf(c), leaf(b)}})
			}
		}
	}
	bases := []V{vTuple(vInt(5), vInt(6), vInt(7)), vStr("ab"), vInt(1), vList(vInt(8))}
	idxs := []V{vInt(0), vInt(1), vInt(-1), vInt(3), vNone, vBool(true)}
	for _, x := range bases {
		for _, i := range idxs {
			out = append(out, &enode{kind: "sub", kids: []*enode{leaf(x), leaf(i)}})
		}
	}
	for _, x := range []V{vO, vInt(1), vNone} {
		for _, at := range []string{"a", "zz"} {
			out = append(out, &enode{kind: "attr", op: at, kids: []*enode{leaf(x)}})
		}
	}
	// calls: F or a non-callable; 0-2 positionals; optional keyword x / y; optional *T
	for _, f := range []V{vF, vInt(1)} {
		for npos := 0; npos <= 2; npos++ {
			for _, kw := range [][]string{nil, {"x"}, {"y", "x"}} {
				for _, star := range []bool{false, true} {
					n := &enode{kind: "call", npos: npos, kw: kw, star: star, kids: []*enode{leaf(f)}}
					for i := 0; i < npos; i++ {
						n.kids = append(n.kids, leaf(vInt(int64(i+1))))
					}
					for i := range kw {
						n.kids = append(n.kids, leaf(vInt(int64(i+5))))
					}
					if star {
						n.kids = append(n.kids, leaf(vTuple(vInt(8), vInt(9))))
					}
					out = append(out, n)
					if star && len(kw) > 0 {
						m := clone(n)
						m.starFirst = true
						out = append(out, m)
					}
				}
			}
		}
	}
	for _, a := range c01Ints {
		for _, b := range c01Ints {
			out = append(out, &enode{kind: "tuple", kids: []*enode{leaf(a), leaf(b)}})
			out = append(out, &enode{kind: "list", kids: []*enode{leaf(a), leaf(b)}})
			out = append(out, &enode{kind: "set", kids: []*enode{leaf(a), leaf(b)}})
			out = append(out, &enode{kind: "dict", kids: []*enode{leaf(vStr("k")), leaf(a), leaf(vStr("m")), leaf(b)}})
			out = append(out, &enode{kind: "lambda", kids: []*enode{leaf(a), leaf(b)}})
		}
	}
	out = append(out, &enode{kind: "tuple", kids: []*enode{leaf(vInt(1))}})
	out = append(out, &enode{kind: "dict", kids: []*enode{leaf(vStr("k")), leaf(vInt(1)), leaf(vStr("k")), leaf(vInt(2))}})
	return out
}

// a reduced set of composite operands for the deeper levels: per kind a falsy/zero
// instance, a truthy instance and (where one exists) a raising instance
func c01Operands(n int) []*enode {
	mk := func(kind, op string, ops []string, vs ...V) func() *enode {
		return func() *enode {
			e := &enode{kind: kind, op: op, ops: ops}
			for _, v := range vs {
				e.kids = append(e.kids, leaf(v))
			}
			return e
		}
	}
	gens := []func() *enode{
		func() *enode { return leaf(vInt(0)) },
		func() *enode { return leaf(vInt(1)) },
		func() *enode { return leaf(vInt(2)) },
		mk("bin", "-", nil, vInt(2), vInt(1)),
		mk("bin", "-", nil, vInt(1), vInt(1)),
		mk("bin", "//", nil, vInt(1), vInt(0)), // raises ZeroDivisionError
		mk("un", "-", nil, vInt(2)),
		mk("un", "not", nil, vInt(1)),
		mk("cmp", "", []string{"<"}, vInt(1), vInt(2)),
		mk("cmp", "", []string{"<", "<"}, vInt(2), vInt(1), vInt(0)),
		mk("bool", "and", nil, vInt(1), vInt(0)),
		mk("bool", "or", nil, vInt(0), vInt(2)),
		mk("ifexp", "", nil, vInt(1), vInt(0), vInt(2)),
		mk("sub", "", nil, vTuple(vInt(5), vInt(6), vInt(7)), vInt(1)),
		mk("sub", "", nil, vTuple(vInt(5), vInt(6), vInt(7)), vInt(3)), // IndexError
		mk("attr", "a", nil, vO),
		mk("tuple", "", nil, vInt(1), vInt(2)),
		mk("bin", "+", nil, vNone, vInt(1)), // TypeError
		func() *enode {
			return &enode{kind: "call", npos: 1, kw: []string{"x"}, kids: []*enode{leaf(vF), leaf(vInt(1)), leaf(vInt(2))}}
		},
		mk("lambda", "", nil, vInt(1), vInt(2)),
		mk("list", "", nil, vInt(0)),
		mk("bin", "<<", nil, vInt(1), vInt(2)),
		mk("cmp", "", []string{"=="}, vInt(1), vInt(1)),
		mk("bool", "and", nil, vInt(1), vInt(2), vInt(0)),
	}
	if n > len(gens) {
		n = len(gens)
	}
	var out []*enode
	for _, g := range gens[:n] {
		out = append(out, g())
	}
	return out
}

func clone(n *enode) *enode {
	c := *n
	c.kids = nil
	for _, k := range n.kids {
		c.kids = append(c.kids, clone(k))
	}
	return &c
}

// substitute composite operands into every child position of every depth-1 form
func c01Deep(rc *core.RunCtx, forms []*enode, operands []*enode, visit func(*enode)) {
	for _, f := range forms {
		nk := len(f.kids)
		if nk == 0 || nk > 3 {
			continue
		}
		idx := make([]int, nk)
		for {
			if rc.Expired() || rc.Done() {
				return
			}
			t := clone(f)
			composite := false
			for i := range idx {
				if idx[i] > 0 {
					t.kids[i] = clone(operands[idx[i]-1])
					if t.kids[i].kind != "leaf" {
						composite = true
					}
				}
			}
			if composite {
				visit(t)
			}
			k := nk - 1
			for k >= 0 {
				idx[k]++
				if idx[k] <= len(operands) {
					break
				}
				idx[k] = 0
				k--
			}
			if k < 0 {
				break
			}
		}
	}
}

type c01 struct {
	rc   *core.RunCtx
	ev   *evaluator
	base py.StringDict
}

const c01Prelude = `
NAN = float('nan')
INF = float('inf')
def F(*a, **k):
    return (a, k.get('x'), k.get('y'))
class OC:
    pass
O = OC()
O.a = 7
class L:
    def __init__(self, n):
        self.n = n
    def __getitem__(self, k):
        vh.log(('get', self.n, k if not isinstance(k, slice) else ('slice', k.start, k.stop, k.step)))
        return 10
    def __setitem__(self, k, v):
        vh.log(('set', self.n, k if not isinstance(k, slice) else ('slice', k.start, k.stop, k.step), v))
    def __delitem__(self, k):
        vh.log(('del', self.n, k))
class A1C:
    n = 1
    x = 10
    def __setattr__(self, k, v):
        vh.log(('setattr', self.n, k, v))
class A2C:
    n = 2
    x = 10
    def __setattr__(self, k, v):
        vh.log(('setattr', self.n, k, v))
L1 = L(1)
L2 = L(2)
A1 = A1C()
A2 = A2C()
`

// c01OpNames: operator -> the stem of its special method names
var c01OpNames = map[string]string{"+": "add", "-": "sub", "*": "mul", "/": "truediv", "//": "floordiv", "%": "mod", "**": "pow", "<<": "lshift", ">>": "rshift", "&": "and", "|": "or", "^": "xor",
	"<": "lt", "<=": "le", "==": "eq", "!=": "ne", ">": "gt", ">=": "ge"}

// c01ProtocolPrelude: Python classes that define the special methods of the operators. IP has
// the binary and the in-place method of every operator, BP only the binary ones, RP only the
// reflected ones, CP the six comparisons, UP the unary ones; each logs which method ran and
// with what operand.
func c01ProtocolPrelude() string {
	var ip, bp, rp, cp strings.Builder
	ip.WriteString("class IP:\n")
	bp.WriteString("class BP:\n")
	rp.WriteString("class RP:\n")
	cp.WriteString("class CP:\n")
	for _, op := range c01BinAll {
		n := c01OpNames[op]
		ip.WriteString("    def __" + n + "__(self, o):\n        vh.log(('bin', '" + op + "', o))\n        return 100\n")
		ip.WriteString("    def __i" + n + "__(self, o):\n        vh.log(('inplace', '" + op + "', o))\n        return 200\n")
		bp.WriteString("    def __" + n + "__(self, o):\n        vh.log(('bin', '" + op + "', o))\n        return 100\n")
		rp.WriteString("    def __r" + n + "__(self, o):\n        vh.log(('rbin', '" + op + "', o))\n        return 300\n")
	}
	for _, op := range []string{"<", "<=", "==", "!=", ">", ">="} {
		cp.WriteString("    def __" + c01OpNames[op] + "__(self, o):\n        vh.log(('cmp', '" + op + "', o))\n        return 400\n")
	}
	up := "class UP:\n    def __neg__(self):\n        vh.log(('un', '-'))\n        return 500\n    def __pos__(self):\n        vh.log(('un', '+'))\n        return 500\n    def __invert__(self):\n        vh.log(('un', '~'))\n        return 500\n"
	return ip.String() + bp.String() + rp.String() + cp.String() + up
}

func newC01(rc *core.RunCtx) *c01 {
	c := &c01{rc: rc, ev: newEvaluator()}
	g, err := c.ev.Exec(c01Prelude + c01ProtocolPrelude())
	if err != nil {
		panic("c01 prelude: " + err.Error())
	}
	c.base = g
	return c
}

func (c *c01) run(src string, mode py.CompileMode) (py.Object, py.StringDict, []string, error) {
	lg := c.ev.vh.Globals["__vhlog__"]
	l, _ := lg.(*harness.Log)
	if l == nil {
		l = &harness.Log{}
		c.ev.vh.Globals["__vhlog__"] = l
	}
	l.Entries = nil
	code, err := py.Compile(src, "<c01>", mode, 0, true)
	if err != nil {
		return nil, nil, nil, err
	}
	g := c.base.Copy()
	res, err := c.ev.ctx.RunCode(code, g, g, nil)
	return res, g, l.Entries, err
}

func (c *c01) checkExpr(t *enode, part string) {
	rc := c.rc
	if !rc.Take() {
		return
	}
	n := 0
	src := t.render(&n)
	fields := core.Fields{"part": part, "root": t.kind + ":" + t.op + strings.Join(t.ops, ","), "expr": src}
	rc.Guard(fields, func() string { return src }, func() {
		// model (dict displays: the reference says key first, CPython 3.4 evaluates the value first; both accepted)
		type exp struct {
			log []string
			res Res
		}
		var exps []exp
		for variant := 0; variant < 4; variant++ {
			ec := &evalCtx{dictValueFirst: variant&1 == 1, starTextual: variant&2 == 2}
			v, err := t.eval(ec)
			if err == errUnknown {
				rc.Count("outside_model", 1)
				return
			}
			var r Res
			if err != nil {
				r = excRes(err.(*pyExc).typ)
			} else {
				r = valRes(canonModel(v))
			}
			exps = append(exps, exp{ec.log, r})
			if ec.setCollapse {
				fields["note"] = "set-int-bool-collapse"
			}
		}
		obj, _, log, err := c.run(src, py.EvalMode)
		got := observe(obj, err)
		ok := false
		for _, e := range exps {
			if got.matches(e.res) && strings.Join(log, ",") == strings.Join(e.log, ",") {
				ok = true
			}
		}
		e0 := exps[0]
		nt := ""
		if len(e0.log) >= 2 {
			nt = src
		}
		rc.Eval(part+":"+outcomeClass2(e0.res), nt)
		if rc.WantSample() && rc.Index()%4001 == 0 {
			rc.Sample(map[string]string{"expr": src, "expected_log": strings.Join(e0.log, ","), "expected": e0.res.String()})
		}
		if !ok {
			cls := "wrong-result"
			if strings.Join(log, ",") != strings.Join(e0.log, ",") {
				cls = "wrong-evaluation-order-or-count"
				if got.Exc != "" && got.Exc != e0.res.Exc {
					cls = "wrong-exception"
				}
			} else if got.Exc != e0.res.Exc {
				cls = "wrong-exception"
			}
			rc.Deviate(core.Deviation{Fields: fields, Input: src, Expected: "log=[" + strings.Join(e0.log, ",") + "] " + e0.res.String(),
				Observed: "log=[" + strings.Join(log, ",") + "] " + got.String(), Sig: t.kind + ":" + cls + excSuffix(e0.res, got)})
		}
	})
}

func excSuffix(exp, got Res) string {
	if exp.Exc != got.Exc {
		return ":" + orDash(got.Exc) + "-for-" + orDash(exp.Exc)
	}
	return ""
}

func orDash(s string) string {
	if s == "" {
		return "value"
	}
	return s
}

func outcomeClass2(r Res) string {
	if r.Exc != "" {
		return r.Exc
	}
	return "value"
}

func c01Run(rc *core.RunCtx) {
	c := newC01(rc)
	// (1a) every operator on every pair of leaf values (depth 1, full alphabet)
	rc.Part = "depth1"
	d1 := c01Depth1(c01Any, true)
	for _, t := range d1 {
		if rc.Expired() || rc.Done() {
			return
		}
		c.checkExpr(t, "depth1")
	}
	// (1b) depth 2: every depth-1 form (reduced operator alphabet) with every combination of
	// composite operands in its child positions
	rc.Part = "depth2"
	forms := c01Depth1([]V{vInt(1), vInt(2)}, false)
	nOps := 18
	if !rc.Quick() {
		nOps = 21
	}
	c01Deep(rc, forms, c01Operands(nOps), func(t *enode) { c.checkExpr(t, "depth2") })
	// (1c) depth 3 (thorough): depth-2 trees as operands of the binary/boolean/conditional forms
	if !rc.Quick() {
		rc.Part = "depth3"
		var d2 []*enode
		small := c01Operands(10)
		c01Deep(rc, []*enode{
			{kind: "bin", op: "-", kids: []*enode{leaf(vInt(1)), leaf(vInt(2))}},
			{kind: "bool", op: "and", kids: []*enode{leaf(vInt(1)), leaf(vInt(2))}},
			{kind: "bool", op: "or", kids: []*enode{leaf(vInt(1)), leaf(vInt(2))}},
			{kind: "ifexp", kids: []*enode{leaf(vInt(1)), leaf(vInt(2)), leaf(vInt(0))}},
			{kind: "cmp", ops: []string{"<", "<"}, kids: []*enode{leaf(vInt(0)), leaf(vInt(1)), leaf(vInt(2))}},
		}, small, func(t *enode) { d2 = append(d2, t) })
		if len(d2) > 250 {
			// deterministic thinning: every k-th
			k := len(d2)/250 + 1
			var th []*enode
			for i := 0; i < len(d2); i += k {
				th = append(th, d2[i])
			}
			d2 = th
		}
		c01Deep(rc, []*enode{
			{kind: "bin", op: "-", kids: []*enode{leaf(vInt(1)), leaf(vInt(2))}},
			{kind: "bool", op: "and", kids: []*enode{leaf(vInt(1)), leaf(vInt(2))}},
			{kind: "bool", op: "or", kids: []*enode{leaf(vInt(1)), leaf(vInt(2))}},
			{kind: "ifexp", kids: []*enode{leaf(vInt(1)), leaf(vInt(2)), leaf(vInt(0))}},
			{kind: "tuple", kids: []*enode{leaf(vInt(1)), leaf(vInt(2))}},
		}, d2, func(t *enode) { c.checkExpr(t, "depth3") })
	}
	// (1d) comparisons that are not total: every ordering/equality operator over {nan, inf, 1, 2.5}
	// squared, bare, under `not` and `not not`, as the test of a conditional expression and as an
	// operand of and/or, and the chains of two operators over the cube - `not a < b` is not `a >= b`
	rc.Part = "nan-compare"
	{
		vals := []V{vFloat(math.NaN()), vFloat(math.Inf(1)), vInt(1), vFloat(2.5)}
		ops := []string{"<", "<=", "==", "!=", ">", ">="}
		wrap := func(t *enode) []*enode {
			not := &enode{kind: "un", op: "not", kids: []*enode{t}}
			return []*enode{t, not, {kind: "un", op: "not", kids: []*enode{clone(not)}},
				{kind: "ifexp", kids: []*enode{leaf(vInt(1)), clone(t), leaf(vInt(0))}},
				{kind: "ifexp", kids: []*enode{leaf(vInt(1)), clone(not), leaf(vInt(0))}},
				{kind: "bool", op: "and", kids: []*enode{clone(not), leaf(vInt(2))}},
				{kind: "bool", op: "or", kids: []*enode{clone(not), leaf(vInt(2))}}}
		}
		for _, op := range ops {
			for _, a := range vals {
				for _, b := range vals {
					for _, t := range wrap(&enode{kind: "cmp", ops: []string{op}, kids: []*enode{leaf(a), leaf(b)}}) {
						if rc.Expired() || rc.Done() {
							return
						}
						c.checkExpr(t, "nan-compare")
					}
				}
			}
		}
		for _, o1 := range ops {
			for _, o2 := range ops {
				for _, a := range vals {
					for _, b := range vals {
						for _, d := range vals {
							if rc.Expired() || rc.Done() {
								return
							}
							t := &enode{kind: "cmp", ops: []string{o1, o2}, kids: []*enode{leaf(a), leaf(b), leaf(d)}}
							c.checkExpr(t, "nan-compare")
							c.checkExpr(&enode{kind: "un", op: "not", kids: []*enode{clone(t)}}, "nan-compare")
						}
					}
				}
			}
		}
	}
	// (1e) conditions: chained comparisons under not / and / or in the test position of a
	// conditional expression (compilers translate tests into jumps instead of values there)
	rc.Part = "cond-tests"
	for _, o1 := range []string{"<", "==", ">="} {
		for _, o2 := range []string{"<", "!=", ">"} {
			for a := 0; a < 3; a++ {
				for b := 0; b < 3; b++ {
					for d := 0; d < 3; d++ {
						for l := 0; l < 2; l++ {
							if rc.Expired() || rc.Done() {
								return
							}
							chain := func() *enode {
								return &enode{kind: "cmp", ops: []string{o1, o2}, kids: []*enode{leaf(vInt(int64(a))), leaf(vInt(int64(b))), leaf(vInt(int64(d)))}}
							}
							lf := func() *enode { return leaf(vInt(int64(l))) }
							not := func(t *enode) *enode { return &enode{kind: "un", op: "not", kids: []*enode{t}} }
							bop := func(op string, x, y *enode) *enode { return &enode{kind: "bool", op: op, kids: []*enode{x, y}} }
							tests := []*enode{chain(), not(chain()), bop("or", chain(), lf()), bop("or", lf(), chain()), bop("and", chain(), lf()), bop("and", lf(), chain()),
								not(bop("or", chain(), lf())), not(bop("and", chain(), lf())), bop("or", not(chain()), lf()), bop("and", not(chain()), lf()),
								bop("or", chain(), chain()), not(not(chain()))}
							for _, t := range tests {
								c.checkExpr(&enode{kind: "ifexp", kids: []*enode{leaf(vInt(7)), t, leaf(vInt(8))}}, "cond-tests")
							}
						}
					}
				}
			}
		}
	}
	// (1f) bare literals as operands: values that are equal but not the same (1, 1.0, True;
	// (1, 2), (1.0, 2.0); 0, 0.0, False, ...) side by side in one code object - each operand must
	// come out with its own type, whatever the compiler does with its table of constants
	rc.Part = "literal-operands"
	{
		lits := []V{vInt(1), vFloat(1.0), vBool(true), vInt(0), vFloat(0.0), vBool(false), vInt(2), vFloat(2.0), vStr("a"), vStr(""),
			vTuple(), vTuple(vInt(1), vInt(2)), vTuple(vFloat(1.0), vFloat(2.0)), vTuple(vBool(true), vInt(2)), vTuple(vInt(0)), vTuple(vFloat(0.0)), vTuple(vBool(false)),
			vTuple(vTuple(vInt(1)), vInt(0)), vTuple(vTuple(vFloat(1.0)), vBool(false))}
		k := func(v V) *enode { return &enode{kind: "const", val: v} }
		for _, x := range lits {
			for _, y := range lits {
				if rc.Expired() || rc.Done() {
					return
				}
				c.checkExpr(&enode{kind: "tuple", kids: []*enode{k(x), k(y)}}, "literal-operands")
				c.checkExpr(&enode{kind: "tuple", kids: []*enode{k(x), leaf(vInt(5)), k(y), k(x)}}, "literal-operands")
				c.checkExpr(&enode{kind: "list", kids: []*enode{k(x), k(y), k(y)}}, "literal-operands")
				c.checkExpr(&enode{kind: "ifexp", kids: []*enode{k(x), leaf(vInt(1)), k(y)}}, "literal-operands")
				c.checkExpr(&enode{kind: "ifexp", kids: []*enode{k(x), leaf(vInt(0)), k(y)}}, "literal-operands")
			}
		}
	}
	// (2) assignment forms
	c01Assign(c)
	// (3) operator pairs / triples without parentheses
	c01Precedence(c)
}

func init() {
	core.Register(&core.Check{
		ID:    "C01",
		Level: "model_checking",
		Rule: "(1) every operator form (12 binary, 4 unary, 10 comparison incl. chains, and/or with 2-3 operands, conditional, subscript, attribute, call with positional/keyword/* arguments, lambda with default, tuple/list/set/dict displays) over 7 leaf values at depth 1, then every combination of composite operands (a falsy, a truthy and a raising instance per form) in every child position at depth 2 (thorough: depth 3 on a thinned set); each leaf logs its own evaluation. " +
			"(2) assignment: chained / tuple / subscript / attribute / slice targets on logging containers and all 12 augmented operators on every target kind. (3) unparenthesised operator pairs (thorough: triples) over the whole operator-token alphabet with all 27 (81) value assignments over {0,1,2}. " +
			"Oracle: a reference evaluator predicting the operand log and the value or exception type. Non-trivial: the expected log has >= 2 entries.",
		Run:         c01Run,
		Assumptions: []string{"cases whose value semantics are outside the small reference model (floats from **, string formatting, identity of non-singletons) are left out and counted as outside_model", "dict display: both key-first and value-first (CPython 3.4) orders are accepted"},
		Explanation: "exhaustive enumeration of bounded expression/assignment trees executed on the real pipeline and compared with a reference evaluator step by step (operand log + result)",
	})
}

package props

import (
	"bufio"
	"encoding/json"
	"os"
	"strconv"
	"testing"
)

// TestC19Dump writes cases + model predictions as JSON lines for scripts/c19_crosscheck.py
// (development aid: cross-checks the reference model against CPython).
//
//	C19_DUMP=/tmp/c19.jsonl C19_EVERY=3 C19_TIER=quick go test -tags verif -run TestC19Dump ./internal/props/
func TestC19Dump(t *testing.T) {
	path := os.Getenv("C19_DUMP")
	if path == "" {
		t.Skip("C19_DUMP not set")
	}
	every, _ := strconv.Atoi(os.Getenv("C19_EVERY"))
	if every < 1 {
		every = 1
	}
	f, err := os.Create(path)
	if err != nil {
		t.Fatal(err)
	}
	defer f.Close()
	w := bufio.NewWriterSize(f, 1<<20)
	defer w.Flush()
	enc := json.NewEncoder(w)
	i := 0
	c19Space(os.Getenv("C19_TIER") != "thorough", func(part, form string, cs *c19Case, via string) bool {
		i++
		if i%every != 0 || via != "source" {
			return true
		}
		exp, _ := c19Expect(cs)
		srcs := map[string]string{"main": c19Src(cs, 0)}
		for k := 1; k <= cs.n; k++ {
			srcs[c19TName(k)] = c19Src(cs, k)
		}
		enc.Encode(map[string]interface{}{"enc": cs.enc(), "n": cs.n, "src": srcs, "log": exp.log, "exc": exp.exc,
			"snap1": exp.snap1, "epi": exp.epi, "snap2": exp.snap2, "epinames": c19EpiNames(cs.n), "snapnames": c19SnapNames(cs.n)})
		return true
	})
}

func TestC19Count(t *testing.T) {
	for _, quick := range []bool{true, false} {
		counts := map[string]int{}
		c19Space(quick, func(part, form string, cs *c19Case, via string) bool {
			counts[part+"/"+form+"/n"+strconv.Itoa(cs.n)+"/"+via]++
			counts["total"]++
			return true
		})
		t.Logf("quick=%v %v", quick, counts)
	}
}

func BenchmarkC19(b *testing.B) {
	env := c19NewEnv()
	defer env.close()
	var cases []c19Case
	i := 0
	c19Space(true, func(part, form string, cs *c19Case, via string) bool {
		i++
		if i%37 == 0 && via == "source" {
			cp := *cs
			cp.mods = append([]c19Mod{}, cs.mods...)
			for i := range cp.mods {
				cp.mods[i].items = append([]c19Item{}, cs.mods[i].items...)
			}
			cases = append(cases, cp)
		}
		return true
	})
	b.ResetTimer()
	for i := 0; i < b.N; i++ {
		cs := &cases[i%len(cases)]
		exp, _ := c19Expect(cs)
		got := env.observe(cs, "source", false, i%2 == 0)
		_ = c19Diff(exp, got)
	}
}

func TestC19CountParts(t *testing.T) {
	for _, quick := range []bool{true, false} {
		counts := map[string]int{}
		c19Space(quick, func(part, form string, cs *c19Case, via string) bool {
			counts[part]++
			counts["via "+via]++
			counts["total"]++
			return true
		})
		t.Logf("quick=%v %v", quick, counts)
	}
}

package props

import (
	"math/big"
	"strconv"
	"strings"

	"github.com/go-python/gpython/py"
	"verif/internal/core"
	"verif/internal/harness"
)

// C13: indexing and slicing follow Python's sequence model for all indices.
// Enumeration in c13Run; reference model and canonicaliser in c13model.go.

type c13 struct {
	rc *core.RunCtx
	ev *evaluator
	ix []c13ix // index alphabet (None first)
}

// do runs one case. body returns the model's expectation, the observation and optionally
// a secondary (aliasing / corruption) class with its description.
func (c *c13) do(f core.Fields, in string, body func() (exp, got Res, auxSig, auxObs string)) {
	rc := c.rc
	rc.Guard(f, func() string { return in }, func() {
		exp, got, auxSig, auxObs := body()
		rc.Eval(f["op"]+":"+outcomeClass(exp), in)
		if rc.WantSample() && rc.Index()%250007 == 1 {
			rc.Sample(map[string]string{"case": in, "expected": exp.String(), "observed": got.String()})
		}
		if !got.matches(exp) {
			rc.Deviate(core.Deviation{Fields: f, Input: in, Expected: exp.String(), Observed: got.String(), Sig: f["op"] + ":" + devClass(exp, got)})
		} else if auxSig != "" {
			rc.Deviate(core.Deviation{Fields: f, Input: in, Expected: exp.String() + " and operands intact / result independent", Observed: auxObs, Sig: f["op"] + ":" + auxSig})
		}
	})
}

func c13res(kind string, e []int64, exc string) Res {
	if exc != "" {
		return excRes(exc)
	}
	return valRes(c13canonKE(kind, e))
}

func c13sliceSrc(a, b, c c13ix) string {
	sa, sb := "", ""
	if !a.none {
		sa = a.src
	}
	if !b.none {
		sb = b.src
	}
	if c.none {
		return sa + ":" + sb
	}
	return sa + ":" + sb + ":" + c.src
}

func c13sliceObj(a, b, c c13ix) py.Object { return py.NewSlice(a.obj(), b.obj(), c.obj()) }

// c13mutate mutates a result list in place (item store through the API and an append).
func c13mutate(res py.Object) {
	if rl, ok := res.(*py.List); ok {
		if len(rl.Items) > 0 {
			py.SetItem(rl, py.Int(0), py.Int(-777))
			py.SetItem(rl, py.Int(-1), py.Int(-776))
		}
		rl.Append(py.Int(-778))
	}
}

// c13intact: "" if every operand still reads as its model value.
func c13intact(pairs ...interface{}) string {
	for i := 0; i+1 < len(pairs); i += 2 {
		o := pairs[i].(py.Object)
		want := pairs[i+1].(string)
		if got := c13Canon(o); got != want {
			return "operand " + strconv.Itoa(i/2) + " now reads " + got + ", was " + want
		}
	}
	return ""
}

func (c *c13) tags() (seqTags []string, rangeTags []string) {
	if c.rc.Quick() {
		return []string{"str", "ustr", "list", "tuple", "bytes"}, []string{"r1", "r-1", "r-2m", "r3m"}
	}
	return []string{"str", "ustr", "ustr2", "list", "tuple", "bytes"}, []string{"r1", "r-1", "r2", "r2m", "r-2", "r-2m", "r3", "r3m"}
}

func (c *c13) maxLen() int {
	if c.rc.Quick() {
		return 4
	}
	return 6
}

func c13Run(rc *core.RunCtx) {
	c := &c13{rc: rc, ev: newEvaluator(), ix: c13Alphabet()}
	if rc.Quick() {
		// quick: 4 of the 6 far-out values (both signs, fitting and not fitting an int64)
		var ix []c13ix
		for _, x := range c.ix {
			if x.name != "-2^63+1" && x.name != "2^64" {
				ix = append(ix, x)
			}
		}
		c.ix = ix
	}
	rc.Note("index_alphabet", itoa(len(c.ix)))
	steps := []func(){
		c.partItemGet, c.partLenIter, c.partItemSetDel, c.partConcat, c.partRepeat, c.partContains,
		c.partCompare, c.partRangeNew, c.partSliceNew, c.partSliceGet, c.partSliceDel, c.partSliceSetExtra, c.partSliceSet, c.partShared,
	}
	for _, s := range steps {
		if rc.Expired() || rc.Done() {
			return
		}
		s()
	}
}

// ---------------------------------------------------------------------------
// item get
// ---------------------------------------------------------------------------

type c13key struct {
	name, src string
	obj       py.Object
	ival      *big.Int // nil: not an integer key (TypeError)
}

func (c *c13) keys() []c13key {
	var ks []c13key
	for _, x := range c.ix {
		if x.none {
			continue
		}
		ks = append(ks, c13key{x.name, x.src, x.obj(), x.v})
	}
	for _, x := range c.ix {
		if x.none || !x.v.IsInt64() {
			continue
		}
		ks = append(ks, c13key{x.name + "[big]", x.src, x.objBig(), x.v})
	}
	ks = append(ks,
		c13key{"True", "True", py.True, big.NewInt(1)},
		c13key{"False", "False", py.False, big.NewInt(0)},
		c13key{"None", "None", py.None, nil},
		c13key{"1.0", "1.0", py.Float(1), nil},
		c13key{"'0'", "'0'", py.String("0"), nil},
		c13key{"(0,)", "(0,)", py.Tuple{py.Int(0)}, nil},
	)
	return ks
}

func (c *c13) partItemGet() {
	rc := c.rc
	rc.Part = "item-get"
	st, rt := c.tags()
	tags := append(append([]string{}, st...), rt...)
	keys := c.keys()
	for n := 0; n <= c.maxLen(); n++ {
		for _, tag := range tags {
			if rc.Expired() || rc.Done() {
				return
			}
			for _, k := range keys {
				for _, via := range []string{"api", "src"} {
					if via == "src" && strings.HasSuffix(k.name, "[big]") {
						continue // the representation only exists on the API path
					}
					if !rc.Take() {
						continue
					}
					s := c13mk(tag, n)
					k, via := k, via
					f := core.Fields{"op": "item-get", "kind": tag, "n": itoa(n), "i": k.name, "via": via}
					in := s.lit() + "[" + k.src + "]"
					label := via + ": " + in
					if strings.HasSuffix(k.name, "[big]") {
						label = "api[index as *py.BigInt]: " + in
					}
					c.do(f, label, func() (Res, Res, string, string) {
						var exp Res
						if k.ival == nil {
							exp = excRes("TypeError")
						} else if p, exc := c13Item(n, k.ival); exc != "" {
							exp = excRes(exc)
						} else {
							switch s.kind {
							case "str":
								exp = valRes(c13canonKE("str", s.e[p:p+1]))
							default:
								exp = valRes("int:" + strconv.FormatInt(s.e[p], 10))
							}
						}
						var got Res
						if via == "api" {
							o := s.obj()
							got = c13obs(py.GetItem(o, k.obj))
							if bad := c13intact(o, s.canon()); bad != "" {
								return exp, got, "operand-corrupted", bad
							}
						} else {
							got = c13obs(c.ev.Eval(in))
						}
						return exp, got, "", ""
					})
				}
			}
		}
	}
}

// ---------------------------------------------------------------------------
// len and iteration
// ---------------------------------------------------------------------------

func (c *c13) partLenIter() {
	rc := c.rc
	rc.Part = "len-iter"
	st, rt := c.tags()
	tags := append(append([]string{}, st...), rt...)
	forms := []string{"len-api", "len-src", "iter-api", "iterate-api", "for-src", "list-src", "tuple-src", "listcomp-src", "unpack-src", "bool-src"}
	for n := 0; n <= c.maxLen(); n++ {
		for _, tag := range tags {
			if rc.Expired() || rc.Done() {
				return
			}
			for _, form := range forms {
				if !rc.Take() {
					continue
				}
				s := c13mk(tag, n)
				form := form
				op := "iter"
				if strings.HasPrefix(form, "len") || strings.HasPrefix(form, "bool") {
					op = "len"
				}
				via := "src"
				if strings.HasSuffix(form, "api") {
					via = "api"
				}
				f := core.Fields{"op": op, "kind": tag, "n": itoa(n), "form": form, "via": via}
				var in string
				switch form {
				case "len-api":
					in = "py.Len(" + s.lit() + ")"
				case "len-src":
					in = "len(" + s.lit() + ")"
				case "bool-src":
					in = "bool(" + s.lit() + ")"
				case "iter-api":
					in = "py.Iter/py.Next over " + s.lit()
				case "iterate-api":
					in = "py.Iterate over " + s.lit()
				case "for-src":
					in = "r = []\nfor x in " + s.lit() + ":\n    r.append(x)\n"
				case "list-src":
					in = "list(" + s.lit() + ")"
				case "tuple-src":
					in = "tuple(" + s.lit() + ")"
				case "listcomp-src":
					in = "[x for x in " + s.lit() + "]"
				case "unpack-src":
					in = "[*r] = " + s.lit() + "\n"
				}
				c.do(f, in, func() (Res, Res, string, string) {
					ic := c13iterCanon(s)
					switch form {
					case "len-api":
						return valRes("int:" + itoa(n)), c13obs(py.Len(s.obj())), "", ""
					case "len-src":
						return valRes("int:" + itoa(n)), c13obs(c.ev.Eval(in)), "", ""
					case "bool-src":
						e := "bool:False"
						if n > 0 {
							e = "bool:True"
						}
						return valRes(e), c13obs(c.ev.Eval(in)), "", ""
					case "iter-api":
						got := c13iterate(s.obj())
						if strings.HasPrefix(got, "!") {
							return valRes("iter:" + ic), excRes(got[1:]), "", "" // py.Iter itself failed
						}
						return valRes("iter:" + ic), valRes("iter:" + got), "", ""
					case "iterate-api":
						var xs []py.Object
						err := py.Iterate(s.obj(), func(x py.Object) bool { xs = append(xs, x); return false })
						if err != nil {
							return valRes("iter:" + ic), c13obs(nil, err), "", ""
						}
						return valRes("iter:" + ic), valRes("iter:" + c13objs(xs)), "", ""
					case "for-src", "unpack-src":
						g, err := c.ev.Exec(in)
						if err != nil {
							return valRes("list:" + ic), c13obs(nil, err), "", ""
						}
						return valRes("list:" + ic), c13obs(g["r"], nil), "", ""
					case "tuple-src":
						return valRes("tuple:" + ic), c13obs(c.ev.Eval(in)), "", ""
					}
					return valRes("list:" + ic), c13obs(c.ev.Eval(in)), "", ""
				})
			}
		}
	}
}

// ---------------------------------------------------------------------------
// item set / del
// ---------------------------------------------------------------------------

func (c *c13) partItemSetDel() {
	rc := c.rc
	rc.Part = "item-set-del"
	st, rt := c.tags()
	tags := append(append([]string{}, st...), rt[:2]...)
	keys := c.keys()
	for n := 0; n <= c.maxLen(); n++ {
		for _, tag := range tags {
			if rc.Expired() || rc.Done() {
				return
			}
			for _, k := range keys {
				if tag != "list" && !(k.name == "0" || k.name == "-1" || k.name == "9" || k.name == "None" || k.name == "2^64") {
					continue // immutable kinds: a few keys suffice (the answer is TypeError for all)
				}
				for _, op := range []string{"item-set", "item-del"} {
					for _, via := range []string{"api", "src"} {
						if !rc.Take() {
							continue
						}
						s := c13mk(tag, n)
						k, op, via := k, op, via
						f := core.Fields{"op": op, "kind": tag, "n": itoa(n), "i": k.name, "via": via}
						var in string
						if op == "item-set" {
							in = "l = " + s.lit() + "\nl[" + k.src + "] = 99\n"
						} else {
							in = "l = " + s.lit() + "\ndel l[" + k.src + "]\n"
						}
						c.do(f, via+": "+in, func() (Res, Res, string, string) {
							var exp Res
							switch {
							case s.kind != "list":
								exp = excRes("TypeError")
							case k.ival == nil:
								exp = excRes("TypeError")
							default:
								p, exc := c13Item(n, k.ival)
								if exc != "" {
									exp = excRes(exc)
								} else if op == "item-set" {
									e := append([]int64{}, s.e...)
									e[p] = 99
									exp = valRes(c13canonKE("list", e))
								} else {
									e := append(append([]int64{}, s.e[:p]...), s.e[p+1:]...)
									exp = valRes(c13canonKE("list", e))
								}
							}
							var o py.Object
							var err error
							if via == "api" {
								o = s.obj()
								if op == "item-set" {
									_, err = py.SetItem(o, k.obj, py.Int(99))
								} else {
									_, err = py.DelItem(o, k.obj)
								}
							} else {
								var g py.StringDict
								g, err = c.ev.Exec(in)
								o = g["l"]
							}
							if err != nil {
								got := c13obs(nil, err)
								if got.matches(exp) {
									if bad := c13intact(o, s.canon()); bad != "" {
										return exp, got, "operand-changed-by-failed-operation", bad
									}
								}
								return exp, got, "", ""
							}
							return exp, valRes(c13Canon(o)), "", ""
						})
					}
				}
			}
		}
	}
}

// ---------------------------------------------------------------------------
// concatenation
// ---------------------------------------------------------------------------

// c13mkB: a second operand of the same variant whose elements differ from c13mk's at
// every position.
func c13mkB(tag string, n int) c13seq {
	switch tag {
	case "list", "tuple":
		s := c13mk(tag, n)
		for i := range s.e {
			s.e[i] += 10
		}
		return s
	case "str", "ustr", "ustr2", "bytes":
		full := c13mk(tag, 7)
		e := make([]int64, n)
		for i := range e {
			e[i] = full.e[6-i]
		}
		full.e = e
		return full
	}
	return c13mkRange(tag, 40, int64(n), 1, false)
}

func (c *c13) partConcat() {
	rc := c.rc
	rc.Part = "concat"
	st, _ := c.tags()
	L := c.maxLen()
	// same-kind pairs, all length combinations
	for _, ta := range st {
		for _, tb := range st {
			if c13mk(ta, 0).kind != c13mk(tb, 0).kind {
				continue
			}
			for na := 0; na <= L; na++ {
				for nb := 0; nb <= L; nb++ {
					if rc.Expired() || rc.Done() {
						return
					}
					for _, op := range []string{"concat", "iconcat"} {
						for _, via := range []string{"api", "src"} {
							if !rc.Take() {
								continue
							}
							c.concatCase(c13mk(ta, na), c13mkB(tb, nb), op, via)
						}
					}
				}
			}
		}
	}
	// mixed kinds (and range, which has no concatenation): TypeError
	all := []string{"str", "list", "tuple", "bytes", "r1"}
	for _, ta := range all {
		for _, tb := range all {
			for _, n := range []int{0, 1, 2} {
				if ta == tb && ta != "r1" {
					continue
				}
				for _, op := range []string{"concat", "iconcat"} {
					if op == "iconcat" && ta == "list" && tb == "str" {
						continue // list += str extends by 1-character strings: outside the integer element model
					}
					for _, via := range []string{"api", "src"} {
						if !rc.Take() {
							continue
						}
						c.concatCase(c13mk(ta, n), c13mkB(tb, n), op, via)
					}
				}
			}
		}
	}
}

func (c *c13) concatCase(a, b c13seq, op, via string) {
	f := core.Fields{"op": op, "kind": a.tag, "kind2": b.tag, "n": itoa(a.n()), "n2": itoa(b.n()), "via": via}
	var in string
	if op == "concat" {
		in = a.lit() + " + " + b.lit()
	} else {
		in = "x = " + a.lit() + "\ny = x\nx += " + b.lit() + "\n"
	}
	c.do(f, via+": "+in, func() (Res, Res, string, string) {
		provided := a.kind == b.kind && a.kind != "range"
		// list += any iterable extends the list (in place); here the mixed operands are
		// str/tuple/bytes/range: all iterable. Only same-kind and list+=tuple/range are
		// in the alphabet for values; list += str/bytes are left to TypeError-or-value? No:
		// they are well defined (extend by the elements).
		sum := append(append([]int64{}, a.e...), b.e...)
		if op == "concat" {
			exp := excRes("TypeError")
			if provided {
				exp = valRes(c13canonKE(a.kind, sum))
			}
			if via == "src" && a.kind != "list" && b.kind != "list" {
				return exp, c13obs(c.ev.Eval(in)), "", ""
			}
			var ao, bo, res py.Object
			var err error
			if via == "src" {
				// a list operand: keep the operands in variables so that they can be re-read
				g, e := c.ev.Exec("x = " + a.lit() + "\ny = " + b.lit() + "\nr = x + y\n")
				ao, bo, res, err = g["x"], g["y"], g["r"], e
			} else {
				ao, bo = a.obj(), b.obj()
				res, err = py.Add(ao, bo)
			}
			got := c13obs(res, err)
			if err == nil && got.matches(exp) {
				if harness.Same(res, ao) && a.kind == "list" || harness.Same(res, bo) && b.kind == "list" {
					return exp, got, "result-is-operand", "a + b returned one of its (mutable) operands"
				}
				c13mutate(res)
			}
			if bad := c13intact(ao, a.canon(), bo, b.canon()); bad != "" {
				return exp, got, "operand-corrupted", bad
			}
			return exp, got, "", ""
		}
		// x += b with y an alias of the old x
		var exp Res
		switch {
		case a.kind == "list" && b.kind != "str":
			// in-place extend by the elements of any iterable; y is the same object
			exp = valRes(c13canonKE("list", sum) + ";y=" + c13canonKE("list", sum) + ";same=true")
		case provided:
			exp = valRes(c13canonKE(a.kind, sum) + ";y=" + a.canon() + ";same=" + strconv.FormatBool(false))
		default:
			exp = excRes("TypeError")
		}
		var x, y, bo py.Object
		var err error
		if via == "api" {
			y = a.obj()
			bo = b.obj()
			x, err = py.IAdd(y, bo)
		} else {
			var g py.StringDict
			g, err = c.ev.Exec(in)
			x, y = g["x"], g["y"]
		}
		if err != nil {
			got := c13obs(nil, err)
			if got.matches(exp) && y != nil {
				if bad := c13intact(y, a.canon()); bad != "" {
					return exp, got, "operand-changed-by-failed-operation", bad
				}
			}
			return exp, got, "", ""
		}
		got := valRes(c13Canon(x) + ";y=" + c13Canon(y) + ";same=" + strconv.FormatBool(harness.Same(x, y)))
		if a.kind != "list" && len(b.e) == 0 || a.kind != "list" && len(a.e) == 0 {
			// immutable x += empty (or empty += b) may legitimately return an operand itself
			got = valRes(c13Canon(x) + ";y=" + c13Canon(y) + ";same=false")
		}
		if bo != nil {
			if bad := c13intact(bo, b.canon()); bad != "" {
				return exp, got, "operand-corrupted", bad
			}
		}
		return exp, got, "", ""
	})
}

// ---------------------------------------------------------------------------
// repetition
// ---------------------------------------------------------------------------

type c13count struct {
	name, src string
	obj       py.Object
	k         *big.Int // nil: not an integer (TypeError)
}

func (c *c13) counts() []c13count {
	mk := func(v *big.Int, name string) c13count { return c13count{name, "(" + v.String() + ")", pyInt(v), v} }
	out := []c13count{}
	for _, k := range []int64{0, 1, -1, 2, 3} {
		out = append(out, mk(big.NewInt(k), strconv.FormatInt(k, 10)))
	}
	out = append(out, c13count{"True", "True", py.True, big.NewInt(1)}, c13count{"False", "False", py.False, big.NewInt(0)})
	for _, x := range c.ix[20:] {
		out = append(out, mk(x.v, x.name))
	}
	out = append(out,
		c13count{"1.0", "1.0", py.Float(1), nil},
		c13count{"None", "None", py.None, nil},
		c13count{"'2'", "'2'", py.String("2"), nil},
		c13count{"[2]", "[2]", py.NewListFromItems([]py.Object{py.Int(2)}), nil},
	)
	return out
}

func (c *c13) partRepeat() {
	rc := c.rc
	rc.Part = "repeat"
	st, _ := c.tags()
	tags := append(append([]string{}, st...), "r1")
	maxS := new(big.Int).Sub(new(big.Int).Lsh(big.NewInt(1), 63), big.NewInt(1))
	minS := new(big.Int).Neg(new(big.Int).Lsh(big.NewInt(1), 63))
	for n := 0; n <= c.maxLen(); n++ {
		for _, tag := range tags {
			if rc.Expired() || rc.Done() {
				return
			}
			for _, k := range c.counts() {
				if k.k != nil && k.k.Cmp(maxS) == 0 && n > 0 {
					continue // n * (2^63-1) elements: MemoryError in CPython, not part of the model
				}
				for _, op := range []string{"repeat", "rrepeat", "irepeat"} {
					for _, via := range []string{"api", "src"} {
						if !rc.Take() {
							continue
						}
						s := c13mk(tag, n)
						k, op, via := k, op, via
						f := core.Fields{"op": op, "kind": tag, "n": itoa(n), "k": k.name, "via": via}
						var in string
						switch op {
						case "repeat":
							in = s.lit() + " * " + k.src
						case "rrepeat":
							in = k.src + " * " + s.lit()
						default:
							in = "x = " + s.lit() + "\ny = x\nx *= " + k.src + "\n"
						}
						c.do(f, via+": "+in, func() (Res, Res, string, string) {
							var rep []int64
							var exp Res
							switch {
							case s.kind == "range":
								exp = excRes("TypeError")
							case k.k == nil:
								exp = excRes("TypeError")
							case k.k.Cmp(maxS) > 0 || k.k.Cmp(minS) < 0:
								exp = excRes("OverflowError")
							default:
								if k.k.Sign() > 0 {
									for i := int64(0); i < k.k.Int64() && len(s.e) > 0; i++ {
										rep = append(rep, s.e...)
									}
								}
								exp = valRes(c13canonKE(s.kind, rep))
							}
							if op != "irepeat" {
								if via == "src" && s.kind != "list" {
									return exp, c13obs(c.ev.Eval(in)), "", ""
								}
								var so, res py.Object
								var err error
								switch {
								case via == "src":
									// lists: keep the operand in a variable so that it can be re-read
									prog := "x = " + s.lit() + "\nr = x * " + k.src + "\n"
									if op == "rrepeat" {
										prog = "x = " + s.lit() + "\nr = " + k.src + " * x\n"
									}
									var g py.StringDict
									g, err = c.ev.Exec(prog)
									so, res = g["x"], g["r"]
								case op == "repeat":
									so = s.obj()
									res, err = py.Mul(so, k.obj)
								default:
									so = s.obj()
									res, err = py.Mul(k.obj, so)
								}
								got := c13obs(res, err)
								if err == nil && got.matches(exp) && s.kind == "list" {
									if harness.Same(res, so) {
										return exp, got, "result-is-operand", "l * k returned l itself"
									}
									c13mutate(res)
								}
								if bad := c13intact(so, s.canon()); bad != "" {
									return exp, got, "operand-corrupted", bad
								}
								return exp, got, "", ""
							}
							// x *= k with y an alias of the old x
							if exp.Exc == "" {
								if s.kind == "list" {
									exp = valRes(c13canonKE("list", rep) + ";y=" + c13canonKE("list", rep) + ";same=true")
								} else {
									exp = valRes(c13canonKE(s.kind, rep) + ";y=" + s.canon() + ";same=false")
								}
							}
							var x, y py.Object
							var err error
							if via == "api" {
								y = s.obj()
								x, err = py.IMul(y, k.obj)
							} else {
								var g py.StringDict
								g, err = c.ev.Exec(in)
								x, y = g["x"], g["y"]
							}
							if err != nil {
								got := c13obs(nil, err)
								if got.matches(exp) && y != nil {
									if bad := c13intact(y, s.canon()); bad != "" {
										return exp, got, "operand-changed-by-failed-operation", bad
									}
								}
								return exp, got, "", ""
							}
							same := harness.Same(x, y)
							if s.kind != "list" {
								same = false // an immutable x *= 1 may return x itself
							}
							return exp, valRes(c13Canon(x) + ";y=" + c13Canon(y) + ";same=" + strconv.FormatBool(same)), "", ""
						})
					}
				}
			}
		}
	}
}

// ---------------------------------------------------------------------------
// membership
// ---------------------------------------------------------------------------

type c13probe struct {
	name, src string
	obj       py.Object
	exp       string // "True", "False" or an exception name
}

func boolName(b bool) string {
	if b {
		return "True"
	}
	return "False"
}

func c13probes(s c13seq) []c13probe {
	var ps []c13probe
	has := func(v int64) bool {
		for _, x := range s.e {
			if x == v {
				return true
			}
		}
		return false
	}
	intProbe := func(v int64) c13probe {
		return c13probe{strconv.FormatInt(v, 10), "(" + strconv.FormatInt(v, 10) + ")", py.Int(v), boolName(has(v))}
	}
	sub := func(kind string, e []int64) c13probe {
		t := c13seq{kind: kind, e: e}
		return c13probe{t.lit(), t.lit(), t.obj(), boolName(c13subseq(s.e, e))}
	}
	switch s.kind {
	case "list", "tuple":
		for v := int64(9); v <= 17; v++ {
			ps = append(ps, intProbe(v))
		}
		ps = append(ps, c13probe{"'a'", "'a'", py.String("a"), "False"}, c13probe{"None", "None", py.None, "False"},
			c13probe{"10.0", "10.0", py.Float(10), boolName(has(10))}, c13probe{"True", "True", py.True, "False"})
	case "range":
		lo, hi := int64(5), int64(5)
		for _, x := range s.e {
			if x < lo {
				lo = x
			}
			if x > hi {
				hi = x
			}
		}
		for v := lo - 3; v <= hi+3; v++ {
			ps = append(ps, intProbe(v))
		}
		ps = append(ps, c13probe{"'5'", "'5'", py.String("5"), "False"}, c13probe{"None", "None", py.None, "False"},
			c13probe{"5.0", "5.0", py.Float(5), boolName(has(5))}, c13probe{"5.5", "5.5", py.Float(5.5), "False"},
			c13probe{"True", "True", py.True, boolName(has(1))})
	case "str", "bytes":
		full := c13mk(s.tag, 7).e
		ps = append(ps, sub(s.kind, nil))
		for i := 0; i < 7; i++ {
			for j := i + 1; j <= 7 && j <= i+3; j++ {
				ps = append(ps, sub(s.kind, full[i:j]))
			}
		}
		ps = append(ps, sub(s.kind, []int64{full[0], full[2]}), sub(s.kind, []int64{full[1], full[0]}), sub(s.kind, []int64{'Z'}))
		if s.kind == "str" {
			ps = append(ps, c13probe{"1", "1", py.Int(1), "TypeError"}, c13probe{"None", "None", py.None, "TypeError"},
				c13probe{"b'a'", "b'a'", py.Bytes("a"), "TypeError"})
		} else {
			for _, v := range []int64{0, 96, 97, 98, 99, 103, 104, 255} {
				ps = append(ps, intProbe(v))
			}
			ps = append(ps, c13probe{"'a'", "'a'", py.String("a"), "TypeError"}, c13probe{"None", "None", py.None, "TypeError"})
		}
	}
	return ps
}

func (c *c13) partContains() {
	rc := c.rc
	rc.Part = "contains"
	st, rt := c.tags()
	tags := append(append([]string{}, st...), rt...)
	for n := 0; n <= c.maxLen(); n++ {
		for _, tag := range tags {
			if rc.Expired() || rc.Done() {
				return
			}
			s := c13mk(tag, n)
			for _, p := range c13probes(s) {
				for _, form := range []string{"api", "in", "not in"} {
					if !rc.Take() {
						continue
					}
					p, form := p, form
					via := "src"
					if form == "api" {
						via = "api"
					}
					f := core.Fields{"op": "contains", "kind": tag, "n": itoa(n), "x": p.name, "form": form, "via": via}
					in := p.src + " " + form + " " + s.lit()
					if form == "api" {
						in = "py.SequenceContains(" + s.lit() + ", " + p.src + ")"
					}
					c.do(f, in, func() (Res, Res, string, string) {
						var exp Res
						switch p.exp {
						case "True", "False":
							v := p.exp == "True"
							if form == "not in" {
								v = !v
							}
							exp = valRes("bool:" + boolName(v))
						default:
							exp = excRes(p.exp)
						}
						if form == "api" {
							found, err := py.SequenceContains(s.obj(), p.obj)
							if err != nil {
								return exp, c13obs(nil, err), "", ""
							}
							return exp, valRes("bool:" + boolName(found)), "", ""
						}
						return exp, c13obs(c.ev.Eval(in)), "", ""
					})
				}
			}
		}
	}
}

// ---------------------------------------------------------------------------
// equality and ordering
// ---------------------------------------------------------------------------

func c13words(alpha []int64, minLen, maxLen int) [][]int64 {
	out := [][]int64{}
	var rec func(prefix []int64, l int)
	for l := minLen; l <= maxLen; l++ {
		rec = func(prefix []int64, left int) {
			if left == 0 {
				out = append(out, append([]int64{}, prefix...))
				return
			}
			for _, a := range alpha {
				rec(append(prefix, a), left-1)
			}
		}
		rec(nil, l)
	}
	return out
}

type c13cmpop struct {
	name, sym string
	api       func(a, b py.Object) (py.Object, error)
	test      func(c int) bool
	ordering  bool
}

func c13cmpops() []c13cmpop {
	return []c13cmpop{
		{"eq", "==", py.Eq, func(c int) bool { return c == 0 }, false},
		{"ne", "!=", py.Ne, func(c int) bool { return c != 0 }, false},
		{"lt", "<", py.Lt, func(c int) bool { return c < 0 }, true},
		{"le", "<=", py.Le, func(c int) bool { return c <= 0 }, true},
		{"gt", ">", py.Gt, func(c int) bool { return c > 0 }, true},
		{"ge", ">=", py.Ge, func(c int) bool { return c >= 0 }, true},
	}
}

func (c *c13) partCompare() {
	rc := c.rc
	rc.Part = "compare"
	maxW := 3
	pools := map[string][]c13seq{}
	order := []string{"str", "list", "tuple", "bytes", "range"}
	for _, w := range c13words([]int64{'a', 'b'}, 0, maxW) {
		pools["str"] = append(pools["str"], c13seq{kind: "str", tag: "str", e: w})
		pools["bytes"] = append(pools["bytes"], c13seq{kind: "bytes", tag: "bytes", e: w})
	}
	for _, w := range c13words([]int64{0xe9, 0x1f600, 0xffff}, 1, 2) {
		pools["str"] = append(pools["str"], c13seq{kind: "str", tag: "ustr", e: w})
	}
	for _, w := range c13words([]int64{1, 2}, 0, maxW) {
		pools["list"] = append(pools["list"], c13seq{kind: "list", tag: "list", e: w})
		pools["tuple"] = append(pools["tuple"], c13seq{kind: "tuple", tag: "tuple", e: w})
	}
	for _, start := range []int64{0, 1} {
		for stop := int64(-1); stop <= 4; stop++ {
			for _, step := range []int64{1, 2, 3, -1, -2} {
				var e []int64
				for x := start; (step > 0 && x < stop) || (step < 0 && x > stop); x += step {
					e = append(e, x)
				}
				pools["range"] = append(pools["range"], c13seq{kind: "range", tag: "range", e: e, rstart: start, rstop: stop, rstep: step})
			}
		}
	}
	ops := c13cmpops()
	one := func(a, b c13seq, op c13cmpop, via string) {
		f := core.Fields{"op": op.name, "kind": a.kind, "kind2": b.kind, "a": short(a.lit(), 40), "b": short(b.lit(), 40), "via": via}
		in := a.lit() + " " + op.sym + " " + b.lit()
		c.do(f, via+": "+in, func() (Res, Res, string, string) {
			var exp Res
			switch {
			case a.kind != b.kind:
				switch op.name {
				case "eq":
					exp = valRes("bool:False")
				case "ne":
					exp = valRes("bool:True")
				default:
					exp = excRes("TypeError")
				}
			case a.kind == "range" && op.ordering:
				exp = excRes("TypeError")
			default:
				exp = valRes("bool:" + boolName(op.test(c13cmp(a.e, b.e))))
			}
			if via == "src" {
				return exp, c13obs(c.ev.Eval(in)), "", ""
			}
			return exp, c13obs(op.api(a.obj(), b.obj())), "", ""
		})
	}
	for _, kind := range order {
		pool := pools[kind]
		for _, a := range pool {
			if rc.Expired() || rc.Done() {
				return
			}
			for _, b := range pool {
				for _, op := range ops {
					for _, via := range []string{"api", "src"} {
						if !rc.Take() {
							continue
						}
						one(a, b, op, via)
					}
				}
			}
		}
	}
	// cross-kind: == is False, != is True, ordering is TypeError
	reps := []c13seq{}
	for _, kind := range order {
		reps = append(reps, pools[kind][0])
		for _, s := range pools[kind] {
			if len(s.e) == 1 {
				reps = append(reps, s)
				break
			}
		}
	}
	reps = append(reps, c13seq{kind: "list", tag: "list", e: []int64{97}}, c13seq{kind: "tuple", tag: "tuple", e: []int64{97}}, c13seq{kind: "list", tag: "list", e: []int64{0}})
	for _, a := range reps {
		for _, b := range reps {
			if a.kind == b.kind {
				continue
			}
			for _, op := range ops {
				for _, via := range []string{"api", "src"} {
					if !rc.Take() {
						continue
					}
					one(a, b, op, via)
				}
			}
		}
	}
}

// ---------------------------------------------------------------------------
// range construction
// ---------------------------------------------------------------------------

func (c *c13) partRangeNew() {
	rc := c.rc
	rc.Part = "range-new"
	lim := int64(3)
	if !rc.Quick() {
		lim = 4
	}
	for start := -lim; start <= lim; start++ {
		for stop := -lim; stop <= lim; stop++ {
			if rc.Expired() || rc.Done() {
				return
			}
			for step := -lim; step <= lim; step++ {
				for _, form := range []string{"3", "2", "1"} {
					if form == "2" && step != 1 || form == "1" && (step != 1 || start != 0) {
						continue
					}
					for _, via := range []string{"api", "src"} {
						if !rc.Take() {
							continue
						}
						start, stop, step, form, via := start, stop, step, form, via
						var args []string
						var targs py.Tuple
						switch form {
						case "3":
							args = []string{itoa(int(start)), itoa(int(stop)), itoa(int(step))}
							targs = py.Tuple{py.Int(start), py.Int(stop), py.Int(step)}
						case "2":
							args = []string{itoa(int(start)), itoa(int(stop))}
							targs = py.Tuple{py.Int(start), py.Int(stop)}
						default:
							args = []string{itoa(int(stop))}
							targs = py.Tuple{py.Int(stop)}
						}
						in := "range(" + strings.Join(args, ", ") + ")"
						f := core.Fields{"op": "range-new", "kind": "range", "a": itoa(int(start)), "b": itoa(int(stop)), "c": itoa(int(step)), "form": form, "via": via}
						c.do(f, via+": "+in, func() (Res, Res, string, string) {
							var exp Res
							if step == 0 {
								exp = excRes("ValueError")
							} else {
								e := []int64{}
								for x := start; (step > 0 && x < stop) || (step < 0 && x > stop); x += step {
									e = append(e, x)
								}
								exp = valRes(c13canonKE("range", e))
							}
							if via == "api" {
								return exp, c13obs(py.RangeNew(py.RangeType, targs, nil)), "", ""
							}
							return exp, c13obs(c.ev.Eval(in)), "", ""
						})
					}
				}
			}
		}
	}
}

// ---------------------------------------------------------------------------
// slice objects built by slice(): attributes and use as a subscript
// ---------------------------------------------------------------------------

func (c *c13) partSliceNew() {
	rc := c.rc
	rc.Part = "slice-new"
	s := c13mk("list", 4)
	sub := []c13ix{}
	for _, x := range c.ix {
		switch x.name {
		case "None", "0", "1", "-1", "2", "-2", "3", "-3", "4", "-4", "5", "-5", "9", "-9", "2^63-1", "-2^63", "2^64", "-2^64":
			sub = append(sub, x)
		}
	}
	for _, a := range sub {
		for _, b := range sub {
			if rc.Expired() || rc.Done() {
				return
			}
			for _, cc := range sub {
				for _, form := range []string{"3", "2", "1"} {
					if form == "2" && !cc.none || form == "1" && !(cc.none && a.none) {
						continue
					}
					if !rc.Take() {
						continue
					}
					a, b, cc, form := a, b, cc, form
					var call string
					switch form {
					case "3":
						call = "slice(" + a.src + ", " + b.src + ", " + cc.src + ")"
					case "2":
						call = "slice(" + a.src + ", " + b.src + ")"
					default:
						call = "slice(" + b.src + ")"
					}
					in := "s = " + call + "\nt = (s.start, s.stop, s.step)\nr = " + s.lit() + "[s]\n"
					f := core.Fields{"op": "slice-new", "kind": "list", "n": "4", "a": a.name, "b": b.name, "c": cc.name, "form": form, "via": "src"}
					c.do(f, in, func() (Res, Res, string, string) {
						attrs := "(" + a.src + "," + b.src + "," + cc.src + ")"
						e, exc := c13GetSlice(s.e, a, b, cc)
						g, err := c.ev.Exec(in)
						gotAttrs := "?"
						if t, ok := g["t"].(py.Tuple); ok && len(t) == 3 {
							xs := []string{}
							for _, x := range t {
								if x == py.None {
									xs = append(xs, "None")
								} else {
									xs = append(xs, c13elem(x))
								}
							}
							gotAttrs = "(" + strings.Join(xs, ",") + ")"
						}
						if exc != "" {
							// slice() itself succeeds; the subscript raises
							if err == nil {
								return excRes(exc), valRes(c13Canon(g["r"])), "", ""
							}
							got := c13obs(nil, err)
							if got.matches(excRes(exc)) && gotAttrs != attrs {
								return excRes(exc), got, "wrong-attributes", "slice attributes read " + gotAttrs + ", want " + attrs
							}
							return excRes(exc), got, "", ""
						}
						exp := valRes(c13canonKE("list", e) + " " + attrs)
						if err != nil {
							return exp, c13obs(nil, err), "", ""
						}
						return exp, valRes(c13Canon(g["r"]) + " " + gotAttrs), "", ""
					})
				}
			}
		}
	}
}

// ---------------------------------------------------------------------------
// slice get
// ---------------------------------------------------------------------------

func (c *c13) partSliceGet() {
	rc := c.rc
	rc.Part = "slice-get"
	st, rt := c.tags()
	tags := append(append([]string{}, st...), rt...)
	for n := 0; n <= c.maxLen(); n++ {
		for _, tag := range tags {
			s := c13mk(tag, n)
			lit := s.lit()
			vias := []string{"api", "src"}
			if !rc.Quick() {
				vias = append(vias, "api-big") // bounds as *py.BigInt whatever their size
			}
			for _, cc := range c.ix {
				if rc.Expired() || rc.Done() {
					return
				}
				// via outside b: the 26 values of b spread every (a, via) row over all shards
				for _, a := range c.ix {
					for _, via := range vias {
						for _, b := range c.ix {
							if !rc.Take() {
								continue
							}
							c.sliceGetCase(s, lit, a, b, cc, via)
						}
					}
				}
			}
		}
	}
}

func (c *c13) sliceGetCase(s c13seq, lit string, a, b, cc c13ix, via string) {
	f := core.Fields{"op": "slice-get", "kind": s.tag, "n": itoa(s.n()), "a": a.name, "b": b.name, "c": cc.name, "via": via}
	in := lit + "[" + c13sliceSrc(a, b, cc) + "]"
	if via == "src" && s.kind == "list" {
		in = "l = " + lit + "\nr = l[" + c13sliceSrc(a, b, cc) + "]\n"
	}
	c.do(f, via+": "+in, func() (Res, Res, string, string) {
		e, exc := c13GetSlice(s.e, a, b, cc)
		exp := c13res(s.kind, e, exc)
		var o, res py.Object
		var err error
		switch {
		case via == "api":
			o = s.obj()
			res, err = py.GetItem(o, c13sliceObj(a, b, cc))
		case via == "api-big":
			o = s.obj()
			res, err = py.GetItem(o, py.NewSlice(a.objBig(), b.objBig(), cc.objBig()))
		case s.kind == "list":
			var g py.StringDict
			g, err = c.ev.Exec(in)
			o, res = g["l"], g["r"]
		default:
			return exp, c13obs(c.ev.Eval(in)), "", ""
		}
		got := c13obs(res, err)
		if err == nil && s.kind == "list" && got.matches(exp) {
			if harness.Same(o, res) {
				return exp, got, "result-is-operand", "l[a:b:c] returned l itself"
			}
			c13mutate(res)
		}
		if o != nil {
			if bad := c13intact(o, s.canon()); bad != "" {
				return exp, got, "operand-corrupted", bad
			}
		}
		return exp, got, "", ""
	})
}

// ---------------------------------------------------------------------------
// slice deletion
// ---------------------------------------------------------------------------

func (c *c13) partSliceDel() {
	rc := c.rc
	rc.Part = "slice-del"
	for n := 0; n <= c.maxLen(); n++ {
		s := c13mk("list", n)
		for _, cc := range c.ix {
			if rc.Expired() || rc.Done() {
				return
			}
			for _, a := range c.ix {
				for _, via := range []string{"api", "src"} {
					for _, b := range c.ix {
						if !rc.Take() {
							continue
						}
						c.sliceStoreCase(s, a, b, cc, "slice-del", nil, via)
					}
				}
			}
		}
	}
	// immutable kinds: deletion and assignment of any slice is a TypeError
	st, rt := c.tags()
	sub := []c13ix{c.ix[0], c.ix[1], c.ix[2], c.ix[3]} // None, 0, 1, -1
	for _, tag := range append(append([]string{}, st...), rt[0]) {
		if tag == "list" {
			continue
		}
		for _, n := range []int{0, 2} {
			s := c13mk(tag, n)
			for _, a := range sub {
				for _, b := range sub {
					for _, cc := range sub {
						for _, op := range []string{"slice-del", "slice-set"} {
							for _, via := range []string{"api", "src"} {
								if !rc.Take() {
									continue
								}
								var r *c13repl
								if op == "slice-set" {
									r = &c13repl{name: "list1", src: "[90]", e: []int64{90}, mk: func(py.Object) py.Object { return py.NewListFromItems([]py.Object{py.Int(90)}) }}
								}
								c.sliceStoreCase(s, a, b, cc, op, r, via)
							}
						}
					}
				}
			}
		}
	}
}

// c13repl is a replacement value for slice assignment.
type c13repl struct {
	name, src string
	e         []int64 // elements it yields; nil + exc for non-iterables
	exc       string
	self      bool
	mk        func(self py.Object) py.Object // builds the value for the API path
	apiOnly   bool
	srcOnly   bool
}

func c13listRepl(n int) *c13repl {
	e := make([]int64, n)
	xs := make([]string, n)
	for i := range e {
		e[i] = 90 + int64(i)
		xs[i] = strconv.FormatInt(e[i], 10)
	}
	return &c13repl{name: "list" + itoa(n), src: "[" + strings.Join(xs, ", ") + "]", e: e, mk: func(py.Object) py.Object {
		l := py.NewListSized(n)
		for i := range e {
			l.Items[i] = py.Int(e[i])
		}
		return l
	}}
}

// sliceStoreCase: `l[a:b:c] = r` or `del l[a:b:c]` on a fresh operand.
func (c *c13) sliceStoreCase(s c13seq, a, b, cc c13ix, op string, r *c13repl, via string) {
	f := core.Fields{"op": op, "kind": s.tag, "n": itoa(s.n()), "a": a.name, "b": b.name, "c": cc.name, "via": via}
	var in string
	if op == "slice-del" {
		in = "l = " + s.lit() + "\ndel l[" + c13sliceSrc(a, b, cc) + "]\n"
	} else {
		f["r"] = r.name
		rs := r.src
		if r.self {
			rs = "l"
		}
		in = "l = " + s.lit() + "\nl[" + c13sliceSrc(a, b, cc) + "] = " + rs + "\n"
	}
	c.do(f, via+": "+in, func() (Res, Res, string, string) {
		var exp Res
		switch {
		case s.kind != "list":
			exp = excRes("TypeError")
		case op == "slice-del":
			e, exc := c13DelSlice(s.e, a, b, cc)
			exp = c13res("list", e, exc)
		case r.exc != "":
			exp = excRes(r.exc)
		default:
			re := r.e
			if r.self {
				re = s.e
			}
			e, exc := c13SetSlice(s.e, a, b, cc, re)
			exp = c13res("list", e, exc)
		}
		var o, rv py.Object
		var err error
		if via == "api" {
			o = s.obj()
			if op == "slice-del" {
				_, err = py.DelItem(o, c13sliceObj(a, b, cc))
			} else {
				rv = r.mk(o)
				_, err = py.SetItem(o, c13sliceObj(a, b, cc), rv)
			}
		} else {
			var g py.StringDict
			g, err = c.ev.Exec(in)
			o = g["l"]
		}
		if err != nil {
			got := c13obs(nil, err)
			if got.matches(exp) && o != nil {
				if bad := c13intact(o, s.canon()); bad != "" {
					return exp, got, "operand-changed-by-failed-operation", bad
				}
			}
			return exp, got, "", ""
		}
		got := valRes(c13Canon(o))
		if rv != nil && !r.self && r.e != nil && got.matches(exp) {
			if _, isList := rv.(*py.List); isList {
				// the replacement list must be intact and independent of the target
				if bad := c13intact(rv, c13canonKE("list", r.e)); bad != "" {
					return exp, got, "replacement-corrupted", bad
				}
				c13mutate(rv)
				if bad := c13intact(o, exp.Val); bad != "" {
					return exp, got, "target-aliases-replacement", bad
				}
			}
		}
		return exp, got, "", ""
	})
}

// ---------------------------------------------------------------------------
// slice assignment
// ---------------------------------------------------------------------------

func (c *c13) partSliceSet() {
	rc := c.rc
	rc.Part = "slice-set"
	repls := []*c13repl{c13listRepl(0), c13listRepl(1), c13listRepl(2), c13listRepl(3)}
	for n := 0; n <= 2*(c.maxLen()+1)-1; n++ {
		s := c13mk("list", n%(c.maxLen()+1))
		if n > c.maxLen() {
			s = c13mk("listcap", n%(c.maxLen()+1))
		}
		for _, cc := range c.ix {
			if rc.Expired() || rc.Done() {
				return
			}
			for _, a := range c.ix {
				for _, r := range repls {
					for _, via := range []string{"api", "src"} {
						for _, b := range c.ix {
							if !rc.Take() {
								continue
							}
							c.sliceStoreCase(s, a, b, cc, "slice-set", r, via)
						}
					}
				}
			}
		}
	}
}

// partSliceSetExtra: other replacement values (tuple, range, iterator, generator, the list
// itself, non-iterables) over a reduced index set.
func (c *c13) partSliceSetExtra() {
	rc := c.rc
	rc.Part = "slice-set-extra"
	ints := func(xs ...int64) []py.Object {
		out := make([]py.Object, len(xs))
		for i, x := range xs {
			out[i] = py.Int(x)
		}
		return out
	}
	repls := []*c13repl{
		{name: "self", self: true, mk: func(self py.Object) py.Object { return self }},
		{name: "tuple2", src: "(90, 91)", e: []int64{90, 91}, mk: func(py.Object) py.Object { return py.Tuple(ints(90, 91)) }},
		{name: "tuple0", src: "()", e: []int64{}, mk: func(py.Object) py.Object { return py.Tuple{} }},
		{name: "range3", src: "range(90, 93)", e: []int64{90, 91, 92}, mk: func(py.Object) py.Object {
			o, _ := py.RangeNew(py.RangeType, py.Tuple{py.Int(90), py.Int(93)}, nil)
			return o
		}},
		{name: "iter2", src: "iter([90, 91])", e: []int64{90, 91}, mk: func(py.Object) py.Object {
			it, _ := py.Iter(py.NewListFromItems(ints(90, 91)))
			return it
		}},
		{name: "genexp1", src: "(x for x in [90])", e: []int64{90}, srcOnly: true},
		{name: "bytes2", src: "b'Z['", e: []int64{90, 91}, mk: func(py.Object) py.Object { return py.Bytes("Z[") }},
		{name: "int", src: "5", exc: "TypeError", mk: func(py.Object) py.Object { return py.Int(5) }},
		{name: "None", src: "None", exc: "TypeError", mk: func(py.Object) py.Object { return py.None }},
	}
	var ab, cs []c13ix
	for _, x := range c.ix {
		switch x.name {
		case "None", "0", "1", "-1", "2", "-2", "3", "-3", "5", "-5", "9", "-9":
			ab = append(ab, x)
		}
		switch x.name {
		case "None", "1", "-1", "2", "-2", "3", "0":
			cs = append(cs, x)
		}
	}
	maxN := 4
	if !rc.Quick() {
		maxN = 5
		ab = c.ix // thorough: every start/stop of the alphabet
	}
	for n := 0; n <= maxN; n++ {
		s := c13mk("list", n)
		for _, cc := range cs {
			if rc.Expired() || rc.Done() {
				return
			}
			for _, a := range ab {
				for _, r := range repls {
					for _, via := range []string{"api", "src"} {
						if via == "api" && r.srcOnly || via == "src" && r.apiOnly {
							continue
						}
						if cc.name == "0" && r.exc != "" {
							continue // step 0 and a non-iterable value: which error comes first is not modelled
						}
						for _, b := range ab {
							if !rc.Take() {
								continue
							}
							c.sliceStoreCase(s, a, b, cc, "slice-set", r, via)
						}
					}
				}
			}
		}
	}
}

func init() {
	core.Register(&core.Check{
		ID:    "C13",
		Level: "model_checking",
		Rule: "sequence variants {str ASCII, str with 1-4 byte code points (two layouts), list, tuple, bytes, range with steps -2,-1,1,2,3 in exact and ragged-stop form} x every length 0..4 (quick) / 0..6 (thorough) x every (start, stop, step) in ({None} U {-9..9} U FAR)^3, FAR = {+-(2^63-1), +-2^63, +-2^64} (thorough) / {2^63-1, 2^63, -2^63, -2^64} (quick), for slice get (all variants; thorough also with every bound held in a *py.BigInt) and for list slice deletion and list slice assignment (replacement lists of length 0..3; over a reduced index set also tuple/range/iterator/generator/bytes/the list itself/non-iterables); " +
			"every index of that set plus True/False/None/1.0/'0'/(0,) for item get/set/del; slice() objects (1-3 arguments) with attribute read-back; concatenation (+, +=) over all length pairs and all kind pairs; repetition (*, reflected *, *=) by {-1,0,1,2,3,True,False,+-(2^63-1),+-2^63,+-2^64, non-integers}; len, bool, five iteration forms; membership (in, not in) with member/non-member/substring/wrong-type probes; ==, !=, <, <=, >, >= over all pairs of all words of length 0..3 over a 2-letter alphabet per kind (ranges: 60 parameter triples) and across kinds; range(start, stop, step) for all small triples. " +
			"Every case runs through the Go API (py.GetItem/SetItem/DelItem/Add/IAdd/Mul/IMul/Eq../Len/Iter/SequenceContains) and as a compiled Python program, and is compared with a from-first-principles model (Python's slice.indices definition in arbitrary precision, selection by explicit loop); results are compared by type and elements, exceptions by type; after each operation the operands are re-read (and list results are mutated first) to detect corruption and aliasing. Part shared: tuples and bytes whose storage has spare capacity or is a window on a longer sequence (tuple(iterator), tuple(list), slices of longer tuples / bytes, Go slices with spare capacity) x length 0..3 (thorough 5) x every ordered pair of {+=, *=, +, *, += empty} applied one after the other to the same base: base and both derived values are what the model says. Every case is non-trivial; distinct by input text.",
		Run: c13Run,
		Assumptions: []string{
			"Python 3.4 semantics as modelled (cross-checked against CPython 3.11 where the two agree)",
			"elements are small distinct integers / code points; nested or user-defined elements are not covered",
			"range objects with parameters outside int64 and repetition counts that would need more than 2^63 elements are outside the alphabet",
		},
		Explanation: "exhaustive enumeration of the bounded index/sequence space against a naive Go-slice model; value, exception type, operand integrity and result independence are checked for each case",
	})
}
